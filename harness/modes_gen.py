"""Shared by C11 / C34 / C12 (and reusable by anything that needs declaration behaviours):

  * behaviours of specs/Cdef.tla (lists of declaration actions) <-> Python values,
  * rendering of a behaviour as cdef text (and as C source for the C world of C12),
  * the names a behaviour declares (mirror of Cdef!Mention, used only to know what to ask),
  * Obs: the projection of a real FFI (in-line, out-of-line or API mode) into the shape of
    Cdef!Obs, so that TLC can compare it with the specification (Trace_Cdef*.tla),
  * extraction of behaviours from a TLC `-dump dot,actionlabels` graph.

A type term is a nested list mirroring the TLA+ tuples (a field may also have the type
["anon", kind, fields]: an anonymous struct/union defined in place):
  ["void"] ["prim", name] ["td", name] ["file"] ["struct"|"union"|"enum", tag]
  ["ptr", t] ["arr", t, n]  (n = -1: open)   ["fnp", res, [args], ellipsis]
An action is a dict {"a": name, ...} with the argument names of the TLA+ action.
"""
import os, re, sys, json
from . import tlaval

UNK = -1

# --------------------------------------------------------------------------- terms / actions

def to_list(v):
    """TLC value (tuples/frozensets as parsed by tlaval) -> JSON-able nested lists."""
    if isinstance(v, tuple):
        return [to_list(x) for x in v]
    if isinstance(v, frozenset):
        return sorted(to_list(x) for x in v)
    return v


ARGNAMES = {
    "DeclTypedef": ("n", "t"),
    "DeclTypedefAnon": ("n", "kind", "fs"),
    "DeclFwd": ("kind", "tag"),
    "DeclStruct": ("kind", "tag", "fs"),
    "DeclEnum": ("tag", "names", "vals"),
    "DeclConst": ("form", "n", "val"),
    "DeclFunc": ("n", "res", "args", "ell"),
    "DeclGlobal": ("n", "t"),
    "Include": ("k",),
    # C12 mutations
    "MutateField": ("kind", "tag", "how", "i", "arg"),
    "MutateConst": ("n", "val"),
    "MutateEnumerator": ("tag", "i", "val"),
    "AddDots": ("what", "item"),
    "MutatePack": ("kind", "tag", "where"),
}


def action(name, args):
    d = {"a": name}
    for k, v in zip(ARGNAMES[name], args):
        d[k] = to_list(v)
    return d


def hist_to_beh(hist):
    """hist variable of Cdef.tla: << <<name, <<args>>>>, ... >> -> list of action dicts"""
    return [action(h[0], h[1]) for h in hist]


def sus_of(t):
    k = t[0]
    if k in ("struct", "union"):
        return [(t[0], t[1])]
    if k in ("ptr", "arr"):
        return sus_of(t[1])
    if k == "fnp":
        out = sus_of(t[1])
        for a in t[2]:
            out += sus_of(a)
        return out
    if k == "anon":          # ["anon", kind, fields]: anonymous aggregate defined in place
        out = []
        for f in t[2]:
            out += sus_of(f[1])
        return out
    return []


class Names:
    """What a behaviour declares (what to ask the FFI about)."""
    def __init__(self):
        self.td, self.su, self.en, self.k, self.fn, self.gv = [], [], [], [], [], []

    def _mention(self, t):
        for key in sus_of(t):
            if key not in self.su:
                self.su.append(key)

    def add(self, act):
        a = act["a"]
        if a == "DeclTypedef":
            self.td.append(act["n"]); self._mention(act["t"])
        elif a == "DeclTypedefAnon":
            self.td.append(act["n"])
            for f in act["fs"]:
                self._mention(f[1])
            self.su.append((act["kind"], "$" + act["n"]))
        elif a == "DeclFwd":
            if (act["kind"], act["tag"]) not in self.su:
                self.su.append((act["kind"], act["tag"]))
        elif a == "DeclStruct":
            if (act["kind"], act["tag"]) not in self.su:
                self.su.append((act["kind"], act["tag"]))
            for f in act["fs"]:
                self._mention(f[1])
        elif a == "DeclEnum":
            self.en.append(act["tag"]); self.k += list(act["names"])
        elif a == "DeclConst":
            self.k.append(act["n"])
        elif a == "DeclFunc":
            self.fn.append(act["n"]); self._mention(["fnp", act["res"], act["args"], act["ell"]])
        elif a == "DeclGlobal":
            self.gv.append(act["n"]); self._mention(act["t"])
        return self


def names_of(beh):
    n = Names()
    for act in beh:
        n.add(act)
    return n


# --------------------------------------------------------------------------- rendering as C

def base_and_decl(t, inner):
    """C declarator construction: returns (specifier text, declarator text)."""
    k = t[0]
    if k == "void":
        return "void", inner
    if k == "prim":
        return t[1], inner
    if k == "td":
        return t[1], inner
    if k == "file":
        return "FILE", inner
    if k in ("struct", "union", "enum"):
        return "%s %s" % (k, t[1]), inner
    if k == "anon":
        return "%s { %s }" % (t[1], fields_text(t[2])), inner
    if k == "ptr":
        sub = t[1]
        d = "*" + inner
        if sub[0] in ("arr", "fnp_raw"):
            d = "(" + d + ")"
        return base_and_decl(sub, d)
    if k == "arr":
        return base_and_decl(t[1], "%s[%s]" % (inner, t[2] if isinstance(t[2], str) else "" if t[2] < 0 else t[2]))
    if k == "fnp":
        args = ", ".join(decl(a, "") for a in t[2])
        if t[3]:
            args += ", ..."
        if not args:
            args = "void"
        return base_and_decl(t[1], "(*%s)(%s)" % (inner, args))
    raise ValueError(t)


def decl(t, name):
    b, d = base_and_decl(t, name)
    return (b + " " + d).strip() if d else b


def fields_text(fs):
    out = []
    for f in fs:
        s = decl(f[1], f[0])
        if f[2] >= 0:
            s += ":%d" % f[2]
        out.append(s + ";")
    return " ".join(out)


def render(act, style=0):
    """One action as cdef text (one logical line; #define always starts a line)."""
    a = act["a"]
    if a == "DeclTypedef":
        return "typedef %s;" % decl(act["t"], act["n"])
    if a == "DeclTypedefAnon":
        return "typedef %s { %s } %s;" % (act["kind"], fields_text(act["fs"]), act["n"])
    if a == "DeclFwd":
        return "%s %s;" % (act["kind"], act["tag"])
    if a == "DeclStruct":
        return "%s %s { %s };" % (act["kind"], act["tag"], fields_text(act["fs"]))
    if a == "DeclEnum":
        items = ", ".join("%s = %s" % (n, v) for n, v in zip(act["names"], act["vals"]))
        return "enum %s { %s };" % (act["tag"], items)
    if a == "DeclConst":
        if act["form"] == "define":
            return "\n#define %s %s\n" % (act["n"], act["val"])
        return "static const int %s = %s;" % (act["n"], act["val"])
    if a == "DeclFunc":
        args = ", ".join(decl(x, "") for x in act["args"])
        if act["ell"]:
            args += ", ..."
        return "%s;" % decl(act["res"], "%s(%s)" % (act["n"], args or "void"))
    if a == "DeclGlobal":
        return "extern %s;" % decl(act["t"], act["n"])
    raise ValueError(a)


def render_cdef(beh):
    return "\n".join(render(a) for a in beh) + "\n"


# --------------------------------------------------------------------------- Obs of a real FFI

def norm(ct):
    """ctype -> normal form (Cdef!Norm): aggregates are leaves carrying their ctype name."""
    k = ct.kind
    if k == "primitive":
        return ["prim", ct.cname]
    if k == "void":
        return ["void"]
    if k == "pointer":
        return ["ptr", norm(ct.item)]
    if k == "array":
        return ["arr", norm(ct.item), UNK if ct.length is None else ct.length]
    if k == "function":
        # ct.ellipsis is not reliable (it answers True whenever libffi has no cif for the type,
        # e.g. a union passed by value); the name always shows the "..."
        args = ct.args
        ell = bool(args) and ("(*)(%s, ...)" % ", ".join(a.cname for a in args)) in ct.cname
        return ["fnp", norm(ct.result), [norm(a) for a in args], ell]
    if k in ("struct", "union", "enum"):
        return [k, ct.cname]
    return ["?", k]


def no_agg(t):
    k = t[0]
    if k in ("struct", "union", "enum", "file"):
        return False
    if k in ("ptr", "arr"):
        return no_agg(t[1])
    if k == "fnp":
        return no_agg(t[1]) and all(no_agg(a) for a in t[2])
    return True


def err(e):
    return ["error", type(e).__name__]


def guarded(f, shape="term"):
    """Run one observation; an exception becomes a value of the same JSON shape as a normal
    answer (so that TLC can compare it), is compared between the modes, never swallowed."""
    try:
        return f()
    except Exception as e:
        n = type(e).__name__
        if shape == "term":
            return ["error", n]
        if shape == "rec":
            return {"error": n}
        if shape == "lt":
            return [["error:" + n], [], []]
        return "error:" + n


def su_query(key):
    """the string to give ffi.typeof() for an aggregate key"""
    kind, tag = key
    if tag.startswith("$"):
        return tag[1:]            # anonymous aggregate: reachable through its typedef only
    return "%s %s" % (kind, tag)


def agg_obs(ffi, ct):
    d = {"name": ct.cname, "kind": ct.kind}
    fl = ct.fields
    d["complete"] = fl is not None
    d["fields"] = [[n, norm(f.type), f.offset, f.bitshift, f.bitsize] for n, f in (fl or [])]
    try:
        d["size"] = ffi.sizeof(ct)
    except Exception:
        d["size"] = UNK
    try:
        d["align"] = ffi.alignof(ct)
    except Exception:
        d["align"] = UNK
    return d


def enum_obs(ffi, ct):
    rel = ct.relements
    el = ct.elements
    return {"name": ct.cname, "rel": {n: str(v) for n, v in rel.items()},
            "el": {str(v): n for v, n in el.items()},
            "signed": int(ffi.cast(ct, -1)) < 0, "size": ffi.sizeof(ct)}


def observe(ffi, lib, names, ctypes_out=None):
    """Project an FFI (+ the lib it dlopen()ed / was compiled with) on the declared names.
    ctypes_out: optional dict filled with the ctype objects (for identity facts)."""
    obs = {"td": {}, "su": {}, "en": {}, "k": {}, "fn": {}, "gv": {}, "addr": {}}
    keep = ctypes_out if ctypes_out is not None else {}
    for n in names.td:
        def q(n=n):
            ct = ffi.typeof(n)
            keep["td:" + n] = ct
            return norm(ct)
        obs["td"][n] = guarded(q)
    for key in names.su:
        ks = "%s %s" % key
        def q(key=key, ks=ks):
            ct = ffi.typeof(su_query(key))
            keep["su:" + ks] = ct
            return agg_obs(ffi, ct)
        obs["su"][ks] = guarded(q, "rec")
    for tag in names.en:
        def q(tag=tag):
            ct = ffi.typeof("enum " + tag)
            keep["en:" + tag] = ct
            return enum_obs(ffi, ct)
        obs["en"][tag] = guarded(q, "rec")
    for c in names.k:
        obs["k"][c] = guarded(lambda c=c: str(int(getattr(lib, c))), "str")
    for f in names.fn:
        def q(f=f):
            cd = getattr(lib, f)
            ct = ffi.typeof(cd)
            keep["fn:" + f] = ct
            obs["addr"][f] = str(int(ffi.cast("uintptr_t", ffi.addressof(lib, f))))
            return norm(ct)
        obs["fn"][f] = guarded(q)
    for g in names.gv:
        def q(g=g):
            p = ffi.addressof(lib, g)
            ct = ffi.typeof(p)
            # in-line: an array variable's "address" is the array itself; generated modules
            # give a pointer to the array.  The variable's own type is what is compared.
            if ct.kind == "pointer":
                ct = ct.item
            keep["gv:" + g] = ct
            obs["addr"][g] = str(int(ffi.cast("uintptr_t", p)))
            return norm(ct)
        obs["gv"][g] = guarded(q)
    obs["lt"] = guarded(lambda: [list(x) for x in ffi.list_types()], "lt")
    return obs


def same_facts(keep_a, keep_b):
    """identity of the ctype objects found under the same key in two FFIs"""
    return {k: (keep_a[k] is keep_b[k]) for k in keep_a if k in keep_b}


# --------------------------------------------------------------------------- helper library

POOL_FUNCS = ["f%d" % i for i in range(1, 13)]
POOL_GLOBS = ["g%d" % i for i in range(1, 13)]


def build_pool_lib(core, outdir, name="libpool.so"):
    """One shared object exporting every function / variable name of the pools; dlsym() does
    not care about types, and the modes are only asked for types and addresses."""
    src = "".join("void %s(void) {}\n" % f for f in POOL_FUNCS)
    src += "".join("long long %s[64] = {%d};\n" % (g, i + 1) for i, g in enumerate(POOL_GLOBS))
    return core.gcc_shared(src, os.path.join(outdir, name))


# --------------------------------------------------------------------------- behaviours out of TLC

_HIST = re.compile(r"/\\ hist = (.*)\Z", re.S)


def graph_behaviours(dot_path):
    """Every state and every edge of a dumped Cdef graph as a behaviour:
    returns (state_behs: {id: beh}, edge_behs: [beh]) where an edge behaviour is the
    behaviour of the source state followed by the edge's action."""
    g = tlaval.load_dot(dot_path, parse=False)
    hist = {}
    for sid, txt in g.states.items():
        m = _HIST.search(txt)
        hist[sid] = hist_to_beh(tlaval.parse_value(m.group(1).strip()))
    edges = []
    for src, outs in g.out.items():
        for (name, args, dst) in outs:
            if dst == src:
                continue
            edges.append(hist[src] + [action(name, args)])
    return hist, edges


def beh_key(beh):
    return json.dumps(beh, sort_keys=True)


# --------------------------------------------------------------------------- crash-proof parallel map

def run_parallel(fn, args, jobs, on_crash):
    """[fn(a) for a in args] on `jobs` forked worker processes.  A worker that dies (the code under
    test segfaults on some generated module) loses only the case it was working on: that case gets
    on_crash(a, exitcode) and a new worker takes over the rest of its share."""
    import multiprocessing, threading
    ctx = multiprocessing.get_context("fork")
    results = [None] * len(args)
    jobs = max(1, min(jobs, len(args)))
    shares = [list(range(k, len(args), jobs)) for k in range(jobs)]

    def child(conn, idxs):
        for i in idxs:
            try:
                conn.send((i, fn(args[i])))
            except BaseException as e:                    # fn handles its own errors; this is a harness bug
                conn.send((i, ("__exception__", "%s: %s" % (type(e).__name__, e))))
        conn.close()
        os._exit(0)

    def serve(idxs):
        todo = list(idxs)
        while todo:
            parent, kid = ctx.Pipe(duplex=False)
            p = ctx.Process(target=child, args=(kid, todo))
            p.start()
            kid.close()
            done = 0
            try:
                while done < len(todo):
                    i, r = parent.recv()
                    results[i] = r
                    done += 1
            except EOFError:
                pass
            p.join()
            if done < len(todo):
                results[todo[done]] = on_crash(args[todo[done]], p.exitcode)
                done += 1
            todo = todo[done:]

    threads = [threading.Thread(target=serve, args=(sh,)) for sh in shares if sh]
    for t in threads:
        t.start()
    for t in threads:
        t.join()
    for r in results:
        if isinstance(r, tuple) and r and r[0] == "__exception__":
            raise RuntimeError("worker raised: " + r[1])
    return results
