"""Small helpers shared by the lifetime checks (C21, C27, C29, C37)."""
import itertools, os, threading
from harness import core

_counter = itertools.count()
_lock = threading.Lock()


def verdicts(ctx, module, data, head="VERDICT", cfg=None, name=None, workers=1, timeout=3600, cfg_text=None,
             raw=False):
    """Thread-safe variant of core.tlc_verdicts (unique file name per call): writes `data` as JSON,
    runs the trace specification on it and returns the PrintT'ed <<head, ...>> tuples."""
    with _lock:
        n = next(_counter)
    path = os.path.join(ctx.tmp, "%s_t%d.json" % (module, n))
    core.write_json(path, data)
    r = core.tlc(module, cfg, workers=workers, env={"TRACE_FILE": path}, timeout=timeout, cfg_text=cfg_text)
    with _lock:
        ctx.add_tlc(name or module, r, count_states=False)
    try:
        os.unlink(path)
    except OSError:
        pass
    return r.out if raw else core.tla_tuples(r.out, head)


def parallel(jobs):
    """jobs: {name: (fn, args)}; runs them in threads, returns {name: result}; re-raises the first error."""
    out, errs = {}, []

    def run(name, fn, args):
        try:
            out[name] = fn(*args)
        except Exception as e:          # noqa
            errs.append(e)
    ths = [threading.Thread(target=run, args=(n, f, a)) for n, (f, a) in jobs.items()]
    for t in ths:
        t.start()
    for t in ths:
        t.join()
    if errs:
        raise errs[0]
    return out


def chunks_by_events(traces, max_events=60000, max_traces=6000):
    """split a list of traces into consecutive chunks of bounded size: [(base index, [traces])]"""
    out, cur, n, base = [], [], 0, 0
    for i, t in enumerate(traces):
        if cur and (n + len(t) > max_events or len(cur) >= max_traces):
            out.append((base, cur))
            cur, n, base = [], 0, i
        cur.append(t)
        n += len(t)
    if cur:
        out.append((base, cur))
    return out


def run_limited(jobs, limit=4):
    """like parallel(), but at most `limit` jobs at a time; jobs: {name: (fn, args)}"""
    import threading
    sem = threading.Semaphore(limit)

    def wrap(fn, args):
        with sem:
            return fn(*args)
    return parallel({n: (wrap, (f, a)) for n, (f, a) in jobs.items()})
