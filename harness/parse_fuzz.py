"""C30 helper: classification of outcomes of cdef()/typeof(), the seed corpus of declaration
texts, byte-level mutation, and the sub-process runner for the compiled-FFI half (so that a
crash or a sanitizer abort of the backend is an observed outcome, not the end of the check).
"""
import json, os, subprocess, sys, traceback, warnings
from harness import core

CONTRACT_NAMES = ["CDefError", "FFIError", "VerificationMissing", "VerificationError", "NotImplementedError",
                  "OverflowError", "ZeroDivisionError", "AssertionError", "IndexError", "KeyError",
                  "AttributeError", "RecursionError", "TypeError", "ValueError"]   # UnicodeError is a ValueError


def classify(e, ffi_error=None):
    """exception -> (contract class name, origin, site).  The class is the first class of the
    MRO the contract names (UnicodeEncodeError -> UnicodeError), else the class's own name."""
    if ffi_error is not None and isinstance(e, ffi_error):
        cls = "ffi.error"
    else:
        cls = type(e).__name__
        for k in type(e).__mro__:
            if k.__name__ in CONTRACT_NAMES:
                cls = k.__name__
                break
    tb = e.__traceback__
    frames = traceback.extract_tb(tb) if tb is not None else []
    site, origin = "-", "-"
    if frames:
        # innermost frame inside the cffi package or pycparser
        fr = frames[-1]
        base = os.path.basename(fr.filename)
        pkg = os.path.basename(os.path.dirname(fr.filename))
        site = "%s/%s:%s" % (pkg, base, fr.name)
        if pkg == "cffi" and base == "model.py" and fr.name in ("global_cache", "finish_backend_type", "new_array_type"):
            origin = "backend"
        else:
            origin = "parser"
    return cls, origin, site


def inline_outcome(api, text):
    """Run cdef(text) on a fresh in-line FFI, or typeof(text) on an in-line FFI with the C07
    environment declared.  Returns (cls, origin, site, message)."""
    import cffi
    from harness import parse_env as pe
    try:
        with warnings.catch_warnings():
            warnings.simplefilter("ignore")
            if api == "cdef":
                cffi.FFI().cdef(text)
            else:
                ffi = _INLINE.get("ffi")
                if ffi is None:
                    ffi = _INLINE["ffi"] = cffi.FFI()
                    ffi.cdef(pe.ENV_CDEF)
                ffi.typeof(text)
        return ("ok", "-", "-", "")
    except BaseException as e:                       # noqa: the class is the observation
        if isinstance(e, (KeyboardInterrupt, SystemExit)):
            raise
        cls, origin, site = classify(e)
        return (cls, origin, site, (str(e).splitlines() or [""])[0][:100])


_INLINE = {}


def inline_worker(env, item):
    api, text = item
    return inline_outcome(api, text)


# --------------------------------------------------------------------------- seeds

CDEF_SEEDS = [
    "#define FOO 42\n",
    "#define FOO 0x1F\n#define BAR 010\n#define BAZ -7\n",
    "#define FOO ...\n",
    "#define A 12345678901234567890\n",
    "#define LONGC 10UL\n#define LLC 0x10LL\n",
    "int a[5];\n",
    "extern int a[5 + 3 * 2];\n",
    "extern int b[1 << 4];\n",
    "extern int c[100 / 7];\n",
    "extern int d[17 % 5];\n",
    "extern int e[(2 | 4) & 6 ^ 1];\n",
    "extern int f[0x10 >> 2];\n",
    "extern char g[-(-3)];\n",
    "#define N 3\nextern int h[N * 2];\n",
    "enum e1 { A, B = 5, C = B + 2, D = 1 << 3, E = 'x', F = -1 };\n",
    "enum e2 { G = 10 / 3, H = 7 % 4, I = ... };\n",
    "enum e3 { J, K, ... };\n",
    "struct s { int a:3; unsigned b:5; int :0; long c; };\n",
    "struct t { int x; char y[8]; struct t *next; ...; };\n",
    "struct u { int w[...]; };\n",
    "typedef struct { int a; } anon_t;\n",
    "typedef struct v *vp; typedef int (*cb_t)(int, ...);\n",
    "typedef ... opaque_t;\n",
    "typedef int... myint_t;\ntypedef float... myflt_t;\n",
    "typedef int arr_t[...];\n",
    "union w { int i; double d; char c[4]; };\n",
    "int f1(int, char *);\n",
    "int f2(void);\nvoid f3();\nint f4(int x, ...);\n",
    "static const int K1 = 10;\nstatic const int K2 = -3;\n",
    "static int const K3;\nconst char *const names[];\n",
    "extern \"Python\" int cb1(int);\n",
    "extern \"Python+C\" { int cb2(int); void cb3(void); }\n",
    "int __stdcall g1(int);\nint (__stdcall *g2)(int);\nint __cdecl g3(void);\n",
    "/* comment */ int h1; // line comment\n",
    "# 5 \"file.h\"\nint h2;\n#line 8 \"x.h\"\nint h3;\n",
    "#pragma pack(1)\nstruct p { char a; int b; };\n",
    "typedef unsigned char uint8; typedef uint8 bytes_t[16];\n",
    "int (*fa[3])(void);\nint (*(*fb)(int))[4];\n",
    "typedef int WORD_t; struct q { WORD_t a, *b, c[2]; };\n",
    "enum { ANON1, ANON2 = 0x20 };\n",
    "typedef enum { X1 = 1 } xe_t;\n",
    "bool bb; size_t sz; wchar_t wc; FILE *fp;\n",
    "long double ld; float _Complex fc; double _Complex dc;\n",
    "#define NEG (-5)\n",
    "#define CH 'a'\n",
    "int v1 = 5;\n",
    "static const int K4 = 1 + 2;\n",
    "struct bf { int a: 1 + 2; int b: N; };\n",
    "int z[010]; int y[0b101]; int x['a'];\n",
]

TYPEOF_SEEDS = [
    "int", "unsigned long long", "const char *", "int *[3]", "int (*)[3]", "int(*)(int, ...)",
    "struct s1 *", "union u1", "enum e1", "myint", "fn_t", "int[N]", "int[M]", "int[0x10]", "char[010]",
    "void(*)(void)", "int (*(*)(int))[4]", "int(__stdcall *)(int)", "long double", "s2_t *", "arr3_t *",
    "int[5 + 3]", "int[1 << 2]", "int[10 / 2]", "int[E2]", "int[-1]", "int['a']", "size_t", "uint8_t[4]",
]

MUT_BYTES = list("()[]{}*,;:=+-/%<>&|^~!.#'\"\\ \n\t0123456789abcdefxXuUlLeE_") + ["\x00", "\x7f", "\xff", "€"]
MUT_WORDS = ["int", "unsigned", "long", "struct", "enum", "union", "typedef", "const", "...", "#define", "0", "08", "1e5",
             "<<", ">>", "/0", "%0", "-1", "0x", "0b", "''", "'\\", "extern", "\"Python\"", "__stdcall", "void", "static",
             "[...]", "(*)", "/*", "*/", "//", "\\\n", "#line", "# 1 \"", ":0", ": -1", "= ...", "18446744073709551616"]


CONST_POSITIONS = [("cdef", "int a[%s];"), ("cdef", "extern char b[2][%s];"), ("cdef", "enum e { A = %s, B };"),
                   ("cdef", "struct s { int f : %s; int g; };"), ("cdef", "#define X %s\n"), ("cdef", "static const int K = %s;"),
                   ("cdef", "int f(int p[%s]);"), ("cdef", "typedef int t[%s];"), ("typeof", "int[%s]"), ("typeof", "int(*)(char[%s])")]
LITERALS = ["0x1.8p3", "0x.8p-2", "0x1p", "1.5", "1e5", "1E+3", ".5", "5.", "1e", "1e+", "1.0f", "1f", "1'000", "0b101", "0B11", "0b",
            "0b2", "10ULL", "10lu", "10uu", "10LLU", "10lul", "0x1Fz", "0x", "0xg", "08", "09u", "1i", "1j", "1_000", "'ab'", "'\\x41'",
            "'\\0'", "'\\\\'", "''", "L'a'", "u8'a'", "'\\n'", "0777777777777777777777777", "99999999999999999999999999", "-0", "+5", "- -3", "1u-2"]
EXPRESSIONS = ["(int){1}", "(int)1", "(long)1+2", "(unsigned char)300", "sizeof(int)", "sizeof 1", "sizeof(struct s)", "1?2:3", "1 ? : 2",
               "(1,2)", "1,2", "f(1)", "f()", "\"abc\"", "\"a\"[0]", "{1}", "{.a=1}", "[0]=1", "&x", "*p", "x.y", "p->q", "x++", "--x", "-x", "!1",
               "~1", "1&&2", "1||0", "1==1", "1<2", "1<=2", "1!=2", "_Alignof(int)", "__builtin_offsetof(struct s, a)", "a[1]", "(1)", "((2))",
               "+-+1", "__extension__ 1", "1 2", "(", ")", "()", "1+", "*", "1 << (int)2", "(int){1,2}", "(struct s){0}", "N", "A", "A+1"]
WRAPPER_ESCAPES = [
    ("typeof", "int); int x = (5"), ("typeof", "int); int y("), ("typeof", "int x); void f(int"), ("typeof", "int)"), ("typeof", "int);"),
    ("typeof", "int) ; typedef int t_; void g(t_"), ("typeof", "int[3]); struct s_ { int a; } v; void h(int"), ("typeof", "int); enum e_ { A_ = (1"),
    ("typeof", "void); int z; ("), ("typeof", ")"), ("typeof", ");"), ("typeof", "int); #define X 1\nvoid k(int"), ("typeof", "int, ...); void m(int"),
    ("typeof", "int)); int q(("), ("typeof", "struct s1 *); struct s1 { int zz; }; void n(int"), ("typeof", "int); int x = {1, 2}; void o(int"),
    ("typeof", "int); int x = (int){1}; void o(int"), ("typeof", "int) { } void r(int"), ("typeof", "int); ;;; void u(int"), ("typeof", "int\n);\nint w;\nvoid v(\nint"),
    ("cdef", "struct s { int a; }; } ;"), ("cdef", "struct s { int a; } x; int b; };"), ("cdef", "enum e { A, B }; C };"), ("cdef", "int f(int a); int b);"),
    ("cdef", "struct s { int a; }; int c; };"), ("cdef", "struct s { struct { int a; }; } ; } x;"), ("cdef", "int f(int (*g)(int); int h);"),
    ("cdef", "enum e { A = 1 }; = 2 };"), ("cdef", "int a[3]; ];"), ("cdef", "int a = (5; int b"), ("cdef", "int f(void) { return 1; }"),
    ("cdef", "typedef struct { int a; } t; } u;"), ("cdef", "extern \"Python\" { int f(int); } }"), ("cdef", "extern \"Python\" { int f(int); "),
    ("cdef", "int x = {1, 2};"), ("cdef", "int x[] = {1, 2};"), ("cdef", "struct s v = {.a = 1};"), ("cdef", "char *s = \"abc\";"), ("cdef", "int y = (int){1};")]
DIRECTIVE_NUMBERS = ["0", "1", "2", "3", "10", "99999", "2147483647", "2147483648", "18446744073709551616", "-5", "007", "0x10", "1e5", "10UL"]
SYNTAX_ERRORS = ["int x y;", "int ;;(", "struct { ;", "int a[;", "foo bar baz;", "int f(int,);", "}", "int x = ;"]


def structured_inputs():
    """(api, text) inputs built from grammar pieces the byte mutator practically never assembles: text that closes the
    'void __dummy(' wrapper of typeof() or a struct/enum/function early, numeric literal forms outside cdef's integer
    constants and C expression kinds cdef does not evaluate - each in every position where cdef parses a constant -, and
    syntax errors behind line directives with and without file name and with out-of-range line numbers."""
    out = list(WRAPPER_ESCAPES)
    for api, tpl in CONST_POSITIONS:
        for v in LITERALS + EXPRESSIONS:
            if tpl.startswith("#define") and "\n" in v:
                continue
            out.append((api, tpl % v))
    for n in DIRECTIVE_NUMBERS:
        for form in ("#line %s\n", "# %s\n", "#line %s \"f.h\"\n", "# %s \"f.h\" 1\n", "  #  line   %s\n"):
            d = form % n
            for e in SYNTAX_ERRORS[:4] if n not in ("10", "99999", "0") else SYNTAX_ERRORS:
                out.append(("cdef", d + e))
                out.append(("cdef", "int ok1;\n" + d + "int ok2;\n" + e + "\nint ok3;\n"))
            out.append(("cdef", d + "int fine;\n"))
            out.append(("typeof", d + "int"))
    return out


def special_strings(rng, n):
    """type strings for the compiled FFI that a byte-level mutator over ASCII seeds does not reach: strs that cannot be
    encoded as UTF-8 (lone surrogates at the start / middle / end), embedded NUL characters, non-BMP text, and long
    strings (deep pointer / array / parenthesis / parameter nests below and above the opcode buffer's size)."""
    out = ["\udc80", "\ud800", "int\udc80", "\udfffint", "in\udc80t *", "int *\ud800", "struct \udc80s1", "int[\udc803]",
           "int(*)(\udc80)", "\x00", "int\x00", "\x00int", "int\x00 *", "int *\x00garbage(((", "int[3\x00]", "\U0001F600", "int \U0001F600",
           "int" + " " * 5000, " " * 5000 + "int", "int " + "*" * 1198, "int " + "*" * 1199, "int " + "*" * 1200, "int " + "*" * 1500,
           "int" + "[2]" * 598, "int" + "[2]" * 599, "int" + "[2]" * 600, "int" + "[]" * 1300,
           "int " + "(" * 600 + "*" + ")" * 600, "int " + "(*" * 598 + ")" * 598, "int " + "(*" * 599 + ")" * 599,
           "int " + "(*" * 600 + ")" * 600, "int " + "(*" * 3000, "int(*)(" + "int," * 1196 + "int)", "int(*)(" + "int," * 1197 + "int)",
           "int(*)(" + "," * 1300 + ")", "int(*)(" * 300 + ")" * 300, "int(*)(" * 400, "x" * 100000, "int[" + "9" * 5000 + "]"]
    seeds = TYPEOF_SEEDS
    while len(out) < n:
        s = rng.choice(seeds)
        i = rng.randrange(len(s) + 1)
        ch = rng.choice(["\udc80", "\ud800", "\udfff", "\x00", "\U0001F600", "\x85", "\u2028"])
        out.append(s[:i] + ch + s[i:])
    return out


def mutate(rng, s, n=None):
    """1..3 byte-level mutations: insert / delete / replace a byte, insert a word, duplicate a
    span, swap two bytes, truncate."""
    n = n or rng.choice((1, 1, 1, 2, 2, 3))
    for _ in range(n):
        op = rng.randrange(8)
        if not s:
            s = rng.choice(MUT_WORDS)
            continue
        i = rng.randrange(len(s) + 1)
        if op == 0:
            s = s[:i] + rng.choice(MUT_BYTES) + s[i:]
        elif op == 1 and i < len(s):
            s = s[:i] + s[i + 1:]
        elif op == 2 and i < len(s):
            s = s[:i] + rng.choice(MUT_BYTES) + s[i + 1:]
        elif op == 3:
            s = s[:i] + rng.choice(MUT_WORDS) + s[i:]
        elif op == 4:
            j = min(len(s), i + rng.randrange(1, 8))
            s = s[:j] + s[i:j] + s[j:]
        elif op == 5 and i + 1 < len(s):
            s = s[:i] + s[i + 1] + s[i] + s[i + 2:]
        elif op == 6:
            s = s[:i]
        else:
            j = min(len(s), i + rng.randrange(1, 6))
            s = s[:i] + s[j:]
    return s


# --------------------------------------------------------------------------- compiled half

WORKER = r'''
import sys, json, os, importlib, warnings
warnings.simplefilter("ignore")
workdir, modname, inp, outp = sys.argv[1:5]
sys.path.insert(0, workdir)
ffi = importlib.import_module(modname).ffi
import _cffi_backend
names = ["OverflowError", "ZeroDivisionError", "AssertionError", "IndexError", "KeyError", "AttributeError",
         "RecursionError", "TypeError", "ValueError"]
with open(inp) as f:
    items = json.load(f)
start = int(sys.argv[5])
sanlog = os.environ.get("C30_SANLOG")
if sanlog:
    sanlog = "%s.%d" % (sanlog, os.getpid())
seen = 0
out = open(outp, "a")
for i in range(start, len(items)):
    s = items[i]
    out.write("B %d\n" % i); out.flush()
    try:
        ffi.typeof(s)
        cls, msg = "ok", ""
    except BaseException as e:
        if isinstance(e, ffi.error):
            cls = "ffi.error"
        else:
            cls = type(e).__name__
            for k in type(e).__mro__:
                if k.__name__ in names:
                    cls = k.__name__
                    break
        msg = (str(e).splitlines() or [""])[0][:80]
        if cls == "RuntimeError" and msg.startswith("type-building recursion too deep"):
            cls = "DepthLimit"      # realize_c_type's guard against > 1000 nested levels (a resource limit)
    if sanlog and os.path.exists(sanlog) and os.path.getsize(sanlog) > seen:
        # a sanitizer report was written while this input was processed (recover mode)
        with open(sanlog, errors="replace") as f:
            f.seek(seen)
            rep = f.read()
        seen = os.path.getsize(sanlog)
        cls, msg = "crash", "SANITIZER-REPORT\n" + rep[:6000]
    out.write("E %d %s\n" % (i, json.dumps([cls, msg]))); out.flush()
out.close()
'''


def asan_env(backend_dir, logdir):
    rt = subprocess.run(["clang", "-print-file-name=libclang_rt.asan-x86_64.so"], capture_output=True, text=True).stdout.strip()
    env = core.sub_env()
    env["PYTHONPATH"] = backend_dir + os.pathsep + os.path.join(core.REPO, "src")
    env["LD_PRELOAD"] = rt
    # recover mode: a report is written to C30_SANLOG.<pid> and the process goes on, so that one known
    # defect does not cost a process start per input; a real crash (SIGSEGV) still ends the worker
    env["C30_SANLOG"] = os.path.join(logdir, "sanlog")
    env["ASAN_OPTIONS"] = ("detect_leaks=0:halt_on_error=0:allocator_may_return_null=1:handle_segv=1:"
                           "log_path=%s" % env["C30_SANLOG"])
    env["UBSAN_OPTIONS"] = "halt_on_error=0:print_stacktrace=1:log_path=%s" % env["C30_SANLOG"]
    env["PYTHONMALLOC"] = "malloc"
    return env


def sanitizer_summary(stderr):
    """the lines of a sanitizer report that say what and where (else the tail of stderr)"""
    keep = []
    for line in stderr.splitlines():
        t = line.strip()
        if ("ERROR: AddressSanitizer" in t or "runtime error:" in t or t.startswith("SUMMARY:") or
                t.startswith(("READ of size", "WRITE of size")) or
                (t.startswith("#") and len(keep) < 12 and t[1:2].isdigit())):
            keep.append(t)
    return " | ".join(keep)[:1500] if keep else stderr[-800:]


def crash_site(msg):
    """'<kind>@<function>' of a sanitizer summary: the first frame inside the backend sources"""
    import re
    kind = "crash"
    m = re.search(r"AddressSanitizer: ([\w-]+)", msg)
    if m:
        kind = m.group(1)
    elif "runtime error:" in msg:
        kind = "ubsan"
    fn = "?"
    m = re.search(r"SUMMARY: \w+: [\w-]+ \S+ in (\w+)", msg) or re.search(r"#0 0x[0-9a-f]+ in (\w+)", msg)
    if m:
        fn = m.group(1)
    return "%s@%s" % (kind, fn)


def run_compiled(workdir, modname, strings, env=None, tag="c", timeout=1200):
    """typeof(s) for every string in a sub-process against the module `modname` in workdir.
    Returns a list of (cls, msg); cls == 'crash' when the process died on that input (msg holds
    the tail of stderr), and the run continues after it."""
    script = os.path.join(workdir, "c30_worker.py")
    with open(script, "w") as f:
        f.write(WORKER)
    inp = os.path.join(workdir, "c30_in_%s.json" % tag)
    outp = os.path.join(workdir, "c30_out_%s.txt" % tag)
    with open(inp, "w") as f:
        json.dump(strings, f)
    if os.path.exists(outp):
        os.unlink(outp)
    res = [None] * len(strings)
    start, crashes = 0, 0
    while start < len(strings):
        r = subprocess.run([core.PY, script, workdir, modname, inp, outp, str(start)], capture_output=True, text=True,
                           env=env or core.sub_env(), timeout=timeout)
        begun = -1
        with open(outp) as f:
            for line in f:
                if line.startswith("B "):
                    begun = int(line.split()[1])
                elif line.startswith("E "):
                    _e, i, js = line.rstrip("\n").split(" ", 2)
                    cls_, msg_ = json.loads(js)
                    if msg_.startswith("SANITIZER-REPORT"):
                        msg_ = sanitizer_summary(msg_)
                    res[int(i)] = (cls_, msg_)
        if r.returncode == 0 and all(x is not None for x in res[start:]):
            break
        if begun < start and r.returncode != 0:
            raise core.MachineryError("compiled-FFI worker failed before its first input (rc=%s):\n%s" % (
                r.returncode, r.stderr[-2000:]))
        if res[begun] is None:
            res[begun] = ("crash", "rc=%s %s" % (r.returncode, sanitizer_summary(r.stderr)))
            crashes += 1
            if crashes > 50:
                raise core.MachineryError("more than 50 crashes of the compiled-FFI worker; last:\n" + r.stderr[-1500:])
        start = begun + 1
    return res
