"""JVM settings for the many *small* TLC runs of C23/C24/C25/C32/C35 (sanity variants, dumps, trace
validation, tiny design-level graphs): a short-lived JVM spends most of its CPU time in the C2 compiler
and in 16 GC threads; restricting both cuts the CPU cost of such a run by ~4x (measured: 38 s -> 8.6 s of
CPU time for a 168-state model on a loaded machine).  Long runs keep the defaults."""
from harness import core

LIGHT_OPTS = "-XX:TieredStopAtLevel=1 -XX:ParallelGCThreads=2 -XX:CICompilerCount=1 -Xshare:auto -Xss64m"


def light(env=None):
    e = dict(env or {})
    e["JAVA_TOOL_OPTIONS"] = LIGHT_OPTS
    return e


def tlc_light(module, cfg=None, **kw):
    kw["env"] = light(kw.get("env"))
    kw.setdefault("workers", 1)
    return core.tlc(module, cfg, **kw)
