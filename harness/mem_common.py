"""Shared machinery of C16 / C18 / C19 (specs/Memory.tla, Unpack.tla, Buffer.tla):
element kinds with byte codecs that do not go through cffi (struct / int.from_bytes), real
cdata arenas with guard zones, an executor that applies one specification-level operation to
real cdata and returns the observed event, configuration text for the Memory module."""
import math, struct
from harness import core

PAD = 6          # guard items on each side of a guarded root

CDEF = """
typedef struct { uint8_t a; uint8_t b; uint16_t c; } s4_t;
typedef struct { int32_t a; int16_t b; int16_t c; } s8_t;
typedef struct { char a; char b; char c; } s3_t;
typedef struct { unsigned char r, g, b; } rgb_t;
typedef struct { int16_t x, y, z; } s6_t;
typedef struct { int x, y, z; } s12_t;
typedef int a5_t[5];
typedef char c7_t[7];
typedef void *vp_t;
typedef int16_t *i16p_t;
typedef int (*fn_t)(int);
typedef enum { EN_A, EN_B = 1000, EN_C = -5 } en_t;
typedef enum { EU_A, EU_B = 4000000000 } eu_t;
typedef int32_t a3_t[3];
"""

_ffi = None


def ffis():
    """(cffi.FFI() with the kinds' typedefs, _cffi_backend.FFI())"""
    global _ffi
    if _ffi is None:
        core.activate()
        import cffi, _cffi_backend
        f = cffi.FFI()
        f.cdef(CDEF)
        _ffi = (f, _cffi_backend.FFI())
    return _ffi


class Kind:
    """An element type: C name, size, and the byte <-> Python value codec written without cffi."""
    def __init__(self, name, sz, cls, dec, enc, valid=None, align=None):
        self.name, self.sz, self.cls = name, sz, cls
        self.dec, self.enc = dec, enc          # bytes -> assignable value ; observed value -> bytes
        self.anybytes = valid is None          # every byte pattern is a value and reads back exactly
        self.valid = valid or (lambda bs: True)
        self.align = align or sz

    def gen(self, rng):
        while True:
            r = rng.random()
            if r < 0.15:
                bs = bytes([rng.choice((0, 0xFF, 0x80, 0x7F, 1))]) * self.sz
            elif r < 0.3:
                bs = bytes(rng.choice((0, 0, 1, 0xFF, 0x80)) for _ in range(self.sz))
            else:
                bs = bytes(rng.getrandbits(8) for _ in range(self.sz))
            if self.valid(bs):
                return bs


def _int_kind(name, sz, signed):
    return Kind(name, sz, "signed" if signed else "unsigned",
                lambda bs: int.from_bytes(bs, "little", signed=signed),
                lambda x: int(x).to_bytes(sz, "little", signed=signed))


def _flt_kind(name, sz, fmt):
    def valid(bs):
        return not math.isnan(struct.unpack(fmt, bs)[0])
    return Kind(name, sz, "float", lambda bs: struct.unpack(fmt, bs)[0], lambda x: struct.pack(fmt, x), valid)


def _struct_kind(name, sz, align):
    def dec(bs):
        f = ffis()[0]
        t = f.new(name + " *")
        f.buffer(t)[:] = bytes(bs)
        return t[0]

    def enc(x):
        f = ffis()[0]
        return bytes(f.buffer(f.addressof(x)))
    return Kind(name, sz, "struct", dec, enc, align=align)


def _arritem_kind(name, sz, align, dec):
    """items that are themselves arrays (int[5], char[7]): x[i] is an array view of the item"""
    def enc(x):
        return bytes(ffis()[0].buffer(x))
    return Kind(name, sz, "arrayitem", dec, enc, align=align)


def _ptr_kind(name):
    def dec(bs):
        return ffis()[0].cast(name, int.from_bytes(bs, "little"))

    def enc(x):
        return int(ffis()[0].cast("uintptr_t", x)).to_bytes(8, "little")
    return Kind(name, 8, "pointer", dec, enc)


KINDS = {k.name: k for k in [
    _int_kind("int8_t", 1, True), _int_kind("uint8_t", 1, False),
    _int_kind("int16_t", 2, True), _int_kind("uint16_t", 2, False),
    _int_kind("int32_t", 4, True), _int_kind("uint32_t", 4, False),
    _int_kind("int64_t", 8, True), _int_kind("uint64_t", 8, False),
    _int_kind("long", 8, True), _int_kind("unsigned long long", 8, False), _int_kind("short", 2, True),
    _flt_kind("float", 4, "<f"), _flt_kind("double", 8, "<d"),
    Kind("char", 1, "char", lambda bs: bytes(bs), lambda x: bytes(x)),
    Kind("char16_t", 2, "char", lambda bs: chr(int.from_bytes(bs, "little")),
         lambda x: ord(x).to_bytes(2, "little")),
    Kind("char32_t", 4, "char", lambda bs: chr(int.from_bytes(bs, "little")),
         lambda x: ord(x).to_bytes(4, "little"), lambda bs: int.from_bytes(bs, "little") <= 0x10FFFF),
    Kind("wchar_t", 4, "char", lambda bs: chr(int.from_bytes(bs, "little")),
         lambda x: ord(x).to_bytes(4, "little"), lambda bs: int.from_bytes(bs, "little") <= 0x10FFFF),
    Kind("_Bool", 1, "bool", lambda bs: bool(bs[0]), lambda x: bytes([1 if x else 0]) if isinstance(x, bool)
         else bytes([0xEE]), lambda bs: bs[0] <= 1),
    _ptr_kind("vp_t"), _ptr_kind("i16p_t"),
    _struct_kind("s4_t", 4, 2), _struct_kind("s8_t", 8, 4), _struct_kind("s3_t", 3, 1),
    # item sizes that are not powers of two
    _struct_kind("rgb_t", 3, 1), _struct_kind("s6_t", 6, 2), _struct_kind("s12_t", 12, 4),
    _arritem_kind("a5_t", 20, 4, lambda bs: [int.from_bytes(bs[k:k + 4], "little", signed=True) for k in range(0, 20, 4)]),
    _arritem_kind("c7_t", 7, 1, lambda bs: bytes(bs)),
]}
# kinds whose every byte pattern of the model (bytes k, k+1, ..) is a valid value
REPLAY_KINDS = {1: ["int8_t", "uint8_t", "char"], 2: ["int16_t", "uint16_t", "char16_t", "short"],
                3: ["s3_t", "rgb_t"], 6: ["s6_t"], 7: ["c7_t"], 12: ["s12_t"], 20: ["a5_t"], 4: ["int32_t", "uint32_t", "float", "s4_t"],
                8: ["int64_t", "uint64_t", "double", "vp_t", "i16p_t", "s8_t", "long"]}
FLAVORS_ARR = ["slice", "frombuf", "new_fixed", "new_var"]      # guarded ones first


class Arena:
    """A root cdata of some element kind plus everything needed to observe it: the backing
    bytes (root + guard zones where the flavor allows), the base address, the derived views."""
    def __init__(self, kind, flavor, n, init):
        """init: bytes for the whole backing store ((n + 2*pad) * sz)."""
        f, bf = ffis()
        self.kind, self.flavor, sz = kind, flavor, kind.sz
        self.ffi, self.bffi = f, bf
        ct = kind.name
        guarded = flavor in ("slice", "frombuf")
        self.pad = PAD if guarded else 0
        self.n = 1 if flavor == "own" else n
        total = (self.n + 2 * self.pad) * sz
        assert len(init) == total, (len(init), total)
        self.rootk = "own" if flavor == "own" else "arr"
        if flavor == "slice":
            self.keep = f.new(ct + "[]", self.n + 2 * PAD)
            self.root = self.keep[PAD:PAD + self.n]
            self.backing = f.buffer(self.keep)
        elif flavor == "frombuf":
            self.keep = bytearray(total)
            self.root = f.from_buffer(ct + "[]", memoryview(self.keep)[PAD * sz:(PAD + self.n) * sz])
            self.backing = memoryview(self.keep)
        elif flavor == "new_fixed":
            self.root = f.new("%s[%d]" % (ct, self.n))
            self.backing = f.buffer(self.root)
        elif flavor == "new_var":
            self.root = f.new(ct + "[]", self.n)
            self.backing = f.buffer(self.root)
        elif flavor == "own":
            self.root = f.new(ct + " *")
            self.backing = f.buffer(self.root)
        else:
            raise ValueError(flavor)
        if len(self.backing) != total:
            raise core.MachineryError("arena %s/%s: backing is %d bytes, expected %d" % (ct, flavor, len(self.backing), total))
        self.backing[0:total] = bytes(init)
        self.total = total
        self.rootoff = self.pad * sz
        self.base = int(f.cast("uintptr_t", self.root)) - self.rootoff
        self.views = [self.root]
        self.desc = [(self.rootk, self.rootoff, self.n)]       # observed (k, off, len) per view
        self.rejected = set()       # (a, request) observed rejected by a read-only operation
        self.naddr = 0

    def snap(self):
        return bytes(self.backing[0:self.total])

    def header(self):
        return {"sz": self.kind.sz, "k": self.rootk, "off": self.rootoff, "len": self.n,
                "mem": list(self.snap()), "kind": self.kind.name, "flavor": self.flavor}

    # ---------------------------------------------------------------- one operation
    def apply(self, op):
        """op: dict(op, a, b, i, j, mi, mj, stp, vals=[bytes..], src=how to pass the values).
        Executes it on the real cdata; returns the observed event (see Trace_Memory.tla)."""
        f, kind = self.ffi, self.kind
        ev = {"op": op["op"], "a": op.get("a", 0), "b": op.get("b", 0), "i": op.get("i", 0), "j": op.get("j", 0),
              "mi": bool(op.get("mi")), "mj": bool(op.get("mj")), "stp": bool(op.get("stp")),
              "vals": [list(v) for v in op.get("vals", [])], "st": "ok", "val": [], "num": 0,
              "vk": "", "voff": 0, "vlen": 0, "lo": 0, "chg": []}
        before = self.snap()
        v = self.views[ev["a"] - 1] if ev["a"] else None
        i, j = ev["i"], ev["j"]
        new = None
        try:
            o = ev["op"]
            if o == "getitem":
                x = v[i]
                ev["val"] = list(kind.enc(x))
                if kind.cls == "struct":        # the item is itself a view: where does it live?
                    ev["vk"], ev["voff"] = "item", int(f.cast("uintptr_t", f.addressof(x))) - self.base
                elif kind.cls == "arrayitem":
                    ev["vk"], ev["voff"] = "item", int(f.cast("uintptr_t", x)) - self.base
            elif o == "setitem":
                v[i] = kind.dec(op["vals"][0])
            elif o == "slice":
                new = v[self._slice(ev)]
            elif o == "assign":
                vals = [kind.dec(b) for b in op["vals"]]
                src = op.get("src", "list")
                if src == "bytes" and kind.name == "char":
                    vals = b"".join(vals)
                elif src == "tuple":
                    vals = tuple(vals)
                elif src == "iter":
                    vals = iter(vals)
                v[self._slice(ev)] = vals
            elif o == "assignview":
                v[self._slice(ev)] = self.views[ev["b"] - 1]
            elif o == "add":
                new = (i + v) if op.get("swap") else (v + i)
            elif o == "sub":
                new = v - i
            elif o == "cast":               # a T* at any byte distance from the view
                new = f.cast(kind.name + " *", f.cast("char *", v) + i)
            elif o == "diff":
                r = v - self.views[ev["b"] - 1]
                if type(r) is not int:
                    raise core.MachineryError("pointer difference is %r" % (r,))
                ev["num"] = r
            elif o == "addressof":
                self.naddr += 1
                new = (self.bffi if self.naddr % 2 else f).addressof(v, i)
                ev["num"] = 1 if new == v + i else 0          # ffi.addressof(x, i) == x + i
            elif o == "offsetof":
                self.naddr += 1
                m = self.naddr % 3
                if m == 0:
                    ev["num"] = f.offsetof(kind.name + "[]", i)
                elif m == 1:
                    ev["num"] = self.bffi.offsetof(f.typeof(kind.name + "[]"), i)
                else:
                    ev["num"] = f.offsetof("%s[%d]" % (kind.name, 3), i)
            else:
                raise core.MachineryError("unknown op %r" % (o,))
        except core.MachineryError:
            raise
        except Exception as e:
            ev["st"] = type(e).__name__
            ev["msg"] = str(e)[:120]
            new = None
        if new is not None:
            t = f.typeof(new)
            ev["vk"] = "arr" if t.kind == "array" else "ptr" if t.kind == "pointer" else t.kind
            ev["voff"] = int(f.cast("uintptr_t", new)) - self.base
            ev["vlen"] = len(new) if t.kind == "array" else 0
            if t.item is not f.typeof(kind.name):
                ev["vk"] += ":" + t.cname
            self.views.append(new)
            self.desc.append((ev["vk"], ev["voff"], ev["vlen"]))
        after = self.snap()
        if after != before:
            lo = next(k for k in range(self.total) if after[k] != before[k])
            hi = next(k for k in range(self.total - 1, -1, -1) if after[k] != before[k])
            ev["lo"], ev["chg"] = lo, list(after[lo:hi + 1])
        if ev["st"] != "ok" and ev["op"] in ("getitem", "slice"):
            self.rejected.add((ev["a"], ev["op"], i, j, ev["mi"], ev["mj"], ev["stp"]))
        return ev

    @staticmethod
    def _slice(ev):
        return slice(None if ev["mi"] else ev["i"], None if ev["mj"] else ev["j"], 1 if ev["stp"] else None)

    # ---------------------------------------------------------------- gating (never a verdict)
    def touched(self, op):
        """Byte range of the backing store the operation would touch if it were carried out as
        requested, or None if it touches nothing."""
        o = op["op"]
        if o not in ("getitem", "setitem", "assign", "assignview"):
            return None
        k, off, ln = self.desc[op["a"] - 1]
        sz = self.kind.sz
        if o in ("getitem", "setitem"):
            return off + op["i"] * sz, off + op["i"] * sz + sz
        if op.get("mi") or op.get("mj") or op.get("stp"):
            return None
        return off + op["i"] * sz, off + max(op["j"], op["i"]) * sz

    def expected_reject(self, op):
        k, off, ln = self.desc[op["a"] - 1]
        o = op["op"]
        if o in ("getitem", "setitem"):
            return (k == "arr" and not 0 <= op["i"] < ln) or (k == "own" and op["i"] != 0)
        if o in ("slice", "assign", "assignview"):
            if op.get("mi") or op.get("mj") or op.get("stp"):
                return True
            return op["i"] > op["j"] or (k == "arr" and not (0 <= op["i"] <= op["j"] <= ln))
        return False

    def may_run(self, op):
        """True if the operation cannot touch bytes outside the backing store even if the
        implementation wrongly accepts it; otherwise a read-only probe must have been
        rejected before (the caller issues the probe)."""
        t = self.touched(op)
        if t is None or (0 <= t[0] and t[1] <= self.total):
            return True
        return False

    def probe_for(self, op):
        """The read-only twin of a mutating operation."""
        if op["op"] == "setitem":
            return dict(op, op="getitem", vals=[])
        if op["op"] in ("assign", "assignview"):
            return dict(op, op="slice", vals=[], b=0)
        return None


def careful_apply(ar, op, events):
    """Execute `op` unless it could touch bytes outside the backing store.  Requests the ideal
    rejects but that would reach outside if wrongly accepted are preceded by a harmless probe
    (the read-only twin, or the nearest out-of-bounds read); if the probe is wrongly accepted the
    operation is not executed (the probe's own event carries the evidence).  Probe events are
    appended to `events`.  Returns (event of `op` or None if it was not executed, reason).  This is
    gating only: verdicts come from validating the recorded events against the specification."""
    if ar.may_run(op):
        return ar.apply(op), None
    if not ar.expected_reject(op):
        return None, "ub"                      # undefined behaviour in C as well
    pr = ar.probe_for(op)
    if pr is None:
        t = ar.touched(op)
        sz = ar.kind.sz
        if max(-t[0], t[1] - ar.total) <= PAD * sz:
            return ar.apply(op), None          # a read of at most PAD items beyond the allocation
        k, off, ln = ar.desc[op["a"] - 1]
        pr = dict(op, i=(-1 if op["i"] < 0 else (ln if k == "arr" else 1)))
    pe = ar.apply(pr)
    events.append(pe)
    if pe["st"] == "ok":
        return None, "probe-accepted"
    return ar.apply(op), None


def new_arena(kind, flavor, n, fill):
    """Arena of the requested flavour; fill(items) -> bytes for that many items.  If the flavour's own
    set-up (slicing a larger array, from_buffer) fails, fall back to a plain ffi.new array: such a
    failure is not C16's business."""
    for fl in (flavor, "new_var" if flavor != "own" else "own"):
        pad = PAD if fl in ("slice", "frombuf") else 0
        items = 1 if fl == "own" else n
        try:
            return Arena(kind, fl, n, fill(items, pad))
        except core.MachineryError:
            raise
        except Exception:
            if fl != flavor:
                raise
    raise core.MachineryError("no arena")


class TlcJobs:
    """All TLC runs of a check are started at once on a small thread pool (each is its own JVM);
    results are collected, and accounted with ctx.add_tlc, by the main thread when needed."""
    def __init__(self, n=8):
        from concurrent.futures import ThreadPoolExecutor
        self.ex = ThreadPoolExecutor(n)
        self.fut = {}

    def submit(self, name, module, **kw):
        self.fut[name] = self.ex.submit(core.tlc, module, **kw)

    def result(self, name):
        return self.fut[name].result()

    def close(self):
        self.ex.shutdown(wait=False, cancel_futures=True)


def memory_cfg(isz, rootlen, rootkind, maxviews, maxsteps, idxneg, idxhi, seeds=(17,), variant="faithful",
               prune=False, view=True, props=True):
    s = ["SPECIFICATION Spec", "CONSTANTS ISz = %d" % isz, "  RootLen = %d" % rootlen,
         '  RootKind = "%s"' % rootkind, "  MaxViews = %d" % maxviews, "  MaxSteps = %d" % maxsteps,
         "  IdxNeg = %d" % idxneg, "  IdxHi = %d" % idxhi, "  Seeds = {%s}" % ",".join(map(str, seeds)),
         "  Prune = %s" % ("TRUE" if prune else "FALSE"), '  Variant = "%s"' % variant]
    if view:
        s.append("VIEW StateView")
    if props:
        s += ["INVARIANT SafeInside", "INVARIANT NoOOBValue", "INVARIANT MemIsBytes", "INVARIANT Laws",
              "PROPERTY RefinesIdeal"]
    s.append("CHECK_DEADLOCK FALSE")
    return "\n".join(s) + "\n"
