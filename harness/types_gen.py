"""Reusable generator / renderer for C aggregate declarations (the "C01 generator").

Terms are plain dicts in the vocabulary of specs/Layout.tla, so the same object is (a) dumped as
JSON into a trace record for TLC, (b) rendered as a cdef for cffi, (c) rendered as C for gcc:

  type  ::= {"c": "prim", "name": <C type name>} | {"c": "ptr"}
          | {"c": "arr", "of": type, "n": N>=1} | {"c": "flex", "of": type}
          | {"c": "agg", "node": node}
  field ::= {"named": bool, "bf": bool, "w": int, "t": type}
  node  ::= {"kind": "struct"|"union", "pack": 0|1|2|4|8|16, "fields": [field]}

Rendering rules: an "agg" type used by a *named* member or below an array is declared
separately, before its user, under its own tag and with its own packing; an *unnamed* "agg"
member is an anonymous struct/union written inline (it inherits the packing of the enclosing
declaration, so its node must carry the same `pack`).  Named leaf members are called f0, f1, ...
in hoisted declaration order - the order of `places` in the specification.

Public API
  random_node(rng, depth=3, ...)      -> node in the class of property C01
  render(node, name)                  -> Rendered(decls, leaves, ctype)
  from_tla(value)                     -> node from a value parsed by tlaval.parse_value
  INT_TYPES / PLAIN_TYPES             -> the primitive names used
Nothing here is an oracle: sizes and alignments below are only used to generate *valid* input
(bit-field widths within the declared type); every expected value comes from the specification.
"""
import collections

# name -> width in bits (generation only: bound for bit-field widths)
INT_TYPES = collections.OrderedDict([
    ("signed char", 8), ("unsigned char", 8), ("short", 16), ("unsigned short", 16),
    ("int", 32), ("unsigned int", 32), ("long", 64), ("unsigned long", 64),
    ("long long", 64), ("unsigned long long", 64), ("_Bool", 1),
    ("int8_t", 8), ("uint16_t", 16), ("int32_t", 32), ("uint64_t", 64), ("size_t", 64),
])
PLAIN_TYPES = ["char", "signed char", "unsigned char", "short", "unsigned short", "int", "unsigned int",
               "long", "unsigned long", "long long", "unsigned long long", "float", "double",
               "long double", "_Bool", "wchar_t", "char16_t", "char32_t", "int8_t", "uint16_t", "int32_t",
               "uint64_t", "size_t", "ssize_t", "intptr_t", "float _Complex", "double _Complex"]

# spelling of the spec's names in a cdef / in C
CDEF_SPELL = {"float _Complex": "float _Complex", "double _Complex": "double _Complex"}
C_HEADERS = "#include <stddef.h>\n#include <stdint.h>\n#include <stdio.h>\n#include <string.h>\n" \
            "#include <uchar.h>\n#include <wchar.h>\n#include <sys/types.h>\n"


def prim(name):
    return {"c": "prim", "name": name}


def field(t, named=True, w=None):
    return {"named": named, "bf": w is not None, "w": w or 0, "t": t}


def from_tla(v):
    """tlaval.parse_value output (tuples / dicts) -> plain JSON-able term."""
    if isinstance(v, dict):
        return {k: from_tla(x) for k, x in v.items()}
    if isinstance(v, (tuple, list)):
        return [from_tla(x) for x in v]
    return v


# --------------------------------------------------------------------------- random terms

def random_type(rng, depth, pack, opts):
    r = rng.random()
    if depth > 0 and r < opts["p_agg"]:
        return {"c": "agg", "node": random_node(rng, depth - 1, pack=rng.choice(opts["packs"]), opts=opts,
                                                allow_flex=False)}
    if r < opts["p_agg"] + 0.12:
        return {"c": "ptr"}
    if r < opts["p_agg"] + 0.30:
        inner = random_type(rng, depth - 1 if depth > 0 else 0, pack, dict(opts, p_agg=opts["p_agg"] / 2))
        if inner["c"] == "arr" and rng.random() < 0.5:
            inner = prim(rng.choice(PLAIN_TYPES))
        return {"c": "arr", "of": inner, "n": rng.choice([1, 1, 2, 3, 3, 4, 5, 7, 8, 13])}
    return prim(rng.choice(PLAIN_TYPES))


DEFAULT_OPTS = {"p_agg": 0.18, "p_bf": 0.35, "p_anon": 0.10, "p_union": 0.25, "p_flex": 0.08,
                "packs": [0, 0, 0, 0, 1, 2, 4, 8], "max_fields": 9, "bitfields": True}


def random_node(rng, depth=3, pack=None, opts=None, allow_flex=True, _top=True):
    """A random aggregate in the class of C01 (see Layout.InClass)."""
    o = dict(DEFAULT_OPTS)
    o.update(opts or {})
    opts = o
    if pack is None:
        pack = rng.choice(opts["packs"])
    kind = "union" if rng.random() < opts["p_union"] else "struct"
    nf = rng.randint(1, opts["max_fields"])
    fields = []
    bf_ok = opts["bitfields"] and pack == 0
    # bit-fields come in runs: that is where the packing rules interact
    in_run = False
    for _ in range(nf):
        r = rng.random()
        if bf_ok and (r < opts["p_bf"] or (in_run and r < 0.75)):
            in_run = True
            tname = rng.choice(list(INT_TYPES))
            maxw = INT_TYPES[tname]
            q = rng.random()
            if q < 0.08:
                fields.append(field(prim(tname), named=False, w=0))      # "T :0;"
                continue
            if q < 0.45:
                w = rng.choice([1, 1, 2, 3, 7, 8, 9, 15, 16, 17, 31, 32, 33, 63, 64])
                w = min(w, maxw)
            elif q < 0.60:
                w = maxw
            else:
                w = rng.randint(1, maxw)
            fields.append(field(prim(tname), named=rng.random() > 0.12, w=w))
            continue
        in_run = False
        if depth > 0 and r > 1 - opts["p_anon"]:
            sub = random_node(rng, depth - 1, pack=pack, opts=opts, allow_flex=False, _top=False)
            fields.append(field({"c": "agg", "node": sub}, named=False))
            continue
        fields.append(field(random_type(rng, depth, pack, opts)))
    node = {"kind": kind, "pack": pack, "fields": fields}
    if not _has_named_storage(node):
        fields.insert(rng.randint(0, len(fields)), field(prim(rng.choice(PLAIN_TYPES))))
    if allow_flex and kind == "struct" and rng.random() < opts["p_flex"] and any(f["named"] for f in fields):
        fields.append(field({"c": "flex", "of": prim(rng.choice(PLAIN_TYPES))}))
    return node


def _has_named_storage(node):
    for f in node["fields"]:
        if f["named"] and f["t"]["c"] != "flex" and (not f["bf"] or f["w"] > 0):
            return True
        if not f["named"] and not f["bf"] and f["t"]["c"] == "agg" and _has_named_storage(f["t"]["node"]):
            return True
    return False


def has_bitfield(node, deep=True):
    for f in node["fields"]:
        if f["bf"]:
            return True
        t = f["t"]
        while t["c"] in ("arr", "flex"):
            t = t["of"]
        if deep and t["c"] == "agg" and has_bitfield(t["node"]):
            return True
    return False


def walk_nodes(node):
    """All aggregate nodes of a term, children first."""
    for f in node["fields"]:
        t = f["t"]
        while t["c"] in ("arr", "flex"):
            t = t["of"]
        if t["c"] == "agg":
            for n in walk_nodes(t["node"]):
                yield n
    yield node


# --------------------------------------------------------------------------- rendering

Rendered = collections.namedtuple("Rendered", "decls leaves ctype pre realize", defaults=((), None))
# pre   : [(pack, text)] declaration history: an earlier cdef() (made with that packing option) in which
#         the tag is first mentioned without a body (node["hist"] = {"form", "pack"}); realize: a C type
#         to realise in the backend between the two cdef() calls (form "realized"), or None
# decls : [(pack, text)] top-level declarations in dependency order (text valid as cdef and as C)
# leaves: [(name, is_bitfield, width)] named leaf members in hoisted order
# ctype : "struct S12"


class _R:
    def __init__(self, name):
        self.name, self.decls, self.ntag = name, [], 0

    def tagged(self, node):
        self.ntag += 1
        tag = "%s_n%d" % (self.name, self.ntag)
        counter = [0]
        body = self.body(node, counter, node["pack"])
        self.decls.append((node["pack"], "%s %s %s;" % (node["kind"], tag, body)))
        return "%s %s" % (node["kind"], tag)

    def declarator(self, t, name):
        """-> (specifier text, declarator text) for a non-inline type"""
        suffix = ""
        while t["c"] in ("arr", "flex"):
            suffix += "[%d]" % t["n"] if t["c"] == "arr" else "[]"
            t = t["of"]
        if t["c"] == "prim":
            return CDEF_SPELL.get(t["name"], t["name"]), name + suffix
        if t["c"] == "ptr":
            return "void", "*" + name + suffix
        return self.tagged(t["node"]), name + suffix

    def body(self, node, counter, pack, leaves=None):
        out = []
        for f in node["fields"]:
            t = f["t"]
            if f["bf"]:
                if f["named"]:
                    nm = "f%d" % counter[0]
                    counter[0] += 1
                    if leaves is not None:
                        leaves.append((nm, True, f["w"]))
                    out.append("%s %s:%d;" % (t["name"], nm, f["w"]))
                else:
                    out.append("%s :%d;" % (t["name"], f["w"]))
            elif not f["named"]:
                sub = t["node"]
                if sub["pack"] != pack:
                    raise ValueError("an anonymous member inherits the packing of its parent")
                out.append("%s %s;" % (sub["kind"], self.body(sub, counter, pack, leaves)))
            else:
                nm = "f%d" % counter[0]
                counter[0] += 1
                if leaves is not None:
                    leaves.append((nm, False, 0))
                spec, decl = self.declarator(t, nm)
                out.append("%s %s;" % (spec, decl))
        return "{ " + " ".join(out) + " }"


def render(node, name):
    r = _R(name)
    leaves = []
    counter = [0]
    body = r.body(node, counter, node["pack"], leaves)
    r.decls.append((node["pack"], "%s %s %s;" % (node["kind"], name, body)))
    ctype = "%s %s" % (node["kind"], name)
    pre, realize = (), None
    h = node.get("hist")
    if h:
        form = h["form"]
        if form == "typedef":
            text = "typedef %s %s_t;" % (ctype, name)
        elif form == "ptr":
            text = "%s; struct %s_holder { char a; %s *b; };" % (ctype, name, ctype)
        else:
            text = "%s;" % ctype
        pre = ((h["pack"], text),)
        if form == "realized":
            realize = ctype + " **"
    return Rendered(r.decls, leaves, ctype, pre, realize)


def c_text(decls):
    """C source for a list of (pack, text) declarations."""
    out = []
    for pack, text in decls:
        if pack:
            out.append("#pragma pack(push, %d)\n%s\n#pragma pack(pop)" % (pack, text))
        else:
            out.append(text)
    return "\n".join(out)


def cdef_all(ffi, decls):
    """Feed (pack, text) declarations to ffi.cdef, grouping consecutive equal packings."""
    i = 0
    while i < len(decls):
        j = i
        while j < len(decls) and decls[j][0] == decls[i][0]:
            j += 1
        text = "\n".join(t for _p, t in decls[i:j])
        pack = decls[i][0]
        if pack == 0:
            ffi.cdef(text)
        elif pack == 1:
            ffi.cdef(text, packed=True)
        else:
            ffi.cdef(text, pack=pack)
        i = j


# --------------------------------------------------------------------------- probes

def gcc_probe_source(items):
    """items: [(id, Rendered)] -> C program printing one line per aggregate:
         id size align  k  (bf pos w)*k
    For a bit-field, pos/w are measured: the object is zeroed, the member is set to all ones
    and the set bits are located; w = -1 if they are not contiguous."""
    out = [C_HEADERS, """
static void bits(const void *p, size_t n) {
    const unsigned char *b = p; long lo = -1, hi = -1, cnt = 0; size_t i; int k;
    for (i = 0; i < n; i++) for (k = 0; k < 8; k++) if (b[i] >> k & 1) {
        if (lo < 0) lo = 8 * (long)i + k;
        hi = 8 * (long)i + k; cnt++; }
    printf(" 1 %ld %ld", lo, (lo >= 0 && hi - lo + 1 == cnt) ? cnt : -1L);
}
"""]
    for ident, r in items:
        if r.pre:
            out.append(c_text(r.pre))          # the first mention, under ITS packing: gcc must not care
        out.append(c_text(r.decls))
        fn = ["static void probe_%s(void) {" % ident,
              "  %s x;" % r.ctype,
              '  printf("%s %%zu %%zu %d", sizeof(x), _Alignof(%s));' % (ident, len(r.leaves), r.ctype)]
        for nm, isbf, w in r.leaves:
            if isbf:
                fn.append("  memset(&x, 0, sizeof x); x.%s = -1; bits(&x, sizeof x);" % nm)
            else:
                fn.append('  printf(" 0 %%zu 0", offsetof(%s, %s));' % (r.ctype, nm))
        fn.append('  printf("\\n");\n}')
        out.append("\n".join(fn))
    out.append("int main(void) {")
    for ident, _r in items:
        out.append("  probe_%s();" % ident)
    out.append("  return 0;\n}")
    return "\n".join(out)


def parse_probe_output(text):
    """-> {id: {"size":..,"align":..,"places":[{"bf":..,"pos":..,"w":..}]}}"""
    res = {}
    for line in text.splitlines():
        p = line.split()
        if not p:
            continue
        k = int(p[3])
        places = [{"bf": p[4 + 3 * i] == "1", "pos": int(p[5 + 3 * i]), "w": int(p[6 + 3 * i])}
                  for i in range(k)]
        res[p[0]] = {"size": int(p[1]), "align": int(p[2]), "places": places}
    return res


def cffi_measure(ffi, r, write_test=True):
    """Ask cffi for the layout of the rendered aggregate `r` (already cdef'ed in ffi)."""
    ct = ffi.typeof(r.ctype)
    byname = dict(ct.fields)
    places, wplaces = [], []
    for nm, isbf, w in r.leaves:
        cf = byname.get(nm)
        if cf is None:
            places.append({"bf": isbf, "pos": -1, "w": -1})
            wplaces.append({"bf": isbf, "pos": -1, "w": -1})
            continue
        if cf.bitsize >= 0:
            pl = {"bf": True, "pos": 8 * cf.offset + cf.bitshift, "w": cf.bitsize}
        else:
            pl = {"bf": False, "pos": ffi.offsetof(ct, nm), "w": 0}
            if pl["pos"] != cf.offset:
                pl["pos"] = -2          # offsetof and field metadata disagree
        places.append(pl)
        wp = {"bf": isbf, "pos": -1, "w": -1}       # -1: not observed
        if write_test and isbf and 0 < w <= 64:
            try:
                p = ffi.new(ffi.getctype(ct, "*"))
                sgn = int(ffi.cast(cf.type, -1)) < 0
                if cf.type.cname == "_Bool":
                    setattr(p, nm, 1)
                elif sgn:
                    setattr(p, nm, -1)
                else:
                    setattr(p, nm, (1 << w) - 1)
                raw = bytes(ffi.buffer(p))
                v = int.from_bytes(raw, "little")
                if v:
                    lo = (v & -v).bit_length() - 1
                    cnt = bin(v).count("1")
                    wp = {"bf": True, "pos": lo, "w": cnt if v >> lo == (1 << cnt) - 1 else -2}
                else:
                    wp = {"bf": True, "pos": -2, "w": 0}
            except Exception:
                pass
        wplaces.append(wp)
    return {"ok": True, "err": "", "size": ffi.sizeof(ct), "align": ffi.alignof(ct), "places": places,
            "wplaces": wplaces}


# --------------------------------------------------------------------------- batch drivers

def measure_gcc(items, workdir, jobs=4, chunk=400):
    """items: [(id, Rendered)] -> {id: measurement}.  Several translation units compiled and run
    in parallel (plain gcc -O0)."""
    import concurrent.futures
    from harness import core
    chunks = [items[i:i + chunk] for i in range(0, len(items), chunk)]

    def one(k):
        return parse_probe_output(core.gcc_run(gcc_probe_source(chunks[k]), workdir, name="layout_probe_%d" % k))
    res = {}
    with concurrent.futures.ThreadPoolExecutor(max_workers=jobs) as ex:
        for part in ex.map(one, range(len(chunks))):
            res.update(part)
    return res


def _cffi_chunk(chunk):
    """[(id, node)] -> {id: measurement}; one FFI per chunk, falling back to one FFI per
    aggregate when a declaration of the chunk is rejected (so that the culprit is identified)."""
    import cffi
    out = {}

    def attempt(sub):
        ffi = cffi.FFI()
        rs = [(ident, render(node, "S" + ident)) for ident, node in sub]
        for _i, r in rs:                       # declaration history: first mentions in cdef() calls of their own
            if r.pre:
                cdef_all(ffi, list(r.pre))
                if r.realize:
                    ffi.new(r.realize)
        decls = [d for _i, r in rs for d in r.decls]
        cdef_all(ffi, decls)
        for ident, r in rs:
            out[ident] = cffi_measure(ffi, r)
    try:
        attempt(chunk)
    except Exception:
        for ident, node in chunk:
            try:
                attempt([(ident, node)])
            except Exception as e:
                out[ident] = {"ok": False, "err": "%s: %s" % (type(e).__name__, str(e)[:300]), "size": -1,
                              "align": -1, "places": [], "wplaces": []}
    return out


def measure_cffi(items, jobs=4, chunk=60, workdir=None):
    """items: [(id, node)] -> {id: measurement}.  The work is done by `jobs` sub-processes
    (python -m harness.types_gen) that import the freshly built backend (core.sub_env), so a
    crash inside cffi cannot take the check down and nothing is forked from a threaded parent."""
    import json, os, subprocess, tempfile
    from harness import core
    if jobs <= 1 or len(items) <= chunk:
        res = {}
        for i in range(0, len(items), chunk):
            res.update(_cffi_chunk(items[i:i + chunk]))
        return res
    workdir = workdir or tempfile.mkdtemp(prefix="cffi_measure_")
    per = (len(items) + jobs - 1) // jobs
    procs = []
    for j in range(jobs):
        part = items[j * per:(j + 1) * per]
        if not part:
            continue
        fin = os.path.join(workdir, "cffi_in_%d_%d.json" % (os.getpid(), j))
        fout = fin.replace("cffi_in_", "cffi_out_")
        with open(fin, "w") as f:
            json.dump({"items": part, "chunk": chunk}, f)
        procs.append((subprocess.Popen([core.PY, "-m", "harness.types_gen", fin, fout], env=core.sub_env(),
                                       cwd=core.VERIF, stderr=subprocess.PIPE, text=True), fin, fout, part))
    res = {}
    for pr, fin, fout, part in procs:
        _o, err = pr.communicate()
        if pr.returncode != 0 or not os.path.exists(fout):
            # a crash: find the culprit by running the items one by one
            for ident, node in part:
                one = subprocess.run([core.PY, "-m", "harness.types_gen", "-"], input=json.dumps(
                    {"items": [[ident, node]], "chunk": 1}), env=core.sub_env(), cwd=core.VERIF,
                    capture_output=True, text=True)
                if one.returncode == 0:
                    res.update(json.loads(one.stdout))
                else:
                    res[ident] = {"ok": False, "err": "crash: exit %d %s" % (one.returncode, one.stderr[-200:]),
                                  "size": -1, "align": -1, "places": [], "wplaces": []}
            continue
        with open(fout) as f:
            res.update(json.load(f))
        os.unlink(fin)
        os.unlink(fout)
    return res


if __name__ == "__main__":
    import json, sys
    job = json.load(sys.stdin if sys.argv[1] == "-" else open(sys.argv[1]))
    its = [(i, n) for i, n in job["items"]]
    out = {}
    for k in range(0, len(its), job["chunk"]):
        out.update(_cffi_chunk(its[k:k + job["chunk"]]))
    if sys.argv[1] == "-":
        json.dump(out, sys.stdout)
    else:
        with open(sys.argv[2] + ".tmp", "w") as f:
            json.dump(out, f)
        import os
        os.rename(sys.argv[2] + ".tmp", sys.argv[2])
