"""Helpers of the C37 check: the dlopen/dlsym/dlclose interposer, the test library, the
out-of-line ABI module, and a pool of worker processes (harness/life_dlworker.py) that survive
and report crashes of individual operation sequences."""
import json, os, subprocess, threading
from harness import core

PREFIX = "cv37_"
FUNCS = ["f1", "f2", "f3"]
VARS = ["v1", "v2"]

INTERPOSER_C = r"""
#define _GNU_SOURCE
#include <dlfcn.h>
#include <stdio.h>
#include <string.h>
#include <stdlib.h>
/* Records every dlopen/dlsym/dlclose call of the process in a buffer that the worker drains
   around each operation.  Loaded with LD_PRELOAD so that the PLT entries of _cffi_backend
   resolve to these wrappers. */
static void *(*real_dlsym)(void *, const char *);
static int (*real_dlclose)(void *);
static void *(*real_dlopen)(const char *, int);
static char logbuf[1 << 16];
static int logpos = 0;
static void init(void)
{
    if (real_dlsym) return;
    real_dlsym = dlvsym(RTLD_NEXT, "dlsym", "GLIBC_2.2.5");
    if (!real_dlsym) real_dlsym = dlvsym(RTLD_NEXT, "dlsym", "GLIBC_2.34");
    if (!real_dlsym) abort();
    real_dlclose = real_dlsym(RTLD_NEXT, "dlclose");
    real_dlopen = real_dlsym(RTLD_NEXT, "dlopen");
}
static void logit(const char *k, void *h, const char *s, long extra)
{
    int room = (int)sizeof(logbuf) - logpos;
    if (room < 300) return;
    logpos += snprintf(logbuf + logpos, room, "%s %p %.200s %ld\n", k, h, s ? s : "-", extra);
}
void *dlsym(void *h, const char *s) { init(); logit("S", h, s, 0); return real_dlsym(h, s); }
int dlclose(void *h) { init(); logit("C", h, 0, 0); return real_dlclose(h); }
void *dlopen(const char *f, int fl) { void *r; init(); r = real_dlopen(f, fl); logit("O", r, f, fl); return r; }
int dllog_drain(char *out, int cap)
{
    int n = logpos < cap ? logpos : cap;
    memcpy(out, logbuf, n);
    logpos = 0;
    return n;
}
"""

TESTLIB_C = """
int cv37_v1 = 0;
int cv37_v2 = 5;
int cv37_f1(int x) { return x + 1; }
int cv37_f2(int x) { return x + cv37_v1; }
int cv37_f3(int x) { return x * 3 + cv37_v2; }
"""

CDEF = """
extern int cv37_v1; extern int cv37_v2;
int cv37_f1(int); int cv37_f2(int); int cv37_f3(int);
"""


def build(ctx):
    """Compile the interposer and two copies of the test library, emit the out-of-line module."""
    d = os.path.join(ctx.tmp, "dl")
    os.makedirs(d, exist_ok=True)
    ip = core.gcc_shared(INTERPOSER_C, os.path.join(d, "cv37_interpose.so"), flags=["-ldl"])
    liba = core.gcc_shared(TESTLIB_C, os.path.join(d, "libcv37a.so"))
    libb = core.gcc_shared(TESTLIB_C, os.path.join(d, "libcv37b.so"))
    import cffi
    fb = cffi.FFI()
    fb.cdef(CDEF)
    fb.set_source("_cv37_ool", None)
    fb.emit_python_code(os.path.join(d, "_cv37_ool.py"))
    return {"ip": ip, "libs": {"a": liba, "b": libb}, "ooldir": d, "oolmod": "_cv37_ool", "cdef": CDEF,
            "vars": VARS}


WORKER = os.path.join(os.path.dirname(os.path.abspath(__file__)), "life_dlworker.py")


def _spawn(cfg, careful=False):
    c = dict(cfg)
    c["careful"] = careful
    return subprocess.Popen([core.PY, WORKER, json.dumps(c)], stdin=subprocess.PIPE, stdout=subprocess.PIPE,
                            stderr=subprocess.PIPE, text=True, env=core.sub_env(LD_PRELOAD=cfg["ip"]))


def died_event(op, signal_no):
    return {"ev": op[0], "l": op[1], "n": op[2], "arg": op[3], "x": op[4], "how": (op[6] if len(op) > 6 else "path") if op[0] == "open" else "", "out": "died", "exc": "signal %s" % signal_no,
            "val": 0, "sym": 0, "cls": 0, "touch": 0, "d": [], "p": []}


def run_careful(cfg, job):
    """Re-run one job in a fresh worker that reports every step; returns the events, the last one
    being a 'died' event if the process was killed."""
    p = _spawn(cfg, careful=True)
    out, err = p.communicate(json.dumps([job]) + "\n", timeout=120)
    events, at, done = [], None, False
    for line in out.splitlines():
        m = json.loads(line)
        if "event" in m:
            events.append(m["event"])
            at = None
        elif "at" in m:
            at = m["at"]
        elif "done" in m:
            done = True
    if not done:
        if at is None:
            raise core.MachineryError("C37 worker failed outside an operation (rc=%s):\n%s" % (p.returncode, err[-2000:]))
        events.append(died_event(job["ops"][at], -p.returncode))
    return events


def run_jobs(cfg, jobs, nworkers=8, chunk=100):
    """Execute all jobs (dicts with id, mode, ops); returns {id: events}.  A job during which the
    worker dies is re-run alone in careful mode, so that the death is attributed to its step."""
    results = {}
    chunks = [jobs[i:i + chunk] for i in range(0, len(jobs), chunk)]
    lock = threading.Lock()
    errors = []

    def serve():
        p = None
        try:
            while True:
                with lock:
                    if not chunks:
                        break
                    ch = chunks.pop()
                pending = list(ch)
                while pending:
                    if p is None or p.poll() is not None:
                        p = _spawn(cfg)
                    try:
                        p.stdin.write(json.dumps(pending) + "\n")
                        p.stdin.flush()
                    except BrokenPipeError:
                        pass
                    while pending:
                        line = p.stdout.readline()
                        if not line:
                            break
                        m = json.loads(line)
                        assert m["id"] == pending[0]["id"], (m["id"], pending[0]["id"])
                        results[m["id"]] = m["events"]
                        pending.pop(0)
                    if pending:                      # the worker died while running pending[0]
                        p.wait()
                        err = p.stderr.read()
                        if p.returncode is not None and p.returncode >= 0 and p.returncode != 0:
                            raise core.MachineryError("C37 worker exited %s:\n%s" % (p.returncode, err[-3000:]))
                        job = pending.pop(0)
                        results[job["id"]] = run_careful(cfg, job)
                        p = None
        except Exception as e:                       # noqa
            errors.append(e)
        finally:
            if p is not None and p.poll() is None:
                try:
                    p.stdin.close()
                    p.wait(timeout=30)
                except Exception:
                    p.kill()

    ths = [threading.Thread(target=serve) for _ in range(min(nworkers, max(1, len(chunks))))]
    for t in ths:
        t.start()
    for t in ths:
        t.join()
    if errors:
        e = errors[0]
        raise e if isinstance(e, core.MachineryError) else core.MachineryError("C37 worker pool: %r" % (e,))
    return results
