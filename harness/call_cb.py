"""Replayer for specs/CallCb.tla (C14): generated C callers that invoke ffi.callback objects
and extern "Python" functions with argument rows compiled into the C code, Python bodies that
record what they receive and return / raise as the TLC-enumerated case says.

signature = (rt, (arg types...)) over harness.call_gen type names.
C side for signature k:   typedef R (*cbt_k)(A...);  static const A tab_k_i[ROWS] = {...};
    void call_cb_k(cbt_k fn, int row, unsigned char *out)  { R r = fn(tab...[row]); memcpy(out, &r, sizeof r); }
    void call_ep_k(int row, unsigned char *out)             { R r = ep_k(tab...[row]); ... }     (extern "Python")
"""
import struct
from harness import call_gen as G

NCELLS = 8
CB_STRUCTS = ["sA", "sB", "sC", "sD", "sE", "sF", "sG", "sH", "sI", "sJ"]     # no pointer fields
ARG_TYPES = list(G.INTS) + ["bool", "char", "f32", "f64", "p_i32"] + CB_STRUCTS
# extern "Python" only (libffi has no complex types, ffi.callback() refuses them); long double for both
EP_ARG_TYPES = ARG_TYPES + ["cf", "cd", "ld"]
CB_ARG_TYPES = ARG_TYPES + ["ld"]


def c_literal(t, v):
    """C constant expression of value v (Python int / float / list for structs) of type t."""
    if t in G.INTS:
        size = G.INTS[t][1]
        return "(%s)0x%xULL" % (G.cname(t), v & ((1 << (8 * size)) - 1))
    if t == "bool":
        return "1" if v else "0"
    if t == "char":
        return "(char)0x%02x" % v
    if t in ("cf", "cd"):
        part = "f32" if t == "cf" else "f64"
        return "__builtin_complex(%s, %s)" % (c_literal(part, v[0]), c_literal(part, v[1]))
    if t == "ld":
        return "(long double)" + c_literal("f64", v)
    if t in ("f32", "f64"):
        if v != v:
            raise ValueError("NaN")
        if v in (float("inf"), float("-inf")):
            s = "__builtin_inf()" if v > 0 else "(-__builtin_inf())"
        else:
            s = float.hex(v)
        return "(float)%s" % s if t == "f32" else s
    if t.startswith("p_"):
        return "0" if v is None else "&cb_cells[%d]" % v
    if t in G.STRUCTS:
        return "{" + ", ".join(c_literal(f, x) for f, x in zip(G.STRUCTS[t], v)) + "}"
    raise KeyError(t)


def rand_cvalue(rng, t):
    if t in ("cf", "cd"):
        part = "f32" if t == "cf" else "f64"
        return [rand_cvalue(rng, part), rand_cvalue(rng, part)]
    if t == "ld":
        return rand_cvalue(rng, "f64")
    if t in G.INTS:
        return G.rand_in(rng, t)
    if t == "bool":
        return rng.randint(0, 1)
    if t == "char":
        return rng.randint(0, 255)
    if t in ("f32", "f64"):
        r = rng.random()
        if r < 0.1:
            return rng.choice([float("inf"), float("-inf"), -0.0, 0.0, 5e-324, 1e-45])
        x = G.rand_float_val(rng)
        return G.narrow(x) if t == "f32" else x
    if t.startswith("p_"):
        return None if rng.random() < 0.25 else rng.randint(0, NCELLS - 1)
    if t in G.STRUCTS:
        return [rand_cvalue(rng, f) for f in G.STRUCTS[t]]
    raise KeyError(t)


def tla_cvalue(t, v):
    """The TLA C value (Call.tla section 2) of a table entry."""
    if t in ("cf", "cd"):
        part = "f32" if t == "cf" else "f64"
        return {"re": tla_cvalue(part, v[0]), "im": tla_cvalue(part, v[1])}
    if t == "ld":
        return tla_cvalue("f64", v)
    if t in G.INTS:
        return G.twos(v, G.INTS[t][1])
    if t == "bool":
        return [1 if v else 0]
    if t == "char":
        return [v]
    if t == "f32":
        return {"img": G.img4(v), "asd": G.img8(G.narrow(v))}
    if t == "f64":
        return {"img": G.img8(v), "asd": G.img8(v)}
    if t.startswith("p_"):
        return {"ref": "null", "id": 0, "data": []} if v is None else {"ref": "cell", "id": v + 1, "data": []}
    if t in G.STRUCTS:
        return [tla_cvalue(f, x) for f, x in zip(G.STRUCTS[t], v)]
    raise KeyError(t)


def fn_type(sig):
    rt, args = sig
    return "%s(*)(%s)" % (G.cname(rt), ", ".join(G.cname(a) for a in args) or "void")


def render(sigs, tables):
    """sigs: [(rt, args)], tables: [rows][args] per signature -> (cdef, source)."""
    sd = G.struct_decls()
    cdef = [sd, "extern int cb_cells[%d];" % NCELLS]
    src = ["#include <string.h>", sd, "int cb_cells[%d];" % NCELLS]
    for k, (rt, args) in enumerate(sigs):
        R = G.cname(rt)
        plist = ", ".join(G.cname(a) for a in args) or "void"
        rows = tables[k]
        for i, a in enumerate(args):
            src.append("static const %s tab_%d_%d[%d] = {%s};" % (
                G.cname(a), k, i, len(rows), ", ".join(c_literal(a, row[i]) for row in rows)))
        actual = ", ".join("tab_%d_%d[row]" % (k, i) for i in range(len(args)))
        cdef.append("typedef %s (*cbt_%d)(%s);" % (R, k, plist))
        cdef.append("void call_cb_%d(cbt_%d fn, int row, unsigned char *out);" % (k, k))
        cdef.append("void call_ep_%d(int row, unsigned char *out);" % k)
        cdef.append('extern "Python" %s ep_%d(%s);' % (R, k, plist))
        src.append("typedef %s (*cbt_%d)(%s);" % (R, k, plist))
        src.append("static %s ep_%d(%s);" % (R, k, plist))
        for name, head, callee in (("cb", "cbt_%d fn, " % k, "fn"), ("ep", "", "ep_%d" % k)):
            if rt == "void":
                body = "%s(%s);" % (callee, actual)
            else:
                body = "%s r = %s(%s); memcpy(out, &r, sizeof(r));" % (R, callee, actual)
            src.append("void call_%s_%d(%sint row, unsigned char *out) { %s }" % (name, k, head, body))
    return "\n".join(cdef) + "\n", "\n".join(src) + "\n"


# ---- value classes of what the Python function / onerror / error= produce (mirror MC_CallCb.Val)
def value_desc(rng, rt, cls, b):
    """desc (harness.call_gen format, plus ["cbcell", j]) of a value of class cls for result type rt."""
    if cls == "none":
        return ["none"]
    if rt in G.INTS:
        lo, hi = G.irange(rt)
        if cls in ("ok", "ok2"):
            return ["int", str(rng.choice([lo, hi, G.rand_in(rng, rt), -1 if lo < 0 else hi]))]
        if cls == "err":
            return ["int", str(rng.choice([lo, hi, 42, -2 if lo < 0 else 2]))]
        if cls == "ovf":
            return ["int", str(rng.choice([hi + 1, lo - 1, 1 << 70]))]
        return ["float", G.fhex(1.0)]
    if rt == "bool":
        return {"ok": ["int", "1"], "err": ["int", "1"], "ok2": ["int", "0"], "ovf": ["int", "2"],
                "badtype": ["float", G.fhex(1.0)]}[cls]
    if rt == "char":
        return {"ok": ["bytes", [255]], "ok2": ["bytes", [rng.randint(0, 255)]], "err": ["bytes", [rng.randint(1, 255)]],
                "ovf": ["bytes", [65, 66]], "badtype": ["int", "1"]}[cls]
    if rt in ("cf", "cd"):
        if cls in ("ok", "err"):
            return ["complex", G.fhex(G.rand_float_val(rng)), G.fhex(G.rand_float_val(rng))]
        if cls == "ok2":
            return ["float", G.fhex(G.rand_float_val(rng))]
        return ["bytes", [49]]
    if rt in ("f32", "f64", "ld"):
        if cls in ("ok", "err"):
            return ["float", G.fhex(G.rand_float_val(rng))]
        if cls == "ok2":
            return ["int", str(rng.randint(-1000, 1000))]
        if cls == "ovf":
            return ["int", str(10 ** 400)]
        return ["bytes", [49]]
    if rt == "void":
        return ["none"] if cls in ("ok", "ok2", "err") else ["int", "0"]
    if rt.startswith("p_"):
        if cls in ("ok", "err"):
            return ["cbcell", rng.randint(0, NCELLS - 1)]
        if cls == "ok2":
            return ["null", None]
        if cls == "ovf":
            return ["null", "short *"]
        return ["int", "0"]
    fields = G.STRUCTS[rt]
    oks = [b.item_ok(f) for f in fields]
    if cls == "err":            # like MC_CallCb.Val(n, "err"): non-zero in every field, so that the error value is
        return ["list", [nonzero_item(b, f) for f in fields]]       # distinguishable from zeros field by field
    if cls == "short":          # fewer items than fields: the rest must reach C as zeros
        return [rng.choice(["list", "tuple"]), oks[:rng.randint(0, len(fields) - 1)]]
    if cls == "dshort":
        order = rng.sample(range(len(fields)), rng.randint(0, len(fields) - 1))
        return ["dict", [[i, oks[i]] for i in order]]
    if cls in ("ok", "ok2", "err"):
        return ["list" if cls != "ok2" else "tuple", oks]
    if cls == "ovf":
        if fields[-1] in G.INTS or fields[-1] == "bool":
            return ["list", oks[:-1] + [b.item_ovf(fields[-1])]]
        return ["list", oks + [["int", "1"]]]           # too many initializers
    return ["none"] if rng.random() < 0.5 else ["list", oks[:-1] + [["none"]]]


def nonzero_item(b, f):
    """a convertible item of scalar field type f whose C image is not all zero bytes"""
    for _ in range(8):
        d = b.item_ok(f)
        if not ((d[0] == "int" and int(d[1]) == 0) or (d[0] == "bytes" and not any(d[1]))
                or (d[0] == "float" and (G.narrow(G.unhex(d[1])) if f == "f32" else G.unhex(d[1])) == 0.0)):
            return d
    return {"bytes": ["bytes", [1]], "float": ["float", G.fhex(1.0)]}.get(d[0], ["int", "1"])


def enc_value(d):
    if d[0] == "cbcell":
        return {"k": "cptr", "ct": G.tla_type("p_i32"), "cell": d[1] + 1}
    if d[0] in ("list", "tuple"):
        return {"k": "list", "items": [enc_value(x) for x in d[1]]}
    if d[0] == "dict":
        return {"k": "dict", "keys": [i + 1 for i, _x in d[1]], "items": [enc_value(x) for _i, x in d[1]]}
    return G.enc_desc(d, [])


def record(case, sig, row, kind, obs):
    rt, args = sig
    out = obs["out"]
    return {"id": case["id"], "mode": case["mode"], "rt": G.tla_type(rt), "argts": [G.tla_type(a) for a in args],
            "cargs": [tla_cvalue(a, v) for a, v in zip(args, row)],
            "body": case["body"][0], "retv": enc_value(case["body"][1]) if case["body"][0] == "ret" else {"k": "none"},
            "haserr": case["err"] is not None,
            "errv": enc_value(case["err"]) if case["err"] is not None else {"k": "none"},
            "onerr": case["onerr"][0], "onv": enc_value(case["onerr"][1]) if case["onerr"][0] == "value" else {"k": "none"},
            "kind": kind, "called": obs["called"], "seen": obs["seen"], "out": out, "escaped": obs["escaped"],
            "reports": obs["reports"]}
