"""C17: pools of cdata / Python objects whose abstract value is known to the driver
independently of cffi's convert_to_object (the value given to ffi.cast is chosen exactly
representable in the target type; addresses are read with ffi.cast('uintptr_t', ...))."""
import math, operator, struct
from fractions import Fraction

OPS = [operator.eq, operator.ne, operator.lt, operator.le, operator.gt, operator.ge]

INT_TYPES = {"signed char": (8, 1), "short": (16, 1), "int": (32, 1), "long": (64, 1), "long long": (64, 1),
             "unsigned char": (8, 0), "unsigned short": (16, 0), "unsigned int": (32, 0),
             "unsigned long": (64, 0), "unsigned long long": (64, 0), "int8_t": (8, 1), "uint16_t": (16, 0),
             "int32_t": (32, 1), "uint64_t": (64, 0), "size_t": (64, 0), "ssize_t": (64, 1), "intptr_t": (64, 1)}


# Structural boundaries of CPython's numeric hash (reduction modulo the Mersenne prime 2^61 - 1, sign kept,
# -1 mapped to -2): multiples of the modulus and their neighbours, powers of two around it, type limits.
HASH_M = (1 << 61) - 1
HASH_EDGES = sorted(set(
    [s * (k * HASH_M + d) for k in range(1, 8) for d in (-1, 0, 1) for s in (1, -1)] +
    [1 << 61, (1 << 61) + 1, (1 << 61) - 1, 1 << 62, (1 << 62) + 1, (1 << 63) - 1, -(1 << 63), (1 << 63), (1 << 64) - 1,
     -(1 << 61), -(1 << 62), -1, -2, 0, 1, 2]))
FLOAT_EDGES = [float(1 << 61), -float(1 << 61), float(1 << 62), float(1 << 63), -float(1 << 63), float(1 << 64),
               2.0 ** 122, 2.0 ** 183, 2.0 ** 1023, -2.0 ** 1000, 1.5 * 2.0 ** 61, 2.0 ** -61, 2.0 ** -1074, 0.75,
               -1.0, -2.0, 1.0, float(HASH_M + 1), 3.0 * 2.0 ** 60]


def num(x):
    """exact description of an int / bool / float for the specification"""
    if isinstance(x, float):
        if math.isnan(x):
            return {"k": "num", "c": "nan", "neg": False, "e": 0, "m": []}
        if math.isinf(x):
            return {"k": "num", "c": "inf", "neg": x < 0, "e": 0, "m": []}
        if x == 0:
            return {"k": "num", "c": "zero", "neg": math.copysign(1, x) < 0, "e": 0, "m": []}
    elif x == 0:
        return {"k": "num", "c": "zero", "neg": False, "e": 0, "m": []}
    fr = Fraction(x)
    n, d = abs(fr.numerator), fr.denominator          # d is a power of two
    k = d.bit_length() - 1
    while n % 2 == 0:
        n //= 2
        k -= 1
    bits = [int(c) for c in bin(n)[2:]]
    return {"k": "num", "c": "fin", "neg": fr < 0, "e": len(bits) - 1 - k, "m": bits}


def value_of(x):
    if isinstance(x, (bool, int, float)):
        return num(x)
    if isinstance(x, complex):
        return {"k": "cplx", "re": num(x.real), "im": num(x.imag)}
    if isinstance(x, bytes):
        return {"k": "bytes", "u": list(x)}
    if isinstance(x, str):
        return {"k": "str", "u": [ord(c) for c in x]}
    raise TypeError(x)


def limbs(n):
    return [(n >> s) & 0xFFFF for s in (48, 32, 16, 0)]


def hash_of(x):
    try:
        h = hash(x)
    except Exception:
        return [2, 0, 0, 0, 0]
    return [1 if h < 0 else 0] + limbs(abs(h))


def outcome(f, x, y):
    try:
        r = f(x, y)
    except Exception as e:
        return type(e).__name__
    return "T" if r is True else "F" if r is False else "other"


def enc_plain(x):
    """JSON form of a plain Python value"""
    if isinstance(x, bool):
        return {"t": "bool", "v": x}
    if isinstance(x, int):
        return {"t": "int", "v": str(x)}
    if isinstance(x, float):
        return {"t": "float", "v": x.hex() if not (math.isnan(x) or math.isinf(x)) else repr(x)}
    if isinstance(x, complex):
        return {"t": "complex", "v": [enc_plain(x.real)["v"], enc_plain(x.imag)["v"]]}
    if isinstance(x, bytes):
        return {"t": "bytes", "v": list(x)}
    if isinstance(x, str):
        return {"t": "str", "v": [ord(c) for c in x]}
    return None


def dec_plain(d):
    def fl(s):
        return float(s) if s in ("nan", "inf", "-inf") else float.fromhex(s)
    t, v = d["t"], d["v"]
    return {"bool": lambda: bool(v), "int": lambda: int(v), "float": lambda: fl(v),
            "complex": lambda: complex(fl(v[0]), fl(v[1])), "bytes": lambda: bytes(v),
            "str": lambda: "".join(map(chr, v))}[t]()


def rebuild(ffi, spec):
    """the object described by an Obj.spec, built again (pointer-like cdata as a cast of its address)"""
    if spec["kind"] == "py":
        return dec_plain(spec["plain"])
    if spec["kind"] == "ptr":
        return ffi.cast(spec["ctype"], int(spec["addr"]))
    v = dec_plain(spec["plain"])
    return ffi.cast(spec["ctype"], v)


class Obj:
    """obj: the real object; side: its description; plain: the plain Python value (None for addresses/opaque)"""
    _next = [0]

    def __init__(self, obj, cd, ptr, v, plain=None, what=""):
        Obj._next[0] += 1
        self.obj, self.plain, self.what = obj, plain, what
        self.side = {"id": Obj._next[0], "cd": cd, "ptr": ptr, "v": v}
        self.has_plain = v["k"] not in ("addr", "opaque")
        self.spec = None


class Pools:
    def __init__(self, rng):
        import cffi
        self.ffi = ffi = cffi.FFI()
        self.rng = rng
        ffi.cdef("struct s17 { int x; short y; char z[5]; }; enum e17 { E17A, E17B = 5, E17C = -3 };"
                 "enum e17big { E17M = 2305843009213693951, E17N = -2305843009213693951 };"
                 "union u17 { int i; double d; };")
        self.arr = ffi.new("int[8]")
        self.arr2 = ffi.new("int[8]")
        self.s = ffi.new("struct s17 *")
        self.sarr = ffi.new("struct s17[3]")
        self.u = ffi.new("union u17 *")
        self.keep = []
        self.gcarr = ffi.gc(self.arr, lambda x: None)            # a gc wrapper: same address, other cdata class
        self.backing = bytearray(32)
        self.frombuf = ffi.from_buffer(self.backing)
        self.frombuf2 = ffi.from_buffer("int[]", self.backing)
        self.handle = ffi.new_handle(self)

    # ---- primitive cdata
    def int_value(self, bits, signed):
        rng = self.rng
        lo, hi = (-(1 << (bits - 1)), (1 << (bits - 1)) - 1) if signed else (0, (1 << bits) - 1)
        if rng.random() < 0.35:                      # the boundaries of Python's numeric hash that the type can hold
            edges = [e for e in HASH_EDGES if lo <= e <= hi]
            return rng.choice(edges)
        v = rng.choice([lo, hi, 0, 1, 2, hi - 1, rng.randint(lo, hi), rng.randint(-3, 3), rng.randint(0, 300),
                        1 << 53, (1 << 53) + 1, 1 << 62])
        return min(max(v, lo), hi)

    def prim(self, near=None):
        """a primitive cdata; near: try to stand for this Python number"""
        ffi, rng = self.ffi, self.rng
        k = rng.random()
        if k < 0.45:
            T = rng.choice(list(INT_TYPES))
            bits, signed = INT_TYPES[T]
            v = self.int_value(bits, signed)
            if isinstance(near, int) and not isinstance(near, bool):
                lo, hi = (-(1 << (bits - 1)), (1 << (bits - 1)) - 1) if signed else (0, (1 << bits) - 1)
                if lo <= near <= hi:
                    v = near
            return Obj(ffi.cast(T, v), True, False, num(v), v, "cast(%r, %d)" % (T, v))
        if k < 0.50:
            v = rng.randint(0, 1)
            return Obj(ffi.cast("_Bool", v), True, False, num(v), bool(v), "cast('_Bool', %d)" % v)
        if k < 0.55:
            if rng.random() < 0.4:
                v = rng.choice([e for e in HASH_EDGES if -(1 << 63) <= e < (1 << 63)])
                return Obj(ffi.cast("enum e17big", v), True, False, num(v), v, "cast('enum e17big', %d)" % v)
            v = rng.choice([0, 5, -3, 1, 7])
            return Obj(ffi.cast("enum e17", v), True, False, num(v), v, "cast('enum e17', %d)" % v)
        if k < 0.72:
            T = rng.choice(["float", "double"])
            v = self.float_value(near)
            if T == "float":
                v = struct.unpack("<f", struct.pack("<f", v))[0] if not math.isinf(v) and abs(v) < 3e38 else (
                    v if math.isinf(v) or math.isnan(v) else 1.5)
            return Obj(ffi.cast(T, v), True, False, num(v), v, "cast(%r, %r)" % (T, v))
        if k < 0.76:
            v = self.float_value(near)
            return Obj(ffi.cast("long double", v), True, False, {"k": "opaque"}, None, "cast('long double', %r)" % v)
        if k < 0.84:
            x = rng.choice([97, 0, 255, rng.randint(0, 255)])
            return Obj(ffi.cast("char", x), True, False, value_of(bytes([x])), bytes([x]), "cast('char', %d)" % x)
        if k < 0.93:
            T = rng.choice(["wchar_t", "char16_t", "char32_t"])
            top = 0xFFFF if T == "char16_t" else 0x10FFFF
            x = rng.choice([97, 0, 0xE9, 0xD800, top, rng.randint(0, top)])
            return Obj(ffi.cast(T, x), True, False, value_of(chr(x)), chr(x), "cast(%r, %d)" % (T, x))
        T = rng.choice(["float _Complex", "double _Complex"])
        re, im = self.float_value(near), rng.choice([0.0, 0.0, -0.0, 1.0, self.float_value(None)])
        if T.startswith("float"):
            f32 = lambda z: z if math.isinf(z) or math.isnan(z) else struct.unpack("<f", struct.pack("<f", max(min(z, 3e38), -3e38)))[0]
            re, im = f32(re), f32(im)
        v = complex(re, im)
        return Obj(ffi.cast(T, v), True, False, value_of(v), v, "cast(%r, %r)" % (T, v))

    def float_value(self, near):
        rng = self.rng
        if isinstance(near, (int, float)) and not isinstance(near, bool) and rng.random() < 0.7:
            try:
                return float(near)
            except OverflowError:
                return float("inf")
        if rng.random() < 0.3:
            return rng.choice(FLOAT_EDGES)
        return rng.choice([0.0, -0.0, 1.0, -1.0, 0.5, 1.5, 2.0, float("inf"), float("-inf"), float("nan"),
                           float(1 << 53), float(1 << 63), 1e300, 5e-324, rng.uniform(-10, 10),
                           float(rng.randint(-5, 300))])

    # ---- plain Python values
    def py(self, near=None):
        rng = self.rng
        k = rng.random()
        if near is not None and k < 0.6:
            alts = [near]
            if isinstance(near, (int, float)) and not isinstance(near, bool):
                alts += [near + 1, near - 1]
                try:
                    alts += [float(near), int(near)]
                except (OverflowError, ValueError):
                    pass
                if near in (0, 1):
                    alts.append(bool(near))
                alts.append(complex(near, 0.0) if abs(near) < 1e300 else near)
            elif isinstance(near, bytes):
                alts += [near + b"x", near.decode("latin-1"), near[0] if near else 0]
            elif isinstance(near, str):
                alts += [near + "y", ord(near) if len(near) == 1 else 0]
            v = rng.choice(alts)
        elif k < 0.68:
            v = rng.choice(HASH_EDGES + [8 * HASH_M, -9 * HASH_M, (1 << 122) - 1, HASH_M << 61])
        elif k < 0.75:
            v = rng.choice([0, 1, -1, 2, 255, 97, 1 << 53, (1 << 53) + 1, 1 << 63, (1 << 64) - 1, 1 << 70, -(1 << 63),
                            rng.randint(-300, 300)])
        elif k < 0.85:
            v = self.float_value(None)
        elif k < 0.90:
            v = rng.choice([True, False])
        elif k < 0.95:
            v = rng.choice([b"a", b"", b"ab", "a", "", "ab", "\xe9", b"\xff"])
        else:
            v = complex(self.float_value(None), rng.choice([0.0, 1.0]))
        return Obj(v, False, False, value_of(v), v, repr(v))

    # ---- pointer-like cdata
    def ptr(self, near=None):
        ffi, rng = self.ffi, self.rng
        arr, s = self.arr, self.s
        i = rng.randint(0, 4)
        makers = [
            lambda: (arr, "arr"), lambda: (ffi.cast("int *", arr), "cast(int*, arr)"),
            lambda: (arr + i, "arr+%d" % i), lambda: (ffi.cast("char *", arr) + 4 * i, "(char*)arr+%d" % (4 * i)),
            lambda: (arr[i:i + 2], "arr[%d:%d]" % (i, i + 2)), lambda: (ffi.addressof(arr, i), "&arr[%d]" % i),
            lambda: (self.arr2, "arr2"), lambda: (self.arr2 + i, "arr2+%d" % i),
            lambda: (s, "s"), lambda: (s[0], "s[0]"), lambda: (ffi.addressof(s[0]), "&s[0]"),
            lambda: (ffi.addressof(s, "y"), "&s.y"), lambda: (s.z, "s.z"), lambda: (ffi.cast("void *", s), "(void*)s"),
            lambda: (self.sarr[i % 3], "sarr[%d]" % (i % 3)), lambda: (self.sarr + (i % 3), "sarr+%d" % (i % 3)),
            lambda: (self.u[0], "u[0]"), lambda: (ffi.addressof(self.u, "d"), "&u.d"),
            lambda: (ffi.NULL, "NULL"), lambda: (ffi.cast("int *", 0), "(int*)0"),
            lambda: (self.gcarr, "gc(arr)"), lambda: (self.gcarr + i, "gc(arr)+%d" % i),
            lambda: (self.frombuf, "from_buffer"), lambda: (self.frombuf2, "from_buffer(int[])"),
            lambda: (self.frombuf + 4 * i, "from_buffer+%d" % (4 * i)), lambda: (self.frombuf2 + i, "from_buffer(int[])+%d" % i),
            lambda: (self.handle, "handle"), lambda: (ffi.cast("char *", self.handle), "(char*)handle"),
            lambda: (ffi.cast("int(*)(int)", near if near else 4096 + i), "fnptr"),
            lambda: (ffi.cast("void *", near if near else rng.choice([1, 1 << 63, (1 << 64) - 1, (1 << 63) - 1,
                                                                          rng.getrandbits(64), rng.getrandbits(30)])), "(void*)n"),
        ]
        obj, what = rng.choice(makers)()
        tk = ffi.typeof(obj).kind
        addr = int(ffi.cast("uintptr_t", ffi.addressof(obj) if tk in ("struct", "union") else obj))
        return Obj(obj, True, True, {"k": "addr", "a": limbs(addr)}, None, what + "@%#x" % addr), addr

    # ---- one pair
    def pair(self):
        rng = self.rng
        k = rng.random()
        if k < 0.50:
            a = self.prim()
            b = self.prim(a.plain) if rng.random() < 0.45 else self.py(a.plain)
        elif k < 0.78:
            a, addr = self.ptr()
            b, _ = self.ptr(addr if rng.random() < 0.2 else None)
        elif k < 0.90:
            a, addr = self.ptr()
            b = self.py(addr) if rng.random() < 0.5 else self.prim(addr)
        else:
            a = rng.choice([self.prim, self.py, lambda: self.ptr()[0]])()
            b = rng.choice([self.prim, self.py, lambda: self.ptr()[0]])()
            if not (a.side["cd"] or b.side["cd"]):
                b = self.prim()
        if rng.random() < 0.06:
            b = a
        if rng.random() < 0.5:
            a, b = b, a
        return a, b

    def observe(self, a, b):
        same = a.obj is b.obj
        bside = dict(b.side, id=a.side["id"]) if same else b.side
        rec = {"a": a.side, "b": bside, "same": same,
               "res": [outcome(f, a.obj, b.obj) for f in OPS],
               "ha": hash_of(a.obj), "hb": hash_of(b.obj)}
        rec["hva"] = hash_of(a.plain) if a.has_plain else rec["ha"]
        rec["hvb"] = hash_of(b.plain) if b.has_plain else rec["hb"]
        rec["pyres"] = [outcome(f, a.plain, b.plain) for f in OPS] if a.has_plain and b.has_plain else []
        try:
            rec["inset"] = "T" if b.obj in {a.obj} else "F"
        except Exception as e:
            rec["inset"] = type(e).__name__
        rec["what"] = [a.what, b.what]
        rec["spec"] = [self.spec_of(a), self.spec_of(b)]
        return rec

    def spec_of(self, o):
        ffi = self.ffi
        if not o.side["cd"]:
            return {"kind": "py", "plain": enc_plain(o.plain)}
        ct = ffi.typeof(o.obj)
        if o.side["ptr"]:
            addr = sum(l << s for l, s in zip(o.side["v"]["a"], (48, 32, 16, 0)))
            return {"kind": "ptr", "ctype": ct.cname if ct.kind in ("pointer", "function") else "void *", "addr": str(addr)}
        if o.side["v"]["k"] == "opaque":
            return {"kind": "prim", "ctype": ct.cname, "plain": enc_plain(float(o.obj))}
        return {"kind": "prim", "ctype": ct.cname, "plain": enc_plain(o.plain)}
