"""Library generator / encoder for specs/CallLib.tla (C33): globals with C accessor functions,
integer constants (#define, static const, enum), a partially declared struct, plus the call
family of harness.call_gen, to be built by set_source() and by both ffi.verify() engines."""
from harness import call_gen as G

SIGNED = ["i8", "i16", "i32", "long", "i64"]
UNSIGNED = ["u8", "u16", "u32", "ulong", "u64"]
BOOL_CLS = {"min": "zero", "max": "one", "one": "one", "mone": "mone", "above": "two", "below": "mone",
            "none": "none", "float": "float"}


def make(rng, funcs):
    """Returns the library description: globals [(name, type, init value)], consts [(name, how, value)]."""
    gl = [("g1", rng.choice(SIGNED)), ("g2", rng.choice(UNSIGNED)), ("g3", "bool"), ("g4", "f64"), ("g5", "char"),
          ("g6", rng.choice(SIGNED + UNSIGNED))]
    globs = []
    for name, t in gl:
        if t in G.INTS:
            v = G.rand_in(rng, t)
        elif t == "bool":
            v = rng.randint(0, 1)
        elif t == "char":
            v = rng.randint(0, 255)
        else:
            v = G.rand_float_val(rng)
        globs.append((name, t, v))
    consts = [("K_1", "define", rng.choice([0, 1, -1, 2 ** 31 - 1, -2 ** 31, 2 ** 32 - 1, rng.randint(-10 ** 6, 10 ** 6)])),
              ("K_2", "static const long long", rng.choice([2 ** 63 - 1, -2 ** 63, rng.randint(-2 ** 62, 2 ** 62)])),
              ("K_3", "enum", rng.randint(-1000, 1000)), ("K_4", "enum", rng.choice([0, 2 ** 31 - 1, -2 ** 31])),
              ("K_5", "define", 2 ** 64 - 1), ("K_6", "static const int", rng.randint(-2 ** 31, 2 ** 31 - 1)),
              ("K_7", "define", -2 ** 63), ("K_8", "define", 2 ** 63), ("K_9", "define", 2 ** 63 - 1),
              ("K_10", "static const unsigned long long", rng.choice([2 ** 64 - 1, 2 ** 63, rng.randint(0, 2 ** 64 - 1)]))]
    pt = rng.choice(list(G.INTS))
    return {"globals": globs, "consts": consts, "ptype": pt, "funcs": funcs, "rtype": rng.choice(SIGNED)}


def _cint(v):
    if v == -2 ** 63:
        return "(-9223372036854775807LL-1)"
    if v > 2 ** 63 - 1:
        return "%dULL" % v
    if v > 2 ** 31 - 1 or v < -2 ** 31:
        return "%dLL" % v
    return str(v)


def _cinit(t, v):
    if t in ("f32", "f64"):
        return float.hex(v)
    return "(%s)%s" % (G.cname(t), _cint(v)) if t in G.INTS else str(v)


def render(L):
    cdef_f, src_f = G.render_module(L["funcs"])
    cdef, src = [cdef_f], [src_f]
    reset = []
    for i, (name, t, v) in enumerate(L["globals"]):
        c = G.cname(t)
        cdef.append("extern %s %s; %s get_%d(void); void set_%d(%s);" % (c, name, c, i + 1, i + 1, c))
        src.append("%s %s = %s; %s get_%d(void) { return %s; } void set_%d(%s v) { %s = v; }" % (
            c, name, _cinit(t, v), c, i + 1, name, i + 1, c, name))
        reset.append("%s = %s;" % (name, _cinit(t, v)))
    cdef.append("void reset_all(void);")
    src.append("void reset_all(void) { %s }" % " ".join(reset))
    enums = [(n, v) for n, how, v in L["consts"] if how == "enum"]
    for n, how, v in L["consts"]:
        if how == "define":
            cdef.append("#define %s ..." % n)
            src.append("#define %s %s" % (n, _cint(v)))
        elif how.startswith("static const"):
            cdef.append("%s %s;" % (how, n))
            src.append("%s %s = %s;" % (how, n, _cint(v)))
    e = "enum EE { %s };" % ", ".join("%s = %s" % (n, _cint(v)) for n, v in enums)
    cdef.append(e)
    src.append(e)
    rc = G.cname(L.get("rtype", "i32"))
    rdecl = "struct R { %s f1; _Bool f2; };" % rc
    cdef.append(rdecl + " struct R mkr(%s, _Bool); long long sumr(struct R);" % rc)
    src.append(rdecl + " struct R mkr(%s a, _Bool b) { struct R r; r.f1 = a; r.f2 = b; return r; }"
               " long long sumr(struct R r) { return (long long)r.f1 + (long long)r.f2; }" % rc)
    pc = G.cname(L["ptype"])
    cdef.append("struct P { %s x; ...; };" % pc)
    src.append("struct P { char pad; %s x; double y; char tail; };" % pc)
    return "\n".join(cdef) + "\n", "\n".join(src) + "\n"


def layout_probe(L):
    pc = G.cname(L["ptype"])
    return ("#include <stdio.h>\n#include <stddef.h>\nstruct P { char pad; %s x; double y; char tail; };\n"
            "int main(void) { printf(\"%%d %%d\\n\", (int)sizeof(struct P), (int)offsetof(struct P, x)); return 0; }\n" % pc)


def names(L):
    out = list(L["funcs"]) + ["reset_all", "mkr", "sumr"]
    for i, (name, t, v) in enumerate(L["globals"]):
        out += [name, "get_%d" % (i + 1), "set_%d" % (i + 1)]
    out += [n for n, how, v in L["consts"]]
    return sorted(out)


def tla_lib(L):
    return {"R": {"k": "struct", "tag": "R", "fields": [G.tla_type(L.get("rtype", "i32")), {"k": "bool"}]},
            "G": [{"t": G.tla_type(t)} for _n, t, _v in L["globals"]],
            "K": [{"k": "int", "neg": v < 0, "mag": G.le_bytes(abs(v))} for _n, _h, v in L["consts"]]}


def init_cells(L):
    out = []
    for _n, t, v in L["globals"]:
        if t in G.INTS:
            out.append(G.twos(v, G.INTS[t][1]))
        elif t in ("bool", "char"):
            out.append([v])
        else:
            out.append(G.img8(v))
    return out


def value_for(b, t, cls):
    """desc of a value of the machine's class `cls` for a global of type t."""
    if t in G.INTS:
        return b.int_arg(t, cls)
    if t == "bool":
        return b.bool_arg(BOOL_CLS[cls])
    raise KeyError(t)
