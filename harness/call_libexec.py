"""Sub-process executor for C33 library behaviours (harness/call_lib.py).
usage: python -m harness.call_libexec <plan.json> <out.json>"""
import json, os, sys


def main(plan_path, out_path):
    sys.path.insert(0, os.path.dirname(os.path.dirname(os.path.abspath(__file__))))
    from harness import call_gen as G
    from harness.call_exec import build_arg, enc_result, load_paths
    with open(plan_path) as f:
        plan = json.load(f)
    paths = load_paths(plan)
    prog = open(out_path + ".progress", "w")
    outf = open(out_path, "a")
    done = set(plan.get("done", []))
    skip = set((c, p) for c, p in plan.get("skip", []))
    dead = set(plan.get("dead", []))

    def enc(ffi, v):
        return enc_result(ffi, v, [], G.tla_type_of_ctype, G.img8, G.le_bytes)

    def unusable(tr, what):
        return [["error", what] if ev["op"] == "static" else {"exc": what, "ret": {"k": "none"}} for ev in tr["events"]]
    for tr in plan["cases"]:
        if tr["id"] in done:
            continue
        res = {}
        for build in plan["paths"]:
            if (tr["id"], build) in skip or build in dead:
                res[build] = unusable(tr, "Crash")
                continue
            if isinstance(paths[build], Exception):
                res[build] = unusable(tr, "LoadError:" + type(paths[build]).__name__)
                continue
            ffi, get, lib = paths[build]
            prog.write("%s %s\n" % (tr["id"], build))
            prog.flush()
            obs = []
            objs = []           # the result objects the behaviour keeps
            try:
                get("reset_all")()
            except Exception as e:
                res[build] = unusable(tr, "FetchError:" + type(e).__name__)
                continue
            for ev in tr["events"]:
                op = ev["op"]
                o = {"exc": "", "ret": {"k": "none"}}
                try:
                    if op == "static":
                        if ev["what"] == "names":
                            o = sorted(n for n in dir(lib) if not n.startswith("_"))
                        else:
                            o = [ffi.sizeof("struct P"), ffi.offsetof("struct P", "x")]
                    elif op == "readg":
                        o["ret"] = enc(ffi, getattr(lib, ev["name"]))
                    elif op == "writeg":
                        setattr(lib, ev["name"], build_arg(ffi, ev["desc"], [], []))
                    elif op == "getg":
                        o["ret"] = enc(ffi, get("get_%d" % ev["i"])())
                    elif op == "setg":
                        get("set_%d" % ev["i"])(build_arg(ffi, ev["desc"], [], []))
                    elif op == "readc":
                        o["ret"] = enc(ffi, getattr(lib, ev["name"]))
                    elif op == "mk":
                        objs.append(get("mkr")(*[build_arg(ffi, d, [], []) for d in ev["descs"]]))
                    elif op == "rdobj":
                        o["ret"] = enc(ffi, objs[ev["j"] - 1])
                    elif op == "wrobj":
                        setattr(objs[ev["j"] - 1], "f%d" % ev["f"], build_arg(ffi, ev["desc"], [], []))
                    elif op == "passobj":
                        o["ret"] = enc(ffi, get("sumr")(objs[ev["j"] - 1]))
                    elif op == "same":
                        o["ret"] = {"k": "pybool", "b": objs[ev["j"] - 1] is objs[ev["k"] - 1]}
                    elif op == "drop":
                        objs.pop(0)
                except Exception as e:
                    o = {"exc": type(e).__name__, "ret": {"k": "none"}} if op != "static" else ["error", type(e).__name__]
                obs.append(o)
            res[build] = obs
        outf.write(json.dumps({"id": tr["id"], "obs": res}) + "\n")
        outf.flush()
    outf.close()
    open(out_path + ".ok", "w").close()


if __name__ == "__main__":
    main(sys.argv[1], sys.argv[2])
