"""Sub-process executor for C33 library behaviours (harness/call_lib.py).
usage: python -m harness.call_libexec <plan.json> <out.json>"""
import json, os, sys


def main(plan_path, out_path):
    sys.path.insert(0, os.path.dirname(os.path.dirname(os.path.abspath(__file__))))
    from harness import call_gen as G
    from harness.call_exec import build_arg, enc_result, load_paths
    with open(plan_path) as f:
        plan = json.load(f)
    paths = load_paths(plan)
    prog = open(out_path + ".progress", "w")
    res = {}
    for build in plan["paths"]:
        ffi, get = paths[build][0], paths[build][1]
        for tr in plan["cases"]:
            prog.write("%s %s\n" % (tr["id"], build))
            prog.flush()
            get("reset_all")()
            obs = []
            for ev in tr["events"]:
                op = ev["op"]
                o = {"exc": "", "ret": {"k": "none"}}
                try:
                    if op == "static":
                        if ev["what"] == "names":
                            o = sorted(n for n in dir(paths[build][2]) if not n.startswith("_"))
                        else:
                            o = [ffi.sizeof("struct P"), ffi.offsetof("struct P", "x")]
                    elif op == "readg":
                        o["ret"] = enc_result(ffi, getattr(paths[build][2], ev["name"]), [], G.tla_type_of_ctype, G.img8, G.le_bytes)
                    elif op == "writeg":
                        setattr(paths[build][2], ev["name"], build_arg(ffi, ev["desc"], [], []))
                    elif op == "getg":
                        o["ret"] = enc_result(ffi, get("get_%d" % ev["i"])(), [], G.tla_type_of_ctype, G.img8, G.le_bytes)
                    elif op == "setg":
                        get("set_%d" % ev["i"])(build_arg(ffi, ev["desc"], [], []))
                    elif op == "readc":
                        o["ret"] = enc_result(ffi, getattr(paths[build][2], ev["name"]), [], G.tla_type_of_ctype, G.img8, G.le_bytes)
                except Exception as e:
                    o = {"exc": type(e).__name__, "ret": {"k": "none"}} if op != "static" else ["error", type(e).__name__]
                obs.append(o)
            res.setdefault(str(tr["id"]), {})[build] = obs
    with open(out_path + ".tmp", "w") as f:
        json.dump(res, f)
    os.rename(out_path + ".tmp", out_path)


if __name__ == "__main__":
    main(sys.argv[1], sys.argv[2])
