"""C22 helper: a small C library in which *C code* observes and sets the real errno, driven
either in lock-step by a controller (one command per semaphore hand-off, so that a TLC
interleaving is reproduced exactly on real threads) or by a pre-recorded program (free-running
stress), plus the cffi front-ends that reach it through every call path:

  api   lib.cv_session(slot)                       API-mode builtin (_cffi_f_*, recompiler.py:743)
  ptr   ffi.addressof(lib,'cv_session')(slot)      cdata function pointer -> cdata_call/libffi
  dl    cffi.FFI().dlopen(helper).cv_session(slot) in-line ABI mode   -> cdata_call/libffi
  glob  lib.cv_glob  (read / write / addressof)    fetch_global_var_addr (cglob.c:63)
  cbk   ffi.callback("int(int)")                   invoke_callback (_cffi_backend.c:6289)
  ext   extern "Python" int cv_extpy(int)          cffi_call_python (call_python.c:205)

All plumbing (semaphores, command words, observation logs, clobbering the real errno) goes
through ctypes, never through cffi, so the harness itself performs no cffi call that could
touch the saved errno.
"""
import ctypes, os, sys, threading
from harness import core

C_SRC = r"""
#include <errno.h>
#include <semaphore.h>
#include <sched.h>
#include <time.h>
#include <string.h>
#include <pthread.h>

#define NSLOT 16
#define MAXOBS 4096
enum { C_SET = 1, C_CB = 2, C_RET = 3, C_YIELD = 4 };
typedef int (*cb_t)(int);

typedef struct {
    sem_t go, done;
    volatile int cmd, arg;        /* lock-step command word (written by the controller) */
    cb_t cb[2];                   /* 0: ffi.callback closure, 1: extern "Python" function */
    int glob;                     /* storage behind the API-mode global variable */
    const int *next_prog;         /* program of the next session (NULL: lock-step) */
    int next_n;
    int *next_obs;                /* observation buffer of the next session */
    volatile int obs[MAXOBS];     /* lock-step observation log */
    volatile int nobs;
    volatile int sessions;        /* number of sessions entered (sanity) */
} slot_t;

static slot_t S[NSLOT];
static __thread int cur_slot = -1;

static void w(sem_t *s) { while (sem_wait(s) != 0 && errno == EINTR) ; }

int cv_init(void)
{
    int i;
    memset(S, 0, sizeof(S));
    for (i = 0; i < NSLOT; i++) {
        if (sem_init(&S[i].go, 0, 0) != 0 || sem_init(&S[i].done, 0, 0) != 0)
            return -1;
    }
    return 0;
}
void cv_bind_slot(int slot) { cur_slot = slot; }
int cv_cur_slot(void) { return cur_slot; }
void cv_set_cb(int slot, int kind, void *p) { S[slot].cb[kind] = (cb_t)p; }
void cv_prepare(int slot, const int *prog, int n, int *obs)
{ S[slot].next_prog = prog; S[slot].next_n = n; S[slot].next_obs = obs; }

/* controller side */
void cv_post_go(int slot, int cmd, int arg) { S[slot].cmd = cmd; S[slot].arg = arg; sem_post(&S[slot].go); }
int cv_wait_done(int slot, int seconds)
{
    struct timespec ts;
    clock_gettime(CLOCK_REALTIME, &ts);
    ts.tv_sec += seconds;
    for (;;) {
        if (sem_timedwait(&S[slot].done, &ts) == 0) return 0;
        if (errno != EINTR) return -1;
    }
}
/* worker side, Python level */
int cv_wait_go(int slot) { w(&S[slot].go); return S[slot].cmd; }
int cv_arg(int slot) { return S[slot].arg; }
void cv_post_done(int slot) { sem_post(&S[slot].done); }
int cv_nobs(int slot) { return S[slot].nobs; }
int cv_obs(int slot, int i) { return S[slot].obs[i]; }
int cv_sessions(int slot) { return S[slot].sessions; }
void cv_reset(int slot) { S[slot].nobs = 0; S[slot].sessions = 0; S[slot].next_prog = 0; S[slot].next_obs = 0; }

/* the real errno of the calling thread, without cffi in between */
void cv_raw_set_errno(int v) { errno = v; }
int cv_raw_get_errno(void) { return errno; }

static int session_core(int slot)
{
    slot_t *s = &S[slot];
    int e = errno;                       /* what this C function sees on entry */
    const int *prog = s->next_prog;
    int n = s->next_n, *obs = s->next_obs, k = 0, i;
    s->next_prog = 0; s->next_obs = 0;
    s->sessions++;
    if (obs != 0) {                       /* programmed session (free-running) */
        obs[k++] = e;
        for (i = 0; i + 1 < n; i += 2) {
            int op = prog[i], arg = prog[i + 1];
            if (op == C_SET) { e = arg; }
            else if (op == C_YIELD) { int j; for (j = 0; j < arg; j++) sched_yield(); }
            else if (op == C_CB) {
                int r;
                errno = e;
                r = s->cb[arg & 1](arg);
                e = errno;                /* what C sees when the callback has returned */
                obs[k++] = e;
                obs[k++] = r;
            }
            else if (op == C_RET) { errno = e; return arg; }
        }
        errno = e;
        return 0;
    }
    /* lock-step session */
    s->obs[s->nobs++ % MAXOBS] = e;
    for (;;) {
        sem_post(&s->done);               /* acknowledge the entry / the previous command */
        w(&s->go);
        switch (s->cmd) {
        case C_SET: e = s->arg; break;
        case C_CB: {
            int r;
            errno = e;
            r = s->cb[s->arg & 1](s->arg);   /* acknowledged from Python inside the callback */
            e = errno;
            s->obs[s->nobs++ % MAXOBS] = e;
            s->obs[s->nobs++ % MAXOBS] = r;
            break; }
        case C_RET: errno = e; return s->arg;  /* acknowledged from Python after the return */
        default: break;
        }
    }
}

int cv_session(int slot) { return session_core(slot); }
int *cv_glob_addr(void) { int slot = cur_slot; session_core(slot); return &S[slot].glob; }
int cv_glob_value(int slot) { return S[slot].glob; }

/* a session on a thread that Python did not create: the bottom frame is C code that was not
   entered through cffi at all */
static void *raw_main(void *arg)
{
    int slot = (int)(long)arg;
    cur_slot = slot;
    errno = S[slot].arg;
    session_core(slot);
    sem_post(&S[slot].done);
    return 0;
}
int cv_spawn_raw(int slot, int initial_errno)
{
    pthread_t th;
    pthread_attr_t a;
    int r;
    S[slot].arg = initial_errno;
    pthread_attr_init(&a);
    pthread_attr_setdetachstate(&a, PTHREAD_CREATE_DETACHED);
    r = pthread_create(&th, &a, raw_main, (void *)(long)slot);
    pthread_attr_destroy(&a);
    return r;
}
"""

H_DECL = """
int cv_session(int slot);
int *cv_glob_addr(void);
"""

C_SET, C_CB, C_RET, C_YIELD = 1, 2, 3, 4
# Python-level command words (sent through the same go/done semaphores)
PY_SET, PY_GET, PY_CLOBBER, PY_CALL, PY_RETURN, PY_EXIT = 11, 12, 13, 14, 15, 16
PATHS = ("api", "ptr", "dl", "glob")
KINDS = ("cbk", "ext")
NSLOT = 16
TIMEOUT = 120


class Env:
    """Built once per check run: helper library, API-mode module, in-line FFI."""

    def __init__(self, tmpdir, tag="cv22"):
        import cffi
        self.tmp = tmpdir
        self.libpath = os.path.join(tmpdir, "lib%s.so" % tag)
        core.gcc_shared(C_SRC, self.libpath, flags=["-pthread"])
        self.h = ctypes.CDLL(self.libpath)
        h = self.h
        h.cv_set_cb.argtypes = [ctypes.c_int, ctypes.c_int, ctypes.c_void_p]
        h.cv_prepare.argtypes = [ctypes.c_int, ctypes.c_void_p, ctypes.c_int, ctypes.c_void_p]
        for n in ("cv_post_go", "cv_post_done", "cv_bind_slot", "cv_reset", "cv_raw_set_errno", "cv_set_cb",
                  "cv_prepare"):
            getattr(h, n).restype = None
        if h.cv_init() != 0:
            raise core.MachineryError("sem_init failed")
        # ---- API-mode module (linked against the helper library, so that ctypes, the
        # module and the in-line dlopen all talk to the same slots)
        modname = "_%s_api" % tag
        ffi = cffi.FFI()
        ffi.cdef("""
            int cv_session(int slot);
            extern int cv_glob;
            extern "Python" int cv_extpy(int);
        """)
        ffi.set_source(modname, H_DECL + "\n#define cv_glob (*cv_glob_addr())\n")
        cpath = os.path.join(tmpdir, modname + ".c")
        ffi.emit_c_code(cpath)
        core.build_ext_module(modname, cpath, tmpdir,
                              flags=["-L" + tmpdir, "-l" + tag, "-Wl,-rpath," + tmpdir])
        if tmpdir not in sys.path:
            sys.path.insert(0, tmpdir)
        mod = __import__(modname)
        self.api_ffi, self.api_lib = mod.ffi, mod.lib
        self.api_ptr = self.api_ffi.addressof(self.api_lib, "cv_session")
        # ---- in-line ABI mode
        self.dl_ffi = cffi.FFI()
        self.dl_ffi.cdef("int cv_session(int slot);")
        self.dl_lib = self.dl_ffi.dlopen(self.libpath)
        self.handlers = {}            # slot -> callable(kind, x): the Python side of a callback
        env = self

        @self.api_ffi.def_extern()
        def cv_extpy(x):
            return env.handlers[h.cv_cur_slot()]("ext", x)

        def _cbk(x):
            return env.handlers[h.cv_cur_slot()]("cbk", x)
        # one closure per front-end FFI; error=-1 so that an exception in the harness is visible
        self.cbk_api = self.api_ffi.callback("int(int)", _cbk, error=-99)
        self.cbk_dl = self.dl_ffi.callback("int(int)", _cbk, error=-99)
        self.ext_ptr = self.api_ffi.addressof(self.api_lib, "cv_extpy")
        self._keep = [_cbk, cv_extpy]

    # ------------------------------------------------------------------ per-thread set-up
    def bind(self, slot, on_callback, family, this_thread=True):
        """Called on the worker thread itself (this_thread=False: for a raw thread, which
        binds its slot in C)."""
        h = self.h
        if this_thread:
            h.cv_bind_slot(slot)
        self.handlers[slot] = on_callback
        cbk = self.cbk_dl if family == "dl" else self.cbk_api
        ffi = self.dl_ffi if family == "dl" else self.api_ffi
        h.cv_set_cb(slot, 0, int(ffi.cast("intptr_t", cbk)))
        h.cv_set_cb(slot, 1, int(self.api_ffi.cast("intptr_t", self.ext_ptr)))

    def ffi_for(self, family, rnd=None):
        """The FFI object whose .errno a thread of this family uses."""
        if family == "api":
            return self.api_ffi
        if family == "dl":
            return self.dl_ffi
        return self.api_ffi if rnd.random() < 0.5 else self.dl_ffi      # 'mixed'

    def call(self, path, slot, sub=0):
        """Enter C through `path`; returns cv_session's return value (or the global's value)."""
        if path == "api":
            return self.api_lib.cv_session(slot)
        if path == "ptr":
            return self.api_ptr(slot)
        if path == "dl":
            return self.dl_lib.cv_session(slot)
        if path == "glob":
            if sub % 3 == 0:
                return ("glob-read", self.api_lib.cv_glob)
            if sub % 3 == 1:
                self.api_lib.cv_glob = sub
                return ("glob-write", self.h.cv_glob_value(slot))
            p = self.api_ffi.addressof(self.api_lib, "cv_glob")
            return ("glob-addr", p[0])
        raise core.MachineryError("unknown path %r" % (path,))


PATHS_OF = {"api": ("api", "ptr", "glob"), "dl": ("dl",), "mixed": PATHS}
KINDS_OF = {"api": ("cbk", "ext"), "dl": ("cbk",), "mixed": KINDS}


class LockStep:
    """Controller for exact replay of an interleaving: every step is one command to one
    thread, acknowledged before the next one is issued."""

    def __init__(self, env, threads, families, raw=(), rnd=None):
        self.env, self.h = env, env.h
        self.threads = list(threads)
        self.family = dict(families)
        self.slot = {t: i for i, t in enumerate(self.threads)}
        self.raw = set(raw)
        self._rnd = rnd
        self.got = {t: [] for t in self.threads}     # Python-level observations (ffi.errno reads)
        self.rets = {t: [] for t in self.threads}
        self.errors = []
        self.nobs_seen = {t: 0 for t in self.threads}
        self.ths = {}
        self.sub = 0
        for t in self.threads:
            self.h.cv_reset(self.slot[t])
        for t in self.threads:
            if t in self.raw:
                env.bind(self.slot[t], lambda kind, x, t=t: self._in_callback(t, kind, x), self.family[t],
                         this_thread=False)
                continue
            th = threading.Thread(target=self._worker, args=(t,), daemon=True)
            self.ths[t] = th
            th.start()
            self._wait(t)

    # ---------------------------------------------------------------- worker
    def _worker(self, t):
        slot = self.slot[t]
        try:
            self.env.bind(slot, lambda kind, x: self._in_callback(t, kind, x), self.family[t])
            self.h.cv_post_done(slot)
            self._pyloop(t, False)
        except BaseException as e:        # noqa
            self.errors.append((t, repr(e)))
            self.h.cv_post_done(slot)

    def _in_callback(self, t, kind, x):
        slot = self.slot[t]
        self.h.cv_post_done(slot)         # acknowledges CbEnter
        try:
            return self._pyloop(t, True)
        except BaseException as e:        # noqa
            self.errors.append((t, repr(e)))
            self.h.cv_post_done(slot)
            return -98

    def _pyloop(self, t, in_cb):
        h, slot, env = self.h, self.slot[t], self.env
        while True:
            cmd = h.cv_wait_go(slot)
            arg = h.cv_arg(slot)
            if cmd == PY_SET:
                env.ffi_for(self.family[t], self._rnd).errno = arg
            elif cmd == PY_GET:
                self.got[t].append(env.ffi_for(self.family[t], self._rnd).errno)
            elif cmd == PY_CLOBBER:
                h.cv_raw_set_errno(arg)
                try:
                    os.stat("/nonexistent/cv22")      # real Python activity that sets errno
                except OSError:
                    pass
                h.cv_raw_set_errno(arg)
            elif cmd == PY_CALL:
                r = env.call(PATHS[arg & 3], slot, arg >> 2)
                self.rets[t].append(r)
            elif cmd == PY_RETURN:
                if not in_cb:
                    raise core.MachineryError("return outside a callback")
                return arg
            elif cmd == PY_EXIT:
                h.cv_post_done(slot)
                return 0
            else:
                raise core.MachineryError("bad python-level command %r" % cmd)
            h.cv_post_done(slot)

    # ---------------------------------------------------------------- controller
    def _wait(self, t):
        if self.h.cv_wait_done(self.slot[t], TIMEOUT) != 0:
            raise core.MachineryError("lock-step: thread %r did not acknowledge within %d s (errors: %r)"
                                      % (t, TIMEOUT, self.errors))
        if self.errors:
            raise core.MachineryError("lock-step worker failed: %r" % (self.errors,))

    def _cobs(self, t):
        """New C-level observations of thread t since the last look."""
        slot = self.slot[t]
        n = self.h.cv_nobs(slot)
        out = [self.h.cv_obs(slot, i % 4096) for i in range(self.nobs_seen[t], n)]
        self.nobs_seen[t] = n
        return out

    def step(self, act, t, *a):
        """Perform one model action on thread t; returns the observed value or None."""
        h, slot = self.h, self.slot[t]
        if act == "Set":
            h.cv_post_go(slot, PY_SET, a[0]); self._wait(t); return None
        if act == "Get":
            h.cv_post_go(slot, PY_GET, 0); self._wait(t); return self.got[t][-1]
        if act == "Clobber":
            h.cv_post_go(slot, PY_CLOBBER, a[0]); self._wait(t); return None
        if act == "CallEnter":
            self.sub += 1
            h.cv_post_go(slot, PY_CALL, PATHS.index(a[0]) | (self.sub << 2)); self._wait(t)
            o = self._cobs(t)
            if len(o) != 1:
                raise core.MachineryError("CallEnter: expected one entry observation, got %r" % (o,))
            return o[0]
        if act == "SpawnRaw":
            if h.cv_spawn_raw(slot, a[0]) != 0:
                raise core.MachineryError("pthread_create failed")
            self._wait(t)
            o = self._cobs(t)
            return o[0]
        if act == "CSet":
            h.cv_post_go(slot, C_SET, a[0]); self._wait(t); return None
        if act == "CbEnter":
            h.cv_post_go(slot, C_CB, KINDS.index(a[0])); self._wait(t); return None
        if act == "CbExit":
            rv = a[0] if a else 0
            h.cv_post_go(slot, PY_RETURN, rv); self._wait(t)
            o = self._cobs(t)
            if len(o) != 2 or o[1] != rv:
                raise core.MachineryError("CbExit: observation log %r (returned %r)" % (o, rv))
            return o[0]
        if act == "CallExit":
            h.cv_post_go(slot, C_RET, a[0] if a else 0); self._wait(t); return None
        raise core.MachineryError("unknown action %r" % (act,))

    def close(self, stacks):
        """Unwind every thread (stacks[t] = current model stack) and join."""
        for t in self.threads:
            depth = len(stacks.get(t, ()))
            base_raw = t in self.raw
            while depth > 0:
                if depth % 2 == 1:
                    if base_raw and depth == 1:
                        self.h.cv_post_go(self.slot[t], C_RET, 0); self._wait(t)
                    else:
                        self.step("CallExit", t)
                else:
                    self.step("CbExit", t)
                depth -= 1
            if t in self.ths:
                self.h.cv_post_go(self.slot[t], PY_EXIT, 0)
                self._wait(t)
                self.ths[t].join(TIMEOUT)
