"""Parser for TLC's printed values and for `-dump dot,actionlabels` state graphs."""
import re


class _P:
    def __init__(self, s):
        self.s, self.i = s, 0

    def ws(self):
        while self.i < len(self.s) and self.s[self.i] in " \t\r\n":
            self.i += 1

    def peek(self, t):
        self.ws()
        return self.s.startswith(t, self.i)

    def eat(self, t):
        self.ws()
        if not self.s.startswith(t, self.i):
            raise ValueError("expected %r at %d: %r" % (t, self.i, self.s[self.i:self.i + 40]))
        self.i += len(t)

    def value(self):
        self.ws()
        s = self.s
        c = s[self.i]
        if s.startswith("<<", self.i):
            self.i += 2
            out = []
            if self.peek(">>"):
                self.eat(">>")
                return tuple(out)
            while True:
                out.append(self.value())
                if self.peek(","):
                    self.eat(",")
                else:
                    self.eat(">>")
                    return tuple(out)
        if c == "{":
            self.i += 1
            out = []
            if self.peek("}"):
                self.eat("}")
                return frozenset()
            while True:
                out.append(self.value())
                if self.peek(","):
                    self.eat(",")
                else:
                    self.eat("}")
                    return frozenset(out)
        if c == "[":
            self.i += 1
            d = {}
            while True:
                self.ws()
                m = re.compile(r"[A-Za-z_0-9]+").match(s, self.i)
                key = m.group(0)
                self.i = m.end()
                self.eat("|->")
                d[key] = self.value()
                if self.peek(","):
                    self.eat(",")
                else:
                    self.eat("]")
                    return d
        if c == "(":
            self.i += 1
            d = {}
            while True:
                k = self.value()
                self.eat(":>")
                d[k] = self.value()
                if self.peek("@@"):
                    self.eat("@@")
                else:
                    self.eat(")")
                    return d
        if c == '"':
            j = self.i + 1
            out = ""
            while s[j] != '"':
                if s[j] == "\\":
                    j += 1
                out += s[j]
                j += 1
            self.i = j + 1
            return out
        m = re.compile(r"-?\d+").match(s, self.i)
        if m:
            self.i = m.end()
            # a..b interval
            if s.startswith("..", self.i):
                self.i += 2
                m2 = re.compile(r"-?\d+").match(s, self.i)
                self.i = m2.end()
                return frozenset(range(int(m.group(0)), int(m2.group(0)) + 1))
            return int(m.group(0))
        m = re.compile(r"[A-Za-z_][A-Za-z_0-9]*").match(s, self.i)
        if m:
            self.i = m.end()
            w = m.group(0)
            return True if w == "TRUE" else False if w == "FALSE" else w
        raise ValueError("cannot parse at %d: %r" % (self.i, s[self.i:self.i + 40]))


def parse_value(s):
    p = _P(s)
    v = p.value()
    p.ws()
    if p.i != len(p.s):
        raise ValueError("trailing text: %r" % p.s[p.i:p.i + 40])
    return v


def parse_state(text):
    """'/\\ a = 1\n/\\ b = <<>>' -> {'a': 1, 'b': ()}"""
    st = {}
    parts = re.split(r"(?:^|\n)\s*/\\ ", text)
    for part in parts:
        part = part.strip()
        if not part:
            continue
        name, val = part.split(" = ", 1)
        st[name.strip()] = parse_value(val)
    return st


_NODE = re.compile(r'^(-?\d+) \[label="((?:[^"\\]|\\.)*)"')
_EDGE = re.compile(r'^(-?\d+) -> (-?\d+) \[label="((?:[^"\\]|\\.)*)"')


def _unescape(s):
    return s.replace("\\n", "\n").replace('\\"', '"').replace("\\\\", "\\")


class Graph:
    def __init__(self):
        self.states, self.init, self.out = {}, [], {}

    def succ(self, n):
        return self.out.get(n, [])


def load_dot(path, parse=True):
    g = Graph()
    with open(path) as f:
        for line in f:
            m = _EDGE.match(line)
            if m:
                a, b, lab = m.group(1), m.group(2), _unescape(m.group(3))
                mm = re.match(r"(\w+)(?:\((.*)\))?$", lab)
                name = mm.group(1)
                args = tuple(parse_value(x) for x in _top_split(mm.group(2))) if mm.group(2) else ()
                g.out.setdefault(a, []).append((name, args, b))
                continue
            m = _NODE.match(line)
            if m:
                txt = _unescape(m.group(2))
                g.states[m.group(1)] = parse_state(txt) if parse else txt
                if "style = filled" in line:
                    g.init.append(m.group(1))
    return g


def _top_split(s):
    parts, depth, cur, k = [], 0, "", 0
    while k < len(s):
        if s.startswith("<<", k):
            depth += 1; cur += "<<"; k += 2; continue
        if s.startswith(">>", k):
            depth -= 1; cur += ">>"; k += 2; continue
        c = s[k]
        if c in "{[(":
            depth += 1
        elif c in "}])":
            depth -= 1
        if c == "," and depth == 0:
            parts.append(cur); cur = ""
        else:
            cur += c
        k += 1
    if cur.strip():
        parts.append(cur)
    return parts


def walks(g, rng, n, maxlen=200):
    """n random maximal walks from the initial states: lists of (action, args, state)."""
    res = []
    for _ in range(n):
        cur = rng.choice(g.init)
        path = []
        for _i in range(maxlen):
            succ = [e for e in g.succ(cur) if e[2] != cur]
            if not succ:
                break
            e = rng.choice(succ)
            path.append((e[0], e[1], g.states[e[2]]))
            cur = e[2]
        res.append(path)
    return res


def all_paths(g, limit=None, maxlen=200):
    """Every maximal path of an acyclic graph (DFS), up to `limit` paths."""
    res = []

    def rec(cur, path):
        if limit is not None and len(res) >= limit:
            return
        succ = [e for e in g.succ(cur) if e[2] != cur]
        if not succ or len(path) >= maxlen:
            res.append(list(path))
            return
        for e in succ:
            path.append((e[0], e[1], g.states[e[2]]))
            rec(e[2], path)
            path.pop()
    for i in g.init:
        rec(i, [])
    return res
