"""Worker process of the C29 check: one *session* = one operation history on ffi.callback() objects
in a fresh process (the closure allocator of _cffi_backend is process-wide state).

argv[1]: JSON config {"helper": path of the C caller library, "careful": bool}
stdin  : one JSON document: list of operations
           ["create", c, sig] ["createfail"] ["reject"] ["drop", c] ["dropcyc", c] ["gc"]
           ["createoom", c, sig, n]      ffi.callback() with the n-th memory allocation failing
                                         (_testcapi.set_nomemory): MemoryError, or a callback c that is
                                         called once and dropped at once (same net effect on the allocator)
           ["call", c, via, args]          via: "cdata" | "C"
           ["create", c, sig, mode]        mode "n" (no error value) | "e" (own error value) | "eo" (own error
                                           value and own onerror handler)
           ["call", c, via, args, body]    an invocation observed in two steps (events begin ... end): via is
                                           "raw" | "rawC" (a non-owning function pointer cast, called directly
                                           or from C: nothing but the table of the worker keeps the callback
                                           alive); body = {"ops": [operations executed INSIDE c's Python
                                           function, possibly dropping c itself, creating callbacks that reuse
                                           its closure, nested calls], "raise": bool (the function then raises)}
stdout : one JSON line per event (flushed after every line in careful mode, preceded by {"at": i})
"""
import sys, json, gc, weakref

SIGS = {"i": "int(int)", "d": "double(double, double)", "q": "long long(long long, int)",
        "h": "short(short, signed char)", "v": "void(void)"}
HELPER_CDEF = """
int cv29_call_i(int (*f)(int), int a);
double cv29_call_d(double (*f)(double, double), double a, double b);
long long cv29_call_q(long long (*f)(long long, int), long long a, int b);
short cv29_call_h(short (*f)(short, signed char), short a, signed char b);
void cv29_call_v(void (*f)(void));
"""


def enc(v):
    if v is None:
        return ["v", 0]
    if isinstance(v, bool):
        return ["b", int(v)]
    if isinstance(v, int):
        return ["i", v] if abs(v) < 2 ** 31 else ["I", str(v)]
    if isinstance(v, float):
        return ["d", int(v)] if v == int(v) and abs(v) < 2 ** 31 else ["D", repr(v)]
    return ["?", repr(v)]


def main():
    cfg = json.loads(sys.argv[1])
    careful = cfg.get("careful", False)
    ops = json.loads(sys.stdin.read())
    import cffi
    ffi = cffi.FFI()
    ffi.cdef(HELPER_CDEF)
    helper = ffi.dlopen(cfg["helper"])
    gc.disable()
    out = sys.stdout
    try:
        import _testcapi
        set_nomemory, remove_mem_hooks = _testcapi.set_nomemory, _testcapi.remove_mem_hooks
    except (ImportError, AttributeError):
        set_nomemory = remove_mem_hooks = None
    BTYPES = dict((k, ffi.typeof(v.replace("(", "(*)(", 1))) for k, v in SIGS.items())
    backend_callback = ffi._backend.callback
    RAN, RECV, RETD = [], [], []
    PEND, LOG, HLOG, DEPTH = [], [], [], [0]

    class Sink(object):
        def write(self, x):
            pass

        def flush(self):
            pass
    sink = Sink()

    class Boom(Exception):
        pass

    def errvalue(c, s, mode):
        if s == "v":
            return None
        if mode == "n":
            return 0.0 if s == "d" else 0
        if s == "i":
            return -1 - c % 100000
        if s == "d":
            return float(-2 - c % 1000)
        if s == "q":
            return -(2 ** 40) - c
        return -3 - c % 20000

    def result(c, s, args):
        if s == "i":
            return args[0] + c * 7
        if s == "d":
            return float(args[0] + args[1] + c)
        if s == "q":
            return args[0] * 2 + args[1] + c
        if s == "h":
            return (args[0] + args[1] + c) % 30000
        return None

    def make(c, s):
        def fn(*args):
            RAN.append(c)
            RECV.append(args)
            r = result(c, s, args)
            RETD.append(r)
            if not PEND:
                return r
            body = PEND.pop()
            d = DEPTH[0]
            rec = [d, c, r]
            LOG.append(rec)
            emit({"ev": "begin", "c": body["c"], "via": body["via"], "s": body["s"], "ran": [c],
                  "sent": body["sent"], "recv": [enc(a) for a in args]})
            DEPTH[0] = d + 1
            try:
                for op in body["ops"]:
                    run_op(op)
            finally:
                DEPTH[0] = d
            if body["raise"]:
                rec[2] = Boom
                raise Boom(c)
            return r
        return fn

    def make_onerror(c):
        def onerror(exc, val, tb):
            HLOG.append((DEPTH[0], c))
        return onerror

    cbs, sigs, cyc = {}, {}, {}

    def emit(e):
        out.write(json.dumps(e) + "\n")
        if careful:
            out.flush()

    def run_op(op):
        kind = op[0]
        if kind == "create":
            c, s = op[1], op[2]
            mode = op[3] if len(op) > 3 else "n"
            if mode == "n":
                cb = ffi.callback(SIGS[s], make(c, s))
            elif mode == "e" or s == "v":
                cb = backend_callback(BTYPES[s], make(c, s), errvalue(c, s, mode))
            else:
                cb = backend_callback(BTYPES[s], make(c, s), errvalue(c, s, mode), make_onerror(c))
            cbs[c], sigs[c] = cb, s
            emit({"ev": "create", "c": c, "s": s, "addr": int(ffi.cast("uintptr_t", cb)),
                  "errv": enc(errvalue(c, s, mode)), "oe": mode == "eo" and s != "v"})
            del cb          # the only reference is cbs[c]: "drop" frees it at once
        elif kind == "createfail":
            try:
                ffi.callback("int(int, ...)", make(-1, "i"))
            except NotImplementedError:
                emit({"ev": "createfail"})
            else:
                emit({"ev": "harness-error", "what": "variadic callback accepted"})
        elif kind == "createoom":
            c, s, n = op[1], op[2], op[3]
            if set_nomemory is None:
                emit({"ev": "skipped", "what": "no _testcapi.set_nomemory"})
                return
            fn, bt = make(c, s), BTYPES[s]
            cb = exc = None
            set_nomemory(n, n + 1)               # exactly one allocation fails
            try:
                try:
                    cb = backend_callback(bt, fn)
                finally:
                    remove_mem_hooks()
            except MemoryError:
                exc = "MemoryError"
            except Exception as e:               # noqa
                exc = type(e).__name__
            del fn
            if cb is None:
                emit({"ev": "createfail", "why": "oom", "n": n, "exc": exc})
            else:
                # the failing allocation was not reached (or absorbed): a real callback; use and drop it
                cbs[c], sigs[c] = cb, s
                emit({"ev": "create", "c": c, "s": s, "addr": int(ffi.cast("uintptr_t", cb)), "oom_n": n})
                del cb
                args = [3] if s == "i" else [3.0, 4.0] if s == "d" else [3, 4] if s in ("q", "h") else []
                del RAN[:], RECV[:], RETD[:]
                try:
                    ret, cexc = cbs[c](*args), ""
                except Exception as e:           # noqa
                    ret, cexc = None, type(e).__name__
                emit({"ev": "call", "c": c, "via": "cdata", "s": s, "ran": list(RAN), "sent": [enc(a) for a in args],
                      "recv": [enc(a) for a in RECV[-1]] if RECV else [["none", 0]],
                      "ret": enc(ret) if not cexc else ["exc", 0], "exc": cexc,
                      "exp": enc(RETD[-1]) if RETD else ["none", 0]})
                del cbs[c], sigs[c]
                emit({"ev": "drop", "c": c})
        elif kind == "reject":
            try:
                ffi.callback("int(int)", 42)
            except TypeError:
                emit({"ev": "reject"})
            else:
                emit({"ev": "harness-error", "what": "non-callable accepted"})
        elif kind in ("drop", "dropcyc", "call") and op[1] not in cbs:
            emit({"ev": "skipped", "what": "no such callback"})
        elif kind == "drop":
            c = op[1]
            del cbs[c]
            del sigs[c]
            emit({"ev": "drop", "c": c})
        elif kind == "dropcyc":
            c = op[1]
            cb = cbs.pop(c)
            del sigs[c]
            cell = [cb]
            cell.append(cell)
            cyc[c] = weakref.ref(cb)
            del cb, cell
            emit({"ev": "dropcyc", "c": c})
        elif kind == "gc":
            gc.collect()
            dead = sorted(c for c, w in cyc.items() if w() is None)
            for c in dead:
                del cyc[c]
            emit({"ev": "gc", "dropped": dead})
        elif kind == "call" and len(op) > 4:
            c, via, args, body = op[1], op[2], op[3], op[4]
            s = sigs[c]
            if s == "d":
                args = [float(a) for a in args]
            sent = [enc(a) for a in args]
            raw = ffi.cast(BTYPES[s], cbs[c])        # non-owning: c may be dropped while it runs
            d = DEPTH[0]
            n0, h0, p0 = len(LOG), len(HLOG), len(PEND)
            PEND.append({"c": c, "via": via, "s": s, "sent": sent, "ops": body["ops"], "raise": body["raise"]})
            exc = ""
            saved = sys.stderr
            sys.stderr = sink                        # cffi prints the traceback of a raising callback
            try:
                try:
                    if via == "raw":
                        ret = raw(*args)
                    else:
                        ret = getattr(helper, "cv29_call_" + s)(raw, *args)
                finally:
                    sys.stderr = saved
            except Exception as e:
                ret, exc = None, type(e).__name__
            del raw
            mine = [r for r in LOG[n0:] if r[0] == d]
            if len(PEND) > p0:                       # no function took the body: nothing ran
                del PEND[p0:]
                emit({"ev": "begin", "c": c, "via": via, "s": s, "ran": [], "sent": sent, "recv": [["none", 0]]})
            raised = bool(mine) and mine[0][2] is Boom
            emit({"ev": "end", "c": c, "via": via, "s": s, "how": "raise" if raised else "return",
                  "herr": [h[1] for h in HLOG[h0:] if h[0] == d],
                  "ret": enc(ret) if not exc else ["exc", 0], "exc": exc,
                  "exp": enc(mine[0][2]) if mine and not raised else ["none", 0]})
            if d == 0:
                del LOG[:], HLOG[:]
        elif kind == "call":
            c, via, args = op[1], op[2], op[3]
            s = sigs[c]
            if s == "d":
                args = [float(a) for a in args]
            del RAN[:], RECV[:], RETD[:]
            exc = ""
            try:
                if via == "cdata":
                    ret = cbs[c](*args)
                else:
                    ret = getattr(helper, "cv29_call_" + s)(cbs[c], *args)
            except Exception as e:
                ret, exc = None, type(e).__name__
            emit({"ev": "call", "c": c, "via": via, "s": s, "ran": list(RAN), "sent": [enc(a) for a in args],
                  "recv": [enc(a) for a in RECV[-1]] if RECV else [["none", 0]],
                  "ret": enc(ret) if not exc else ["exc", 0], "exp": enc(RETD[-1]) if RETD else ["none", 0],
                  "exc": exc})
        else:
            emit({"ev": "harness-error", "what": "unknown op %r" % (op,)})

    for opi, op in enumerate(ops):
        if careful:
            emit({"at": opi})
        run_op(op)
    emit({"ev": "end-of-session"})
    out.flush()


main()
