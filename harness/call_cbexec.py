"""Sub-process executor for harness/call_cb.py plans (C14).
usage: python -m harness.call_cbexec <plan.json> <out.json>"""
import importlib, json, os, sys


class Boom(Exception):
    pass


def main(plan_path, out_path):
    sys.path.insert(0, os.path.dirname(os.path.dirname(os.path.abspath(__file__))))
    from harness import call_gen as G, call_cb as CB
    from harness.call_exec import build_arg, enc_result
    with open(plan_path) as f:
        plan = json.load(f)
    sys.path.insert(0, plan["dir"])
    try:
        m = importlib.import_module(plan["module"])
    except Exception as e:          # the generated module cannot be imported: every invocation fails
        with open(out_path, "a") as outf:
            for case in plan["cases"]:
                outf.write(json.dumps({"id": case["id"], "obs": {"cb": {
                    "called": 0, "seen": [], "out": [], "escaped": "LoadError:" + type(e).__name__, "reports": 0}}}) + "\n")
        open(out_path + ".ok", "w").close()
        return
    ffi, lib = m.ffi, m.lib
    sigs = [(s[0], tuple(s[1])) for s in plan["sigs"]]
    cells = [lib.cb_cells + j for j in range(CB.NCELLS)]
    base = int(ffi.cast("uintptr_t", lib.cb_cells))
    reports = []
    sys.unraisablehook = lambda u: reports.append(type(u.exc_value).__name__)
    out = ffi.new("unsigned char[128]")

    def build(d):
        if d[0] == "cbcell":
            return lib.cb_cells + d[1]
        if d[0] in ("list", "tuple"):
            r = [build(x) for x in d[1]]
            return r if d[0] == "list" else tuple(r)
        if d[0] == "dict":
            return dict(("f%d" % (i + 1), build(x)) for i, x in d[1])
        return build_arg(ffi, d, [], [])

    def enc(v):
        return enc_result(ffi, v, cells, G.tla_type_of_ctype, G.img8, G.le_bytes)

    def image(rt, addr_of_out):
        """what the C caller received, as the TLA image of the result type"""
        if rt == "void":
            return []
        ct = ffi.typeof(G.cname(rt))
        if rt == "ld":
            return G.img8(float(ffi.cast("long double *", out)[0]))
        if rt.startswith("p_"):
            a = int(ffi.cast("uintptr_t", ffi.cast("void **", out)[0]))
            if a == 0:
                return [{"ref": "null", "id": 0, "data": []}]
            j = (a - base) // 4
            if 0 <= j < CB.NCELLS and (a - base) % 4 == 0:
                return [{"ref": "cell", "id": j + 1, "data": []}]
            return [{"ref": "wild", "id": 0, "data": []}]
        if rt in G.STRUCTS:
            res = []
            for name, fld in ct.fields:
                res += list(ffi.buffer(out + fld.offset, ffi.sizeof(fld.type))[:])
            return res
        return list(ffi.buffer(out, ffi.sizeof(ct))[:])

    prog = open(out_path + ".progress", "w")
    outf = open(out_path, "a")
    done = set(plan.get("done", []))
    skip = set((c, p) for c, p in plan.get("skip", []))
    for case in plan["cases"]:
        if case["id"] in done:
            continue
        if (case["id"], case["mode"]) in skip:      # this invocation killed an earlier run of the plan
            outf.write(json.dumps({"id": case["id"], "obs": {"cb": {"called": 0, "seen": [], "out": [],
                                                                      "escaped": "Crash", "reports": 0}}}) + "\n")
            outf.flush()
            continue
        prog.write("%s %s\n" % (case["id"], case["mode"]))
        prog.flush()
        k = case["k"]
        rt, args = sigs[k]
        seen, called = [], [0]
        del reports[:]
        retobj = build(case["body"][1]) if case["body"][0] == "ret" else None
        errobj = build(case["err"]) if case["err"] is not None else None
        onobj = build(case["onerr"][1]) if case["onerr"][0] == "value" else None

        def body(*a):
            called[0] += 1
            for x in a:
                seen.append(enc(x))
            if case["body"][0] == "raise":
                raise Boom("body")
            return retobj

        def onerror(e, v, tb):
            if case["onerr"][0] == "raise":
                raise Boom("onerror")
            return onobj
        kw = {}
        if errobj is not None:
            kw["error"] = errobj
        if case["onerr"][0] != "absent":
            kw["onerror"] = onerror
        ffi.buffer(out)[:] = b"\xaa" * 128
        escaped = ""
        try:
            if case["mode"] == "callback":
                fn = ffi.callback(CB.fn_type((rt, args)), body, **kw)
                getattr(lib, "call_cb_%d" % k)(fn, case["row"], out)
            else:
                ffi.def_extern(name="ep_%d" % k, **kw)(body)
                getattr(lib, "call_ep_%d" % k)(case["row"], out)
        except BaseException as e:
            escaped = type(e).__name__
        outf.write(json.dumps({"id": case["id"], "obs": {"cb": {"called": called[0], "seen": seen, "out": image(rt, out),
                                                                "escaped": escaped, "reports": len(reports)}}}) + "\n")
        outf.flush()
    outf.close()
    open(out_path + ".ok", "w").close()


if __name__ == "__main__":
    main(sys.argv[1], sys.argv[2])
