"""Integer constant expressions for C09: trees in the vocabulary of specs/ConstExpr.tla, a typed
evaluator used ONLY to generate expressions that C defines (the oracle is the specification),
rendering, a gcc probe printing type and value of every sub-expression, and the measurement of
what cffi reports in each context (array length, enumerator, bit-field width, #define, static
const) and mode (in-line, out-of-line ABI, API).

tree ::= {"op":"lit","base":"dec"|"oct"|"hex","mag":int,"suf":""|"u"|"l"|"ul"|"ll"|"ull"}
       | {"op":"chr","esc":bool,"ch":int} | {"op":"neg"|"pos","a":tree} | {"op":<binop>,"a":tree,"b":tree}
"""
import contextlib, importlib, io, json, os, subprocess, sys
from harness.types_enum import enc, dec, LB

INT, UINT, LONG, ULONG = (32, True), (32, False), (64, True), (64, False)
BINOPS = ["+", "-", "*", "/", "%", "<<", ">>", "&", "|", "^"]
ESC = {"n": 10, "t": 9, "r": 13, "0": 0, "a": 7, "b": 8, "f": 12, "v": 11, "\\": 92, "'": 39, '"': 34, "?": 63,
       "1": 1, "2": 2, "3": 3, "4": 4, "5": 5, "6": 6, "7": 7}
CTX_RANGE = {"array": (1, 2**31 - 1), "enum": (-2**63, 2**64 - 1), "bitfield": (1, 32),
             "define": (0, 2**64 - 1), "const": (-2**63, 2**64 - 1)}


def fits(v, t):
    return (-(1 << (t[0] - 1)) <= v < (1 << (t[0] - 1))) if t[1] else (0 <= v < (1 << t[0]))


def wrap(v, t):
    v &= (1 << t[0]) - 1
    return v - (1 << t[0]) if t[1] and v >> (t[0] - 1) else v


def lit_types(base, suf):
    if suf == "":
        return [INT, LONG] if base == "dec" else [INT, UINT, LONG, ULONG]
    if suf == "u":
        return [UINT, ULONG]
    if suf in ("l", "ll"):
        return [LONG] if base == "dec" else [LONG, ULONG]
    return [ULONG]


def ceval(e):
    """-> (type, value) or None where C leaves the expression undefined (generation filter only)"""
    op = e["op"]
    if op == "lit":
        for t in lit_types(e["base"], e["suf"]):
            if fits(e["mag"], t):
                return t, e["mag"]
        return None
    if op == "chr":
        if e["esc"]:
            return (INT, ESC[chr(e["ch"])]) if chr(e["ch"]) in ESC else None
        return INT, e["ch"]
    x = ceval(e["a"])
    if x is None:
        return None
    if op == "pos":
        return x
    if op == "neg":
        return intype(x[0], -x[1])
    y = ceval(e["b"])
    if y is None:
        return None
    if op in ("<<", ">>"):
        if not 0 <= y[1] < x[0][0]:
            return None
        if op == ">>":
            return x[0], x[1] >> y[1]
        if x[0][1] and x[1] < 0:
            return None
        return intype(x[0], x[1] << y[1])
    t = x[0] if x[0] == y[0] else (x[0] if x[0][0] > y[0][0] else y[0] if y[0][0] > x[0][0] else (x[0][0], False))
    a, b = wrap(x[1], t), wrap(y[1], t)
    if op == "+":
        return intype(t, a + b)
    if op == "-":
        return intype(t, a - b)
    if op == "*":
        return intype(t, a * b)
    if op in ("/", "%"):
        if b == 0:
            return None
        q = abs(a) // abs(b) * (-1 if (a < 0) != (b < 0) else 1)
        if not fits(q, t):
            return None
        return (t, q) if op == "/" else (t, a - q * b)
    r = a & b if op == "&" else a | b if op == "|" else a ^ b
    return t, wrap(r, t)


def intype(t, m):
    if not t[1]:
        return t, wrap(m, t)
    return (t, m) if fits(m, t) else None


def postorder(e):
    out = []
    for k in ("a", "b"):
        if k in e:
            out += postorder(e[k])
    return out + [e]


# --------------------------------------------------------------------------- rendering

SUF_SPELL = {"": [""], "u": ["u", "U"], "l": ["l", "L"], "ul": ["ul", "UL", "lu", "Lu", "uL"],
             "ll": ["ll", "LL"], "ull": ["ull", "ULL", "llu", "LLU", "uLL"]}


def render(e, rng=None):
    op = e["op"]
    if op == "lit":
        digits = {"dec": "%d", "oct": "0%o", "hex": "0x%X"}[e["base"]] % e["mag"]
        if rng is not None and e["base"] == "hex" and rng.random() < 0.3:
            digits = digits.lower()
        sp = SUF_SPELL[e["suf"]]
        return digits + (rng.choice(sp) if rng is not None else sp[0])
    if op == "chr":
        return "'%s%s'" % ("\\" if e["esc"] else "", chr(e["ch"]))
    if op in ("neg", "pos"):
        return "(%s%s)" % ("-" if op == "neg" else "+", render(e["a"], rng))
    sp = " "        # always: "0xE-3u" would be ONE preprocessing number in C ("invalid suffix")
    return "(%s%s%s%s%s)" % (render(e["a"], rng), sp, op, sp, render(e["b"], rng))


def to_json(e):
    """tree with magnitudes as limb sequences for TLC"""
    if e["op"] == "lit":
        return dict(e, mag=enc(e["mag"])["mag"])
    return {k: (to_json(v) if isinstance(v, dict) else v) for k, v in e.items()}


# --------------------------------------------------------------------------- generation

PLAIN_CH = [c for c in range(32, 127) if chr(c) not in "'\\"]
BOUND = [0, 1, 2, 3, 7, 8, 31, 32, 63, 64, 255, 2**31 - 1, 2**31, 2**32 - 1, 2**32, 2**63 - 1, 2**63, 2**64 - 1]


def random_leaf(rng):
    r = rng.random()
    if r < 0.10:
        return {"op": "chr", "esc": False, "ch": rng.choice(PLAIN_CH)}
    if r < 0.17:
        return {"op": "chr", "esc": True, "ch": ord(rng.choice(list(ESC)))}
    q = rng.random()
    if q < 0.45:
        v = rng.randint(0, 40)
    elif q < 0.75:
        v = max(0, rng.choice(BOUND) + rng.choice([0, 0, -1, 1]))
    else:
        v = rng.getrandbits(rng.choice([8, 16, 31, 32, 33, 63, 64]))
    base = rng.choice(["dec", "dec", "hex", "hex", "oct"])
    suf = rng.choice(["", "", "", "u", "u", "l", "ul", "ll", "ull"])
    return {"op": "lit", "base": base, "mag": v, "suf": suf}


def random_tree(rng, depth):
    if depth == 0 or rng.random() < 0.15:
        return random_leaf(rng)
    if rng.random() < 0.15:
        return {"op": rng.choice(["neg", "neg", "pos"]), "a": random_tree(rng, depth - 1)}
    return {"op": rng.choice(BINOPS), "a": random_tree(rng, depth - 1), "b": random_tree(rng, depth - 1)}


def pick_context(e, v, rng):
    """a context whose admissible range contains v (None if there is none)"""
    cands = []
    if e["op"] == "lit":
        cands += ["define", "define", "const"]
    elif e["op"] == "neg" and e["a"]["op"] == "lit":
        cands += ["const", "const"]
    for c in ("array", "enum", "bitfield", "bitfield"):
        cands.append(c)
    cands = [c for c in cands if CTX_RANGE[c][0] <= v <= CTX_RANGE[c][1]]
    return rng.choice(cands) if cands else None


def random_item(rng, ident, maxdepth=4):
    while True:
        e = random_tree(rng, rng.randint(0, maxdepth))
        r = ceval(e)
        if r is None:
            continue
        ctx = pick_context(e, r[1], rng)
        if ctx is not None:
            return make_item(ident, ctx, e, rng)


C_TYPE = {INT: "int", UINT: "unsigned int", LONG: "long", ULONG: "unsigned long"}


def make_item(ident, ctx, e, rng=None):
    text = render(e, rng)
    t, _v = ceval(e)
    if ctx == "array":
        decl = "typedef char a_%s[%s];" % (ident, text)
    elif ctx == "enum":
        decl = "enum e_%s { K_%s = %s };" % (ident, ident, text)
    elif ctx == "bitfield":
        decl = "struct s_%s { unsigned int f : %s; };" % (ident, text)
    elif ctx == "define":
        decl = "#define D_%s %s" % (ident, text.strip("()"))
    else:
        inner = text
        while inner.startswith("(") and inner.endswith(")"):
            inner = inner[1:-1]
        decl = "static const %s C_%s = %s;" % (C_TYPE[t], ident, inner)
    return {"id": ident, "ctx": ctx, "tree": e, "text": text, "decl": decl}


VMAP = {127: 2**31 - 1, 128: 2**31, 255: 2**32 - 1, 256: 2**32, 511: 2**63 - 1, 512: 2**63, 1023: 2**64 - 1}


def from_tlc(encv, leaves):
    """tree printed by MC_ConstExpr (8/10-bit world) -> tree with the same boundary values at 32/64 bits"""
    if encv[0] == "leaf":
        lf = dict(leaves[encv[1] - 1])
        if lf["op"] == "lit":
            m = sum(limb << (LB * i) for i, limb in enumerate(lf["mag"]))
            lf["mag"] = VMAP.get(m, m)
        return lf
    if len(encv) == 2:
        return {"op": encv[0], "a": from_tlc(encv[1], leaves)}
    return {"op": encv[0], "a": from_tlc(encv[1], leaves), "b": from_tlc(encv[2], leaves)}


# --------------------------------------------------------------------------- gcc

GCC_HEAD = """#include <stdio.h>
#define TC(x) _Generic((x), int:1, unsigned int:2, long:3, unsigned long:4, long long:5, unsigned long long:6, default:0)
#define P(id, x) printf("%s %d %d %llu\\n", id, TC(x), (x) < 0, (unsigned long long)(x))
int main(void) {
"""
TCODE = {1: INT, 2: UINT, 3: LONG, 4: ULONG, 5: LONG, 6: ULONG, 0: (0, False)}


def gcc_measure(items, workdir, jobs=4):
    """-> {id: [{"bits","sgn","v"} per node in post-order]}"""
    import concurrent.futures
    from harness import core
    chunks = [items[i::jobs] for i in range(jobs)]

    def one(k):
        lines = [GCC_HEAD]
        for it in chunks[k]:
            for n in postorder(it["tree"]):
                lines.append('  P("%s", %s);' % (it["id"], render(n)))
        lines.append("  return 0;\n}")
        return core.gcc_run("\n".join(lines), workdir, name="expr_probe_%d_%d" % (os.getpid(), k))
    res = {}
    with concurrent.futures.ThreadPoolExecutor(max_workers=jobs) as ex:
        for out in ex.map(one, [k for k in range(jobs) if chunks[k]]):
            for line in out.splitlines():
                i, tc, neg, u = line.split()
                t = TCODE[int(tc)]
                v = int(u) - 2**64 if neg == "1" else int(u)
                res.setdefault(i, []).append({"bits": t[0], "sgn": t[1], "v": enc(v)})
    return res


# --------------------------------------------------------------------------- cffi (sub-process)

def _get(ffi, lib, it):
    i, ctx = it["id"], it["ctx"]
    if ctx == "array":
        return ffi.sizeof("a_%s" % i)
    if ctx == "enum":
        a = getattr(lib, "K_%s" % i)
        b = ffi.typeof("enum e_%s" % i).relements["K_%s" % i]
        if a != b:
            raise AssertionError("lib.K = %r but relements = %r" % (a, b))
        return a
    if ctx == "bitfield":
        return ffi.typeof("struct s_%s" % i).fields[0][1].bitsize
    name = ("D_%s" if ctx == "define" else "C_%s") % i
    a = getattr(lib, name)
    if hasattr(ffi, "integer_const"):            # compiled FFIs only
        b = ffi.integer_const(name)
        if a != b:
            raise AssertionError("lib.%s = %r but integer_const = %r" % (name, a, b))
    return a


def measure_modes(job, workdir):
    import cffi
    from harness import core
    items, modes = job["items"], job["modes"]
    out = {it["id"]: [] for it in items}

    def obs(mode, it, f):
        try:
            v = int(f())
            out[it["id"]].append({"mode": mode, "ok": True, "err": "", "v": enc(v)})
        except Exception as e:
            out[it["id"]].append({"mode": mode, "ok": False, "err": "%s: %s" % (type(e).__name__, str(e)[:200]),
                                  "v": enc(0)})
    # in-line: one FFI, one cdef() per declaration so that a rejection is attributed to it
    ffi = cffi.FFI()
    accepted = []
    for it in items:
        try:
            ffi.cdef(it["decl"])
            accepted.append(it)
        except Exception as e:
            for mode in modes:
                out[it["id"]].append({"mode": mode, "ok": False, "err": "cdef: %s: %s" % (type(e).__name__, str(e)[:200]),
                                      "v": enc(0)})
    lib = ffi.dlopen(None)
    if "inline" in modes:
        for it in accepted:
            obs("inline", it, lambda: _get(ffi, lib, it))
    sys.path.insert(0, workdir)
    groups = job.get("groups") or [[it["id"] for it in accepted]]
    okids = set(it["id"] for it in accepted)
    byid = {it["id"]: it for it in items}
    for gi, mode in [(gi, m) for gi in range(len(groups)) for m in modes]:
        accepted = [byid[i] for i in groups[gi] if i in okids]
        src = "\n".join(it["decl"] for it in accepted)
        if mode == "inline" or not accepted:
            continue
        name = "_c09_%s_%s_%d" % (mode, job["tag"], gi)
        try:
            f2 = cffi.FFI()
            f2.cdef(src)
            f2.set_source(name, None if mode == "abi" else src)
            with contextlib.redirect_stdout(io.StringIO()):
                if mode == "abi":
                    f2.emit_python_code(os.path.join(workdir, name + ".py"))
                else:
                    f2.emit_c_code(os.path.join(workdir, name + ".c"))
            if mode == "api":
                core.build_ext_module(name, os.path.join(workdir, name + ".c"), workdir)
            mod = importlib.import_module(name)
            mffi = mod.ffi
            mlib = mod.lib if mode == "api" else mffi.dlopen(None)
        except Exception as e:
            for it in accepted:
                out[it["id"]].append({"mode": mode, "ok": False, "err": "module: %s: %s" % (type(e).__name__, str(e)[:300]),
                                      "v": enc(0)})
            continue
        for it in accepted:
            obs(mode, it, lambda: _get(mffi, mlib, it))
    return out


def measure_cffi(items, workdir, modes=("inline",), jobs=3, groups=None):
    """groups (optional): lists of ids; each list becomes one compiled module per non-inline mode"""
    from harness import core
    slim = [{k: it[k] for k in ("id", "ctx", "decl")} for it in items]
    if groups is not None:
        jobs = 1
    per = (len(slim) + jobs - 1) // jobs
    procs = []
    for j in range(jobs):
        part = slim[j * per:(j + 1) * per]
        if not part:
            continue
        wd = os.path.join(workdir, "c09_%d_%d_%d" % (os.getpid(), j, len(os.listdir(workdir))))
        os.makedirs(wd, exist_ok=True)
        with open(os.path.join(wd, "in.json"), "w") as f:
            json.dump({"items": part, "modes": list(modes), "tag": "%d_%d_%d" % (os.getpid(), j, len(os.listdir(workdir))),
                       "groups": groups}, f)
        procs.append((subprocess.Popen([core.PY, "-m", "harness.types_expr", wd], env=core.sub_env(), cwd=core.VERIF,
                                       stdout=subprocess.DEVNULL, stderr=subprocess.PIPE, text=True), wd))
    res = {}
    for pr, wd in procs:
        _o, err = pr.communicate()
        fout = os.path.join(wd, "out.json")
        if pr.returncode != 0 or not os.path.exists(fout):
            raise core.MachineryError("cffi constant-expression sub-process failed (exit %s):\n%s" % (pr.returncode, err[-2000:]))
        with open(fout) as f:
            res.update(json.load(f))
    return res


if __name__ == "__main__":
    import warnings
    warnings.simplefilter("ignore")
    wd = sys.argv[1]
    with open(os.path.join(wd, "in.json")) as f:
        job = json.load(f)
    result = measure_modes(job, wd)
    with open(os.path.join(wd, "out.json.tmp"), "w") as f:
        json.dump(result, f)
    os.rename(os.path.join(wd, "out.json.tmp"), os.path.join(wd, "out.json"))
