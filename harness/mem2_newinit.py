"""C20: random aggregate types and nested initializers, executed on the real cffi.

A type is a small Python AST (Prim / Arr / Agg); its C declaration is rendered for cdef and
its *layout* (offsets, bit shifts, sizes) is read back from cffi (layout is C01's subject).
What this module decides itself, independently of cffi's field flags, is the declared
structure: which flattened fields take part in positional initialization (the first member
of every union, recursively through anonymous members).
An initializer is produced twice: as the Python object given to cffi and as the tree
[k, b, items, n] given to the specification, with leaf values already encoded to bytes by
struct.pack (value encoding is C03/C05's subject).  A bytes/str initializer is given to the
specification as its characters (byte values / code points) and the unit width of the array
items: how many units it takes (UTF-16 surrogate pairs) is decided by the ideal, StrUnits."""
import struct
from harness import core

# code points at every boundary of the UTF-16 / UTF-32 encodings (first/last of each plane segment, both sides)
CP_BOUNDARY = [0x7F, 0x80, 0xFF, 0x100, 0xD7FF, 0xE000, 0xFFFD, 0xFFFF, 0x10000, 0x10001, 0x10FFFE, 0x10FFFF]

PRIMS = {  # name: (size, kind, chr (arrays accept bytes/str), ischar (CT_PRIMITIVE_CHAR))
    "signed char": (1, "b", 1, 0), "unsigned char": (1, "B", 1, 0), "char": (1, "char", 1, 1),
    "short": (2, "h", 0, 0), "unsigned short": (2, "H", 0, 0), "int": (4, "i", 0, 0),
    "unsigned int": (4, "I", 0, 0), "long long": (8, "q", 0, 0), "unsigned long long": (8, "Q", 0, 0),
    "float": (4, "f", 0, 0), "double": (8, "d", 0, 0), "char16_t": (2, "u16", 1, 1),
    "wchar_t": (4, "u32", 1, 1), "void *": (8, "ptr", 0, 0), "_Bool": (1, "bool", 0, 0),
}
GUARD = 256


def n_units(cps, w):
    """number of array items a bytes/str with these characters takes at unit width w (harness-side twin of the
    ideal's StrUnits; used only to bound what is generated and to size the allocation of new-then-assign)"""
    return len(cps) + (sum(1 for c in cps if c > 0xFFFF) if w == 2 else 0)
BITFIELD_TYPES = ["unsigned char", "short", "int", "unsigned int", "long long", "unsigned short"]


class Prim:
    def __init__(self, name):
        self.name = name
        self.size, self.kind, self.chr, self.ischar = PRIMS[name]


class Arr:
    def __init__(self, item, n):
        self.item, self.n = item, n          # n None: open


class Agg:
    def __init__(self, tag, union, members):
        self.tag, self.union, self.members = tag, union, members      # members: (name, type, bits|None)

    @property
    def kw(self):
        return "union" if self.union else "struct"


def mk(k, b=(), items=(), n=0):
    return {"k": k, "b": list(b), "items": list(items), "n": n}


class Lab:
    def __init__(self, rng, ffi=None):
        """ffi: an existing FFI (the ffi of a compiled API-mode module); default a fresh in-line FFI"""
        if ffi is None:
            import cffi
            ffi = cffi.FFI()
        self.ffi = ffi
        self.rng = rng
        self.ntag = 0
        self.keep = []
        self.sizes = []
        self.recs = {}

        def alloc(n):
            # the block handed to cffi is followed by a guard area, so that a write past the requested
            # size is observed instead of corrupting the heap
            self.sizes.append(n)
            b = ffi.new("char[]", n + GUARD)
            ffi.buffer(b)[n:] = b"\xA5" * GUARD
            self.blocks.append(b)
            return b
        self.blocks = []
        self.new_alloc = ffi.new_allocator(alloc=alloc, free=lambda p: None, should_clear_after_alloc=True)
        self.targets = [ffi.new("char[8]") for _ in range(3)]

    # ------------------------------------------------------------ C rendering
    def declarator(self, t, name):
        dims = ""
        while isinstance(t, Arr):
            dims += "[%s]" % ("" if t.n is None else t.n)
            t = t.item
        if isinstance(t, Prim):
            if t.name == "void *":
                return "void *%s%s" % (name, dims)
            return "%s %s%s" % (t.name, name, dims)
        if t.tag is None:
            return "%s { %s } %s%s" % (t.kw, self.body(t), name, dims)
        return "%s %s %s%s" % (t.kw, t.tag, name, dims)

    def body(self, agg):
        out = []
        for name, t, bits in agg.members:
            if bits is not None:
                out.append("%s %s:%d;" % (t.name, name, bits))
            elif name == "":
                out.append("%s { %s };" % (t.kw, self.body(t)))
            else:
                out.append(self.declarator(t, name) + ";")
        return " ".join(out)

    def named_aggs(self, t, acc):
        while isinstance(t, Arr):
            t = t.item
        if isinstance(t, Agg):
            for _n, mt, _b in t.members:
                self.named_aggs(mt, acc)
            if t.tag is not None and t not in acc:
                acc.append(t)
        return acc

    def decl_of(self, a):
        s = "%s %s { %s };\n" % (a.kw, a.tag, self.body(a))
        if getattr(a, "typedef", None):
            s += "typedef %s %s %s;\n" % (a.kw, a.tag, a.typedef)
        return s

    def declare(self, t):
        src = "".join(self.decl_of(a) for a in self.named_aggs(t, []) if not getattr(a, "declared", False))
        if src:
            self.ffi.cdef(src)
        for a in self.named_aggs(t, []):
            a.declared = True
        return src

    def cname(self, t):
        if isinstance(t, Prim):
            return t.name
        if isinstance(t, Agg):
            return "%s %s" % (t.kw, t.tag)
        return self.declarator(t, "").replace(" [", "[").strip()

    # ------------------------------------------------------------ declared structure
    def flatten(self, agg, ign=False):
        """[(name, type, bits, ignored in positional init)] in declaration order"""
        out = []
        for i, (name, t, bits) in enumerate(agg.members):
            ig = ign or (agg.union and i > 0)
            if name == "" and isinstance(t, Agg):
                out += self.flatten(t, ig)
            else:
                out.append((name, t, bits, ig))
        return out

    def with_var(self, t):
        if isinstance(t, Agg):
            return any((isinstance(mt, Arr) and mt.n is None) or self.with_var(mt) for _n, mt, _b, _i in self.flatten(t))
        return False

    # ------------------------------------------------------------ type record for the specification
    def rec(self, t):
        if isinstance(t, Prim):
            return {"k": "prim", "size": t.size, "chr": t.chr, "ischar": t.ischar, "cn": t.name}
        if isinstance(t, Arr):
            item = self.rec(t.item)
            if item["size"] < 0:
                raise core.MachineryError("generator: array of unsized items")
            return {"k": "arr", "item": item, "len": -1 if t.n is None else t.n, "isz": item["size"],
                    "size": -1 if t.n is None else t.n * item["size"], "cn": self.cname(t)}
        if getattr(t, "_rec", None) is not None:
            return t._rec
        ct = self.ffi.typeof("%s %s" % (t.kw, t.tag))
        flat = self.flatten(t)
        cf = ct.fields
        if [n for n, _f in cf] != [n for n, _t, _b, _i in flat]:
            raise core.MachineryError("generator and cffi disagree on the field list of %s" % t.tag)
        fields = []
        for (name, f), (_n, mt, bits, ign) in zip(cf, flat):
            fields.append({"name": name, "off": f.offset, "t": self.rec(mt), "ctor": not ign,
                           "bs": f.bitsize if bits is not None else -1,
                           "sh": f.bitshift if bits is not None else 0})
            if bits is not None and f.bitsize != bits:
                raise core.MachineryError("bit-field size mismatch in %s.%s" % (t.tag, name))
        r = {"k": "struct", "size": self.ffi.sizeof(ct), "fields": fields, "cn": "%s %s" % (t.kw, t.tag)}
        t._rec = r
        return r

    # ------------------------------------------------------------ random types
    def tag(self):
        self.ntag += 1
        return "t%d" % self.ntag

    def gen_prim(self, chars=True):
        names = [n for n in PRIMS if chars or not PRIMS[n][3]]
        return Prim(self.rng.choice(names))

    def gen_agg(self, depth, allow_var, union=None, anonymous=False):
        rng = self.rng
        union = rng.random() < 0.2 if union is None else union
        members, nm = [], 0

        def name():
            self.nname = getattr(self, "nname", 0) + 1
            return "m%d" % self.nname
        for _ in range(rng.randint(1, 5)):
            k = rng.random()
            if k < 0.50:
                members.append((name(), self.gen_prim(), None))
            elif k < 0.60 and not union:
                bt = Prim(rng.choice(BITFIELD_TYPES))
                for _j in range(rng.randint(1, 3)):
                    members.append((name(), bt, rng.randint(1, min(8 * bt.size, 40))))
            elif k < 0.74:
                item = self.gen_prim()
                t = Arr(item, rng.randint(1, 6))
                if rng.random() < 0.2:
                    t = Arr(t, rng.randint(1, 3))
                members.append((name(), t, None))
            elif k < 0.86 and depth > 0:
                sub = self.gen_agg(depth - 1, False)
                members.append((name(), sub if rng.random() < 0.7 else Arr(sub, rng.randint(1, 3)), None))
            elif k < 0.94 and depth > 0:
                sub = self.gen_agg(depth - 1, False, anonymous=True)
                members.append(("", sub, None))
            else:
                members.append((name(), self.gen_prim(), None))
        if allow_var and not union:
            k = rng.random()
            if k < 0.6:
                item = self.gen_prim() if rng.random() < 0.8 or depth == 0 else self.gen_agg(depth - 1, False)
                members.append(("tail", Arr(item, None), None))
            elif depth > 0:
                members.append(("vlast", self.gen_agg(depth - 1, True, union=False), None))
        return Agg(None if anonymous else self.tag(), union, members)

    def gen_nested_var(self, levels, typedef=False):
        """struct whose LAST member is (levels-1 more times nested) a struct ending in a flexible array"""
        rng = self.rng
        item = self.gen_prim() if rng.random() < 0.8 else self.gen_agg(0, False, union=False)
        cur = self.gen_agg(0, False, union=False)
        cur.members.append(("tail", Arr(item, None), None))
        for _ in range(levels - 1):
            outer = self.gen_agg(0, False, union=False)
            outer.members.append(("vlast", cur, None))
            cur = outer
        if typedef:
            cur.typedef = "td_" + cur.tag
        return cur

    # ------------------------------------------------------------ random values
    def gen_leaf(self, p):
        rng, k = self.rng, p.kind
        if k in "bBhHiIqQ":
            bits = 8 * p.size
            lo, hi = (-(1 << (bits - 1)), (1 << (bits - 1)) - 1) if k.islower() else (0, (1 << bits) - 1)
            v = rng.choice([lo, hi, 0, 1, hi - 1, rng.randint(lo, hi), rng.randint(lo, hi), rng.randint(-5, 5)])
            v = min(max(v, lo), hi)
            return v, struct.pack("<" + k, v)
        if k == "f":
            v = rng.choice([0.0, -0.0, 1.5, float("inf"), rng.uniform(-1e6, 1e6), rng.uniform(-1, 1)])
            v = struct.unpack("<f", struct.pack("<f", v))[0]
            return v, struct.pack("<f", v)
        if k == "d":
            v = rng.choice([0.0, -0.0, 1.5, float("-inf"), rng.uniform(-1e300, 1e300), rng.uniform(-1, 1)])
            return v, struct.pack("<d", v)
        if k == "char":
            x = rng.randint(0, 255)
            return bytes([x]), bytes([x])
        if k == "u16":
            x = rng.choice([rng.randint(1, 0xFFFF), 0x41, 0xD800, 0xFFFF])
            return chr(x), struct.pack("<H", x)
        if k == "u32":
            x = rng.choice([rng.randint(1, 0x10FFFF), 0x41, 0x10000, 0x10FFFF])
            return chr(x), struct.pack("<I", x)
        if k == "ptr":
            if rng.random() < 0.3:
                return self.ffi.NULL, b"\0" * 8
            t = rng.choice(self.targets)
            return t, struct.pack("<Q", int(self.ffi.cast("uintptr_t", t)))
        if k == "bool":
            x = rng.randint(0, 1)
            return rng.choice([x, bool(x)]), bytes([x])
        raise ValueError(k)

    def gen_bits(self, p, bs):
        rng = self.rng
        if p.kind.islower():
            lo, hi = -(1 << (bs - 1)), (1 << (bs - 1)) - 1
            if bs == 1:
                hi = 0          # "int x:1" also receives 1, kept out: its stored value is the bit pattern 1
        else:
            lo, hi = 0, (1 << bs) - 1
        v = rng.choice([lo, hi, 0, rng.randint(lo, hi)])
        return v, [((v >> i) & 1) for i in range(bs)]

    def gen_char(self, p):
        rng = self.rng
        if p.size == 1:
            return rng.randint(1, 255)
        return rng.choice([rng.randint(1, 0xD7FF), rng.randint(0x10000, 0x10FFFF), 0x41, rng.choice(CP_BOUNDARY)])

    def gen_string(self, p, maxunits):
        """(python value, characters) taking at most maxunits array items (None: free)"""
        rng = self.rng
        lim = rng.randint(0, 12) if maxunits is None else rng.randint(0, maxunits)
        cps_ = []
        while True:
            c = self.gen_char(p)
            if n_units(cps_ + [c], p.size) > lim:
                break
            cps_.append(c)
        return self.pystr(p, cps_), cps_

    @staticmethod
    def pystr(p, cps_):
        return bytes(cps_) if p.size == 1 else "".join(map(chr, cps_))

    # ------------------------------------------------------------ boundary sweep of bytes/str initializers
    def boundary_cases(self, p):
        """For a character type p: every code point of CP_BOUNDARY (that p can hold) x every place a bytes/str can
        initialize an array of p (open top-level array, fixed top-level array that it fills exactly / with room,
        flexible member by position / by name, fixed member followed by other members, flexible member of a nested
        var-sized struct), once alone and once among random neighbours - plus, per code point, strings one unit too
        long for a fixed array (ill-formed: judged only for writes past the allocation).
        Yields (type, python initializer, tree, description)."""
        rng = self.rng

        def agg(members):
            return Agg(self.tag(), False, members)

        def field(nm="f"):
            self.nname = getattr(self, "nname", 0) + 1
            return "%s%d" % (nm, self.nname)
        for cp in [c for c in CP_BOUNDARY if c <= (255 if p.size == 1 else 0x10FFFF)]:
            for variant in ("alone", "among"):
                if variant == "alone":
                    cps_ = [cp] * rng.choice([1, 1, 2])
                else:
                    cps_ = ([self.gen_char(p) for _ in range(rng.randint(0, 3))] + [cp] * rng.choice([1, 2])
                            + [self.gen_char(p) for _ in range(rng.randint(0, 3))])
                v, s = self.pystr(p, cps_), mk("str", cps_, n=p.size)
                nu = n_units(cps_, p.size)
                what = "U+%04X %s" % (cp, variant)
                pre = self.gen_prim(chars=False)
                lv, lb = self.gen_leaf(pre)
                yield Arr(p, None), v, s, "open array:" + what
                yield Arr(p, nu), v, s, "array filled exactly:" + what
                yield Arr(p, nu + rng.randint(1, 3)), v, s, "array with room:" + what
                t = agg([(field(), pre, None), ("tail", Arr(p, None), None)])
                yield t, [lv, v], mk("seq", items=[mk("leaf", lb), s]), "flexible member by position:" + what
                t = agg([(field(), pre, None), ("tail", Arr(p, None), None)])
                yield t, {"tail": v}, mk("dict", items=[{"name": "tail", "v": s}]), "flexible member by name:" + what
                g1, g2 = field("g"), field("g")
                t = agg([("s", Arr(p, nu), None), (g1, Prim("unsigned short"), None), (g2, pre, None)])
                yield t, {"s": v}, mk("dict", items=[{"name": "s", "v": s}]), "member filled exactly:" + what
                inner = agg([(field(), pre, None), ("tail", Arr(p, None), None)])
                t = agg([(field(), Prim("unsigned char"), None), ("vlast", inner, None)])
                yield (t, {"vlast": [lv, v]},
                       mk("dict", items=[{"name": "vlast", "v": mk("seq", items=[mk("leaf", lb), s])}]),
                       "nested flexible member:" + what)
                if nu >= 1:
                    yield Arr(p, nu - 1), v, s, "too long for array:" + what
                    t = agg([("s", Arr(p, nu - 1), None)])
                    yield t, [v], mk("seq", items=[s]), "too long for last member:" + what

    # ------------------------------------------------------------ random initializers
    def field_span(self, f):
        if f["bs"] >= 0:
            return 8 * f["off"] + f["sh"], 8 * f["off"] + f["sh"] + f["bs"]
        size = f["t"]["size"]
        return 8 * f["off"], (8 * (f["off"] + size) if size >= 0 else 1 << 60)

    def gen_copy(self, t):
        r = self.rec(t)
        cd = self.ffi.new(self.cname(t) + ("*" if isinstance(t, Agg) else ""))
        raw = bytes(self.rng.randrange(256) for _ in range(r["size"]))
        self.ffi.buffer(cd)[:] = raw
        self.keep.append(cd)
        return (cd[0] if isinstance(t, Agg) else cd), mk("copy", raw)

    def gen_init_full(self, t):
        """a positional initializer that reaches every field, down to 3 items of a flexible array"""
        if isinstance(t, Prim):
            v, b = self.gen_leaf(t)
            return v, mk("leaf", b)
        if isinstance(t, Arr):
            pairs = [self.gen_init_full(t.item) for _ in range(3 if t.n is None else min(t.n, 2))]
            return [v for v, _r in pairs], mk("seq", items=[r for _v, r in pairs])
        vs, rs = [], []
        for _n, mt, bits, ign in self.flatten(t):
            if ign:
                continue
            if bits is not None:
                v, b = self.gen_bits(mt, bits)
                vs.append(v)
                rs.append(mk("bits", b))
            else:
                v, r = self.gen_init_full(mt)
                vs.append(v)
                rs.append(r)
        return vs, mk("seq", items=rs)

    def gen_init(self, t, depth):
        rng = self.rng
        if isinstance(t, Prim):
            v, b = self.gen_leaf(t)
            return v, mk("leaf", b)
        if isinstance(t, Arr):
            k = rng.random()
            ischars = isinstance(t.item, Prim) and t.item.chr
            if ischars and k < 0.35:
                v, units = self.gen_string(t.item, t.n)
                return v, mk("str", units, n=t.item.size)       # units: the characters (code points)
            if t.n is None and k < 0.5:
                n = rng.choice([0, 1, 2, rng.randint(0, 9)])
                return n, mk("len", n=n)
            if t.n is not None and k < 0.45 and self.rec(t)["size"] > 0:
                return self.gen_copy(t)
            kmax = rng.randint(0, 6) if t.n is None else rng.randint(0, t.n)
            if depth <= 0 and not isinstance(t.item, Prim):
                kmax = 0
            vs, rs = [], []
            for _ in range(kmax):
                v, r = self.gen_init(t.item, depth - 1)
                vs.append(v)
                rs.append(r)
            return (vs if rng.random() < 0.5 else tuple(vs)), mk("seq", items=rs)
        # aggregate
        r = self.rec(t)
        flat = self.flatten(t)
        k = rng.random()
        if k < 0.12 and not self.with_var(t) and r["size"] > 0:
            return self.gen_copy(t)

        def one(idx):
            _n, mt, bits, _ig = flat[idx]
            if bits is not None:
                v, b = self.gen_bits(mt, bits)
                return v, mk("bits", b)
            return self.gen_init(mt, depth - 1)
        if k < 0.55:
            ctor = [i for i, f in enumerate(flat) if not f[3]]
            n = rng.randint(0, len(ctor)) if depth > 0 else 0
            vs, rs = [], []
            for i in ctor[:n]:
                v, rr = one(i)
                vs.append(v)
                rs.append(rr)
            return (vs if rng.random() < 0.5 else tuple(vs)), mk("seq", items=rs)
        order = list(range(len(flat)))
        rng.shuffle(order)
        chosen, spans = [], []
        for i in order[:rng.randint(0, len(flat))]:
            lo, hi = self.field_span(r["fields"][i])
            if all(hi <= a or b <= lo for a, b in spans):
                chosen.append(i)
                spans.append((lo, hi))
        d, items = {}, []
        for i in chosen:
            v, rr = one(i)
            d[flat[i][0]] = v
            items.append({"name": flat[i][0], "v": rr})
        return d, mk("dict", items=items)

    # ------------------------------------------------------------ length-only twin of an initializer
    def lens_only(self, r, init):
        """Python dict giving every open array reached by `init` its length and nothing else (r: type record)."""
        if init["k"] == "seq":
            ctor = [f for f in r["fields"] if f["ctor"]]
            pairs = list(zip(ctor, init["items"]))
        elif init["k"] == "dict":
            byname = {f["name"]: f for f in r["fields"]}
            pairs = [(byname[e["name"]], e["v"]) for e in init["items"]]
        else:
            return {}
        out = {}
        for f, v in pairs:
            ft = f["t"]
            if ft["k"] == "arr" and ft["len"] < 0:
                out[f["name"]] = {"seq": len(v["items"]), "str": n_units(v["b"], v["n"]) + 1, "len": v["n"]}[v["k"]]
            elif rec_with_var(ft) and v["k"] != "copy":
                out[f["name"]] = self.lens_only(ft, v)
        return out

    def source_for(self, t):
        return "".join(self.decl_of(a) for a in self.named_aggs(t, []))

    # ------------------------------------------------------------ execution
    def run_case(self, t, pyinit, init, desc):
        """t: Agg (ffi.new('X *')), Prim (ffi.new('T *')) or Arr (ffi.new('T[n]')).  Returns the record."""
        isptr = not isinstance(t, Arr)
        how = self.how_of(t)
        return self.run_record(self.rec(t), how, pyinit, init, desc)

    def how_of(self, t):
        isptr = not isinstance(t, Arr)
        name = getattr(t, "typedef", None) or self.cname(t)       # a typedef'd struct is allocated through its typedef
        how = {"cdecl": name + (" *" if isptr else ""), "isptr": isptr, "cdef": self.source_for(t)}
        if not isptr:
            how["open_decl"] = self.cname(Arr(t.item, None))
            how["ptr_tmpl"] = self.declarator(Arr(t.item, 987654321), "(*)").replace(" (*)", "(*)")
        return how

    def run_record(self, r, how, pyinit, init, desc):
        """the three executions of one construction, from the type record and the declaration strings only"""
        ffi = self.ffi
        cdecl, isptr = how["cdecl"], how["isptr"]
        none = init["k"] == "none"
        rec = {"T": r, "isptr": isptr, "init": init, "alloc": -1, "sizeof": -1, "bytes1": [], "err1": "",
               "haslaw": False, "bytes2": [], "err2": "", "guard": True, "cdecl": cdecl, "desc": desc, "how": how}
        args = () if none else (pyinit,)
        # 1. through a custom allocator: observes the requested size and any write past it
        n0 = len(self.sizes)
        del self.blocks[:]
        try:
            pa = self.new_alloc(cdecl, *args)
        except Exception as e:
            rec["err1"] = type(e).__name__
            del self.sizes[:]
            return rec
        if len(self.sizes) != n0 + 1:
            raise core.MachineryError("allocator callback not called exactly once")
        rec["alloc"] = self.sizes[-1]
        block = bytes(ffi.buffer(self.blocks[-1]))
        rec["guard"] = block[rec["alloc"]:] == b"\xA5" * GUARD
        rec["bytes_alloc"] = list(block[:rec["alloc"]])
        del self.sizes[:]
        if not rec["guard"]:
            return rec            # do not repeat the overflow on the real heap
        # 2. plain ffi.new
        try:
            p1 = ffi.new(cdecl, *args)
        except Exception as e:
            rec["err1"] = type(e).__name__
            return rec
        rec["bytes1"] = list(bytes(ffi.buffer(p1)))
        if r["k"] == "struct":
            rec["sizeof"] = ffi.sizeof(p1[0])
        elif r["k"] == "arr":
            rec["sizeof"] = ffi.sizeof(p1)
        if none or (r["k"] == "arr" and r["len"] < 0 and init["k"] == "len"):
            return rec
        # 3. allocate (sized, uninitialized), then assign
        rec["haslaw"] = True
        try:
            if r["k"] == "arr":
                n = len(rec["bytes1"]) // r["isz"] if r["isz"] else 0
                a = ffi.new(how["open_decl"], n)
                ffi.cast(how["ptr_tmpl"].replace("987654321", str(n)), a)[0] = pyinit
                rec["bytes2"] = list(bytes(ffi.buffer(a)))
            else:
                if rec_with_var(r):
                    p2 = ffi.new(cdecl, self.lens_only(r, init))
                else:
                    p2 = ffi.new(cdecl)
                p2[0] = pyinit
                rec["bytes2"] = list(bytes(ffi.buffer(p2)))
        except Exception as e:
            rec["err2"] = type(e).__name__
        return rec


def rec_with_var(r):
    return r["k"] == "struct" and any((f["t"]["k"] == "arr" and f["t"]["len"] < 0) or rec_with_var(f["t"])
                                      for f in r["fields"])


SIGNED = {"signed char", "short", "int", "long long"}


def render_record(ffi, keep, r, init):
    """the Python initializer for an initializer tree, from the type record alone (used by --replay)"""
    k = init["k"]
    if k == "leaf":
        b = bytes(init["b"])
        cn = r["cn"]
        kind = PRIMS[cn][1]
        if kind in "bBhHiIqQfd" and len(kind) == 1:
            return struct.unpack("<" + kind, b)[0]
        x = int.from_bytes(b, "little")
        return {"char": b, "u16": chr(x) if x < 0x110000 else x, "u32": chr(x) if x < 0x110000 else x,
                "ptr": ffi.cast("void *", x), "bool": x}[kind]
    if k == "len":
        return init["n"]
    if k == "str":
        return bytes(init["b"]) if init["n"] == 1 else "".join(map(chr, init["b"]))
    if k == "copy":
        cd = ffi.new(r["cn"] + ("*" if r["k"] == "struct" else ""))
        ffi.buffer(cd)[:] = bytes(init["b"])
        keep.append(cd)
        return cd[0] if r["k"] == "struct" else cd

    def field(f, v):
        if f["bs"] >= 0:
            x = sum(bit << i for i, bit in enumerate(v["b"]))
            if f["t"]["cn"] in SIGNED and v["b"] and v["b"][-1]:
                x -= 1 << f["bs"]
            return x
        return render_record(ffi, keep, f["t"], v)
    if k == "seq":
        if r["k"] == "arr":
            return [render_record(ffi, keep, r["item"], it) for it in init["items"]]
        ctor = [f for f in r["fields"] if f["ctor"]]
        return [field(f, it) for f, it in zip(ctor, init["items"])]
    if k == "dict":
        byname = {f["name"]: f for f in r["fields"]}
        return {e["name"]: field(byname[e["name"]], e["v"]) for e in init["items"]}
    raise core.MachineryError("cannot render initializer kind %r" % k)


PRELUDE = "#include <stddef.h>\n#include <wchar.h>\n#include <uchar.h>\n"


def build_api_modules(tmp, sources, par=4):
    """sources: {module name: declarations}.  Out-of-line API modules: cdef + set_source with the same text,
    emit_c_code, plain gcc (core.build_ext_module).  Returns the directory to put on sys.path."""
    import cffi, os
    from concurrent.futures import ThreadPoolExecutor
    outdir = os.path.join(tmp, "api_mods")
    os.makedirs(outdir, exist_ok=True)
    cfiles = []
    for name, src in sources.items():
        ffi = cffi.FFI()
        ffi.cdef(src)
        ffi.set_source(name, PRELUDE + src)
        c = os.path.join(outdir, name + ".c")
        ffi.emit_c_code(c)
        cfiles.append((name, c))
    with ThreadPoolExecutor(max_workers=par) as ex:
        list(ex.map(lambda nc: core.build_ext_module(nc[0], nc[1], outdir), cfiles))
    return outdir


def same_layout(ffi, r):
    """does the (compiled) ffi report the layout of the type record r?  (called only after the executions)"""
    if r["k"] == "arr":
        return same_layout(ffi, r["item"])
    if r["k"] != "struct":
        return ffi.sizeof(r["cn"]) == r["size"]
    ct = ffi.typeof(r["cn"])
    if ffi.sizeof(ct) != r["size"] or [n for n, _f in ct.fields] != [f["name"] for f in r["fields"]]:
        return False
    for (_n, f), g in zip(ct.fields, r["fields"]):
        if f.offset != g["off"] or (g["bs"] >= 0 and (f.bitsize != g["bs"] or f.bitshift != g["sh"])):
            return False
        if g["bs"] < 0 and not same_layout(ffi, g["t"]):
            return False
    return True


def strip(rec):
    return {k: v for k, v in rec.items() if k not in ("cdecl", "desc", "bytes_alloc", "init_kind", "how")}


def describe(t, init, lab):
    top = "prim" if isinstance(t, Prim) else "array" if isinstance(t, Arr) else ("union" if t.union else "struct")
    if isinstance(t, Agg) and lab.with_var(t):
        top += "+flex"
    if isinstance(t, Arr) and t.n is None:
        top += "+open"
    return "%s:%s" % (top, init["k"])
