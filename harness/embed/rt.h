/* Interface between the scheduling runtime (rt.c) and the library translation units
   (lib.c, compiled once per embedded library, each including the UNMODIFIED
   <repo>/src/cffi/_embedding.h).  See rt.c. */
#ifndef C28_RT_H
#define C28_RT_H
#include <stddef.h>
#include <pthread.h>

enum { K_PLAIN = 0, K_MUTEX = 1, K_GIL = 2 };

/* park the calling worker thread at a yield point until the scheduler grants the step */
void rt_yield(int lib, const char *label, int kind, void *obj);
/* append a semantic event (validated by TLC against EmbeddingIdeal) */
void rt_event(const char *ev, int lib, const char *res);
void rt_note(const char *fmt, ...);

/* the process-wide fake of libpython: the type object whose slot is the spin lock */
struct rt_typeobject {
    unsigned long tp_flags;
    void *tp_as_buffer;            /* PyCapsule_Type.tp_as_buffer  (Python >= 3.12) */
    unsigned int tp_version_tag;   /* PyCapsule_Type.tp_version_tag (Python < 3.12) */
};
extern struct rt_typeobject rt_PyCapsule_Type;
extern long rt_none;

/* primitives used by _embedding.h, redirected here by macros in lib.c */
int   rt_cas(int lib, volatile void *addr, size_t size, long o, long n);
int   rt_py_isinitialized(int lib);
void  rt_py_initialize(int lib);
void *rt_save_thread(int lib);
int   rt_gil_ensure(int lib, const char *label);
void  rt_gil_release(int lib, const char *label);
void  rt_gil_drop(void);           /* Py_BEGIN_ALLOW_THREADS of a cffi call, no yield */
int   rt_mutex_init(int lib, void *m, const pthread_mutexattr_t *a);
int   rt_mutex_lock(int lib, void *m);
int   rt_mutex_unlock(int lib, void *m);
void  rt_barrier(int lib);
void *rt_memset(int lib, void *p, int c, size_t n);
void  rt_assert(int lib, int cond, const char *text, int line);
int   rt_pyerr_occurred(void);
void  rt_pyerr_set(int v);

/* registration of a library's nameable shared variables and entry point */
void  rt_register(int lib, const char *name, void *addr, size_t size);
void  rt_register_fn(int lib, int (*fn)(int));

/* scenario */
int   rt_selfcalls(int lib);
int   rt_crosscalls(int lib);
int   rt_failcode(int lib);
int   rt_failmod(int lib);
int   rt_otherlib(int lib);        /* -1 if there is no other library */
void  rt_call_lib(int lib);        /* a C caller calls the library's extern "Python" function */
void  rt_body(int lib, char *args, size_t size_of_result);   /* cffi_call_python */
#endif
