"""C28 end-to-end run: two REAL embedded libraries (ffi.embedding_api + embedding_init_code,
C source produced by the recompiler of the repository's working tree, so it contains the
text of the current _embedding.h) driven by a multi-threaded C program (e2e_main.c)."""
import os, subprocess, sys, sysconfig
from concurrent.futures import ThreadPoolExecutor
from harness import core

HERE = os.path.dirname(os.path.abspath(__file__))

INIT = r'''
from _e2e_lib%(X)s import ffi, lib
lib.ev_log(5, %(i)d)                      # initstart

@ffi.def_extern()
def f%(X)s(x):
    lib.ev_log(8, %(i)d)                  # body
    return 0x5EED

if lib.cfg_self(%(i)d):
    lib.call_lib(%(i)d, 1)
if lib.cfg_sync():
    lib.sync_point()
if lib.cfg_cross(%(i)d):
    lib.call_lib(%(o)d, 1)
if lib.cfg_fail(%(i)d):
    lib.ev_log(7, %(i)d)                  # initend fail
    raise RuntimeError("C28 e2e: this init code fails on purpose")
lib.ev_log(6, %(i)d)                      # initend ok
'''

DECLS = "void ev_log(int, int); int cfg_self(int); int cfg_cross(int); int cfg_fail(int); int cfg_sync(void); " \
        "void sync_point(void); int call_lib(int, int);"


def _run(cmd, **kw):
    r = subprocess.run(cmd, capture_output=True, text=True, **kw)
    if r.returncode != 0:
        raise core.MachineryError("e2e build failed: %s\n%s" % (" ".join(cmd), (r.stderr or r.stdout)[-3000:]))
    return r


def build(outdir):
    import cffi
    libdir = sysconfig.get_config_var("LIBDIR")
    ldlib = sysconfig.get_config_var("LDLIBRARY") or ""
    if not (sysconfig.get_config_var("Py_ENABLE_SHARED") and os.path.exists(os.path.join(libdir, ldlib))):
        return None
    pylib = ldlib[3:].split(".so")[0]
    sos = []
    for i, X in enumerate("AB"):
        ffi = cffi.FFI()
        ffi.embedding_api("int f%s(int);" % X)
        ffi.cdef(DECLS)
        ffi.set_source("_e2e_lib" + X, "extern " + DECLS.replace("; ", "; extern ")[:-1] + ";")
        ffi.embedding_init_code(INIT % {"X": X, "i": i, "o": 1 - i})
        c = os.path.join(outdir, "_e2e_lib%s.c" % X)
        ffi.emit_c_code(c)
        with open(c) as f:
            if "_cffi_start_python" not in f.read():
                raise core.MachineryError("generated embedding module does not contain _embedding.h")
        so = os.path.join(outdir, "lib_e2e_%s.so" % X)
        _run(["gcc", "-shared", "-fPIC", "-O1", "-w", "-pthread", "-I" + sysconfig.get_paths()["include"], c, "-o", so,
              "-L" + libdir, "-l" + pylib, "-Wl,-rpath," + libdir])
        sos.append(so)
    exe = os.path.join(outdir, "e2e_main")
    _run(["gcc", "-O1", "-w", "-pthread", "-rdynamic", os.path.join(HERE, "e2e_main.c"), "-o", exe] + sos +
         ["-Wl,-rpath," + outdir, "-ldl"])
    return exe


def execute(exe, sc, timeout=200):
    env = core.sub_env(PYTHONHOME=sys.base_prefix)
    cmd = [exe, str(len(sc["plan"])), "|".join(sc["plan"]), sc["self"] or "-", sc["cross"] or "-", sc["fail"] or "-",
           str(sc["sync"]), str(sc["seed"]), str(sc["stall"])]
    try:
        r = subprocess.run(cmd, capture_output=True, text=True, env=env, timeout=timeout)
    except subprocess.TimeoutExpired:
        raise core.MachineryError("e2e_main did not finish: %r" % (cmd,))
    if r.returncode != 0:
        raise core.MachineryError("e2e_main exited %d: %s" % (r.returncode, r.stderr[-2000:]))
    evs, stall = [], False
    for ln in r.stdout.splitlines():
        p = ln.split()
        if p and p[0] == "EV":
            evs.append({"ev": p[1], "t": int(p[2]), "l": int(p[3]), "r": "" if p[4] == "-" else p[4]})
        elif p and p[0] == "STALL":
            stall = True
    if not evs:
        raise core.MachineryError("e2e_main logged nothing: %s" % r.stderr[-2000:])
    return evs, stall


def scenarios(rng, n):
    out = []
    for k in range(n):
        nthr = rng.choice([2, 3, 4, 6])
        kind = ["plain", "fail", "cross1", "selffail"][k % 4]
        sc = {"plan": ["".join(rng.choice("AB") for _ in range(rng.choice([1, 2]))) for _ in range(nthr)],
              "self": rng.choice(["", "A", "AB"]), "cross": "", "fail": "", "sync": 0,
              "seed": rng.choice([0, rng.randrange(1, 10 ** 6)]), "stall": 60, "kind": kind}
        if kind == "fail":
            sc["fail"] = rng.choice(["A", "B", "AB"])
        elif kind == "cross1":
            sc["cross"] = rng.choice("AB")
        elif kind == "selffail":
            sc["self"], sc["fail"] = "AB", rng.choice(["A", "B"])
        out.append(sc)
    return out


def plan(rng, n=24):
    """The scenarios of one end-to-end session; the last one is the forced AB-BA rendez-vous."""
    scs = scenarios(rng, n)
    scs.append({"plan": ["A", "B"], "self": "", "cross": "AB", "fail": "", "sync": 1, "seed": 0, "stall": 60,
                "kind": "cross-init-cycle"})
    return scs


def run(ctx, scs):
    """Returns (traces, metas, skipped_reason)."""
    outdir = os.path.join(ctx.tmp, "e2e")
    os.makedirs(outdir, exist_ok=True)
    exe = build(outdir)
    if exe is None:
        return [], [], "no shared libpython on this interpreter: the end-to-end run was skipped"
    with ThreadPoolExecutor(6) as ex:
        res = list(ex.map(lambda sc: execute(exe, sc), scs))
    traces, metas = [], []
    for sc, (evs, stall) in zip(scs, res):
        traces.append(evs)
        metas.append(dict(sc, stall_reported=stall))
    return traces, metas, None
