/* One embedded library of the C28 scheduling harness.  Compiled once per library with
   -DLIBID=<n> -DLIBTAG=<A|B|C> -O0 -fsanitize=thread (the sanitizer RUNTIME is not linked:
   rt.c provides __tsan_read/write hooks, so every access the unmodified header makes to a
   shared variable becomes a yield point of the scheduler).

   This file plays the role of the C file produced by cffi's recompiler for an
   ffi.embedding_api() library: it provides what the generated file provides before the text
   of _embedding.h (recompiler.py:write_c_source_to_f), then #includes the UNMODIFIED
   <repo>/src/cffi/_embedding.h (found through -I<repo>/src/cffi at check time), then
   defines an extern "Python" wrapper exactly as recompiler.py:_extern_python_decl prints it.

   Primitives the header uses are redefined as macros that enter rt.c. */
#include <stdio.h>
#include <string.h>
#include <errno.h>
#include <stdint.h>
#include <pthread.h>
#include <assert.h>
#include <patchlevel.h>          /* PY_VERSION_HEX of the interpreter cffi is built for */
#include "rt.h"

#define C28_CAT_(a, b) a##b
#define C28_CAT(a, b) C28_CAT_(a, b)
#define C28_STR_(a) #a
#define C28_STR(a) C28_STR_(a)
#define NOSAN __attribute__((no_sanitize_thread))

/* ---- stand-ins for Python.h -------------------------------------------------------- */
typedef struct _object { long ob_refcnt; } PyObject;
typedef int PyGILState_STATE;
typedef struct { void *bf_getbuffer; void *bf_releasebuffer; } PyBufferProcs;
#define PyCapsule_Type rt_PyCapsule_Type
#define Py_TPFLAGS_HAVE_VERSION_TAG (1UL << 18)
#define PyMODINIT_FUNC PyObject *
#define WITH_THREAD 1
#define Py_file_input 257
#define Py_None ((PyObject *)&rt_none)
static PyObject c28_dummy_object;

/* ---- what _cffi_include.h / the generated file provide ------------------------------ */
struct _cffi_externpy_s {
    const char *name;
    size_t size_of_result;
    void *reserved1, *reserved2;
};
static void *_cffi_exports[28];
#define _CFFI_CPIDX  25
#define _cffi_call_python                                                \
    ((void(*)(struct _cffi_externpy_s *, char *))_cffi_exports[_CFFI_CPIDX])
#define _CFFI_UNUSED_FN  __attribute__((unused))
#define _CFFI_MODULE_NAME  "lib" C28_STR(LIBTAG)
static const char _CFFI_PYTHON_STARTUP_CODE[] = "<init code>";
#define _CFFI_PYTHON_STARTUP_FUNC  C28_CAT(PyInit_lib, LIBTAG)

/* ---- give the two function-local statics of the header findable symbol names --------- */
#define called               C28_CAT(called_, LIBTAG)
#define empty_buffer_procs   C28_CAT(empty_buffer_procs_, LIBTAG)

/* ---- the primitives, redirected ------------------------------------------------------ */
#define __sync_bool_compare_and_swap(l, o, n) \
    rt_cas(LIBID, (volatile void *)(l), sizeof(*(l)), (long)(o), (long)(n))
#define __sync_synchronize()          rt_barrier(LIBID)
#define pthread_mutex_init(m, a)      rt_mutex_init(LIBID, (m), (a))
#define pthread_mutex_lock(m)         rt_mutex_lock(LIBID, (m))
#define pthread_mutex_unlock(m)       rt_mutex_unlock(LIBID, (m))
#define Py_IsInitialized()            rt_py_isinitialized(LIBID)
#define Py_InitializeEx(x)            rt_py_initialize(LIBID)
#define PyEval_SaveThread()           rt_save_thread(LIBID)
#define PyGILState_Ensure()           rt_gil_ensure(LIBID, "gil_ensure")
#define PyGILState_Release(s)         rt_gil_release(LIBID, "gil_release")
#define memset(p, c, n)               rt_memset(LIBID, (p), (c), (n))
#undef assert
#define assert(c)                     rt_assert(LIBID, !!(c), #c, __LINE__)
#undef fprintf
#define fprintf(...)                  ((void)0)
/* interpreter calls made under the GIL: no shared state of the protocol involved */
#define PyErr_Occurred()              rt_pyerr_occurred()
#define Py_CompileString(a, b, c)     (&c28_dummy_object)
#define PyDict_New()                  (&c28_dummy_object)
#define PyEval_GetBuiltins()          (&c28_dummy_object)
#define PyDict_SetItemString(d, k, v) 0
#define PyEval_EvalCode(c, g, l)      c28_initcode()
#define Py_DECREF(x)                  ((void)(x))
#define Py_XDECREF(x)                 ((void)(x))
#define PyErr_Fetch(a, b, c)          (*(a) = *(b) = *(c) = NULL, rt_pyerr_set(0))
#define PySys_GetObject(n)            ((PyObject *)NULL)
#define PyFile_WriteString(s, f)      ((void)0)
#define PyFile_WriteObject(o, f, n)   ((void)0)
#define PyErr_NormalizeException(a, b, c) ((void)0)
#define PyErr_Display(a, b, c)        ((void)0)
#define PyImport_GetModuleDict()      (&c28_dummy_object)
#define PyDict_GetItemString(d, k)    ((PyObject *)NULL)
#define PyObject_GetAttrString(o, n)  ((PyObject *)NULL)

static PyObject *c28_initcode(void);

/* ===================================================================================== */
#include "_embedding.h"          /* the unmodified header from <repo>/src/cffi */
/* ===================================================================================== */

/* the extern "Python" wrapper, as printed by recompiler.py:_extern_python_decl for
   `extern "Python" int f(int);` with CFFI_DLLEXPORT (instrumented: reads _cffi_call_python) */
static struct _cffi_externpy_s _cffi_externpy__f =
  { "f", (int)sizeof(int), 0, 0 };

CFFI_DLLEXPORT int C28_CAT(c28_f_, LIBTAG)(int a0)
{
  char a[8];
  char *p = a;
  *(int *)(p + 0) = a0;
  _cffi_call_python(&_cffi_externpy__f, p);
  return *(int *)p;
}

/* cffi_call_python of _cffi_backend (src/c/call_python.c), reduced to its GIL protocol */
NOSAN static void c28_call_python(struct _cffi_externpy_s *externpy, char *args)
{
    rt_body(LIBID, args, externpy->size_of_result);
}

/* the module init function PyInit_<name>: on success _cffi_init() has copied the backend's
   export table, so that _cffi_exports[25] = cffi_call_python */
NOSAN PyObject *C28_CAT(PyInit_lib, LIBTAG)(void)
{
    rt_yield(LIBID, "modinit", K_PLAIN, NULL);
    if (rt_failmod(LIBID)) {
        rt_event("initabort", LIBID, "");
        rt_pyerr_set(1);
        return NULL;
    }
    _cffi_exports[_CFFI_CPIDX] = (void *)c28_call_python;
    return &c28_dummy_object;
}

/* the init code given to ffi.embedding_init_code(), run by PyEval_EvalCode with the GIL
   held; a call to a C function through cffi releases the GIL around the call */
NOSAN static PyObject *c28_initcode(void)
{
    int other = rt_otherlib(LIBID);
    rt_yield(LIBID, "i_code", K_PLAIN, NULL);
    rt_event("initstart", LIBID, "");
    rt_yield(LIBID, "i_self", K_PLAIN, NULL);
    if (rt_selfcalls(LIBID)) {
        rt_gil_drop();
        rt_call_lib(LIBID);
        rt_gil_ensure(LIBID, "i_self2");
    }
    rt_yield(LIBID, "i_cross", K_PLAIN, NULL);
    if (rt_crosscalls(LIBID) && other >= 0) {
        rt_gil_drop();
        rt_call_lib(other);
        rt_gil_ensure(LIBID, "i_cross2");
    }
    rt_yield(LIBID, "i_end", K_PLAIN, NULL);
    if (rt_failcode(LIBID)) {
        rt_event("initend", LIBID, "fail");
        rt_pyerr_set(1);
        return NULL;
    }
    rt_event("initend", LIBID, "ok");
    return &c28_dummy_object;
}

NOSAN __attribute__((constructor)) static void c28_register(void)
{
    rt_register(LIBID, "fast", (void *)&_cffi_call_python, sizeof(_cffi_call_python));
    rt_register(LIBID, "org", (void *)&_cffi_exports[_CFFI_CPIDX], sizeof(void *));
    rt_register(LIBID, "ready", (void *)&_cffi_embed_startup_lock_ready, 1);
    rt_register(LIBID, "mutex", (void *)&_cffi_embed_startup_lock, sizeof(_cffi_embed_startup_lock));
    rt_register(LIBID, "externpy", (void *)&_cffi_externpy__f, sizeof(_cffi_externpy__f));
    rt_register_fn(LIBID, C28_CAT(c28_f_, LIBTAG));
}
