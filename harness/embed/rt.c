/* C28 scheduling runtime.

   The library translation units (lib.c, each including the unmodified _embedding.h) enter
   this file at every shared-memory operation of the start-up protocol:
     * function-like primitives (CAS, barrier, pthread mutex, Py_IsInitialized,
       Py_InitializeEx, PyEval_SaveThread, PyGILState_Ensure/Release, the module init
       function, the init code, memset) through macros;
     * plain loads and stores of the shared variables (_cffi_call_python,
       _cffi_call_python_org, _cffi_embed_startup_lock_ready, `called`,
       empty_buffer_procs.mark, the PyCapsule_Type slot) through the __tsan_readN /
       __tsan_writeN hooks the compiler inserts before every memory access when lib.c is
       compiled with -fsanitize=thread (the sanitizer's own runtime is NOT linked).
   Each such operation first parks the calling pthread (rt_yield) with a label that names
   the operation; the scheduler (main thread) waits until every worker is parked, blocked
   or finished, picks one enabled worker according to the schedule (thread ids of a TLC
   behaviour, then a seeded random strategy) and grants it exactly one step.  Blocking
   (mutex, GIL) is logical: a worker parked at a disabled operation is simply not eligible,
   so deadlocks are detected exactly, without timeouts.

   One process runs many scenarios: `embed_harness SYMTAB < runs` forks one child per input
   line (the header's static state must be fresh) and prints one JSON object per run.

   Workers are real pthreads (mode 0) or, for bulk random runs, ucontext coroutines of one
   OS thread (mode 1: same interleaving semantics - exactly one worker runs between two yield
   points in either mode - without two kernel context switches per step).

   input line:  id nthreads nlibs plan self cross failc failm pre strategy seed budget mode sched
     plan   per thread the libraries of its top-level calls, e.g. "AB|A|B" ("-": no call)
     self/cross/failc/failm  subsets of library tags, "-" for empty
     sched  "-" or comma separated <tid>[.<label>]
*/
#define _GNU_SOURCE
#include <stdio.h>
#include <stdlib.h>
#include <string.h>
#include <stdarg.h>
#include <stdint.h>
#include <errno.h>
#include <signal.h>
#include <unistd.h>
#include <sys/wait.h>
#include <pthread.h>
#include <ucontext.h>
#include "rt.h"

#define MAXT 9
#define MAXL 3
#define MAXPLAN 8
#define MAXDEPTH 16
#define STALL_SECONDS 90

struct rt_typeobject rt_PyCapsule_Type;
long rt_none;

/* ------------------------------------------------------------------ symbols */
struct sym { int lib; char name[48]; char *addr; size_t size; };
static struct sym syms[256];
static int nsyms;
static void *fast_initial[MAXL];
static int (*libfn[MAXL])(int);
static char *mlock_addr[MAXL];

void rt_register(int lib, const char *name, void *addr, size_t size)
{
    struct sym *s = &syms[nsyms++];
    s->lib = lib; s->addr = addr; s->size = size;
    snprintf(s->name, sizeof s->name, "%s", name);
    if (!strcmp(name, "fast")) fast_initial[lib] = *(void **)addr;
}
void rt_register_fn(int lib, int (*fn)(int)) { libfn[lib] = fn; }

static struct sym *sym_lookup(char *a)
{
    for (int i = 0; i < nsyms; i++)
        if (a >= syms[i].addr && a < syms[i].addr + (syms[i].size ? syms[i].size : 1))
            return &syms[i];
    return NULL;
}
static struct sym *sym_find(int lib, const char *name)
{
    for (int i = 0; i < nsyms; i++)
        if (syms[i].lib == lib && !strcmp(syms[i].name, name)) return &syms[i];
    return NULL;
}

/* symbols of function-local statics, from `nm -S` on this executable: "addr size name" */
static void load_symtab(const char *path)
{
    FILE *f = fopen(path, "r");
    char name[128]; unsigned long addr, size;
    if (!f) { fprintf(stderr, "rt: cannot open symtab %s\n", path); exit(3); }
    while (fscanf(f, "%lx %lx %127s", &addr, &size, name) == 3) {
        int lib = -1; const char *as = NULL;
        if (!strncmp(name, "called_", 7) && name[8] == '.') { lib = name[7] - 'A'; as = "called"; }
        else if (!strncmp(name, "empty_buffer_procs_", 19) && name[20] == '.') { lib = name[19] - 'A'; as = "ebp"; }
        else if (!strncmp(name, "lock.", 5)) continue;          /* learnt from the CAS calls */
        else as = name;
        if (sym_lookup((char *)addr)) continue;                  /* registered by the library */
        if (nsyms < 250) rt_register(lib, as, (void *)addr, size);
    }
    fclose(f);
}

/* ------------------------------------------------------------------ scenario + log */
static int nthreads, nlibs, preinit, strategy, budget, coro_mode;
static unsigned long long rng;
static int plan[MAXT][MAXPLAN], nplan[MAXT];
static int f_self[MAXL], f_cross[MAXL], f_failc[MAXL], f_failm[MAXL];
static int sched_tid[100000]; static char *sched_lab[100000]; static int nsched;

int rt_selfcalls(int l) { return f_self[l]; }
int rt_crosscalls(int l) { return f_cross[l]; }
int rt_failcode(int l) { return f_failc[l]; }
int rt_failmod(int l) { return f_failm[l]; }
int rt_otherlib(int l) { return nlibs > 1 ? (l + 1) % nlibs : -1; }

static char *out; static size_t outlen, outcap;
static void emit(const char *fmt, ...)
{
    va_list ap;
    for (;;) {
        va_start(ap, fmt);
        int n = vsnprintf(out + outlen, outcap - outlen, fmt, ap);
        va_end(ap);
        if (n >= 0 && (size_t)n < outcap - outlen) { outlen += n; return; }
        outcap = outcap ? outcap * 2 : 1 << 16;
        out = realloc(out, outcap);
    }
}
struct buf { char *p; size_t len, cap; };
static void bput(struct buf *b, const char *fmt, ...)
{
    va_list ap;
    for (;;) {
        va_start(ap, fmt);
        int n = b->cap ? vsnprintf(b->p + b->len, b->cap - b->len, fmt, ap) : -1;
        va_end(ap);
        if (n >= 0 && (size_t)n < b->cap - b->len) { b->len += n; return; }
        b->cap = b->cap ? b->cap * 2 : 1 << 14;
        b->p = realloc(b->p, b->cap);
    }
}
static struct buf ev_buf, step_buf, state_buf, note_buf;
static int nevents, nnotes;

/* ------------------------------------------------------------------ workers */
enum { W_NEW, W_RUNNING, W_PARKED, W_DONE };
struct worker {
    pthread_t th; int id, state, granted;
    const char *label; int lib, kind; void *obj;
    pthread_cond_t cv;
    int stack[MAXDEPTH], depth;       /* libraries of the calls the thread is inside */
    int grants_in_window;
    int pyerr;                        /* the thread's Python error indicator */
    ucontext_t ctx; char *stk;        /* coroutine mode */
};
static ucontext_t sched_ctx;
static struct worker W[MAXT];
static pthread_mutex_t mu = PTHREAD_MUTEX_INITIALIZER;
static pthread_cond_t sched_cv = PTHREAD_COND_INITIALIZER;
static __thread struct worker *me;

static int pyinit, gil_owner, gil_count;
struct fmutex { void *addr; int lib, inited, recursive, owner, depth; };
static struct fmutex fm[8]; static int nfm;
static int initer[MAXL]; static const char *initst[MAXL];

static int self_id(void) { return me ? me->id : 0; }

void rt_note(const char *fmt, ...)
{
    char tmp[256]; va_list ap;
    va_start(ap, fmt); vsnprintf(tmp, sizeof tmp, fmt, ap); va_end(ap);
    if (nnotes < 20) bput(&note_buf, "%s\"%s\"", nnotes ? "," : "", tmp);
    nnotes++;
}

void rt_event(const char *ev, int lib, const char *res)
{
    bput(&ev_buf, "%s[\"%s\",%d,%d,\"%s\"]", nevents ? "," : "", ev, self_id(), lib, res);
    nevents++;
    if (lib >= 0 && lib < MAXL) {
        if (!strcmp(ev, "initstart")) { initer[lib] = self_id(); initst[lib] = "running"; }
        else if (!strcmp(ev, "initend")) initst[lib] = !strcmp(res, "ok") ? "ok" : "failed";
        else if (!strcmp(ev, "initabort")) initst[lib] = "failed";
    }
}

void rt_yield(int lib, const char *label, int kind, void *obj)
{
    struct worker *w = me;
    if (!w) return;                       /* not a scheduled thread */
    if (coro_mode) {
        w->label = label; w->lib = lib; w->kind = kind; w->obj = obj;
        w->state = W_PARKED;
        swapcontext(&w->ctx, &sched_ctx);
        me = w;
        w->state = W_RUNNING;
        return;
    }
    pthread_mutex_lock(&mu);
    w->label = label; w->lib = lib; w->kind = kind; w->obj = obj;
    w->state = W_PARKED;
    pthread_cond_signal(&sched_cv);
    while (!w->granted) pthread_cond_wait(&w->cv, &mu);
    w->granted = 0;
    w->state = W_RUNNING;
    pthread_mutex_unlock(&mu);
}

/* ------------------------------------------------------------------ fake libpython */
int rt_py_isinitialized(int lib) { rt_yield(lib, "py_isinit", K_PLAIN, NULL); return pyinit; }

void rt_py_initialize(int lib)
{
    rt_yield(lib, "py_init", K_PLAIN, NULL);
    rt_event("pyinit", lib, "");
    pyinit = 1;
    if (gil_owner && gil_owner != self_id()) rt_note("Py_InitializeEx while thread %d holds the GIL", gil_owner);
    gil_owner = self_id(); gil_count = 1;      /* Py_InitializeEx returns with the GIL held */
}

void *rt_save_thread(int lib)
{
    rt_yield(lib, "py_savethread", K_PLAIN, NULL);
    if (gil_owner != self_id()) rt_note("PyEval_SaveThread without the GIL (thread %d)", self_id());
    else { gil_owner = 0; gil_count = 0; }
    return &rt_none;
}

int rt_gil_ensure(int lib, const char *label)
{
    rt_yield(lib, label, K_GIL, NULL);
    if (gil_owner == self_id()) gil_count++;
    else { gil_owner = self_id(); gil_count = 1; }
    return 0;
}

void rt_gil_release(int lib, const char *label)
{
    rt_yield(lib, label, K_PLAIN, NULL);
    rt_gil_drop();
}

void rt_gil_drop(void)
{
    if (gil_owner != self_id()) { rt_note("GIL released by thread %d which does not hold it", self_id()); return; }
    if (--gil_count <= 0) { gil_owner = 0; gil_count = 0; }
}

int rt_pyerr_occurred(void) { return me ? me->pyerr : 0; }
void rt_pyerr_set(int v) { if (me) me->pyerr = v; }

static struct fmutex *fm_get(int lib, void *addr)
{
    for (int i = 0; i < nfm; i++) if (fm[i].addr == addr) return &fm[i];
    struct fmutex *m = &fm[nfm++];
    memset(m, 0, sizeof *m); m->addr = addr; m->lib = lib;
    return m;
}

int rt_mutex_init(int lib, void *a, const pthread_mutexattr_t *attr)
{
    int type = PTHREAD_MUTEX_DEFAULT;
    rt_yield(lib, "mutex_init", K_PLAIN, NULL);
    struct fmutex *m = fm_get(lib, a);
    if (attr) pthread_mutexattr_gettype(attr, &type);
    if (m->owner) rt_note("pthread_mutex_init on a locked mutex (lib %d)", lib);
    m->inited = 1; m->recursive = (type == PTHREAD_MUTEX_RECURSIVE); m->owner = 0; m->depth = 0;
    return 0;
}

int rt_mutex_lock(int lib, void *a)
{
    struct fmutex *m = fm_get(lib, a);
    rt_yield(lib, "mutex_lock", K_MUTEX, m);
    if (!m->inited) rt_note("pthread_mutex_lock on an uninitialised mutex (lib %d)", lib);
    m->owner = self_id(); m->depth++;
    return 0;
}

int rt_mutex_unlock(int lib, void *a)
{
    struct fmutex *m = fm_get(lib, a);
    rt_yield(lib, "mutex_unlock", K_PLAIN, NULL);
    if (m->owner != self_id()) { rt_note("pthread_mutex_unlock by thread %d, owner %d", self_id(), m->owner); return EPERM; }
    if (--m->depth == 0) m->owner = 0;
    return 0;
}

int rt_cas(int lib, volatile void *addr, size_t size, long o, long n)
{
    int is_spin = ((char *)addr == (char *)&rt_PyCapsule_Type.tp_as_buffer ||
                   (char *)addr == (char *)&rt_PyCapsule_Type.tp_version_tag);
    long cur;
    if (!is_spin) mlock_addr[lib] = (char *)addr;
    rt_yield(lib, is_spin ? (o == 0 ? "cas_spin_acq" : "cas_spin_rel")
                          : (o == 0 ? "cas_mlock_acq" : "cas_mlock_rel"), K_PLAIN, NULL);
    cur = size == 8 ? *(volatile long *)addr : (long)*(volatile int *)addr;
    if (cur != o) return 0;
    if (size == 8) *(volatile long *)addr = n; else *(volatile int *)addr = (int)n;
    return 1;
}

void rt_barrier(int lib) { rt_yield(lib, "barrier", K_PLAIN, NULL); __sync_synchronize(); }

void *rt_memset(int lib, void *p, int c, size_t n)
{
    rt_yield(lib, "memset", K_PLAIN, NULL);
    return memset(p, c, n);
}

void rt_assert(int lib, int cond, const char *text, int line)
{
    if (!cond) rt_note("assertion failed in lib %d, _embedding.h line %d: %s", lib, line, text);
}

/* ------------------------------------------------------------------ callers and bodies */
#define RESULT_RAN  0x5EED
#define ARG_GARBAGE 0x0BAD0BAD

void rt_call_lib(int lib)
{
    struct worker *w = me;
    int r;
    rt_yield(lib, "c_enter", K_PLAIN, NULL);
    rt_event("callbegin", lib, "");
    if (w->depth < MAXDEPTH) w->stack[w->depth] = lib;
    w->depth++;
    r = libfn[lib](ARG_GARBAGE);
    rt_yield(lib, "c_ret", K_PLAIN, NULL);
    w->depth--;
    rt_event("callend", lib, r == RESULT_RAN ? "ran" : r == 0 ? "zero" : "other");
}

void rt_body(int lib, char *args, size_t size_of_result)
{
    rt_gil_ensure(lib, "b_ensure");
    rt_yield(lib, "b_body", K_PLAIN, NULL);
    rt_event("body", lib, "");
    *(int *)args = RESULT_RAN;
    rt_gil_release(lib, "b_release");
}

/* ------------------------------------------------------------------ memory-access hooks */
static void access_hook(void *addr, int size, int is_write)
{
    struct sym *s;
    const char *label = NULL;
    if (!me) return;
    if ((char *)addr == (char *)&rt_PyCapsule_Type.tp_as_buffer ||
        (char *)addr == (char *)&rt_PyCapsule_Type.tp_version_tag) {
        rt_yield(me->depth ? me->stack[me->depth - 1] : -1, is_write ? "wr_spin" : "rd_spin", K_PLAIN, NULL);
        return;
    }
    s = sym_lookup((char *)addr);
    if (!s) return;                       /* stack or heap: not shared state of the protocol */
    if (!strcmp(s->name, "fast")) label = is_write ? "wr_fast" : "rd_fast";
    else if (!strcmp(s->name, "org")) label = is_write ? "wr_org" : "rd_org";
    else if (!strcmp(s->name, "ready")) label = is_write ? "wr_ready" : "rd_ready";
    else if (!strcmp(s->name, "called")) label = is_write ? "wr_called" : "rd_called";
    else if (!strcmp(s->name, "ebp")) {
        if ((char *)addr - s->addr < 16) return;     /* the PyBufferProcs part: never accessed */
        label = is_write ? "wr_mark" : "rd_mark";
    }
    else if (!strcmp(s->name, "externpy") || !strcmp(s->name, "mutex")) return;
    else { rt_note("unmodelled %s of static %s", is_write ? "write" : "read", s->name); return; }
    rt_yield(s->lib, label, K_PLAIN, NULL);
}
void __tsan_init(void) {}
void __tsan_func_entry(void *pc) {}
void __tsan_func_exit(void) {}
void __tsan_read1(void *a) { access_hook(a, 1, 0); }
void __tsan_read2(void *a) { access_hook(a, 2, 0); }
void __tsan_read4(void *a) { access_hook(a, 4, 0); }
void __tsan_read8(void *a) { access_hook(a, 8, 0); }
void __tsan_read16(void *a) { access_hook(a, 16, 0); }
void __tsan_write1(void *a) { access_hook(a, 1, 1); }
void __tsan_write2(void *a) { access_hook(a, 2, 1); }
void __tsan_write4(void *a) { access_hook(a, 4, 1); }
void __tsan_write8(void *a) { access_hook(a, 8, 1); }
void __tsan_write16(void *a) { access_hook(a, 16, 1); }
void __tsan_unaligned_read2(void *a) { access_hook(a, 2, 0); }
void __tsan_unaligned_read4(void *a) { access_hook(a, 4, 0); }
void __tsan_unaligned_read8(void *a) { access_hook(a, 8, 0); }
void __tsan_unaligned_write2(void *a) { access_hook(a, 2, 1); }
void __tsan_unaligned_write4(void *a) { access_hook(a, 4, 1); }
void __tsan_unaligned_write8(void *a) { access_hook(a, 8, 1); }
void __tsan_volatile_read1(void *a) { access_hook(a, 1, 0); }
void __tsan_volatile_read4(void *a) { access_hook(a, 4, 0); }
void __tsan_volatile_read8(void *a) { access_hook(a, 8, 0); }
void __tsan_volatile_write1(void *a) { access_hook(a, 1, 1); }
void __tsan_volatile_write4(void *a) { access_hook(a, 4, 1); }
void __tsan_volatile_write8(void *a) { access_hook(a, 8, 1); }
void __tsan_read_range(void *a, long n) {}
void __tsan_write_range(void *a, long n) {}
void __tsan_vptr_update(void **a, void *b) {}
void __tsan_vptr_read(void **a) {}

/* ------------------------------------------------------------------ projection of the state */
static void snapshot(struct buf *b)
{
    char *slot = rt_PyCapsule_Type.tp_as_buffer;
    int spin = -2;                        /* -1 free, lib index, -2 unknown */
    if (!slot && !rt_PyCapsule_Type.tp_version_tag) spin = -1;
    else if (slot) { struct sym *s = sym_lookup(slot); if (s && !strcmp(s->name, "ebp")) spin = s->lib; }
    bput(b, "[%d,%d,%d", spin, pyinit, gil_owner);
    for (int l = 0; l < nlibs; l++) {
        struct sym *c = sym_find(l, "called"), *e = sym_find(l, "ebp"), *r = sym_find(l, "ready"),
                   *f = sym_find(l, "fast"), *o = sym_find(l, "org"), *mx = sym_find(l, "mutex");
        struct fmutex *m = NULL;
        for (int i = 0; i < nfm; i++) if (mx && fm[i].addr == (void *)mx->addr) m = &fm[i];
        bput(b, ",[%d,%d,%d,%d,%d,%d,%d,%d,%d]",
             e ? *(int *)(e->addr + 16) == -42 : -1,
             mlock_addr[l] ? (int)*(long *)mlock_addr[l] : 0,
             r ? *r->addr : -1,
             m ? (m->inited && m->recursive) : 0, m ? m->owner : 0, m ? m->depth : 0,
             c ? *c->addr : -1,
             o ? *(void **)o->addr != NULL : -1,
             f ? *(void **)f->addr != fast_initial[l] : -1);
    }
    bput(b, "]");
}

/* ------------------------------------------------------------------ scheduler */
static unsigned long long rnd(void)
{
    rng ^= rng << 13; rng ^= rng >> 7; rng ^= rng << 17;
    return rng;
}

static int enabled(struct worker *w)
{
    if (w->state != W_PARKED) return 0;
    if (w->kind == K_MUTEX) {
        struct fmutex *m = w->obj;
        return m->owner == 0 || (m->owner == w->id && m->recursive);
    }
    if (w->kind == K_GIL) return gil_owner == 0 || gil_owner == w->id;
    return 1;
}

static int is_spin_label(const char *l)
{
    return !strcmp(l, "rd_spin") || !strcmp(l, "rd_mark") || !strncmp(l, "cas_", 4);
}

static void coro_entry(int t);
static void *worker_main(void *arg)
{
    struct worker *w = arg;
    me = w;
    for (int i = 0; i < nplan[w->id]; i++) {
        rt_yield(-1, "t_loop", K_PLAIN, NULL);
        rt_call_lib(plan[w->id][i]);
    }
    rt_yield(-1, "t_loop", K_PLAIN, NULL);
    if (coro_mode) { w->state = W_DONE; swapcontext(&w->ctx, &sched_ctx); abort(); }
    pthread_mutex_lock(&mu);
    w->state = W_DONE;
    pthread_cond_signal(&sched_cv);
    pthread_mutex_unlock(&mu);
    return NULL;
}

static void coro_entry(int t) { worker_main(&W[t]); }

static void run_scenario(void)
{
    const char *status = "done";
    int nsteps = 0, si = 0, last = 0, div_i = -1, div_t = 0;
    char div_want[40] = "", div_got[40] = "";
    int prio[MAXT + 1], nchange = 0, change_at[8], lowprio = -1;
    struct buf win_state = {0}, cur_state = {0};
    int window_ok = 0;

    if (preinit) { pyinit = 1; bput(&ev_buf, "[\"pyinit\",0,-1,\"\"]"); nevents++; }
    for (int l = 0; l < MAXL; l++) initst[l] = "none";
    for (int t = 1; t <= nthreads; t++) prio[t] = (int)(rnd() % 1000) + 100;
    if (strategy == 2) { nchange = 1 + rnd() % 4; for (int i = 0; i < nchange; i++) change_at[i] = rnd() % 150; }
    for (int t = 1; t <= nthreads; t++) {
        W[t].id = t; W[t].state = W_NEW;
        if (coro_mode) {
            getcontext(&W[t].ctx);
            W[t].stk = malloc(1 << 18);
            W[t].ctx.uc_stack.ss_sp = W[t].stk; W[t].ctx.uc_stack.ss_size = 1 << 18;
            W[t].ctx.uc_link = NULL;
            makecontext(&W[t].ctx, (void (*)(void))coro_entry, 1, t);
            me = &W[t];
            swapcontext(&sched_ctx, &W[t].ctx);          /* runs to its first yield point */
            me = NULL;
            continue;
        }
        pthread_cond_init(&W[t].cv, NULL);
        pthread_create(&W[t].th, NULL, worker_main, &W[t]);
    }
    pthread_mutex_lock(&mu);
    for (;;) {
        int all_settled, all_done, en[MAXT], nen = 0, pick = 0;
        for (;;) {
            all_settled = all_done = 1;
            for (int t = 1; t <= nthreads; t++) {
                if (W[t].state != W_PARKED && W[t].state != W_DONE) all_settled = 0;
                if (W[t].state != W_DONE) all_done = 0;
            }
            if (all_settled) break;
            if (coro_mode) abort();
            pthread_cond_wait(&sched_cv, &mu);
        }
        /* every worker is parked or finished: the state is stable */
        if (nsteps > 0) { bput(&state_buf, "%s", nsteps > 1 ? "," : ""); snapshot(&state_buf); }
        else { bput(&state_buf, "\"init\":"); snapshot(&state_buf); bput(&state_buf, ",\"states\":["); }
        if (all_done) break;
        for (int t = 1; t <= nthreads; t++) if (enabled(&W[t])) en[nen++] = t;
        if (nen == 0) { status = "deadlock"; break; }
        if (nsteps >= budget) { status = "budget"; break; }
        /* livelock: only spin steps, unchanged state, every enabled thread ran >= 8 times */
        cur_state.len = 0; snapshot(&cur_state);
        if (!window_ok || win_state.len != cur_state.len || memcmp(win_state.p, cur_state.p, cur_state.len)) {
            win_state.len = 0; bput(&win_state, "%.*s", (int)cur_state.len, cur_state.p);
            for (int t = 1; t <= nthreads; t++) W[t].grants_in_window = 0;
            window_ok = 1;
        } else {
            int all8 = 1;
            for (int i = 0; i < nen; i++)
                if (W[en[i]].grants_in_window < 8 || !is_spin_label(W[en[i]].label)) all8 = 0;
            if (all8) { status = "livelock"; break; }
        }
        /* choose */
        if (si < nsched) {
            int t = sched_tid[si]; const char *want = sched_lab[si];
            int ok = t >= 1 && t <= nthreads && enabled(&W[t]);
            if (ok && want && strcmp(want, W[t].label)) {
                if (div_i < 0) { div_i = si; div_t = t; snprintf(div_want, 40, "%s", want); snprintf(div_got, 40, "%s", W[t].label); }
            }
            if (!ok && div_i < 0) {
                div_i = si; div_t = t; snprintf(div_want, 40, "%s", want ? want : "");
                snprintf(div_got, 40, "%s", t < 1 || t > nthreads ? "nothread" : W[t].state == W_DONE ? "done" : "blocked");
            }
            pick = ok ? t : 0;
            si++;
        }
        if (!pick) {
            if (strategy == 1 && last && enabled(&W[last]) && rnd() % 100 < 80) pick = last;
            else if (strategy == 2) {
                for (int i = 0; i < nchange; i++) if (change_at[i] == nsteps) prio[en[rnd() % nen]] = lowprio--;
                pick = en[0];
                for (int i = 1; i < nen; i++) if (prio[en[i]] > prio[pick]) pick = en[i];
                /* a pure priority scheduler starves the holder of a spin lock: de-prioritise spinners */
                if (is_spin_label(W[pick].label) && W[pick].grants_in_window >= 3) prio[pick] = lowprio--;
            }
            else pick = en[rnd() % nen];
        }
        if (!is_spin_label(W[pick].label)) window_ok = 0;
        W[pick].grants_in_window++;
        bput(&step_buf, "%s[%d,\"%s\",%d]", nsteps ? "," : "", pick, W[pick].label, W[pick].lib);
        nsteps++; last = pick;
        if (coro_mode) {
            W[pick].state = W_RUNNING;
            me = &W[pick];
            swapcontext(&sched_ctx, &W[pick].ctx);
            me = NULL;
            continue;
        }
        W[pick].granted = 1; W[pick].state = W_RUNNING;
        pthread_cond_signal(&W[pick].cv);
    }
    /* report */
    bput(&state_buf, "]");
    emit("\"status\":\"%s\",\"nsteps\":%d,\"events\":[%s],\"steps\":[%s],%s,\"notes\":[%s],\"nnotes\":%d",
         status, nsteps, ev_buf.p ? ev_buf.p : "", step_buf.p ? step_buf.p : "", state_buf.p,
         note_buf.p ? note_buf.p : "", nnotes);
    if (div_i >= 0) emit(",\"div\":[%d,%d,\"%s\",\"%s\"]", div_i, div_t, div_want, div_got);
    emit(",\"threads\":[");
    for (int t = 1; t <= nthreads; t++) {
        struct worker *w = &W[t];
        emit("%s{\"t\":%d,\"state\":\"%s\",\"label\":\"%s\",\"lib\":%d,\"want\":\"%s\",\"owner\":%d,\"wantlib\":%d,\"stack\":[",
             t > 1 ? "," : "", t, w->state == W_DONE ? "done" : enabled(w) ? "runnable" : "blocked",
             w->label ? w->label : "", w->lib,
             w->state == W_DONE ? "" : w->kind == K_MUTEX ? "mutex" : w->kind == K_GIL ? "gil" : "",
             w->state == W_DONE ? 0 : w->kind == K_MUTEX ? ((struct fmutex *)w->obj)->owner : w->kind == K_GIL ? gil_owner : 0,
             w->state != W_DONE && w->kind == K_MUTEX ? ((struct fmutex *)w->obj)->lib : -1);
        for (int d = 0; d < w->depth && d < MAXDEPTH; d++) emit("%s%d", d ? "," : "", w->stack[d]);
        emit("]}");
    }
    emit("],\"libs\":[");
    for (int l = 0; l < nlibs; l++)
        emit("%s{\"init\":\"%s\",\"initer\":%d}", l ? "," : "", initst[l], initer[l]);
    emit("]");
}

/* ------------------------------------------------------------------ driver */
static int tagset(const char *s, int *flags)
{
    for (int l = 0; l < MAXL; l++) flags[l] = 0;
    if (!strcmp(s, "-")) return 0;
    for (; *s; s++) if (*s >= 'A' && *s < 'A' + MAXL) flags[*s - 'A'] = 1;
    return 0;
}

static int parse_line(char *line, char *id)
{
    char planstr[256], s1[16], s2[16], s3[16], s4[16];
    unsigned long long seed;
    int off = 0;
    if (sscanf(line, "%63s %d %d %255s %15s %15s %15s %15s %d %d %llu %d %d %n", id, &nthreads, &nlibs, planstr,
               s1, s2, s3, s4, &preinit, &strategy, &seed, &budget, &coro_mode, &off) < 13) return -1;
    if (nthreads < 1 || nthreads >= MAXT || nlibs < 1 || nlibs > MAXL) return -1;
    rng = seed * 2654435761ULL + 88172645463325252ULL;
    tagset(s1, f_self); tagset(s2, f_cross); tagset(s3, f_failc); tagset(s4, f_failm);
    int t = 1; nplan[1] = 0;
    for (char *p = planstr; *p; p++) {
        if (*p == '|') { t++; if (t >= MAXT) return -1; nplan[t] = 0; }
        else if (*p >= 'A' && *p < 'A' + nlibs && nplan[t] < MAXPLAN) plan[t][nplan[t]++] = *p - 'A';
    }
    nsched = 0;
    char *p = line + off;
    while (*p && *p != '\n' && *p != '-') {
        char *e;
        sched_tid[nsched] = (int)strtol(p, &e, 10);
        sched_lab[nsched] = NULL;
        p = e;
        if (*p == '.') {
            char *q = ++p;
            while (*p && *p != ',' && *p != '\n') p++;
            sched_lab[nsched] = strndup(q, p - q);
        }
        nsched++;
        if (*p == ',') p++;
        if (nsched >= 99999) break;
    }
    return 0;
}

int main(int argc, char **argv)
{
    char *line = NULL; size_t cap = 0;
    if (argc < 2) { fprintf(stderr, "usage: embed_harness SYMTAB < runs\n"); return 3; }
    load_symtab(argv[1]);
    setvbuf(stdout, NULL, _IOFBF, 1 << 20);
    while (getline(&line, &cap, stdin) > 0) {
        char id[64] = "?";
        int fds[2], st;
        if (line[0] == '\n' || line[0] == '#') continue;
        if (parse_line(line, id) < 0) { printf("{\"id\":\"%s\",\"status\":\"badinput\"}\n", id); continue; }
        if (pipe(fds) < 0) return 3;
        fflush(stdout);
        pid_t pid = fork();
        if (pid == 0) {
            close(fds[0]);
            alarm(STALL_SECONDS);
            emit("{\"id\":\"%s\",", id);
            run_scenario();
            emit("}\n");
            size_t off = 0;
            while (off < outlen) { ssize_t n = write(fds[1], out + off, outlen - off); if (n <= 0) break; off += n; }
            _exit(0);
        }
        close(fds[1]);
        {
            char bufr[65536]; ssize_t n; size_t total = 0;
            while ((n = read(fds[0], bufr, sizeof bufr)) > 0) { fwrite(bufr, 1, n, stdout); total += n; }
            close(fds[0]);
            waitpid(pid, &st, 0);
            if (WIFSIGNALED(st) || total == 0)
                printf("%s{\"id\":\"%s\",\"status\":\"%s\",\"signal\":%d}\n", total ? "\n" : "", id,
                       WIFSIGNALED(st) && WTERMSIG(st) == SIGALRM ? "hang" : "crash",
                       WIFSIGNALED(st) ? WTERMSIG(st) : 0);
        }
        fflush(stdout);
    }
    return 0;
}
