"""Python side of the C28 scheduling harness: builds harness/embed/{lib.c,rt.c} against the
UNMODIFIED <repo>/src/cffi/_embedding.h (core.REPO at check time, objects in ctx.tmp), feeds
scenarios + schedules to the executable and parses its per-run JSON."""
import json, os, subprocess, sysconfig
from concurrent.futures import ThreadPoolExecutor
from harness import core

HERE = os.path.dirname(os.path.abspath(__file__))
TAGS = "ABC"

# model label (specs/Embedding.tla) -> operation reported by the harness (rt.c)
M2H = {
    "t_loop": "t_loop", "c_enter": "c_enter", "c_fast": "rd_fast", "g_mark": "wr_mark", "g_read": "rd_spin",
    "g_assert": "rd_mark", "g_cas": "cas_spin_acq", "g_isinit": "py_isinit", "g_pyinit": "py_init",
    "g_save": "py_savethread", "g_rel": "cas_spin_rel", "m_cas": "cas_mlock_acq", "m_ready": "rd_ready",
    "m_init": "mutex_init", "m_setrdy": "wr_ready", "m_rel": "cas_mlock_rel", "m_lock": "mutex_lock",
    "s_called": "rd_called", "s_setcalled": "wr_called", "i_ensure": "gil_ensure", "i_modinit": "modinit",
    "i_code": "i_code", "i_self": "i_self", "i_self2": "i_self2", "i_cross": "i_cross", "i_cross2": "i_cross2",
    "i_end": "i_end", "i_release": "gil_release", "s_barrier": "barrier", "s_rdorg": "rd_org",
    "s_rdorg2": "rd_org", "s_publish": "wr_fast", "s_fail": "wr_org", "s_unlock": "mutex_unlock",
    "s_ret": "rd_org", "z_zero": "memset", "b_ensure": "b_ensure", "b_body": "b_body",
    "b_release": "b_release", "c_ret": "c_ret",
}


def _run(cmd):
    r = subprocess.run(cmd, capture_output=True, text=True)
    if r.returncode != 0:
        raise core.MachineryError("harness build failed: %s\n%s" % (" ".join(cmd), r.stderr[-3000:]))
    return r.stdout


def build(outdir, repo=None, extra_flags=()):
    """Compile the harness; returns (exe, symtab).  The header is taken from
    <repo>/src/cffi/_embedding.h through the include path: its text is not touched."""
    repo = repo or core.REPO
    hdr = os.path.join(repo, "src", "cffi", "_embedding.h")
    if not os.path.exists(hdr):
        raise core.MachineryError("no _embedding.h in %s" % repo)
    inc = ["-I" + HERE, "-I" + os.path.join(repo, "src", "cffi"), "-I" + sysconfig.get_paths()["include"]]
    jobs = []
    for i, tag in enumerate(TAGS):
        jobs.append(["gcc", "-O0", "-g0", "-w", "-fsanitize=thread", "-fno-pie", "-DLIBID=%d" % i, "-DLIBTAG=" + tag]
                    + list(extra_flags) + inc + ["-c", os.path.join(HERE, "lib.c"), "-o", os.path.join(outdir, "lib%s.o" % tag)])
    jobs.append(["gcc", "-O1", "-g0", "-w", "-fno-pie"] + inc + ["-c", os.path.join(HERE, "rt.c"),
                                                                "-o", os.path.join(outdir, "rt.o")])
    with ThreadPoolExecutor(4) as ex:
        list(ex.map(_run, jobs))
    exe = os.path.join(outdir, "embed_harness")
    _run(["gcc", "-no-pie", os.path.join(outdir, "rt.o")] + [os.path.join(outdir, "lib%s.o" % t) for t in TAGS]
         + ["-lpthread", "-o", exe])
    # data symbols defined by a library translation unit (function-local statics included)
    libsyms = set()
    for line in _run(["nm", "-S", os.path.join(outdir, "libA.o")]).splitlines():
        p = line.split()
        if len(p) == 4 and p[2] in "bBdD":
            libsyms.add(p[3].replace("_A.", "_%s."))
    symtab = os.path.join(outdir, "symtab.txt")
    found = set()
    with open(symtab, "w") as f:
        for line in _run(["nm", "-S", exe]).splitlines():
            p = line.split()
            if len(p) == 4 and p[2] in "bBdD":
                gen = p[3]
                for t in TAGS:
                    gen = gen.replace("_%s." % t, "_%s.")
                if gen in libsyms:
                    f.write("%s %s %s\n" % (p[0], p[1], p[3]))
                    found.add(p[3].split(".")[0])
    for t in TAGS:
        for need in ("called_" + t, "empty_buffer_procs_" + t):
            if need not in found:
                # the header no longer has these statics: operations on them cannot be labelled
                # (model divergence only); the semantic events do not depend on them
                pass
    return exe, symtab


def line(sid, sc):
    """One input line of embed_harness for scenario dict sc."""
    def ts(s):
        return "".join(sorted(s)) or "-"
    sched = ",".join("%d.%s" % (t, l) if l else str(t) for t, l in sc.get("sched", [])) or "-"
    return "%s %d %d %s %s %s %s %s %d %d %d %d %d %s" % (
        sid, len(sc["plan"]), sc["nlibs"], "|".join(p or "-" for p in sc["plan"]), ts(sc.get("self", "")),
        ts(sc.get("cross", "")), ts(sc.get("failc", "")), ts(sc.get("failm", "")), int(sc.get("pre", 0)),
        sc.get("strategy", 0), sc.get("seed", 1), sc.get("budget", 50000), int(sc.get("coro", 0)), sched)


def run_batch(exe, symtab, scenarios, nproc=8, timeout=7200):
    """scenarios: list of dicts; returns the list of result dicts (same order)."""
    lines = [line("r%d" % i, sc) for i, sc in enumerate(scenarios)]
    nproc = max(1, min(nproc, len(lines) // 20 + 1))
    chunks = [lines[i::nproc] for i in range(nproc)]

    def one(chunk):
        r = subprocess.run([exe, symtab], input="\n".join(chunk) + "\n", capture_output=True, text=True,
                           timeout=timeout)
        if r.returncode != 0:
            raise core.MachineryError("embed_harness exited %d: %s" % (r.returncode, r.stderr[-2000:]))
        return r.stdout
    res = {}
    with ThreadPoolExecutor(nproc) as ex:
        for outp in ex.map(one, chunks):
            for ln in outp.splitlines():
                if not ln.strip():
                    continue
                try:
                    d = json.loads(ln)
                except ValueError:
                    raise core.MachineryError("embed_harness printed malformed JSON: %r" % ln[:300])
                res[d["id"]] = d
    out = []
    for i in range(len(scenarios)):
        d = res.get("r%d" % i)
        if d is None:
            raise core.MachineryError("embed_harness lost run r%d" % i)
        out.append(d)
    return out


def events(d):
    return [{"ev": e[0], "t": e[1], "l": e[2], "r": e[3]} for e in d.get("events", [])]


def classify_stuck(d):
    """Key naming the class of a run that did not finish."""
    st = d["status"]
    if st != "deadlock":
        return st
    thr = {t["t"]: t for t in d["threads"]}
    blocked = [t for t in d["threads"] if t["state"] == "blocked"]
    libs = d["libs"]
    # wait-for cycle made only of start-up mutexes held by initialisers that are inside their own
    # init code and blocked on the start-up mutex of another library whose init code is running
    def cross_init(t):
        if t["want"] != "mutex" or t["wantlib"] < 0 or t["owner"] not in thr:
            return False
        mine = [l for l, li in enumerate(libs) if li["init"] == "running" and li["initer"] == t["t"]]
        wl = libs[t["wantlib"]]
        return bool(mine) and wl["init"] == "running" and wl["initer"] == t["owner"] and t["wantlib"] not in mine
    for t0 in blocked:
        seen, t = [], t0
        while t is not None and t["state"] == "blocked" and cross_init(t) and t["t"] not in seen:
            seen.append(t["t"])
            t = thr.get(t["owner"])
        if t is not None and t["t"] == t0["t"] and len(seen) >= 2:
            return "deadlock:cross-init-cycle"
    kinds = sorted("%s@%s" % (t["want"], t["label"]) for t in blocked)
    return "deadlock:" + ",".join(kinds)
