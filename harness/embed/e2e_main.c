/* C28 end-to-end: a multi-threaded C program that makes first calls into REAL embedded
   libraries built with ffi.embedding_api()/embedding_init_code() (harness/embed/e2e.py) and
   records one event per action of specs/EmbeddingIdeal.tla.

   usage: e2e_main NTHREADS PLAN SELF CROSS FAIL SYNC SEED STALL_SECONDS
     PLAN  per thread the libraries of its calls, e.g. "AB|A|B"
     SELF/CROSS/FAIL  subsets of "AB" ("-": empty): which init code calls its own library,
           calls the other library, raises at its end
     SYNC  1: both init codes meet at a rendez-vous before their cross call (forces the
           AB-BA interleaving)
   Py_InitializeEx is interposed (this executable is first in symbol resolution order) to
   count interpreter initialisations.  A watchdog reports STALL when no event was logged for
   STALL_SECONDS while calls are still open. */
#define _GNU_SOURCE
#include <stdio.h>
#include <stdlib.h>
#include <string.h>
#include <unistd.h>
#include <dlfcn.h>
#include <pthread.h>
#include <time.h>

extern int fA(int), fB(int);

enum { CALLBEGIN, CALLEND_RAN, CALLEND_ZERO, CALLEND_OTHER, PYINIT, INITSTART, INITEND_OK, INITEND_FAIL, BODY };
static const char *evname[] = { "callbegin", "callend", "callend", "callend", "pyinit", "initstart", "initend",
                                "initend", "body" };
static const char *evres[] = { "", "ran", "zero", "other", "", "", "ok", "fail", "" };

static struct { int code, t, lib; } evlog[8192];
static int nev, ndone;
static pthread_mutex_t lm = PTHREAD_MUTEX_INITIALIZER;
static pthread_cond_t sync_cv = PTHREAD_COND_INITIALIZER;
static __thread int tid;
static int f_self[2], f_cross[2], f_fail[2], f_sync, sync_count;
static char plan[16][16];
static unsigned seed0;

void ev_log(int code, int lib)
{
    pthread_mutex_lock(&lm);
    if (nev < 8192) { evlog[nev].code = code; evlog[nev].t = tid; evlog[nev].lib = lib; nev++; }
    pthread_mutex_unlock(&lm);
}
int cfg_self(int lib) { return f_self[lib]; }
int cfg_cross(int lib) { return f_cross[lib]; }
int cfg_fail(int lib) { return f_fail[lib]; }
int cfg_sync(void) { return f_sync; }
void sync_point(void)
{
    pthread_mutex_lock(&lm);
    sync_count++;
    pthread_cond_broadcast(&sync_cv);
    while (sync_count < 2) pthread_cond_wait(&sync_cv, &lm);
    pthread_mutex_unlock(&lm);
}
int call_lib(int lib, int x)
{
    int r;
    ev_log(CALLBEGIN, lib);
    r = lib == 0 ? fA(x) : fB(x);
    ev_log(r == 0x5EED ? CALLEND_RAN : r == 0 ? CALLEND_ZERO : CALLEND_OTHER, lib);
    return r;
}

void Py_InitializeEx(int initsigs)
{
    void (*real)(int) = (void (*)(int))dlsym(RTLD_NEXT, "Py_InitializeEx");
    ev_log(PYINIT, 0);
    real(initsigs);
}

static void *thread_main(void *arg)
{
    unsigned s;
    tid = (int)(long)arg;
    s = seed0 * 7919u + tid * 104729u;
    for (char *p = plan[tid]; *p; p++) {
        if (seed0) usleep(rand_r(&s) % 3000);
        call_lib(*p - 'A', 0x0BAD0BAD);
    }
    pthread_mutex_lock(&lm);
    ndone++;
    pthread_mutex_unlock(&lm);
    return NULL;
}

static void flags(const char *s, int *f) { f[0] = strchr(s, 'A') != NULL; f[1] = strchr(s, 'B') != NULL; }

int main(int argc, char **argv)
{
    int nthreads, stall, last = -1, quiet = 0;
    pthread_t th;
    if (argc < 9) return 2;
    nthreads = atoi(argv[1]);
    {
        int t = 1, k = 0;
        for (char *p = argv[2]; *p; p++) {
            if (*p == '|') { t++; k = 0; } else if (k < 15 && t < 16) plan[t][k++] = *p;
        }
    }
    flags(argv[3], f_self); flags(argv[4], f_cross); flags(argv[5], f_fail);
    f_sync = atoi(argv[6]); seed0 = (unsigned)atoi(argv[7]); stall = atoi(argv[8]);
    for (int t = 1; t <= nthreads; t++) pthread_create(&th, NULL, thread_main, (void *)(long)t);
    for (;;) {
        int n, d;
        usleep(50000);
        pthread_mutex_lock(&lm); n = nev; d = ndone; pthread_mutex_unlock(&lm);
        if (d == nthreads) break;
        if (n != last) { last = n; quiet = 0; }
        else if (++quiet * 0.05 >= stall) { printf("STALL\n"); break; }
    }
    pthread_mutex_lock(&lm);
    for (int i = 0; i < nev; i++)
        printf("EV %s %d %d %s\n", evname[evlog[i].code], evlog[i].t, evlog[i].lib,
               evres[evlog[i].code][0] ? evres[evlog[i].code] : "-");
    fflush(stdout);
    _exit(0);
}
