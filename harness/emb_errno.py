"""C22, the embedding entry path: a REAL embedded module (ffi.embedding_api + embedding_init_code,
C source emitted by the recompiler of the tree under test, so it contains the text of the current
src/cffi/_embedding.h) and a plain multi-threaded C program linked against it.  The C threads
assign errno, call the dll-exported extern "Python" function (the first such call of the process
starts the interpreter and runs the init code; calls of other threads may arrive meanwhile; later
calls go straight to cffi_call_python) and record the errno they see when it has returned; the
Python function executes a small random program (ffi.errno reads/assignments, Python-level
activity that dirties the real errno, calls of a C function of the module that observes/assigns
errno) and records what it observed.  One run = one sub-process = one event trace for
Trace_Errno.tla (events CSet / EmbEnter / Get / Set / Clobber / CallEnter / CallExit / CbExit of
`raw` threads); the verdict is TLC's, against ErrnoIdeal."""
import json, os, subprocess, sys, sysconfig
from concurrent.futures import ThreadPoolExecutor
from harness import core

INT_MIN, INT_MAX = -2 ** 31, 2 ** 31 - 1
MOD = "_cv22emb"

INIT = r'''
import os, json, threading, time
from _cv22emb import ffi, lib
_boot = {"ident": threading.get_ident()}        # the thread whose call runs this init code
with open(os.environ["CV22_PLAN"]) as _f:
    _plan = json.load(_f)
_calls = {int(k): v for k, v in _plan["calls"].items()}     # slot -> [[ops, result] per call]
_pos = {}
_log = []

@ffi.def_extern()
def cv_emb(slot):
    evs = []
    i = _pos.get(slot, 0)
    _pos[slot] = i + 1
    ops, res = _calls[slot][i]
    for op in ops:
        if op[0] == "Get":
            evs.append(["Get", ffi.errno])
        elif op[0] == "Set":
            ffi.errno = op[1]
            evs.append(["Set", op[1]])
        elif op[0] == "Clobber":
            try:
                os.stat("/nonexistent/cv22emb")
            except OSError:
                pass
            evs.append(["Clobber", 0])
        else:                                   # ["Call", assign?, value]
            evs.append(["CallEnter", lib.cv_c(op[1], op[2])])
            if op[1]:
                evs.append(["CSet", op[2]])
            evs.append(["CallExit", 0])
    _log.append([slot, i, threading.get_ident(), evs])
    return res

@ffi.def_extern()
def cv_report():
    with open(os.environ["CV22_OUT"], "w") as f:
        json.dump({"boot": _boot, "log": _log}, f)
    return 7

for _k in range(_plan["init_noise"]):           # start-up activity that leaves ENOENT etc. in errno
    try:
        os.stat("/nonexistent/cv22emb%d" % _k)
    except OSError:
        pass
_boot["end"] = time.monotonic_ns()
'''

SOURCE = r'''
#include <errno.h>
/* observes the errno it is called with; optionally leaves another one */
static int cv_c(int assign, int v) { int e = errno; if (assign) errno = v; return e; }
'''

MAIN_C = r'''
#include <stdio.h>
#include <stdlib.h>
#include <string.h>
#include <errno.h>
#include <time.h>
#include <pthread.h>
extern int cv_emb(int);
extern int cv_report(void);
#define MAXC 16
struct thr { int slot, n, delay_us; int pre[MAXC], ret[MAXC], post[MAXC]; long long t0[MAXC]; pthread_t th; };
static struct thr T[16];
static pthread_barrier_t bar;
static long long now(void) { struct timespec ts; clock_gettime(CLOCK_MONOTONIC, &ts);
                             return (long long)ts.tv_sec * 1000000000LL + ts.tv_nsec; }
static void *body(void *a)
{
    struct thr *t = a; int i;
    pthread_barrier_wait(&bar);
    if (t->delay_us) { struct timespec d = {0, 1000L * t->delay_us}; nanosleep(&d, NULL); }
    for (i = 0; i < t->n; i++) {
        int r, e;
        t->t0[i] = now();
        errno = t->pre[i];
        r = cv_emb(t->slot);
        e = errno;
        t->ret[i] = r; t->post[i] = e;
    }
    return NULL;
}
int main(int argc, char **argv)           /* one argument per thread: slot:delay_us:pre,pre,... */
{
    int n = argc - 1, k, i;
    for (k = 0; k < n; k++) {
        char *p = argv[k + 1];
        T[k].slot = strtol(p, &p, 10); p++;
        T[k].delay_us = strtol(p, &p, 10);
        while (*p && T[k].n < MAXC) { p++; T[k].pre[T[k].n++] = (int)strtol(p, &p, 10); }
    }
    pthread_barrier_init(&bar, NULL, n);
    for (k = 0; k < n; k++) if (pthread_create(&T[k].th, NULL, body, &T[k])) return 3;
    for (k = 0; k < n; k++) pthread_join(T[k].th, NULL);
    if (cv_report() != 7) return 4;
    for (k = 0; k < n; k++) for (i = 0; i < T[k].n; i++)
        printf("C %d %d %d %d %d %lld\n", T[k].slot, i, T[k].pre[i], T[k].ret[i], T[k].post[i], T[k].t0[i]);
    return 0;
}
'''


def _run(cmd):
    r = subprocess.run(cmd, capture_output=True, text=True)
    if r.returncode != 0:
        raise core.MachineryError("embedded errno harness: build failed: %s\n%s" % (
            " ".join(cmd), (r.stderr or r.stdout)[-3000:]))


def build(outdir):
    """-> path of the executable, or None when this interpreter has no shared libpython."""
    import cffi
    os.makedirs(outdir, exist_ok=True)
    libdir = sysconfig.get_config_var("LIBDIR")
    ldlib = sysconfig.get_config_var("LDLIBRARY") or ""
    if not (sysconfig.get_config_var("Py_ENABLE_SHARED") and os.path.exists(os.path.join(libdir, ldlib))):
        return None
    if not os.path.abspath(cffi.__file__).startswith(os.path.abspath(core.REPO)):
        raise core.MachineryError("cffi imported from %s, not from the tree under test" % cffi.__file__)
    pylib = ldlib[3:].split(".so")[0]
    ffi = cffi.FFI()
    ffi.embedding_api("int cv_emb(int); int cv_report(void);")
    ffi.cdef("int cv_c(int, int);")
    ffi.set_source(MOD, SOURCE)
    ffi.embedding_init_code(INIT)
    c = os.path.join(outdir, MOD + ".c")
    ffi.emit_c_code(c)
    with open(c) as f:
        if "_cffi_start_and_call_python" not in f.read():
            raise core.MachineryError("generated embedding module does not contain _embedding.h")
    so = os.path.join(outdir, "lib%s.so" % MOD)
    _run(["gcc", "-shared", "-fPIC", "-O1", "-w", "-pthread", "-I" + sysconfig.get_paths()["include"], c, "-o", so,
          "-L" + libdir, "-l" + pylib, "-Wl,-rpath," + libdir])
    mc = os.path.join(outdir, "cv22emb_main.c")
    with open(mc, "w") as f:
        f.write(MAIN_C)
    exe = os.path.join(outdir, "cv22emb_main")
    _run(["gcc", "-O1", "-w", "-pthread", mc, "-o", exe, so, "-Wl,-rpath," + outdir])
    return exe


def rand_errno(r, t, n):
    x = r.random()
    if x < 0.4:
        return r.randrange(INT_MIN, INT_MAX + 1)
    if x < 0.8:
        return t * 100000 + n
    return r.choice([0, 1, -1, 2, 4, 11, INT_MAX, INT_MIN])


def gen_plan(r):
    """A random program: 1-4 C threads, 1-3 calls each; a thread may start a little later than
    the others, so that its first call arrives while another thread runs the start-up."""
    nthr = r.choice([1, 2, 2, 3, 4])
    plan = {"threads": [], "calls": {}, "init_noise": r.choice([0, 1, 3])}
    cnt = 0
    for t in range(1, nthr + 1):
        calls, pres = [], []
        for _ in range(r.randrange(1, 4)):
            ops = []
            for _ in range(r.randrange(0, 5)):
                cnt += 1
                x = r.random()
                if x < 0.4:
                    ops.append(["Get"])
                elif x < 0.55:
                    ops.append(["Set", rand_errno(r, t, cnt)])
                elif x < 0.7:
                    ops.append(["Clobber"])
                else:
                    ops.append(["Call", r.randrange(2), rand_errno(r, t, cnt)])
            cnt += 1
            calls.append([ops, r.randrange(-5, 1000)])
            pres.append(rand_errno(r, t, cnt))
        plan["calls"][str(t)] = calls
        plan["threads"].append({"t": t, "delay_us": r.choice([0, 0, r.randrange(0, 30000)]), "pre": pres})
    return plan


def ev(name, t, v=0, p=""):
    return {"ev": name, "t": t, "v": v, "p": p}


def execute(exe, plan, work, tag, timeout=300):
    """Runs one plan in a fresh process (the interpreter is started by the first call) and
    returns the event trace {"raw": [...], "evs": [...]} plus the modes of the calls."""
    pj, oj = os.path.join(work, "plan_%s.json" % tag), os.path.join(work, "out_%s.json" % tag)
    core.write_json(pj, plan)
    env = core.sub_env(PYTHONHOME=sys.base_prefix, CV22_PLAN=pj, CV22_OUT=oj)
    cmd = [exe] + ["%d:%d:%s" % (th["t"], th["delay_us"], ",".join(str(v) for v in th["pre"]))
                   for th in plan["threads"]]
    try:
        r = subprocess.run(cmd, capture_output=True, text=True, env=env, timeout=timeout)
    except subprocess.TimeoutExpired:
        raise core.MachineryError("embedded errno harness did not finish: %r" % (cmd,))
    if r.returncode != 0 or not os.path.exists(oj):
        raise core.MachineryError("embedded errno harness exited %d: %s" % (r.returncode, r.stderr[-2000:]))
    with open(oj) as f:
        out = json.load(f)
    crec = {}
    for ln in r.stdout.splitlines():
        p = ln.split()
        if p and p[0] == "C":
            crec[(int(p[1]), int(p[2]))] = [int(x) for x in p[3:]]
    pyrec = {(s, i): (ident, evs) for s, i, ident, evs in out["log"]}
    ncalls = sum(len(th["pre"]) for th in plan["threads"])
    if len(crec) != ncalls or len(pyrec) != ncalls:
        raise core.MachineryError("embedded errno harness: %d calls planned, %d seen by C, %d by Python\n%s" % (
            ncalls, len(crec), len(pyrec), r.stderr[-1500:]))
    evs, modes = [], {}
    for th in plan["threads"]:
        t = th["t"]
        for i, pre in enumerate(th["pre"]):
            cpre, ret, post, t0 = crec[(t, i)]
            ident, pevs = pyrec[(t, i)]
            if cpre != pre or ret != plan["calls"][str(t)][i][1]:
                raise core.MachineryError("embedded errno harness: call %d of thread %d returned %r" % (i, t, ret))
            # how the call got to the Python function (a label; the ideal treats all alike)
            if i == 0 and ident == out["boot"]["ident"]:
                mode = "emb1"
            elif t0 < out["boot"]["end"]:
                mode = "embw"
            else:
                mode = "emb"
            modes["%d.%d" % (t, i)] = mode
            evs.append(ev("CSet", t, pre))
            evs.append(ev("EmbEnter", t, 0, mode))
            for name, v in pevs:
                evs.append(ev(name, t, v, "api" if name == "CallEnter" else ""))
            evs.append(ev("CbExit", t, post))
    if list(modes.values()).count("emb1") != 1:
        raise core.MachineryError("embedded errno harness: %d initialising calls" % list(modes.values()).count("emb1"))
    return {"raw": [th["t"] for th in plan["threads"]], "evs": evs}, modes


def run_all(tmp, plans, par=4):
    """-> ([(trace, modes)] in the order of plans, None) or ([], reason-for-skipping)."""
    work = os.path.join(tmp, "emb22")
    exe = build(work)
    if exe is None:
        return [], "no shared libpython on this interpreter: the embedded entry path was not run"
    with ThreadPoolExecutor(par) as ex:
        res = list(ex.map(lambda kp: execute(exe, kp[1], work, str(kp[0])), enumerate(plans)))
    return res, None
