"""Shared helpers of the C15 / C17 / C20 checks (batch validation of records by TLC,
parallel TLC runs, parsing of invariant counterexamples)."""
import re
from concurrent.futures import ThreadPoolExecutor
from harness import core, tlaval


def batch_verdicts(ctx, module, recs, chunk=4000, name=None, extra_env=None, timeout=1500, par=3):
    """Validate `recs` with the record-trace specification `module` (chunks of `chunk` records, `par` TLC
    processes at a time).  Returns (verdicts {index: [clause,...]}, divergences {index: what}, totals = list of the
    CHECKED tuples).  Indices are 0-based positions in `recs`.  Raises MachineryError if TLC did not
    acknowledge every record or if the specification reports a SPECBUG."""
    verdicts, diverge, totals = {}, {}, []
    parts = []
    for base in range(0, len(recs), chunk):
        part = recs[base:base + chunk]
        path = "%s/%s_%d_%d.json" % (ctx.tmp, module, len(ctx.cov["tlc_runs"]), base)
        core.write_json(path, part)
        # recursive operators over sequences of ~64 elements need more than the default thread stack
        env = {"TRACE_FILE": path, "JAVA_TOOL_OPTIONS": "-Xss64m -XX:ParallelGCThreads=2"}
        env.update(extra_env or {})
        parts.append((base, part, env))

    def one(p):
        return core.tlc(module, workers=1, env=p[2], timeout=timeout)
    with ThreadPoolExecutor(max_workers=par) as ex:
        results = list(ex.map(one, parts))
    for (base, part, _env), r in zip(parts, results):
        ctx.add_tlc(name or module, r, count_states=False)
        chk = core.tla_tuples(r.out, "CHECKED")
        if len(chk) != 1 or int(chk[0][0]) != len(part):
            raise core.MachineryError("%s: validation incomplete (%r for %d records)\n%s" % (
                module, chk, len(part), r.out[-3000:]))
        bug = core.tla_tuples(r.out, "SPECBUG")
        if bug:
            raise core.MachineryError("%s: the reference disagrees with the specification's model of it on record %s: %r"
                                      % (module, bug[0][0], part[int(bug[0][0]) - 1]))
        totals.append([int(x) for x in chk[0]])
        for tup in core.tla_tuples(r.out, "VERDICT"):
            clauses = tlaval.parse_value(tup[1])
            verdicts[base + int(tup[0]) - 1] = list(clauses)
        for tup in core.tla_tuples(r.out, "DIVERGE"):
            diverge[base + int(tup[0]) - 1] = core.unq(tup[1])
    return verdicts, diverge, totals


def tlc_many(jobs, par=3):
    """jobs: list of (name, kwargs for core.tlc).  Runs them `par` at a time; returns {name: TLCResult}."""
    out = {}
    with ThreadPoolExecutor(max_workers=par) as ex:
        def go(kw):
            kw = dict(kw)
            kw["env"] = dict({"JAVA_TOOL_OPTIONS": "-XX:ParallelGCThreads=%d" % max(2, int(kw.get("workers") or 2))},
                             **(kw.get("env") or {}))
            return core.tlc(**kw)
        futs = {name: ex.submit(go, kw) for name, kw in jobs}
        for name, f in futs.items():
            out[name] = f.result()
    return out


_STATE_HDR = re.compile(r"^State \d+: .*$", re.M)


def counterexample_states(out):
    """The states of the (first) error trace TLC printed: list of dicts var -> value."""
    parts = _STATE_HDR.split(out)
    if len(parts) == 1 and "violated by the initial state:" in out:
        parts = ["", out.split("violated by the initial state:", 1)[1]]
    res = []
    for p in parts[1:]:
        txt = p.strip().split("\n\n")[0]
        try:
            res.append(tlaval.parse_state(txt))
        except Exception:
            break
    return res


def cfg_text(spec, consts, invariants=(), properties=(), extra=""):
    def val(v):
        if isinstance(v, str):
            return '"%s"' % v
        if isinstance(v, bool):
            return "TRUE" if v else "FALSE"
        if isinstance(v, (set, frozenset, list, tuple)):
            return "{" + ", ".join(val(x) for x in sorted(v, key=repr)) + "}"
        return str(v)
    lines = ["SPECIFICATION " + spec, "CONSTANTS"]
    lines += ["  %s = %s" % (k, val(v)) for k, v in consts.items()]
    lines += ["INVARIANT " + i for i in invariants]
    lines += ["PROPERTY " + p for p in properties]
    lines.append("CHECK_DEADLOCK FALSE")
    return "\n".join(lines) + "\n" + extra


_ACT = re.compile(r"^<(\w+) line (\d+), col \d+ to line \d+, col \d+ of module \w+(?: \((\d+) \d+ \d+ \d+\))?>: (\d+):(\d+)", re.M)


def action_counts(out):
    """[(action@line, states generated)] from a -coverage run (Init and every disjunct of Next)."""
    return [("%s@%s" % (m.group(1), m.group(3) or m.group(2)), int(m.group(5))) for m in _ACT.finditer(out)]


def printed_tuple(out, head):
    """The first PrintT'ed tuple <<head, ...>> of TLC's output, parsed (TLC pretty-prints long values over
    several lines, which core.tla_tuples does not handle)."""
    m = re.search(r'<<\s*"%s"' % re.escape(head), out)
    if not m:
        return None
    p = tlaval._P(out[m.start():])
    return p.value()
