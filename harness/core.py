"""Core of the verification harness: rebuild of the backend from /repo's working tree,
TLC runner, evidence writer, known-findings filter.

Everything here is stdlib-only and is run with /venv/bin/python (3.12, has pycparser,
hypothesis and the build headers the repository itself needs).
"""
import atexit, fcntl, hashlib, json, os, random, re, shutil, subprocess, sys, tempfile, time

VERIF = os.path.dirname(os.path.dirname(os.path.abspath(__file__)))
REPO = os.environ.get("VERIF_REPO", "/repo")
SPECS = os.path.join(VERIF, "specs")
PY = "/venv/bin/python"
CACHE = os.environ.get("VERIF_CACHE", "/tmp/cffi_verif_cache")
# evidence of runs against a scratch worktree (mutation experiments) must not overwrite the real one
EVIDENCE = os.environ.get("VERIF_EVIDENCE") or (
    os.path.join(VERIF, "evidence") if REPO == "/repo" else "/tmp/cffi_verif_evidence_scratch")
NCPU = os.cpu_count() or 4


class MachineryError(Exception):
    """The verification machinery itself failed (exit code 2, never a violation)."""


# --------------------------------------------------------------------------- build

def _tree_hash(paths):
    h = hashlib.sha256()
    for p in sorted(paths):
        h.update(p.encode())
        with open(p, "rb") as f:
            h.update(hashlib.sha256(f.read()).digest())
    return h.hexdigest()[:20]


def _files(d, exts):
    out = []
    for root, _dirs, names in os.walk(d):
        if "libffi_" in root:
            continue
        for n in names:
            if n.endswith(exts):
                out.append(os.path.join(root, n))
    return out


def py_include():
    import sysconfig
    return sysconfig.get_paths()["include"]


BACKEND_FLAGS = ["-O2", "-fno-strict-overflow", "-DNDEBUG", "-g0", "-w", "-fPIC",
                 "-DFFI_BUILDING=1", "-DUSE__THREAD", "-DHAVE_SYNC_SYNCHRONIZE",
                 "-I/usr/include/ffi", "-I/usr/include/libffi"]


def build_backend(extra_flags=(), cc="gcc", tag=""):
    """Compile /repo/src/c/_cffi_backend.c (current working tree) into a cache directory
    keyed by the content hash of src/c; returns the directory holding the extension."""
    srcs = _files(os.path.join(REPO, "src", "c"), (".c", ".h"))
    key = _tree_hash(srcs) + hashlib.sha256((" ".join(extra_flags) + cc + tag).encode()).hexdigest()[:6]
    d = os.path.join(CACHE, "backend", key)
    so = os.path.join(d, "_cffi_backend.cpython-312-x86_64-linux-gnu.so")
    import sysconfig
    suffix = sysconfig.get_config_var("EXT_SUFFIX")
    so = os.path.join(d, "_cffi_backend" + suffix)
    if os.path.exists(so):
        return d
    os.makedirs(d, exist_ok=True)
    with open(os.path.join(d, ".lock"), "w") as lk:
        fcntl.flock(lk, fcntl.LOCK_EX)
        if os.path.exists(so):
            return d
        tmp = so + ".tmp%d" % os.getpid()
        cmd = [cc, "-shared"] + BACKEND_FLAGS + list(extra_flags) + [
            "-I" + py_include(), os.path.join(REPO, "src", "c", "_cffi_backend.c"),
            "-lffi", "-o", tmp]
        r = subprocess.run(cmd, capture_output=True, text=True)
        if r.returncode != 0:
            raise MachineryError("backend build failed:\n" + r.stderr[-3000:])
        os.rename(tmp, so)
    return d


_activated = None


def activate():
    """Put the freshly built backend and /repo/src first on sys.path (and in PYTHONPATH
    for sub-processes)."""
    global _activated
    if _activated:
        return _activated
    d = build_backend()
    src = os.path.join(REPO, "src")
    for p in (src, d):
        if p in sys.path:
            sys.path.remove(p)
        sys.path.insert(0, p)
    os.environ["PYTHONPATH"] = d + os.pathsep + src
    import _cffi_backend
    if not os.path.abspath(_cffi_backend.__file__).startswith(d):
        raise MachineryError("stale backend imported: %s" % _cffi_backend.__file__)
    import cffi
    if not os.path.abspath(cffi.__file__).startswith(src):
        raise MachineryError("wrong cffi package: %s" % cffi.__file__)
    _activated = d
    return d


def sub_env(**extra):
    activate()
    env = dict(os.environ)
    env.update({k: str(v) for k, v in extra.items()})
    return env


def gcc_shared(c_source, out_path, flags=(), cc="gcc"):
    src = out_path + ".c"
    with open(src, "w") as f:
        f.write(c_source)
    r = subprocess.run([cc, "-shared", "-fPIC", "-O1", "-w", src, "-o", out_path] + list(flags),
                       capture_output=True, text=True)
    if r.returncode != 0:
        raise MachineryError("gcc failed on helper %s:\n%s" % (src, r.stderr[-3000:]))
    return out_path


def gcc_run(c_source, workdir, name="probe", flags=(), cc="gcc"):
    """Compile and run a C program; returns stdout."""
    src = os.path.join(workdir, name + ".c")
    exe = os.path.join(workdir, name)
    with open(src, "w") as f:
        f.write(c_source)
    r = subprocess.run([cc, "-O0", "-w", src, "-o", exe] + list(flags), capture_output=True, text=True)
    if r.returncode != 0:
        raise MachineryError("gcc failed on probe %s:\n%s" % (src, r.stderr[-3000:]))
    r = subprocess.run([exe], capture_output=True, text=True)
    if r.returncode != 0:
        raise MachineryError("probe %s exited %d" % (exe, r.returncode))
    return r.stdout


def build_ext_module(modname, c_path, outdir, flags=(), cc="gcc"):
    """Compile a C file emitted by the recompiler into an importable extension (plain gcc,
    no setuptools)."""
    import sysconfig
    suffix = sysconfig.get_config_var("EXT_SUFFIX")
    out = os.path.join(outdir, modname.split(".")[-1] + suffix)
    cmd = [cc, "-shared", "-fPIC", "-O1", "-w", "-I" + py_include(),
           "-I" + os.path.join(REPO, "src", "cffi"), c_path, "-o", out] + list(flags)
    r = subprocess.run(cmd, capture_output=True, text=True)
    if r.returncode != 0:
        raise MachineryError("gcc failed on %s:\n%s" % (c_path, r.stderr[-3000:]))
    return out


# --------------------------------------------------------------------------- TLC

_STAT = re.compile(r"(\d+) states generated, (\d+) distinct states found, (\d+) states left")
_DEPTH = re.compile(r"The depth of the complete state graph search is (\d+)")


class TLCResult:
    def __init__(self, rc, out, wall):
        self.rc, self.out, self.wall = rc, out, wall
        m = None
        for m in _STAT.finditer(out):
            pass
        self.generated = int(m.group(1)) if m else 0
        self.distinct = int(m.group(2)) if m else 0
        self.left = int(m.group(3)) if m else 0
        d = _DEPTH.search(out)
        self.depth = int(d.group(1)) if d else 0
        self.ok = (rc == 0 and "Model checking completed. No error has been found." in out) or \
                  (rc == 0 and "Finished in" in out and "Error:" not in out)
        self.invariant_violated = re.findall(r"Invariant (\S+) is violated", out)
        self.deadlock = "Deadlock reached" in out
        self.temporal_violated = "Temporal properties were violated" in out

    def coverage(self):
        """per-action counts from -coverage output: {action: (distinct, total)}"""
        cov = {}
        for m in re.finditer(r"<(\w+) line \d+, col \d+ to line \d+, col \d+ of module (\w+)>: (\d+):(\d+)", self.out):
            cov[m.group(1)] = (int(m.group(3)), int(m.group(4)))
        return cov


def tlc(module, cfg=None, workers=None, simulate=None, depth=None, extra=(), env=None,
        timeout=3600, coverage=False, deadlock=True, seed=None, metaroot=None, dfs=False,
        cfg_text=None, dump=None):
    """Run TLC on specs/<module>.tla with specs/<cfg>.cfg (or with the literal cfg_text).
    dump: path prefix for `-dump dot,actionlabels`."""
    cfg = cfg or module
    meta = tempfile.mkdtemp(prefix="tlcmeta_", dir=metaroot)
    if cfg_text is not None:
        cfg_path = os.path.join(meta, "gen.cfg")
        with open(cfg_path, "w") as f:
            f.write(cfg_text)
    else:
        cfg_path = os.path.join(SPECS, cfg + ".cfg")
    cmd = ["tlc", "-metadir", meta, "-noGenerateSpecTE", "-config", cfg_path]
    if dump:
        cmd += ["-dump", "dot,actionlabels", dump]
    cmd += ["-workers", str(workers or NCPU)]
    if simulate:
        cmd += ["-simulate", simulate]
    if depth:
        cmd += ["-depth", str(depth)]
    if coverage:
        cmd += ["-coverage", "1"]
    if not deadlock:
        cmd += ["-deadlock"]
    if seed is not None:
        cmd += ["-seed", str(seed)]
    cmd += list(extra)
    cmd += [os.path.join(SPECS, module + ".tla")]
    e = dict(os.environ)
    if env:
        e.update({k: str(v) for k, v in env.items()})
    if dfs:
        e["JAVA_TOOL_OPTIONS"] = (e.get("JAVA_TOOL_OPTIONS", "") +
                                  " -Dtlc2.tool.queue.IStateQueue=StateDeque").strip()
    t0 = time.time()
    try:
        r = subprocess.run(cmd, capture_output=True, text=True, env=e, timeout=timeout, cwd=SPECS)
        out, rc = r.stdout + r.stderr, r.returncode
    except subprocess.TimeoutExpired as ex:
        out = (ex.stdout or b"").decode() if isinstance(ex.stdout, bytes) else (ex.stdout or "")
        rc = -9
    finally:
        shutil.rmtree(meta, ignore_errors=True)
    return TLCResult(rc, out, time.time() - t0)


def apalache(module, inv, length=0, timeout=900, extra=()):
    """apalache-mc check --length=N --inv=INV specs/<module>.tla -> (noerror: bool, output, wall)."""
    out_dir = tempfile.mkdtemp(prefix="apa_")
    cmd = ["apalache-mc", "check", "--length=%d" % length, "--inv=" + inv, "--out-dir=" + out_dir] + list(extra) + [
        os.path.join(SPECS, module + ".tla")]
    t0 = time.time()
    try:
        r = subprocess.run(cmd, capture_output=True, text=True, timeout=timeout, cwd=out_dir)
        out = r.stdout + r.stderr
    except subprocess.TimeoutExpired:
        out = "TIMEOUT"
    finally:
        shutil.rmtree(out_dir, ignore_errors=True)
    if "The outcome is: NoError" in out:
        return True, out, time.time() - t0
    if "Checker has found an error" in out:
        return False, out, time.time() - t0
    raise MachineryError("apalache failed on %s/%s:\n%s" % (module, inv, out[-3000:]))


def tla_tuples(out, head):
    """Extract PrintT'ed tuples of the form <<"HEAD", ...>> from TLC output; returns the
    list of raw strings of the elements after the head (split at top level)."""
    res = []
    i = 0
    # TLC pretty-prints long tuples over several lines as `<< "HEAD",\n   ...`
    out = re.sub(r'<<\s+"', '<<"', out)
    needle = '<<"%s"' % head
    while True:
        j = out.find(needle, i)
        if j < 0:
            break
        depth, k = 0, j
        instr = False
        while k < len(out):
            c = out[k]
            if instr:
                if c == '"' and out[k - 1] != "\\":
                    instr = False
            elif c == '"':
                instr = True
            elif out.startswith("<<", k):
                depth += 1; k += 1
            elif out.startswith(">>", k):
                depth -= 1; k += 1
                if depth == 0:
                    break
            k += 1
        body = out[j + 2:k - 1]
        res.append(_split_top(body)[1:])
        i = k
    return res


def _split_top(s):
    parts, depth, cur, instr = [], 0, "", False
    k = 0
    while k < len(s):
        c = s[k]
        if instr:
            cur += c
            if c == '"' and s[k - 1] != "\\":
                instr = False
        elif c == '"':
            instr = True; cur += c
        elif s.startswith("<<", k) or c in "{[(":
            depth += 1; cur += s[k:k + 2] if s.startswith("<<", k) else c
            if s.startswith("<<", k): k += 1
        elif s.startswith(">>", k) or c in "}])":
            depth -= 1; cur += s[k:k + 2] if s.startswith(">>", k) else c
            if s.startswith(">>", k): k += 1
        elif c == "," and depth == 0:
            parts.append(cur.strip()); cur = ""
        else:
            cur += c
        k += 1
    if cur.strip():
        parts.append(cur.strip())
    return parts


def unq(s):
    s = s.strip()
    if s.startswith('"') and s.endswith('"'):
        return s[1:-1]
    return s


# --------------------------------------------------------------------------- context

def load_known():
    """known_findings.json (reviewed) plus known_findings.d/*.json (per-property files)."""
    out = []
    p = os.path.join(VERIF, "known_findings.json")
    if os.path.exists(p):
        with open(p) as f:
            out += json.load(f)["findings"]
    d = os.path.join(VERIF, "known_findings.d")
    if os.path.isdir(d):
        for n in sorted(os.listdir(d)):
            if n.endswith(".json"):
                with open(os.path.join(d, n)) as f:
                    out += json.load(f)["findings"]
    return out


class Ctx:
    def __init__(self, pid, tier, seed, level):
        self.pid, self.tier, self.seed, self.level = pid, tier, seed, level
        self.rng = random.Random("%s-%s" % (pid, seed))
        self.t0 = time.time()
        self.tmp = tempfile.mkdtemp(prefix="cv_%s_" % pid)
        atexit.register(shutil.rmtree, self.tmp, True)
        self.cov = {"states": 0, "transitions": 0, "traces_validated_against_impl": 0,
                    "evaluations": 0, "distinct_nontrivial": 0, "samples": [], "rule": "",
                    "exhaustive": False, "tlc_runs": [], "actions": {}}
        self.assumptions = []
        self.violations = []      # (key, what, path)
        self.known_hits = {}
        self.known = [k for k in load_known() if k["property"] == pid and k.get("status", "open") == "open"]
        self._distinct = set()
        self.quick = tier == "quick"

    # ---- accounting
    def add_tlc(self, name, r, require_ok=True, count_states=True):
        self.cov["tlc_runs"].append({"name": name, "generated": r.generated, "distinct": r.distinct,
                                     "depth": r.depth, "wall_s": round(r.wall, 2)})
        if count_states:
            self.cov["states"] += r.distinct
            self.cov["transitions"] += r.generated
        for a, (d, t) in r.coverage().items():
            self.cov["actions"][name + "." + a] = t
        if require_ok and not r.ok:
            raise MachineryError("TLC run %s failed (rc=%s):\n%s" % (name, r.rc, r.out[-4000:]))

    def sample(self, obj, limit=6):
        if len(self.cov["samples"]) < limit:
            self.cov["samples"].append(obj)

    def case(self, distinct_key=None, n=1):
        self.cov["evaluations"] += n
        if distinct_key is not None:
            self._distinct.add(distinct_key)

    def validated(self, n=1):
        self.cov["traces_validated_against_impl"] += n

    # ---- verdicts
    def violation(self, key, what, replay=None):
        """key: canonical string naming the failing input class."""
        for k in self.known:
            if re.fullmatch(k["key"], key):
                if k["key"] not in self.known_hits:
                    self.known_hits[k["key"]] = k
                    print("KNOWN-FINDING: property=%s %s" % (self.pid, k["what"]), flush=True)
                return False
        if len(self.violations) < 20:
            d = os.path.join(EVIDENCE, "replay")
            os.makedirs(d, exist_ok=True)
            path = os.path.join(d, "%s_%d.json" % (self.pid, len(self.violations)))
            with open(path, "w") as f:
                json.dump({"property": self.pid, "key": key, "what": what, "replay": replay,
                           "seed": self.seed, "tier": self.tier}, f, indent=1, default=repr)
            print("VIOLATION property=%s replay=%s" % (self.pid, path), flush=True)
            print("  key=%s what=%s" % (key, what), flush=True)
        else:
            path = None
        self.violations.append((key, what, path))
        return True

    def finish(self):
        cov = self.cov
        cov["distinct_nontrivial"] = max(cov["distinct_nontrivial"], len(self._distinct))
        if self.level == "model_checking" and cov["states"] < 1:
            raise MachineryError("model_checking evidence without TLC states")
        ev = {"property_id": self.pid, "tier": self.tier, "seed": self.seed, "level": self.level,
              "coverage": cov, "assumptions": self.assumptions,
              "wall_s": round(time.time() - self.t0, 2), "violations": len(self.violations),
              "known_findings_hit": sorted(k["key"] for k in self.known_hits.values())}
        os.makedirs(EVIDENCE, exist_ok=True)
        p = os.path.join(EVIDENCE, self.pid + ".json")
        with open(p + ".tmp", "w") as f:
            json.dump(ev, f, indent=1, default=repr)
        os.rename(p + ".tmp", p)
        return 1 if self.violations else 0


def tlc_verdicts(ctx, module, data, head="VERDICT", cfg=None, name=None, workers=1, extra_env=None,
                 timeout=3600):
    """Write `data` as JSON, run the trace/batch specification `module` on it (the spec reads
    IOEnv.TRACE_FILE) and return the PrintT'ed <<head, ...>> tuples as lists of raw strings
    (use core.unq / int on the elements)."""
    path = os.path.join(ctx.tmp, "%s_%d.json" % (module, len(ctx.cov["tlc_runs"])))
    write_json(path, data)
    env = {"TRACE_FILE": path}
    env.update(extra_env or {})
    r = tlc(module, cfg, workers=workers, env=env, timeout=timeout)
    ctx.add_tlc(name or module, r, count_states=False)
    return tla_tuples(r.out, head)


def write_json(path, obj):
    with open(path, "w") as f:
        json.dump(obj, f)
    return path


def write_ndjson(path, records):
    with open(path, "w") as f:
        for r in records:
            f.write(json.dumps(r) + "\n")
    return path
