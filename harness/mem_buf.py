"""Executor for C19 (specs/Buffer*.tla): one backing object (bytearray, array.array('H') or a
cdata char[]), real ffi.buffer objects, from_buffer views and memmove calls on it; every
operation returns the observed event in the format of Trace_Buffer.tla."""
import array, ctypes
from harness import core
from harness import mem_common as mc

BACKINGS = ["bytearray", "array_H", "cdata"]
FB_TYPES = {1: "uint8_t", 2: "uint16_t", 3: "s3_t", 4: "int32_t", 8: "uint64_t"}


def key(a=None, b=None, s=None):
    o = lambda x: {"none": x is None, "v": 0 if x is None else x}
    return {"a": o(a), "b": o(b), "s": o(s)}


def key_slice(k):
    g = lambda x: None if x["none"] else x["v"]
    return slice(g(k["a"]), g(k["b"]), g(k["s"]))


NOKEY = key()


class BufArena:
    def __init__(self, backing, init):
        f, bf = mc.ffis()
        self.ffi, self.bffi = f, bf
        self.backing, self.n = backing, len(init)
        if backing == "bytearray":
            self.obj = bytearray(init)
            self.root = f.from_buffer("char[]", self.obj)
            self.pyobj = self.obj
        elif backing == "array_H":
            if len(init) % 2:
                raise ValueError("array_H needs an even size")
            self.obj = array.array("H")
            self.obj.frombytes(bytes(init))
            self.root = f.from_buffer("char[]", self.obj)
            self.pyobj = self.obj
        elif backing == "cdata":
            # the arena is observed and exposed as a Python buffer through ctypes, not through ffi.buffer
            self.root = f.new("char[]", max(len(init), 1))
            self.addr = int(f.cast("uintptr_t", self.root))
            ctypes.memmove(self.addr, bytes(init), len(init))
            self.obj = None
            self.pyobj = (ctypes.c_char * len(init)).from_address(self.addr)
        else:
            raise ValueError(backing)
        self.bufs, self.bufdesc, self.fbs, self.fbdesc, self.fbobjlen = [], [], [], [], []
        self.cnt = 0

    def snap(self):
        if self.backing == "cdata":
            return ctypes.string_at(self.addr, self.n)
        return bytes(memoryview(self.pyobj).cast("B"))

    def header(self):
        return {"mem": list(self.snap()), "backing": self.backing}

    def _obj_at(self, off, kind, length=None):
        """An object designating arena memory from byte `off` on (to the end or `length` bytes)."""
        f = self.ffi
        if kind == "cdata":
            return self.root + off
        if kind == "cdata_arr":
            return self.root[off:self.n if length is None else off + length]
        if kind == "buf":
            return f.buffer(self.root + off, (self.n - off) if length is None else length)
        mv = memoryview(self.pyobj).cast("B") if self.n else memoryview(bytearray(0))
        return mv[off:] if length is None else mv[off:off + length]

    def apply(self, op):
        """Returns the observed event, or None when the operation is not executed because it would
        touch bytes outside the object (only possible after from_buffer reported a wrong length; that
        event itself carries the evidence)."""
        f = self.ffi
        if op["op"] in ("fbget", "fbset"):
            isz = mc.KINDS[self.fbdesc[op["b"] - 1]].sz
            if op["i"] < 0 or (op["i"] + 1) * isz > self.fbobjlen[op["b"] - 1]:
                return None
        ev = {"op": op["op"], "b": op.get("b", 0), "i": op.get("i", 0), "j": op.get("j", 0), "n": op.get("n", 0),
              "key": op.get("key", NOKEY), "val": list(op.get("val", [])), "st": "ok", "out": [], "num": 0,
              "lo": 0, "chg": []}
        before = self.snap()
        self.cnt += 1
        new_buf = new_fb = None
        try:
            o = ev["op"]
            if o == "buffer":
                # pointer cdata / array cdata with an explicit size, array cdata without, the root object itself
                how = op.get("how", ("ptr", "arr", "slice", "root")[self.cnt % 4])
                i, n = ev["i"], ev["n"]
                if how == "root" and i != 0:
                    how = "arr"
                if how == "slice" and i + n > self.n:
                    how = "ptr"
                if how in ("arr", "root") and self.n == 0 and self.backing == "cdata":
                    how = "ptr"                    # the cdata arena of an empty model has one spare byte
                if how == "ptr":
                    new_buf = f.buffer(self.root + i, n)
                elif how == "arr":
                    new_buf = f.buffer(self.root[i:self.n], n)
                elif how == "slice":
                    new_buf = f.buffer(self.root[i:i + n])
                else:
                    new_buf = f.buffer(self.root, n)
                ev["how"] = how
                ev["num"] = len(new_buf)
            elif o == "getidx":
                x = self.bufs[ev["b"] - 1][ev["i"]]
                ev["out"] = list(x) if type(x) is bytes and len(x) == 1 else [-2]
            elif o == "setidx":
                self.bufs[ev["b"] - 1][ev["i"]] = bytes(ev["val"])
            elif o == "getslice":
                x = self.bufs[ev["b"] - 1][key_slice(ev["key"])]
                ev["out"] = list(x) if type(x) is bytes else [-2]
            elif o == "setslice":
                src = op.get("src", ("bytes", "bytearray", "memoryview", "array")[self.cnt % 4])
                v = bytes(ev["val"])
                v = {"bytes": v, "bytearray": bytearray(v), "memoryview": memoryview(v),
                     "array": array.array("B", v)}[src]
                self.bufs[ev["b"] - 1][key_slice(ev["key"])] = v
            elif o == "cwrite":
                self.root[ev["i"]] = bytes(ev["val"])
            elif o == "move":
                kinds = ["cdata", "mv", "buf", "cdata_arr"]
                dk = op.get("dk", kinds[self.cnt % 4])
                sk = op.get("sk", kinds[(self.cnt // 4) % 4])
                (self.bffi if self.cnt % 2 else f).memmove(self._obj_at(ev["i"], dk), self._obj_at(ev["j"], sk), ev["n"])
            elif o == "movein":
                src = bytes(ev["val"])
                src = (src, bytearray(src), array.array("B", src), memoryview(src))[self.cnt % 4]
                f.memmove(self._obj_at(ev["i"], op.get("dk", ("cdata", "mv", "buf")[self.cnt % 3])), src, ev["n"])
            elif o == "moveout":
                ext = bytearray(b"\xEE" * (ev["n"] + 3))
                f.memmove(ext, self._obj_at(ev["j"], op.get("sk", ("cdata", "mv", "buf")[self.cnt % 3])), ev["n"])
                ev["out"] = list(ext[:ev["n"]]) + ([] if ext[ev["n"]:] == b"\xEE\xEE\xEE" else [-3])
            elif o == "frombuf":
                ct = FB_TYPES[ev["n"]]
                tname = ct + ("[%d]" % (ev["b"] - 1) if ev["b"] > 0 else "[]")
                obj = self._obj_at(ev["i"], op.get("ok", "mv"), ev["j"])
                new_fb = (f.from_buffer(tname, obj) if self.cnt % 2 else
                          self.bffi.from_buffer(f.typeof(tname), obj))
                ev["num"] = len(new_fb)
            elif o == "fbget":
                ct = self.fbdesc[ev["b"] - 1]
                ev["out"] = list(mc.KINDS[ct].enc(self.fbs[ev["b"] - 1][ev["i"]]))
            elif o == "fbset":
                ct = self.fbdesc[ev["b"] - 1]
                self.fbs[ev["b"] - 1][ev["i"]] = mc.KINDS[ct].dec(bytes(ev["val"]))
            else:
                raise core.MachineryError("unknown op %r" % (o,))
        except core.MachineryError:
            raise
        except Exception as e:
            ev["st"] = type(e).__name__
            ev["msg"] = str(e)[:100]
            new_buf = new_fb = None
        if new_buf is not None:
            self.bufs.append(new_buf)
            self.bufdesc.append((ev["i"], ev["n"]))
            if ev["num"] != ev["n"]:
                ev["stop"] = True       # a view of the wrong length: nothing further is done through it
        if new_fb is not None:
            self.fbs.append(new_fb)
            self.fbdesc.append(FB_TYPES[ev["n"]])
            self.fbobjlen.append(ev["j"])
        after = self.snap()
        if after != before:
            lo = next(k for k in range(self.n) if after[k] != before[k])
            hi = next(k for k in range(self.n - 1, -1, -1) if after[k] != before[k])
            ev["lo"], ev["chg"] = lo, list(after[lo:hi + 1])
        return ev

    def live_ok(self):
        """Every buffer created so far shows exactly the arena bytes it covers (liveness)."""
        s = self.snap()
        for b, (off, n) in zip(self.bufs, self.bufdesc):
            if off + n > self.n:
                continue                # a view reaching past the object is only measured, never read
            if bytes(b) != s[off:off + n] or len(b) != n:
                return False
        return True


def make_arena(backing, init, traces, metas):
    """BufArena, or None if the arena itself could not be built because ffi.from_buffer('char[]', obj)
    failed: then a one-event trace recording that failure is appended (TLC judges it)."""
    try:
        return BufArena(backing, init)
    except core.MachineryError:
        raise
    except Exception as e:
        if backing == "cdata":
            raise
        traces.append({"mem": list(init), "backing": backing, "ev": [
            {"op": "frombuf", "b": 0, "i": 0, "j": len(init), "n": 1, "key": NOKEY, "val": [], "st": type(e).__name__,
             "out": [], "num": 0, "lo": 0, "chg": [], "msg": str(e)[:100]}]})
        metas.append({"kind": "setup", "backing": backing})
        return None


# ---------------------------------------------------------------------------- scaled arenas
SCALED_OPS = ("buffer", "getslice", "setslice", "cwrite", "move", "movein", "moveout")
TORN = 256          # projection of a unit whose K bytes are not the pattern of one value
_pat0, _pats = {}, {}


def pattern(v, k):
    """The K real bytes that stand for one model byte of value v: position dependent, and different
    at every position for different values."""
    if (v, k) not in _pats:
        if k not in _pat0:
            _pat0[k] = bytes((q * 37 + (q >> 8) * 11 + (q >> 16) * 5) & 0xFF for q in range(k))
        if len(_pats) > 600:
            _pats.clear()
        _pats[(v, k)] = _pat0[k].translate(bytes((x + v) & 0xFF for x in range(256)))
    return _pats[(v, k)]


def expand(units, k):
    return b"".join(pattern(v, k) for v in units)


def project(data, k):
    """Real bytes -> model bytes; None if the length is not a whole number of units."""
    if len(data) % k:
        return None
    out = []
    mv = memoryview(data)
    p0 = _pat0.get(k) or pattern(0, k) and _pat0[k]
    for u in range(len(data) // k):
        v = (mv[u * k] - p0[0]) & 0xFF
        out.append(v if mv[u * k:(u + 1) * k] == pattern(v, k) else TORN)
    return out


class ScaledArena:
    """The same model-level operations as BufArena, but every model byte is K real bytes
    (pattern(v, K)): histories over a few units exercise buffers and copies of K..n*K real bytes with
    every overlap direction; events are projected back to units (a unit that is not the pattern of one
    value is TORN = 256, which no reference result contains) and judged by Trace_Buffer.tla."""
    def __init__(self, backing, init_units, k):
        self.k, self.backing, self.n = k, backing, len(init_units)
        self.real = BufArena(backing, expand(init_units, k))
        self.bufs, self.fbs = self.real.bufs, self.real.fbs

    @property
    def bufdesc(self):
        return [(off // self.k, n // self.k) for off, n in self.real.bufdesc]

    def snap_units(self):
        return project(self.real.snap(), self.k)

    def header(self):
        return {"mem": self.snap_units(), "backing": self.backing, "scale": self.k}

    def live_ok(self):
        return self.real.live_ok()

    def apply(self, op):
        k, o = self.k, op["op"]
        if o not in SCALED_OPS:
            raise core.MachineryError("operation %s is not available on a scaled arena" % o)
        ev = {"op": o, "b": op.get("b", 0), "i": op.get("i", 0), "j": op.get("j", 0), "n": op.get("n", 0),
              "key": op.get("key", NOKEY), "val": list(op.get("val", [])), "st": "ok", "out": [], "num": 0,
              "lo": 0, "chg": []}
        before = self.snap_units()
        rop = dict(op)
        for fld in ("i", "j", "n"):
            rop[fld] = ev[fld] * k
        if o in ("setslice", "movein"):
            rop["val"] = expand(ev["val"], k)
        if o in ("getslice", "setslice"):
            sc = lambda x: {"none": x["none"], "v": x["v"] * k}
            rop["key"] = {"a": sc(ev["key"]["a"]), "b": sc(ev["key"]["b"]), "s": ev["key"]["s"]}
        if o == "cwrite":
            try:
                self.real.root[ev["i"] * k:(ev["i"] + 1) * k] = pattern(ev["val"][0], k)
            except Exception as e:
                ev["st"] = type(e).__name__
        else:
            r = self.real.apply(rop)
            ev["st"] = r["st"]
            if "msg" in r:
                ev["msg"] = r["msg"]
            if r.get("stop"):
                ev["stop"] = True
            if o == "buffer":
                ev["num"] = r["num"] // k if r["num"] % k == 0 else -1
            elif o == "getslice" and r["st"] == "ok":
                ev["out"] = project(bytes(r["out"]), k) if -2 not in r["out"] else [-2]
                if ev["out"] is None:
                    ev["out"] = [-2]
            elif o == "moveout" and r["st"] == "ok":
                tail = r["out"][ev["n"] * k:]
                ev["out"] = (project(bytes(r["out"][:ev["n"] * k]), k) or []) + list(tail)
        after = self.snap_units()
        if after != before:
            diff = [x for x in range(self.n) if after[x] != before[x]]
            ev["lo"], ev["chg"] = diff[0], after[diff[0]:diff[-1] + 1]
        return ev
