"""Executor for C19 (specs/Buffer*.tla): one backing object (bytearray, array.array('H') or a
cdata char[]), real ffi.buffer objects, from_buffer views and memmove calls on it; every
operation returns the observed event in the format of Trace_Buffer.tla."""
import array
from harness import core
from harness import mem_common as mc

BACKINGS = ["bytearray", "array_H", "cdata"]
FB_TYPES = {1: "uint8_t", 2: "uint16_t", 3: "s3_t", 4: "int32_t", 8: "uint64_t"}


def key(a=None, b=None, s=None):
    o = lambda x: {"none": x is None, "v": 0 if x is None else x}
    return {"a": o(a), "b": o(b), "s": o(s)}


def key_slice(k):
    g = lambda x: None if x["none"] else x["v"]
    return slice(g(k["a"]), g(k["b"]), g(k["s"]))


NOKEY = key()


class BufArena:
    def __init__(self, backing, init):
        f, bf = mc.ffis()
        self.ffi, self.bffi = f, bf
        self.backing, self.n = backing, len(init)
        if backing == "bytearray":
            self.obj = bytearray(init)
            self.root = f.from_buffer("char[]", self.obj)
            self.pyobj = self.obj
        elif backing == "array_H":
            if len(init) % 2:
                raise ValueError("array_H needs an even size")
            self.obj = array.array("H")
            self.obj.frombytes(bytes(init))
            self.root = f.from_buffer("char[]", self.obj)
            self.pyobj = self.obj
        elif backing == "cdata":
            self.root = f.new("char[]", max(len(init), 1))
            f.buffer(self.root, len(init))[:] = bytes(init)
            self.obj = None
            self.pyobj = f.buffer(self.root, len(init))     # a Python-level buffer over the cdata
        else:
            raise ValueError(backing)
        self.bufs, self.bufdesc, self.fbs, self.fbdesc, self.fbobjlen = [], [], [], [], []
        self.cnt = 0

    def snap(self):
        if self.backing == "cdata":
            return bytes(self.ffi.buffer(self.root, self.n))
        return bytes(memoryview(self.pyobj).cast("B"))

    def header(self):
        return {"mem": list(self.snap()), "backing": self.backing}

    def _obj_at(self, off, kind, length=None):
        """An object designating arena memory from byte `off` on (to the end or `length` bytes)."""
        f = self.ffi
        if kind == "cdata":
            return self.root + off
        if kind == "cdata_arr":
            return self.root[off:self.n if length is None else off + length]
        if kind == "buf":
            return f.buffer(self.root + off, (self.n - off) if length is None else length)
        mv = memoryview(self.pyobj).cast("B")
        return mv[off:] if length is None else mv[off:off + length]

    def apply(self, op):
        """Returns the observed event, or None when the operation is not executed because it would
        touch bytes outside the object (only possible after from_buffer reported a wrong length; that
        event itself carries the evidence)."""
        f = self.ffi
        if op["op"] in ("fbget", "fbset"):
            isz = mc.KINDS[self.fbdesc[op["b"] - 1]].sz
            if op["i"] < 0 or (op["i"] + 1) * isz > self.fbobjlen[op["b"] - 1]:
                return None
        ev = {"op": op["op"], "b": op.get("b", 0), "i": op.get("i", 0), "j": op.get("j", 0), "n": op.get("n", 0),
              "key": op.get("key", NOKEY), "val": list(op.get("val", [])), "st": "ok", "out": [], "num": 0,
              "lo": 0, "chg": []}
        before = self.snap()
        self.cnt += 1
        new_buf = new_fb = None
        try:
            o = ev["op"]
            if o == "buffer":
                how = op.get("how", ("ptr", "slice", "whole")[self.cnt % 3])
                if how == "whole" and (ev["i"] != 0 or ev["n"] != self.n or self.backing != "cdata" or self.n == 0):
                    how = "ptr"
                if how == "ptr":
                    new_buf = f.buffer(self.root + ev["i"], ev["n"])
                elif how == "slice":
                    new_buf = f.buffer(self.root[ev["i"]:ev["i"] + ev["n"]])
                else:
                    new_buf = f.buffer(self.root)
                ev["num"] = len(new_buf)
            elif o == "getidx":
                x = self.bufs[ev["b"] - 1][ev["i"]]
                ev["out"] = list(x) if type(x) is bytes and len(x) == 1 else [-2]
            elif o == "setidx":
                self.bufs[ev["b"] - 1][ev["i"]] = bytes(ev["val"])
            elif o == "getslice":
                x = self.bufs[ev["b"] - 1][key_slice(ev["key"])]
                ev["out"] = list(x) if type(x) is bytes else [-2]
            elif o == "setslice":
                src = op.get("src", ("bytes", "bytearray", "memoryview", "array")[self.cnt % 4])
                v = bytes(ev["val"])
                v = {"bytes": v, "bytearray": bytearray(v), "memoryview": memoryview(v),
                     "array": array.array("B", v)}[src]
                self.bufs[ev["b"] - 1][key_slice(ev["key"])] = v
            elif o == "cwrite":
                self.root[ev["i"]] = bytes(ev["val"])
            elif o == "move":
                kinds = ["cdata", "mv", "buf", "cdata_arr"]
                dk = op.get("dk", kinds[self.cnt % 4])
                sk = op.get("sk", kinds[(self.cnt // 4) % 4])
                (self.bffi if self.cnt % 2 else f).memmove(self._obj_at(ev["i"], dk), self._obj_at(ev["j"], sk), ev["n"])
            elif o == "movein":
                src = bytes(ev["val"])
                src = (src, bytearray(src), array.array("B", src), memoryview(src))[self.cnt % 4]
                f.memmove(self._obj_at(ev["i"], op.get("dk", ("cdata", "mv", "buf")[self.cnt % 3])), src, ev["n"])
            elif o == "moveout":
                ext = bytearray(b"\xEE" * (ev["n"] + 3))
                f.memmove(ext, self._obj_at(ev["j"], op.get("sk", ("cdata", "mv", "buf")[self.cnt % 3])), ev["n"])
                ev["out"] = list(ext[:ev["n"]]) + ([] if ext[ev["n"]:] == b"\xEE\xEE\xEE" else [-3])
            elif o == "frombuf":
                ct = FB_TYPES[ev["n"]]
                tname = ct + ("[%d]" % (ev["b"] - 1) if ev["b"] > 0 else "[]")
                obj = self._obj_at(ev["i"], op.get("ok", "mv"), ev["j"])
                new_fb = (f.from_buffer(tname, obj) if self.cnt % 2 else
                          self.bffi.from_buffer(f.typeof(tname), obj))
                ev["num"] = len(new_fb)
            elif o == "fbget":
                ct = self.fbdesc[ev["b"] - 1]
                ev["out"] = list(mc.KINDS[ct].enc(self.fbs[ev["b"] - 1][ev["i"]]))
            elif o == "fbset":
                ct = self.fbdesc[ev["b"] - 1]
                self.fbs[ev["b"] - 1][ev["i"]] = mc.KINDS[ct].dec(bytes(ev["val"]))
            else:
                raise core.MachineryError("unknown op %r" % (o,))
        except core.MachineryError:
            raise
        except Exception as e:
            ev["st"] = type(e).__name__
            ev["msg"] = str(e)[:100]
            new_buf = new_fb = None
        if new_buf is not None:
            self.bufs.append(new_buf)
            self.bufdesc.append((ev["i"], ev["n"]))
        if new_fb is not None:
            self.fbs.append(new_fb)
            self.fbdesc.append(FB_TYPES[ev["n"]])
            self.fbobjlen.append(ev["j"])
        after = self.snap()
        if after != before:
            lo = next(k for k in range(self.n) if after[k] != before[k])
            hi = next(k for k in range(self.n - 1, -1, -1) if after[k] != before[k])
            ev["lo"], ev["chg"] = lo, list(after[lo:hi + 1])
        return ev

    def live_ok(self):
        """Every buffer created so far shows exactly the arena bytes it covers (liveness)."""
        s = self.snap()
        for b, (off, n) in zip(self.bufs, self.bufdesc):
            if bytes(b) != s[off:off + n] or len(b) != n:
                return False
        return True


def make_arena(backing, init, traces, metas):
    """BufArena, or None if the arena itself could not be built because ffi.from_buffer('char[]', obj)
    failed: then a one-event trace recording that failure is appended (TLC judges it)."""
    try:
        return BufArena(backing, init)
    except core.MachineryError:
        raise
    except Exception as e:
        if backing == "cdata":
            raise
        traces.append({"mem": list(init), "backing": backing, "ev": [
            {"op": "frombuf", "b": 0, "i": 0, "j": len(init), "n": 1, "key": NOKEY, "val": [], "st": type(e).__name__,
             "out": [], "num": 0, "lo": 0, "chg": [], "msg": str(e)[:100]}]})
        metas.append({"kind": "setup", "backing": backing})
        return None
