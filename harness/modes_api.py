"""API mode helpers shared by C12 and C34: the "C world" of a behaviour rendered as C source,
and building / importing emitted modules with plain gcc.

The C world is the actual C side an API-mode module is compiled against.  It is rendered
from a behaviour of specs/Cdef.tla exactly like the cdef text (same declarations), plus
definitions: every function gets a body, every global variable a definition.  C12 mutates the
cdef (MutateField / MutateConst / ...) while the C world stays what it was.
"""
import importlib, os, sys
from . import modes_gen as mg

PRELUDE = """#include <stdio.h>
#include <stdint.h>
#include <stddef.h>
#include <string.h>
#include <sys/types.h>
"""

INT_PRIMS = {"char", "signed char", "unsigned char", "_Bool", "short", "unsigned short", "int", "unsigned int",
             "long", "unsigned long", "long long", "unsigned long long", "int8_t", "uint8_t", "int16_t",
             "uint16_t", "int32_t", "uint32_t", "int64_t", "uint64_t", "size_t", "ssize_t", "intptr_t",
             "uintptr_t", "ptrdiff_t", "wchar_t"}
FLOAT_PRIMS = {"float", "double"}


def fn_const(name):
    """the constant a generated function adds to its integer arguments"""
    return 1000 + 7 * sum(ord(c) for c in name) % 89


def resolve(t, td):
    """replace typedef names by what they stand for (td: name -> resolved term)"""
    k = t[0]
    if k == "td":
        return td[t[1]]
    if k == "ptr":
        return ["ptr", resolve(t[1], td)]
    if k == "arr":
        return ["arr", resolve(t[1], td), t[2]]
    if k == "fnp":
        return ["fnp", resolve(t[1], td), [resolve(a, td) for a in t[2]], t[3]]
    return t


def function_def(act, td):
    """C definition of a declared function.  Integer results are  K + (sum of the integer
    arguments), so that a call through the module can be compared with the C semantics."""
    args = act["args"]
    params = ", ".join(mg.decl(a, "a%d" % i) for i, a in enumerate(args))
    if act["ell"]:
        params += ", ..."
    head = mg.decl(act["res"], "%s(%s)" % (act["n"], params or "void"))
    rres = resolve(act["res"], td)
    rargs = [resolve(a, td) for a in args]
    if rres[0] == "void":
        return "%s { }" % head
    rtxt = mg.decl(act["res"], "")
    if rres[0] == "prim" and rres[1] in INT_PRIMS | FLOAT_PRIMS:
        terms = [str(fn_const(act["n"]))]
        for i, a in enumerate(rargs):
            if a[0] == "prim" and a[1] in INT_PRIMS:
                terms.append("(long long)a%d" % i)
        return "%s { return (%s)(%s); }" % (head, rtxt, " + ".join(terms))
    if rres[0] in ("ptr", "fnp"):
        return "%s { return (%s)0; }" % (head, rtxt)
    if rres[0] == "enum":
        return "%s { return (%s)0; }" % (head, rtxt)
    # struct / union by value
    return "%s { %s; memset(&r, 0, sizeof(r)); return r; }" % (head, mg.decl(act["res"], "r"))


def c_int(v):
    """a C expression with exactly the value of the decimal text v (64-bit boundaries included)"""
    n = int(v)
    if n == -2**63:
        return "(-9223372036854775807LL - 1)"
    if n >= 2**63:
        return "%dULL" % n
    if not -2**31 <= n < 2**31:
        return "%dLL" % n
    return str(n)


def render_c(act, td, cpacked=()):
    """one action as C source (definitions for functions and variables; integer constants are
    macros with the declared value, whatever the form of the cdef declaration)"""
    a = act["a"]
    if a == "DeclFunc":
        return function_def(act, td)
    if a == "DeclGlobal":
        return "%s;" % mg.decl(act["t"], act["n"])
    if a == "DeclStruct" and (act["kind"], act["tag"]) in cpacked:
        return "%s %s { %s } __attribute__((packed));" % (act["kind"], act["tag"], mg.fields_text(act["fs"]))
    if a == "DeclConst":
        return "#define %s %s" % (act["n"], c_int(act["val"]))
    if a == "DeclEnum":
        return "enum %s { %s };" % (act["tag"], ", ".join("%s = %s" % (n, c_int(v)) for n, v in zip(act["names"], act["vals"])))
    return mg.render(act).strip()


def track_td(beh, td=None):
    td = dict(td or {})
    for act in beh:
        if act["a"] == "DeclTypedef":
            td[act["n"]] = resolve(act["t"], td)
        elif act["a"] == "DeclTypedefAnon":
            td[act["n"]] = [act["kind"], "$" + act["n"]]
    return td


def render_csource(beh, prior=(), prelude=True, cpacked=()):
    """C source for set_source(): the type declarations of `prior` (behaviour of the included
    FFIs: types only) followed by everything of `beh`."""
    out = [PRELUDE] if prelude else []
    td = {}
    for act in prior:
        if act["a"] in ("DeclFunc", "DeclGlobal"):
            continue
        out.append(render_c(act, td))
        td = track_td([act], td)
    for act in beh:
        out.append(render_c(act, td, cpacked))
        td = track_td([act], td)
    return "\n".join(out) + "\n"


# --------------------------------------------------------------------------- build / import

def build_api(core, ffi, modname, outdir, opt="-O0"):
    """emit_c_code() + plain gcc; returns the path of the extension module"""
    c_path = os.path.join(outdir, modname + ".c")
    ffi.emit_c_code(c_path)
    return core.build_ext_module(modname, c_path, outdir, flags=[opt])


def import_from(outdir, modname):
    if outdir not in sys.path:
        sys.path.insert(0, outdir)
    importlib.invalidate_caches()
    return importlib.import_module(modname)


# --------------------------------------------------------------------------- C12: cdef vs C world

MUTATIONS = ("MutateField", "MutateConst", "MutateEnumerator", "AddDots", "MutatePack")


def split_mutations(beh):
    decls = [a for a in beh if a["a"] not in MUTATIONS]
    muts = [a for a in beh if a["a"] in MUTATIONS]
    return decls, muts


def apply_mutations(decls, muts):
    """the declarations as the (mutated) cdef states them + the set of flexible items"""
    import copy
    out = copy.deepcopy(decls)
    flex = set()
    for m in muts:
        a = m["a"]
        if a == "MutateField":
            for d in out:
                if d["a"] == "DeclStruct" and d["kind"] == m["kind"] and d["tag"] == m["tag"]:
                    fs, i = d["fs"], m["i"] - 1
                    if m["how"] == "type":
                        fs[i] = [fs[i][0], ["prim", m["arg"]], -1]
                    elif m["how"] == "drop":
                        del fs[i]
                    elif m["how"] == "swap":
                        fs[i], fs[i + 1] = fs[i + 1], fs[i]
        elif a == "MutateConst":
            for d in out:
                if d["a"] == "DeclConst" and d["n"] == m["n"]:
                    d["val"] = m["val"]
        elif a == "MutateEnumerator":
            for d in out:
                if d["a"] == "DeclEnum" and d["tag"] == m["tag"]:
                    d["vals"][m["i"] - 1] = m["val"]
        elif a == "MutatePack":
            key = (m["kind"], m["tag"])
            if m["where"] in ("cdef", "both"):
                flex.add(("pkc", key))
            if m["where"] in ("c", "both"):
                flex.add(("pkw", key))
        elif a == "AddDots":
            flex.add((m["what"], tuple(m["item"]) if isinstance(m["item"], list) else m["item"]))
    return out, flex


def cdef_chunks(cdef_decls, flex):
    """[(cdef text, packed)]: a struct packed in the cdef gets a ffi.cdef(..., packed=True) of its own"""
    chunks, cur = [], []
    for d in cdef_decls:
        if d["a"] == "DeclStruct" and ("pkc", (d["kind"], d["tag"])) in flex:
            if cur:
                chunks.append((render_cdef_api(cur, flex), False))
                cur = []
            chunks.append((render_cdef_api([d], flex), True))
        else:
            cur.append(d)
    if cur:
        chunks.append((render_cdef_api(cur, flex), False))
    return chunks


def render_cdef_api(cdef_decls, flex):
    lines = []
    for d in cdef_decls:
        a = d["a"]
        if a == "DeclStruct" and ("su", (d["kind"], d["tag"])) in flex:
            lines.append("%s %s { %s ...; };" % (d["kind"], d["tag"], mg.fields_text(d["fs"])))
        elif a == "DeclGlobal" and ("gv", d["n"]) in flex and d["t"][0] == "arr":
            lines.append("extern %s;" % mg.decl(["arr", d["t"][1], "..."], d["n"]))
        elif a == "DeclConst" and ("k", d["n"]) in flex:
            lines.append("\n#define %s ...\n" % d["n"])
        else:
            lines.append(mg.render(d))
    return "\n".join(lines) + "\n"


def prim_is_int(t):
    return t[0] == "prim" and t[1] in INT_PRIMS


def helpers(decls, suffix=""):
    """Extra C functions that let the check ask gcc directly: layout facts of every complete
    struct/union, addresses of functions and variables, read/write access to integer variables.
    Returns (C text, cdef text, plan) - plan tells which fact index means what."""
    td = track_td(decls)
    facts, plan_f = [], []
    for d in decls:
        if d["a"] == "DeclStruct":
            ty = "%s %s" % (d["kind"], d["tag"])
        elif d["a"] == "DeclTypedefAnon":
            ty = d["n"]
        else:
            continue
        key = "%s %s" % (d["kind"], d["tag"] if d["a"] == "DeclStruct" else "$" + d["n"])
        plan_f.append((key, "size", None)); facts.append("(long long)sizeof(%s)" % ty)
        plan_f.append((key, "align", None)); facts.append("(long long)__alignof__(%s)" % ty)
        for f in d["fs"]:
            if f[2] >= 0:
                continue
            plan_f.append((key, "off", f[0])); facts.append("(long long)offsetof(%s, %s)" % (ty, f[0]))
            plan_f.append((key, "fsize", f[0])); facts.append("(long long)sizeof(((%s *)0)->%s)" % (ty, f[0]))
    addrs, plan_a = [], []
    c, cdef = [], []
    for d in decls:
        # (functions: ffi.addressof(lib, f) is by design the address of the generated direct-call
        #  wrapper _cffi_d_f, not of f itself; only variables have "the compiler's address")
        if d["a"] == "DeclGlobal":
            plan_a.append(d["n"]); addrs.append("(void *)&%s" % d["n"])
            rt = resolve(d["t"], td)
            if prim_is_int(rt):
                c.append("long long _vget_%s(void) { return (long long)%s; }" % (d["n"], d["n"]))
                c.append("void _vset_%s(long long v) { %s = (%s)v; }" % (d["n"], d["n"], mg.decl(d["t"], "")))
                cdef.append("long long _vget_%s(void); void _vset_%s(long long);" % (d["n"], d["n"]))
    c.append("long long _vfact%s(int i) { switch (i) { %s default: return -12345; } }" % (
        suffix, " ".join("case %d: return %s;" % (i, e) for i, e in enumerate(facts))))
    c.append("void *_vaddr%s(int i) { switch (i) { %s default: return 0; } }" % (
        suffix, " ".join("case %d: return %s;" % (i, e) for i, e in enumerate(addrs))))
    cdef.append("long long _vfact%s(int); void *_vaddr%s(int);" % (suffix, suffix))
    return "\n".join(c) + "\n", "\n".join(cdef) + "\n", {"facts": plan_f, "addrs": plan_a}
