"""Shared by C07/C08/C30/C31: the declaration environment of specs/CTypes.tla as cdef text,
the three FFIs built from it (in-line, out-of-line ABI, API mode), projection of real ctype
objects onto the spec's type terms, parsing of the generator's output, and a fork pool.

The environment text below says what CTypes.tla's tables Typedefs / IntConsts / Aggs say;
props/c08.py checks every typedef, constant and aggregate of the tables against the FFIs.
"""
import importlib, json, multiprocessing, os, re, sys, traceback
from harness import core, tlaval

ENV_CDEF = """
typedef int myint;
typedef unsigned char uch_t;
typedef int *pint;
typedef int arr3_t[3];
typedef int (*fn_t)(int);
typedef int vec_t[5];
typedef vec_t mat_t[2];
typedef int func_t(int);
struct s1 { int a; char b; };
struct s2 { double d; char c; };
typedef struct s2 s2_t;
struct op;
union u1 { int x; double y; };
enum e1 { E0, E1, E2 };
typedef enum e1 e1_t;
#define N 3
#define M 0x10
"""
# the C side of the API-mode module: the same declarations, as real C
ENV_CSOURCE = """
#include <stddef.h>
#include <stdint.h>
#include <sys/types.h>
#include <wchar.h>
typedef int myint;
typedef unsigned char uch_t;
typedef int *pint;
typedef int arr3_t[3];
typedef int (*fn_t)(int);
typedef int vec_t[5];
typedef vec_t mat_t[2];
typedef int func_t(int);
struct s1 { int a; char b; };
struct s2 { double d; char c; };
typedef struct s2 s2_t;
struct op;
union u1 { int x; double y; };
enum e1 { E0, E1, E2 };
typedef enum e1 e1_t;
#define N 3
#define M 0x10
"""
# names an aggregate may carry: "kind tag", or a typedef declared for it (the in-line FFI
# names an aggregate after its first typedef: StructOrUnionOrEnum.force_the_name)
AGG_ALIASES = {("struct", "s2"): {"s2_t"}, ("enum", "e1"): {"e1_t"}}
AGG_TAGS = {"s1": "struct", "s2": "struct", "op": "struct", "u1": "union", "e1": "enum"}


class Env:
    """The three FFIs.  `modes` = ["inline", "abi", "api"]."""
    def __init__(self, workdir, tag="pe", cdef=ENV_CDEF, csource=ENV_CSOURCE, api=True):
        import cffi
        self.cdef = cdef
        self.inline = cffi.FFI()
        self.inline.cdef(cdef)
        f = cffi.FFI()
        f.cdef(cdef)
        name = "_%s_abi_%d" % (tag, os.getpid())
        f.set_source(name, None)
        f.emit_python_code(os.path.join(workdir, name + ".py"))
        if workdir not in sys.path:
            sys.path.insert(0, workdir)
        importlib.invalidate_caches()
        self.abi = importlib.import_module(name).ffi
        self.abi_name = name
        self.api = None
        if api:
            g = cffi.FFI()
            g.cdef(cdef)
            name = "_%s_api_%d" % (tag, os.getpid())
            g.set_source(name, csource)
            cpath = os.path.join(workdir, name + ".c")
            g.emit_c_code(cpath)
            core.build_ext_module(name, cpath, workdir)
            importlib.invalidate_caches()
            self.api = importlib.import_module(name).ffi
            self.api_name = name
        self.modes = ["inline", "abi"] + (["api"] if api else [])

    def ffi(self, mode):
        return getattr(self, mode)


def has_agg(term):
    k = term["k"]
    if k in ("struct", "union", "enum"):
        return True
    if k in ("ptr", "arr"):
        return has_agg(term["t"])
    if k == "fn":
        return has_agg(term["res"]) or any(has_agg(a) for a in term["args"])
    return False


def _ellipsis(ct):
    """ct.ellipsis also answers True when libffi cannot describe the function (e.g. a union
    passed by value: ctypeget_ellipsis tests ct_extra == NULL), so a True is confirmed on
    the type's own name: head + '(*)(' + args [+ ', ...'] + ')' + tail."""
    if not ct.ellipsis:
        return False
    args = ", ".join(a.cname for a in ct.args)
    res, name = ct.result.cname, ct.cname
    for ell in (True, False):
        p = "(*)(" + (args + (", " if args else "") + "..." if ell else args) + ")"
        for i in range(len(res) + 1):
            if res[:i] + p + res[i:] == name:
                return ell
    return True


def project(ct):
    """Real ctype object -> the spec's term (CTypes.tla).  Aggregates are projected on
    (kind, tag) when the name is 'kind tag' or a declared alias, else on the raw name."""
    k = ct.kind
    if k == "primitive":
        return {"k": "prim", "n": ct.cname}
    if k == "void":
        return {"k": "void"}
    if k == "pointer":
        return {"k": "ptr", "t": project(ct.item)}
    if k == "array":
        return {"k": "arr", "t": project(ct.item), "len": -1 if ct.length is None else ct.length}
    if k == "function":
        return {"k": "ptr", "t": {"k": "fn", "res": project(ct.result),
                                  "args": [project(a) for a in ct.args], "ell": _ellipsis(ct)}}
    if k in ("struct", "union", "enum"):
        name = ct.cname
        for (kind, tag), al in AGG_ALIASES.items():
            if kind == k and name in al:
                return {"k": k, "tag": tag}
        if name.startswith(k + " "):
            return {"k": k, "tag": name[len(k) + 1:]}
        return {"k": k, "tag": name}
    raise core.MachineryError("unknown ctype kind %r" % k)


def norm_term(t):
    """Parsed TLC value (tuples, dicts) -> JSON-like term (lists)."""
    if isinstance(t, dict):
        return {k: norm_term(v) for k, v in t.items()}
    if isinstance(t, (tuple, list)):
        return [norm_term(x) for x in t]
    if isinstance(t, frozenset):
        return sorted(norm_term(x) for x in t)
    return t


def outcome(ffi, s):
    """('ok', ctype) or ('err', exception class name, first line of message)."""
    try:
        return ("ok", ffi.typeof(s))
    except BaseException as e:           # noqa - the class is the observation
        if isinstance(e, (KeyboardInterrupt, SystemExit, MemoryError)):
            raise
        return ("err", type(e).__name__, (str(e).splitlines() or [""])[0][:120])


# --------------------------------------------------------------------------- generator output

_LINE = re.compile(r'^"(<<\\"(?:R|NM|P|T|L)\\".*>>)"\s*$')
_ESC = {"n": "\n", "t": "\t", "f": "\f", "r": "\r", '"': '"', "\\": "\\"}


def _unescape(txt):
    out, i = [], 0
    while i < len(txt):
        c = txt[i]
        if c == "\\" and i + 1 < len(txt):
            out.append(_ESC.get(txt[i + 1], txt[i + 1]))
            i += 2
        else:
            out.append(c)
            i += 1
    return "".join(out)


class _P2(tlaval._P):
    """tlaval's value parser with TLC's string escapes (\\n \\t \\f \\" \\\\) decoded."""
    def value(self):
        self.ws()
        s = self.s
        if s[self.i] == '"':
            j = self.i + 1
            out = []
            while s[j] != '"':
                if s[j] == "\\":
                    j += 1
                    out.append(_ESC.get(s[j], s[j]))
                else:
                    out.append(s[j])
                j += 1
            self.i = j + 1
            return "".join(out)
        return super().value()


def parse_tlc(txt):
    p = _P2(txt)
    v = p.value()
    p.ws()
    if p.i != len(p.s):
        raise ValueError("trailing text: %r" % p.s[p.i:p.i + 40])
    return v


def parse_generator_output(out):
    """Lines printed by PrintT(ToString(<<"R"|"NM"|"P"|"T", ...>>)) -> list of parsed tuples.
    ToString quotes the value once more: the outer level is undone first."""
    res = []
    for line in out.splitlines():
        m = _LINE.match(line)
        if not m:
            continue
        # outer level: only \" and \\ occur
        txt = m.group(1)
        o, i = [], 0
        while i < len(txt):
            if txt[i] == "\\" and i + 1 < len(txt) and txt[i + 1] in '"\\':
                o.append(txt[i + 1])
                i += 2
            else:
                o.append(txt[i])
                i += 1
        res.append(parse_tlc("".join(o)))
    return res


def gen_cfg(depth, maxvar, nmvar, nmdepth, profile,
            invariants=("ReadsBack", "ParseCAgrees", "PyPrimAgrees", "Emit"), variant="faithful"):
    nmd = "<- NoNm" if nmdepth < 0 else "= %d" % nmdepth
    return ("SPECIFICATION Spec\nCONSTANTS Depth = %d\n MaxVar = %d\n NmVar = %d\n NmDepth %s\n"
            " Profile = \"%s\"\n Variant = \"%s\"\n%sCHECK_DEADLOCK FALSE\n" % (
                depth, maxvar, nmvar, nmd, profile, variant,
                "".join("INVARIANT %s\n" % i for i in invariants)))


def spaced(toks, rng, chars=(" ", "  ", "\t", "\n", " \n ")):
    """Join tokens with random white space; a separator is needed only between two words."""
    out = []
    for i, t in enumerate(toks):
        if i:
            need = (toks[i - 1][-1].isalnum() or toks[i - 1][-1] in "_$") and (t[0].isalnum() or t[0] in "_$")
            r = rng.random()
            if need or r < 0.5:
                out.append(rng.choice(chars) if r < 0.25 else " ")
        out.append(t)
    s = "".join(out)
    if rng.random() < 0.1:
        s = " " + s + " "
    return s


# --------------------------------------------------------------------------- pool

_POOL_STATE = {}


def _run_chunk(args):
    fn_name, chunk = args
    fn = _POOL_STATE["fns"][fn_name]
    try:
        return [fn(_POOL_STATE["env"], item) for item in chunk]
    except BaseException:
        return [("__crash__", traceback.format_exc())]


def pool_map(env, fns, fn_name, items, nproc=8, chunk=400):
    """fork pool: children inherit the already built FFIs (env) and the functions."""
    _POOL_STATE["env"] = env
    _POOL_STATE["fns"] = fns
    if len(items) < 2 * chunk or nproc <= 1:
        return [fns[fn_name](env, it) for it in items]
    chunks = [(fn_name, items[i:i + chunk]) for i in range(0, len(items), chunk)]
    mp = multiprocessing.get_context("fork")
    with mp.Pool(min(nproc, len(chunks))) as pool:
        out = []
        for part in pool.map(_run_chunk, chunks):
            if part and isinstance(part[0], tuple) and part[0][:1] == ("__crash__",):
                raise core.MachineryError("worker failed:\n" + part[0][1])
            out.extend(part)
    return out
