"""Cooperative scheduler for real Python threads.

Worker threads call `yield_point(label)` at every instrumented operation; they park there
until the controller grants them one step.  The controller picks, at each decision, one
parked thread according to a *schedule* (a sequence of thread ids taken from a TLC
behaviour, or a seeded random choice).  Timeouts are used only to decide when to stop
waiting for threads that are blocked inside C code; verdicts never depend on them, except
the explicit liveness verdict "no thread can run and not all calls returned" which needs a
long stall (STALL seconds) with every runnable thread parked or blocked.
"""
import threading, time

STALL = 60.0


class Deadlock(Exception):
    pass


class Sched:
    def __init__(self, quiet=0.004):
        self.cv = threading.Condition()
        self.state = {}      # tid -> 'new' | 'running' | 'parked' | 'waiting' | 'done'
        self.label = {}
        self.granted = set()
        self.local = threading.local()
        self.quiet = quiet
        self.log = []        # (tid, label) in grant order
        self.threads = {}
        self.progress = 0
        self.waitpred = {}   # tid -> predicate of a logically blocked thread

    # ---------------------------------------------------------------- worker side
    def tid(self):
        return getattr(self.local, "tid", None)

    def yield_point(self, label):
        tid = self.tid()
        if tid is None:
            return
        with self.cv:
            self.state[tid] = "parked"
            self.label[tid] = label
            self.progress += 1
            self.cv.notify_all()
            while tid not in self.granted:
                self.cv.wait()
            self.granted.discard(tid)
            self.state[tid] = "running"

    def wait_until(self, pred, label):
        """Logical blocking (instrumented lock): the thread is not schedulable until pred()."""
        tid = self.tid()
        if tid is None:
            while not pred():
                time.sleep(0.0005)
            return
        with self.cv:
            self.state[tid] = "waiting"
            self.label[tid] = label
            self.waitpred[tid] = pred
            self.progress += 1
            self.cv.notify_all()
            while not pred():
                self.cv.wait()
            self.waitpred.pop(tid, None)
            self.state[tid] = "running"
            self.progress += 1
            self.cv.notify_all()

    def poke(self):
        with self.cv:
            self.progress += 1
            self.cv.notify_all()

    def spawn(self, tid, fn):
        def body():
            self.local.tid = tid
            self.yield_point("start")
            try:
                fn()
            finally:
                with self.cv:
                    self.state[tid] = "done"
                    self.progress += 1
                    self.cv.notify_all()
        self.state[tid] = "new"
        th = threading.Thread(target=body, daemon=True)
        self.threads[tid] = th
        th.start()

    # ---------------------------------------------------------------- controller side
    def _settled(self):
        # a 'waiting' thread whose predicate already holds is about to wake up: not settled
        for t, s in self.state.items():
            if s == "waiting":
                p = self.waitpred.get(t)
                if p is not None and p():
                    return False
            elif s not in ("parked", "done"):
                return False
        return True

    def parked(self):
        return sorted(t for t, s in self.state.items() if s == "parked")

    def run(self, choose, on_step=None):
        """choose(parked_tids, labels) -> tid.  Runs until every thread is done.
        Raises Deadlock if nothing can run for STALL seconds."""
        while True:
            with self.cv:
                t_last, p_last = time.time(), self.progress
                while True:
                    if all(s == "done" for s in self.state.values()):
                        return
                    if self._settled():
                        break
                    # some thread is 'running' (maybe blocked in C): wait for quiet
                    self.cv.wait(self.quiet)
                    if self.progress != p_last:
                        t_last, p_last = time.time(), self.progress
                        continue
                    if time.time() - t_last >= self.quiet and self.parked():
                        break      # give up waiting for the running ones, schedule a parked one
                    if time.time() - t_last > STALL:
                        raise Deadlock(dict(self.state), dict(self.label))
                parked = self.parked()
                if not parked:
                    if all(s in ("waiting", "done") for s in self.state.values()):
                        raise Deadlock(dict(self.state), dict(self.label))
                    # only running threads left (blocked in C or just slow)
                    self.cv.wait(0.05)
                    if time.time() - t_last > STALL:
                        raise Deadlock(dict(self.state), dict(self.label))
                    continue
                tid = choose(parked, dict(self.label))
                self.log.append((tid, self.label[tid]))
                self.state[tid] = "running"
                self.granted.add(tid)
                self.progress += 1
                self.cv.notify_all()
            if on_step:
                on_step(tid)

    def step_wait(self):
        """Block until the system is settled (used by exact replays)."""
        with self.cv:
            t0 = time.time()
            while not self._settled():
                self.cv.wait(0.05)
                if time.time() - t0 > STALL:
                    raise Deadlock(dict(self.state), dict(self.label))


class SchedLock:
    """Instrumented replacement for a threading lock: acquire and release are yield points,
    blocking is logical (the controller sees the thread as 'waiting')."""
    def __init__(self, sched, name, events=None):
        self.s, self.name, self.owner, self.events = sched, name, None, events

    def acquire(self, blocking=True, timeout=-1):
        self.s.yield_point(("acquire", self.name))
        if self.owner is not None:
            self.s.wait_until(lambda: self.owner is None, ("blocked", self.name))
            # re-park so that the controller decides who gets the lock
            while True:
                self.s.yield_point(("acquire2", self.name))
                if self.owner is None:
                    break
                self.s.wait_until(lambda: self.owner is None, ("blocked", self.name))
        self.owner = self.s.tid() or -1
        return True

    def release(self):
        self.s.yield_point(("release", self.name))
        self.owner = None
        self.s.poke()

    __enter__ = acquire

    def __exit__(self, *a):
        self.release()

    def locked(self):
        return self.owner is not None
