"""C36 helper: threads that Python did not create, calling back into Python through cffi.

build(tmpdir)           (parent) compiles the helper library (raw pthreads with a semaphore-driven
                        command loop) and an API-mode module with an extern "Python" function.
run_child(...)          (parent) executes a scenario in a sub-process: `python -m harness.thr_foreign`.
child_main()            (child) executes the behaviours of the scenario on real foreign threads and
                        records, after every step, the thread states linked into the interpreter
                        (ctypes.pythonapi.PyInterpreterState_ThreadHead / PyThreadState_Next), and inside
                        every callback the current thread state, threading.get_ident() and the content
                        of a threading.local.

A behaviour is a list of steps
   ["Spawn", f]  ["CbEnter", f, kind]  ["CbExit", f]  ["Exit", f]  ["Py", what]  ["Run", f, n, kind]
   ["Fork", 0, [steps executed by the forked child]]
(lock-step: each step is acknowledged before the next; "Run" lets the thread perform n callbacks
on its own and then exit, for the free-running histories).
"""
import ctypes, json, os, subprocess, sys, time

C_SRC = r"""
#include <errno.h>
#include <pthread.h>
#include <semaphore.h>
#include <sched.h>
#include <string.h>
#include <time.h>

#define NSLOT 64
enum { F_CALL = 1, F_EXIT = 2, F_RUN = 3 };
typedef int (*cb_t)(int);
typedef struct {
    sem_t go, done;
    volatile int cmd, arg, kind;
    pthread_t th;
    volatile unsigned long self;
    volatile int ret, alive;
} slot_t;
static slot_t S[NSLOT];
static cb_t CB[2];
static __thread int cur_slot = -1;

static void w(sem_t *s) { while (sem_wait(s) != 0 && errno == EINTR) ; }

int cf_init(void)
{
    int i;
    memset(S, 0, sizeof(S));
    for (i = 0; i < NSLOT; i++)
        if (sem_init(&S[i].go, 0, 0) != 0 || sem_init(&S[i].done, 0, 0) != 0)
            return -1;
    return 0;
}
void cf_set_cb(int kind, void *p) { CB[kind] = (cb_t)p; }
int cf_cur_slot(void) { return cur_slot; }
unsigned long cf_self(int slot) { return S[slot].self; }
int cf_ret(int slot) { return S[slot].ret; }

static void *fmain(void *a)
{
    int slot = (int)(long)a, i;
    slot_t *s = &S[slot];
    cur_slot = slot;
    s->self = (unsigned long)pthread_self();
    sem_post(&s->done);
    for (;;) {
        w(&s->go);
        if (s->cmd == F_CALL) {
            s->ret = CB[s->kind & 1](s->arg);
            sem_post(&s->done);
        }
        else if (s->cmd == F_RUN) {
            for (i = 0; i < s->arg; i++) {
                s->ret = CB[(s->kind + i) & 1](-1 - i);
                if (i & 1) sched_yield();
            }
            return 0;                       /* exits on its own; the controller joins */
        }
        else
            return 0;                       /* F_EXIT */
    }
}

int cf_spawn(int slot)
{
    int r = pthread_create(&S[slot].th, 0, fmain, (void *)(long)slot);
    if (r != 0) return r;
    S[slot].alive = 1;
    w(&S[slot].done);
    return 0;
}
void cf_post_go(int slot, int cmd, int arg, int kind)
{ S[slot].cmd = cmd; S[slot].arg = arg; S[slot].kind = kind; sem_post(&S[slot].go); }
int cf_wait_done(int slot, int seconds)
{
    struct timespec ts;
    clock_gettime(CLOCK_REALTIME, &ts);
    ts.tv_sec += seconds;
    for (;;) {
        if (sem_timedwait(&S[slot].done, &ts) == 0) return 0;
        if (errno != EINTR) return -1;
    }
}
void cf_post_done(int slot) { sem_post(&S[slot].done); }
void cf_wait_go(int slot) { w(&S[slot].go); }
int cf_join(int slot) { int r = pthread_join(S[slot].th, 0); S[slot].alive = 0; return r; }
/* called from inside a callback body through cffi: a callback nested in a callback on the same
   thread (gil_ensure finds the thread state current: the PyGILState_LOCKED branch) */
int cf_nested(int kind, int arg) { return CB[kind & 1](arg); }
"""
NEST = 1 << 20

TIMEOUT = 120
F_CALL, F_EXIT, F_RUN = 1, 2, 3
KINDS = ("cbk", "ext")
TAG = "cv36"


def build(tmpdir):
    """Parent side: helper library + API module, compiled from the current working tree."""
    from harness import core
    import cffi
    lib = os.path.join(tmpdir, "lib%s.so" % TAG)
    core.gcc_shared(C_SRC, lib, flags=["-pthread"])
    ffi = cffi.FFI()
    ffi.cdef('extern "Python" int cf_extpy(int); int cf_nested(int kind, int arg);')
    ffi.set_source("_%s_api" % TAG, "int cf_nested(int kind, int arg);")
    cpath = os.path.join(tmpdir, "_%s_api.c" % TAG)
    ffi.emit_c_code(cpath)
    core.build_ext_module("_%s_api" % TAG, cpath, tmpdir,
                          flags=["-L" + tmpdir, "-l" + TAG, "-Wl,-rpath," + tmpdir])
    return tmpdir


def run_child(libdir, scenario, outdir, name, timeout=600):
    """Parent side.  Returns (exit status, result dict or None, progress list, stderr tail)."""
    from harness import core
    sc = os.path.join(outdir, name + ".scn.json")
    out = os.path.join(outdir, name + ".out.json")
    prog = os.path.join(outdir, name + ".progress")
    scenario = dict(scenario, libdir=libdir)
    with open(sc, "w") as f:
        json.dump(scenario, f)
    for p in (out, prog):
        if os.path.exists(p):
            os.remove(p)
    try:
        r = subprocess.run([core.PY, "-m", "harness.thr_foreign", sc, out, prog], cwd=core.VERIF,
                           env=core.sub_env(), capture_output=True, text=True, timeout=timeout)
        rc, err = r.returncode, r.stderr[-3000:]
    except subprocess.TimeoutExpired as e:
        rc, err = "timeout", ((e.stderr or b"")[-3000:].decode("utf8", "replace") if isinstance(e.stderr, bytes)
                              else (e.stderr or "")[-3000:])
    res = None
    if os.path.exists(out):
        try:
            with open(out) as f:
                res = json.load(f)
        except ValueError:
            res = None
    progress = []
    if os.path.exists(prog):
        with open(prog) as f:
            progress = f.read().split("\n")
    return rc, res, progress, err


# =============================================================================== child side

class Child:
    def __init__(self, libdir, progress_path):
        import threading, gc
        sys.path.insert(0, libdir)
        self.threading, self.gc = threading, gc
        self.h = ctypes.CDLL(os.path.join(libdir, "lib%s.so" % TAG))
        h = self.h
        h.cf_set_cb.argtypes = [ctypes.c_int, ctypes.c_void_p]
        h.cf_self.restype = ctypes.c_ulong
        for n in ("cf_set_cb", "cf_post_go", "cf_post_done", "cf_wait_go"):
            getattr(h, n).restype = None
        if h.cf_init() != 0:
            raise RuntimeError("sem_init")
        api = ctypes.pythonapi
        api.PyInterpreterState_Main.restype = ctypes.c_void_p
        api.PyInterpreterState_ThreadHead.restype = ctypes.c_void_p
        api.PyInterpreterState_ThreadHead.argtypes = [ctypes.c_void_p]
        api.PyThreadState_Next.restype = ctypes.c_void_p
        api.PyThreadState_Next.argtypes = [ctypes.c_void_p]
        api.PyThreadState_Get.restype = ctypes.c_void_p
        api.PyGILState_Check.restype = ctypes.c_int
        api.PyThreadState_GetID.restype = ctypes.c_uint64
        api.PyThreadState_GetID.argtypes = [ctypes.c_void_p]
        self.api = api
        self.interp = api.PyInterpreterState_Main()
        mod = __import__("_%s_api" % TAG)
        self.ffi, self.lib = mod.ffi, mod.lib
        import cffi
        self.ffi2 = cffi.FFI()
        child = self

        @self.ffi.def_extern()
        def cf_extpy(x):
            return child.on_callback("ext", x)

        def _cbk(x):
            return child.on_callback("cbk", x)
        self.cbk = self.ffi2.callback("int(int)", _cbk, error=-99)
        self._keep = [_cbk, cf_extpy]
        h.cf_set_cb(0, int(self.ffi2.cast("intptr_t", self.cbk)))
        h.cf_set_cb(1, int(self.ffi.cast("intptr_t", self.ffi.addressof(self.lib, "cf_extpy"))))
        self.tl = threading.local()
        self.python_ts = {self.cur_id()}     # thread states that belong to Python threads
        self.progress = open(progress_path, "w")
        self.events = None
        self.slot_of = {}
        self.mode = {}
        self.ncalls = {}
        self.errors = []
        self.nslot = 0
        self.lock = threading.Lock()
        self.outer = {}
        self.forks = []

    # ---- observation
    # A thread state is identified by PyThreadState_GetID() (unique for the life of the interpreter),
    # not by its address: CPython reuses the memory of a deleted thread state for the next one, so
    # an address observed for a thread that has since exited can legitimately reappear as the
    # thread state of a new thread.
    def cur_id(self):
        return self.api.PyThreadState_GetID(self.api.PyThreadState_Get())

    def tstates(self):
        out, p = [], self.api.PyInterpreterState_ThreadHead(self.interp)
        while p:
            out.append(self.api.PyThreadState_GetID(p))
            p = self.api.PyThreadState_Next(p)
        return out

    def live(self):
        return sorted(p for p in self.tstates() if p not in self.python_ts)

    def note(self, s):
        self.progress.write(s + "\n")
        self.progress.flush()

    # ---- the Python body of both kinds of callback
    def on_callback(self, kind, x):
        try:
            h, api = self.h, self.api
            slot = h.cf_cur_slot()
            f = self.thread_of[slot]
            tok = self.cur_id()
            seen = getattr(self.tl, "v", None)
            if x >= NEST:
                # the nested callback: same thread state, same thread-local data, GIL held
                return 1 if (api.PyGILState_Check() == 1 and tok == self.outer.get(f) and
                             seen == x - NEST) else 0
            ok = (api.PyGILState_Check() == 1 and
                  self.threading.get_ident() == h.cf_self(slot) and
                  tok in self.tstates())
            n = self.ncalls[f] = self.ncalls.get(f, 0) + 1
            e = {"ev": "CbEnter", "f": f, "tok": tok, "seen": [] if seen is None else [seen], "ok": ok,
                 "kind": kind, "live": self.live() if self.mode[f] == "lock" else None}
            if self.mode[f] == "lock":
                self.events.append(e)
                h.cf_post_done(slot)          # acknowledges CbEnter
                h.cf_wait_go(slot)            # parked inside the body with the GIL released
            else:
                with self.lock:
                    self.events.append(e)
                if n % 3 == 0:
                    time.sleep(0)
                if n % 5 == 0:
                    self.gc.collect()
            v = f * 1000 + n
            self.tl.v = v
            if n % 2 == 0:
                self.outer[f] = tok
                inner = self.lib.cf_nested(n // 2, NEST + v)
                if inner != 1 or self.cur_id() != tok or api.PyGILState_Check() != 1:
                    e["ok"] = False        # verdict clause "valid"
            e2 = {"ev": "SetLocal", "f": f, "v": v}
            e3 = {"ev": "CbExit", "f": f, "live": None}
            if self.mode[f] == "lock":
                self.events += [e2, e3]
            else:
                with self.lock:
                    self.events += [e2, e3]
            return n
        except BaseException as ex:        # noqa
            self.errors.append(repr(ex))
            return -98

    # ---- one behaviour
    def wait(self, slot, what):
        if self.h.cf_wait_done(slot, TIMEOUT) != 0:
            raise RuntimeError("no acknowledgement for %s within %d s" % (what, TIMEOUT))

    def behaviour(self, beh, drain=True):
        h = self.h
        self.events = evs = []
        self.thread_of, self.slot_of, self.mode, self.ncalls = {}, {}, {}, {}
        state = {}                                   # f -> 'idle' | 'body' | 'exited' | 'running'
        evs.append({"ev": "Init", "live": self.live()})
        for i, st in enumerate(beh["steps"]):
            self.note("%s step %d %r" % (beh["id"], i, st))
            op, f = st[0], st[1]
            if op == "Spawn":
                slot = self.nslot % 64
                self.nslot += 1
                self.slot_of[f], self.thread_of[slot], self.mode[f] = slot, f, "lock"
                if h.cf_spawn(slot) != 0:
                    raise RuntimeError("pthread_create failed")
                state[f] = "idle"
                evs.append({"ev": "Spawn", "f": f, "live": self.live()})
            elif op == "CbEnter":
                h.cf_post_go(self.slot_of[f], F_CALL, i, KINDS.index(st[2]))
                self.wait(self.slot_of[f], st)
                state[f] = "body"
            elif op == "CbExit":
                h.cf_post_done  # (no-op reference)
                h.cf_post_go(self.slot_of[f], 0, 0, 0)      # resumes the parked body
                self.wait(self.slot_of[f], st)
                state[f] = "idle"
                evs[-1]["live"] = self.live()
            elif op == "Exit":
                h.cf_post_go(self.slot_of[f], F_EXIT, 0, 0)
                if h.cf_join(self.slot_of[f]) != 0:
                    raise RuntimeError("pthread_join failed")
                state[f] = "exited"
                evs.append({"ev": "Exit", "f": f, "live": self.live()})
            elif op == "Run":
                self.mode[f] = "free"
                h.cf_post_go(self.slot_of[f], F_RUN, st[2], KINDS.index(st[3]))
                state[f] = "running"
            elif op == "Join":
                if h.cf_join(self.slot_of[f]) != 0:
                    raise RuntimeError("pthread_join failed")
                state[f] = "exited"
                with self.lock:
                    evs.append({"ev": "Exit", "f": f, "live": None})
            elif op == "Fork":
                # the interpreter destroys every other thread state in the forked child
                # (PyOS_AfterFork_Child), zombies pending or not; new foreign threads then call
                # back in the child.  The child's history and exit status come back to us.
                evs.append(self.fork(beh["id"], i, st[2]))
                continue
            elif op == "Py":
                self.py_activity(f)
                if not any(s == "running" for s in state.values()):
                    evs.append({"ev": "Quiet", "live": self.live()})
                continue
            else:
                raise RuntimeError("unknown step %r" % (st,))
            if op != "Run" and not any(s == "running" for s in state.values()):
                evs.append({"ev": "Quiet", "live": self.live()})
        if drain:
            self.note("%s drain" % beh["id"])
            for f, s in sorted(state.items()):
                if s == "body":
                    h.cf_post_go(self.slot_of[f], 0, 0, 0)
                    self.wait(self.slot_of[f], "drain")
                    evs[-1]["live"] = self.live()
                    s = "idle"
                if s == "idle":
                    h.cf_post_go(self.slot_of[f], F_EXIT, 0, 0)
                    h.cf_join(self.slot_of[f])
                    evs.append({"ev": "Exit", "f": f, "live": self.live()})
                elif s == "running":
                    h.cf_join(self.slot_of[f])
                    evs.append({"ev": "Exit", "f": f, "live": None})
            evs.append({"ev": "Quiet", "live": self.live()})
        if self.errors:
            raise RuntimeError("callback body failed: %r" % (self.errors,))
        return {"id": beh["id"], "events": evs}

    def fork(self, bid, i, sub):
        path = "%s.fork_%s_%d.json" % (self.progress.name, bid, i)
        self.progress.flush()
        sys.stdout.flush(); sys.stderr.flush()
        pid = os.fork()
        if pid == 0:
            try:
                self.python_ts = {self.cur_id()}
                self.errors = []
                self.forks = []
                res = self.behaviour({"id": "%s/fork%d" % (bid, i), "steps": sub}, drain=True)
                with open(path, "w") as f:
                    json.dump(res, f)
                self.note("%s/fork%d child done" % (bid, i))
            except BaseException:      # noqa
                import traceback
                traceback.print_exc()
                sys.stderr.flush()
                os._exit(3)
            os._exit(0)
        _, status = os.waitpid(pid, 0)
        sig = os.WTERMSIG(status) if os.WIFSIGNALED(status) else 0
        code = os.WEXITSTATUS(status) if os.WIFEXITED(status) else -1
        res = None
        if os.path.exists(path):
            with open(path) as f:
                res = json.load(f)
        self.forks.append({"id": "%s/fork%d" % (bid, i), "steps": sub, "signal": sig, "code": code,
                           "events": res["events"] if res else None})
        return {"ev": "Fork", "signal": sig, "code": code}

    def py_activity(self, what):
        threading, gc = self.threading, self.gc
        if what == "gc":
            gc.collect()
        elif what == "thread":
            # a Python thread comes and goes (its own thread state is Python's business)
            def body():
                self.python_ts.add(self.cur_id())
                x = [i for i in range(100)]
            th = threading.Thread(target=body)
            th.start()
            th.join()
            self.python_ts &= set(self.tstates())
        elif what == "alloc":
            junk = [bytearray(1000) for _ in range(200)]
            del junk
        else:
            time.sleep(0)


def child_main():
    scn_path, out_path, prog_path = sys.argv[1:4]
    with open(scn_path) as f:
        scn = json.load(f)
    ch = Child(scn["libdir"], prog_path)
    results = []
    behs = scn["behaviours"]
    for k, beh in enumerate(behs):
        last = k == len(behs) - 1
        results.append(ch.behaviour(beh, drain=not (last and scn.get("leave_running"))))
    ch.note("all behaviours done")
    with open(out_path + ".tmp", "w") as f:
        json.dump({"complete": True, "results": results, "forks": ch.forks}, f)
    os.rename(out_path + ".tmp", out_path)
    ch.note("result written")
    # normal interpreter shut-down follows, possibly with foreign threads still parked and
    # zombie thread states pending: the exit status is part of the verdict
    sys.exit(0)


if __name__ == "__main__":
    child_main()
