"""Build / execute / validate driver shared by props/c13.py and props/c33.py."""
import json, os, re, subprocess, sys, threading
from concurrent.futures import ThreadPoolExecutor
from harness import core, tlaval
from harness import call_gen as G

# short TLC runs: the C1 compiler only and few GC threads (less CPU spent on JVM start-up)
LIGHT_JVM = {"JAVA_TOOL_OPTIONS": "-XX:TieredStopAtLevel=1 -XX:ParallelGCThreads=2"}


def run_gen(maxn, widen):
    cfg = "SPECIFICATION Spec\nCONSTANTS Base = 4\n  MaxN = %d\n  WideN = %d\nCHECK_DEADLOCK FALSE\n" % (maxn, widen)
    return core.tlc("CallGen", cfg_text=cfg, workers=2, timeout=900, env=LIGHT_JVM if maxn < 3 else None), maxn, widen


def parse_space(ctx, r, maxn, widen, name="CallGen"):
    ctx.add_tlc("%s(MaxN=%d,WideN=%d)" % (name, maxn, widen), r, count_states=False)
    out = re.sub(r"\s+>>", ">>", re.sub(r"<<\s+", "<<", r.out))      # long tuples are pretty-printed over lines
    sigs, cls, vcls = G.parse_gen(out, core.tla_tuples, tlaval.parse_value)
    if not sigs or not cls or not vcls:
        raise core.MachineryError("CallGen produced no input space:\n" + r.out[-2000:])
    if len(sigs) + sum(len(v) for v in cls.values()) + len(vcls) != r.distinct:
        raise core.MachineryError("CallGen: parsed %d signatures + %d classes but TLC enumerated %d cases" % (
            len(sigs), sum(len(v) for v in cls.values()) + len(vcls), r.distinct))
    return sigs, cls, vcls


def enumerate_space(ctx, maxn, widen, name="CallGen"):
    """Run TLC on CallGen.tla; returns (signatures, class table, variadic class table)."""
    return parse_space(ctx, *run_gen(maxn, widen), name=name)


def build_libs(ctx, tag, cdef, src, want=("api", "so", "ool")):
    """Compile the family on every path into ctx.tmp/<tag>; returns the plan header."""
    import cffi
    d = os.path.join(ctx.tmp, tag)
    os.makedirs(d, exist_ok=True)
    plan = {"dir": d, "cdef": cdef, "src": src, "api_module": "_call_api_" + tag, "ool_module": "_call_ool_" + tag,
            "so": os.path.join(d, "libfam_%s.so" % tag)}
    jobs = []
    if "api" in want:
        ffi = cffi.FFI()
        ffi.cdef(cdef)
        ffi.set_source(plan["api_module"], src)
        cpath = os.path.join(d, plan["api_module"] + ".c")
        ffi.emit_c_code(cpath)
        jobs.append(lambda: core.build_ext_module(plan["api_module"], cpath, d))
    if "so" in want:
        jobs.append(lambda: core.gcc_shared(src, plan["so"]))
    if "ool" in want:
        ffi2 = cffi.FFI()
        ffi2.cdef(cdef)
        ffi2.set_source(plan["ool_module"], None)
        ffi2.emit_python_code(os.path.join(d, plan["ool_module"] + ".py"))
    with ThreadPoolExecutor(max_workers=4) as ex:
        for f in [ex.submit(j) for j in jobs]:
            f.result()
    return plan


def _read_ndjson(path):
    res = {}
    if os.path.exists(path):
        with open(path) as f:
            for line in f:
                line = line.strip()
                if line:
                    try:
                        d = json.loads(line)
                    except ValueError:
                        continue            # a line cut short by a crash
                    res[int(d["id"])] = d["obs"]
    return res


def _run_chunk(plan, pp, op, runner, timeout, max_crashes=25):
    """Run one chunk to completion, restarting the executor after every crash with the crashing
    (case, path) marked to be skipped; returns (obs, crashes)."""
    crashes = []
    ncrash_by_path = {}
    while True:
        plan["done"] = sorted(_read_ndjson(op))
        core.write_json(pp, plan)
        for suffix in (".ok", ".progress"):
            if os.path.exists(op + suffix):
                os.remove(op + suffix)
        p = subprocess.Popen([core.PY, "-m", runner, pp, op], cwd=core.VERIF, env=core.sub_env(),
                             stdout=subprocess.PIPE, stderr=subprocess.STDOUT, text=True)
        try:
            out, _ = p.communicate(timeout=timeout)
        except subprocess.TimeoutExpired:
            p.kill()
            out, _ = p.communicate()
            raise core.MachineryError("call executor timed out:\n" + (out or "")[-2000:])
        if p.returncode == 0 and os.path.exists(op + ".ok"):
            return _read_ndjson(op), crashes
        last = ""
        if os.path.exists(op + ".progress"):
            with open(op + ".progress") as f:
                lines = [x for x in f.read().split("\n") if x]
                last = lines[-1] if lines else ""
        if p.returncode is not None and p.returncode < 0 and last:
            cid, path = last.split()[0], last.split()[1]
            if path == "load":
                raise core.MachineryError("call executor died (signal %d) while loading the libraries:\n%s" % (
                    -p.returncode, (out or "")[-2000:]))
            cid = int(cid)
            case = [c for c in plan["cases"] if c["id"] == cid][0]
            crashes.append({"signal": -p.returncode, "case": case, "path": path})
            plan.setdefault("skip", []).append([cid, path])
            ncrash_by_path[path] = ncrash_by_path.get(path, 0) + 1
            if ncrash_by_path[path] >= max_crashes:          # this path is hopeless: stop calling it
                plan.setdefault("dead", []).append(path)
            continue
        raise core.MachineryError("call executor failed (rc=%s, last=%r):\n%s" % (p.returncode, last, (out or "")[-3000:]))


def execute(ctx, plan_header, cases, paths, nworkers=4, timeout=1500, runner="harness.call_exec"):
    """Run the cases in sub-processes; returns ({case id: {path: obs}}, [crash descriptions]).
    A call that kills the interpreter is recorded as outcome "Crash" for that (case, path) and the
    executor is restarted for the remaining cases."""
    if not cases:
        return {}, []
    nworkers = max(1, min(nworkers, len(cases) // 50 or 1))
    chunks = [cases[i::nworkers] for i in range(nworkers)]
    base = len(os.listdir(plan_header["dir"]))
    jobs = []
    for i, ch in enumerate(chunks):
        plan = dict(plan_header)
        plan["cases"] = ch
        plan["paths"] = list(paths)
        pp = os.path.join(plan_header["dir"], "plan_%d_%d.json" % (base, i))
        jobs.append((plan, pp, pp.replace("plan_", "out_")))
    obs, crashes = {}, []
    with ThreadPoolExecutor(max_workers=nworkers) as ex:
        for f in [ex.submit(_run_chunk, plan, pp, op, runner, timeout) for plan, pp, op in jobs]:
            o, c = f.result()
            obs.update(o)
            crashes += c
    return obs, crashes


def validate(ctx, records, chunk=1500, parallel=4, name="Trace_Call", module="Trace_Call"):
    """TLC validates the records against Outcome; returns {id: [(path, clause, detail)]}."""
    chunks = [records[i:i + chunk] for i in range(0, len(records), chunk)]
    results = [None] * len(chunks)
    base = len(ctx.cov["tlc_runs"])

    def one(i):
        path = os.path.join(ctx.tmp, "%s_%d_%d.json" % (name, base, i))
        core.write_json(path, chunks[i])
        results[i] = core.tlc(module, workers=1, env=dict(LIGHT_JVM, TRACE_FILE=path), timeout=1500)
    with ThreadPoolExecutor(max_workers=parallel) as ex:
        for f in [ex.submit(one, i) for i in range(len(chunks))]:
            f.result()
    bad = {}
    for i, r in enumerate(results):
        ctx.add_tlc("%s[%d]" % (name, i), r, count_states=False)
        out = re.sub(r"\s+>>", ">>", re.sub(r"<<\s+", "<<", r.out))      # long tuples are pretty-printed over lines
        checked = core.tla_tuples(out, "CHECKED")
        if not checked or int(checked[0][0]) != len(chunks[i]):
            raise core.MachineryError("%s did not check every record:\n%s" % (module, r.out[-3000:]))
        for tup in core.tla_tuples(out, "VERDICT"):
            bad.setdefault(int(tup[0]), []).append((core.unq(tup[1]), core.unq(tup[2]), tup[3] if len(tup) > 3 else ""))
    return bad
