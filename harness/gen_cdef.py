"""Random cdef texts covering the declaration kinds the recompiler handles (used by C23 for
determinism / idempotence and by C24 for CLI equivalence).  The C source that accompanies
a cdef is never compiled by these checks, so it is free text.

gen(rng, n, flavour) -> cdef text
  flavour "api": may use the API-only syntax ('...' in structs, arrays, constants, typedefs,
                 extern "Python")
  flavour "abi": only what emit_python_code() accepts
"""

PRIMS = ["int", "unsigned int", "short", "unsigned short", "char", "signed char", "unsigned char", "long",
         "unsigned long", "long long", "unsigned long long", "float", "double", "_Bool", "size_t", "ssize_t",
         "int8_t", "uint8_t", "int16_t", "uint16_t", "int32_t", "uint32_t", "int64_t", "uint64_t", "intptr_t",
         "uintptr_t", "wchar_t", "long double", "char16_t", "char32_t", "ptrdiff_t"]
INTS = ["int", "unsigned int", "short", "unsigned char", "long", "unsigned long long", "int8_t", "uint32_t"]


class Gen:
    def __init__(self, rng, flavour):
        self.rng, self.api = rng, flavour == "api"
        self.n = 0
        self.value_types = list(PRIMS)      # usable by value (complete)
        self.any_types = []                 # opaque: only behind a pointer
        self.struct_types = []
        self.lines = []
        self.used = set()
        self.array_types = set()

    def name(self, prefix):
        self.n += 1
        w = self.rng.choice(["alpha", "beta", "Gamma", "delta_", "x", "Node", "ctx", "buf", "_v", "Q9", "item"])
        return "%s_%s%d" % (prefix, w, self.n)

    def vtype(self):
        r = self.rng.random()
        base = self.rng.choice(self.value_types)
        if r < 0.2:
            return base + " *"
        if r < 0.25 and self.any_types:
            return self.rng.choice(self.any_types) + " *"
        if r < 0.3:
            return "const " + base + " *"
        if r < 0.33:
            return base + " **"
        if r < 0.36:
            return "void *"
        return base

    def declarator(self, tp, nm, allow_array=True):
        r = self.rng.random()
        if allow_array and r < 0.15:
            return "%s %s[%d]" % (tp, nm, self.rng.randint(1, 9))
        if allow_array and r < 0.2:
            return "%s %s[%d][%d]" % (tp, nm, self.rng.randint(1, 4), self.rng.randint(1, 4))
        if r < 0.27:
            args = ", ".join(self.vtype() for _ in range(self.rng.randint(0, 3))) or "void"
            return "%s (*%s)(%s)" % (tp, nm, args)
        return "%s %s" % (tp, nm)

    def fields(self, partial_ok):
        out = []
        if partial_ok and self.rng.random() < 0.5:
            partial_ok = False
        bits = not (self.api and partial_ok)         # cffi: "using both bitfields and '...;'" is not implemented
        for i in range(self.rng.randint(1, 5)):
            fn = "f%d" % i
            r = self.rng.random()
            if r < 0.15 and bits:
                out.append("%s %s:%d;" % (self.rng.choice(["int", "unsigned int", "unsigned char"]), fn,
                                          self.rng.randint(1, 7)))
            elif r < 0.2 and self.api and partial_ok:
                out.append("%s %s[...];" % (self.rng.choice(INTS), fn))
            else:
                out.append(self.declarator(self.vtype(), fn) + ";")
        if self.api and partial_ok and self.rng.random() < 0.3:
            out.append("...;")
        return " ".join(out)

    def one(self):
        rng = self.rng
        kinds = ["typedef", "struct", "union", "enum", "func", "func", "func", "global", "macro", "anon_typedef_struct",
                 "opaque", "funcptr_typedef", "variadic", "anon_enum_typedef"]
        if self.api:
            kinds += ["const", "dotdotdot_macro", "opaque_typedef", "externpy", "intdots", "global_array_dots"]
        k = rng.choice(kinds)
        L = self.lines
        if k == "typedef":
            nm = self.name("t")
            d = self.declarator(self.vtype(), nm)
            L.append("typedef %s;" % d)
            self.value_types.append(nm)
            if "[" in d:
                self.array_types.add(nm)          # not usable as argument / result type
        elif k in ("struct", "union"):
            nm = self.name("s")
            L.append("%s %s { %s };" % (k, nm, self.fields(True)))
            self.value_types.append("%s %s" % (k, nm))
            self.struct_types.append("%s %s" % (k, nm))
        elif k == "anon_typedef_struct":
            nm = self.name("ts")
            L.append("typedef struct { %s } %s;" % (self.fields(True), nm))
            self.value_types.append(nm)
            self.struct_types.append(nm)
        elif k == "enum":
            nm = self.name("e")
            vals = []
            for i in range(rng.randint(1, 5)):
                en = self.name("E").upper()
                r = rng.random()
                vals.append(en if r < 0.5 else "%s = %d" % (en, rng.choice([0, 1, -1, 5, 255, 65536, -2147483648,
                                                                              2147483647, 4294967295])))
            if self.api and rng.random() < 0.2:
                vals.append("...")
            L.append("enum %s { %s };" % (nm, ", ".join(vals)))
            self.value_types.append("enum " + nm)
        elif k == "anon_enum_typedef":
            nm = self.name("te")
            L.append("typedef enum { %s, %s = %d } %s;" % (self.name("E").upper(), self.name("E").upper(),
                                                           rng.randint(2, 90), nm))
            self.value_types.append(nm)
        elif k == "opaque":
            nm = self.name("o")
            L.append("struct %s;" % nm)
            self.any_types.append("struct " + nm)
        elif k == "opaque_typedef":
            nm = self.name("ot")
            L.append("typedef ... %s;" % nm)
            self.any_types.append(nm)
        elif k == "funcptr_typedef":
            nm = self.name("fp")
            args = ", ".join(self.vtype() for _ in range(rng.randint(0, 3))) or "void"
            L.append("typedef %s (*%s)(%s);" % (self.rtype(), nm, args))
            self.value_types.append(nm)
        elif k in ("func", "variadic", "externpy"):
            nm = self.name("fn")
            nargs = rng.randint(0, 4)
            args = [self.argtype() for _ in range(nargs)]
            if k == "variadic":
                args = [self.argtype()] + args + ["..."]
            s = "%s %s(%s);" % (self.rtype(), nm, ", ".join(args) or "void")
            if k == "externpy":
                s = 'extern "Python" ' + s
            L.append(s)
        elif k == "global":
            nm = self.name("g")
            L.append("extern %s;" % self.declarator(self.vtype(), nm))
        elif k == "global_array_dots":
            L.append("extern %s %s[...];" % (rng.choice(INTS), self.name("ga")))
        elif k == "macro":
            L.append("#define %s %s" % (self.name("M").upper(), rng.choice(["0", "1", "42", "0x7f", "-3", "0xFFFFFFFF",
                                                                            "18446744073709551615", "-9223372036854775807",
                                                                            "010"])))
        elif k == "dotdotdot_macro":
            L.append("#define %s ..." % self.name("MD").upper())
        elif k == "const":
            r = rng.random()
            if r < 0.5:
                L.append("static const %s %s;" % (rng.choice(INTS), self.name("K").upper()))
            elif r < 0.75:
                L.append("static char *const %s;" % self.name("KS").upper())
            else:
                L.append("static const double %s;" % self.name("KD").upper())
        elif k == "intdots":
            nm = self.name("ti")
            L.append("typedef int... %s;" % nm)
            self.value_types.append(nm)

    def rtype(self):
        if self.rng.random() < 0.2:
            return "void"
        return self.argtype()

    def argtype(self):
        # arrays / bare function types are not valid by value here; complex and long double kept out of calls
        for _ in range(20):
            t = self.vtype()
            if "long double" in t or t in self.array_types:
                continue
            return t
        return "int"


def gen(rng, n, flavour="api"):
    g = Gen(rng, flavour)
    for _ in range(n):
        g.one()
    return "\n".join(g.lines) + "\n"


def preamble(rng, nonascii=False):
    parts = ["#include <stddef.h>", "/* preamble %d */" % rng.randint(0, 10 ** 9),
             "static int helper_%d(int x) { return x + %d; }" % (rng.randint(0, 99), rng.randint(0, 99))]
    if nonascii:
        parts.append("/* café — λ 中文 \U0001F600 */")
        parts.append('static const char *greeting = "grüß";')
    if rng.random() < 0.3:
        parts.append("// trailing line without newline")
        return "\n".join(parts)
    return "\n".join(parts) + "\n"


# ---------------------------------------------------------------- FFIs that include other FFIs

BUILD_SRC = '''
def build_ffi(inp):
    """inp: {cdef, modname, preamble, incs, nodes}; nodes: earlier FFIs [{cdef, modname, preamble, incs}] that may be
    included (by index) by later nodes and by the root -- chains, siblings, diamonds"""
    import cffi
    made = []
    for n in inp.get("nodes", []):
        f = cffi.FFI()
        for j in n["incs"]:
            f.include(made[j])
        f.cdef(n["cdef"])
        f.set_source(n["modname"], n["preamble"])
        made.append(f)
    ffi = cffi.FFI()
    for j in inp.get("incs", []):
        ffi.include(made[j])
    ffi.cdef(inp["cdef"])
    ffi.set_source(inp["modname"], inp["preamble"])
    return ffi
'''
_ns = {}
exec(BUILD_SRC, _ns)
build_ffi = _ns["build_ffi"]

SHAPES = {  # node -> nodes it includes; last entry = the root
    "siblings2": [[], [], [0, 1]],
    "siblings4": [[], [], [], [], [0, 1, 2, 3]],
    "chain": [[], [0], [1], [2]],
    "diamond": [[], [0], [0], [1, 2]],
    "diamond+": [[], [0], [0], [], [1, 2, 3, 0]],
}


def gen_includes(rng, flavour, shape, tag):
    """an input whose root FFI includes 1-4 other FFIs of the same target kind"""
    words = ["alpha", "beta", "gamma", "delta", "eps", "zeta", "eta", "theta", "iota", "kappa", "lam", "mu", "nu", "xi"]
    rng.shuffle(words)
    graph = SHAPES[shape]
    nodes = []
    for k, incs in enumerate(graph):
        nm = "%s_%s%d" % (tag, words[k], rng.randint(0, 99))
        uses = "".join("int %s_use%d(%s_s *);\n" % (nm, j, nodes[j]["_nm"]) for j in incs)
        cdef = ("typedef struct { int a; char b[%d]; } %s_s;\nint %s_f(%s_s *, int);\n#define %s_K %d\n%s"
                % (k + 1, nm, nm, nm, nm.upper(), k + 40, uses))
        nodes.append({"_nm": nm, "cdef": cdef, "modname": rng.choice(["%s", "pkg.%s", "_%s_cffi"]) % nm,
                      "preamble": ("/* %s */\n" % nm) if flavour == "api" else None, "incs": list(incs)})
    root = nodes.pop()
    for n in nodes:
        del n["_nm"]
    return {"cdef": root["cdef"], "modname": root["modname"], "preamble": root["preamble"], "incs": root["incs"],
            "nodes": nodes, "shape": shape}
