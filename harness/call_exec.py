"""Sub-process executor for harness/call_gen.py plans: imports the modules built from the
repository's working tree, performs every case on every call path and writes what it
observed.  usage: python -m harness.call_exec <plan.json> <out.json>"""
import importlib, json, os, struct, sys


class IntObj:
    def __init__(self, n):
        self.n = n

    def __int__(self):
        return self.n


def build_arg(ffi, d, cells, keep):
    k = d[0]
    if k == "int": return int(d[1])
    if k == "float": return struct.unpack("<d", bytes.fromhex(d[1]))[0]
    if k == "bytes": return bytes(d[1])
    if k == "str": return d[1]
    if k == "none": return None
    if k == "pybool": return bool(d[1])
    if k == "list": return [build_arg(ffi, x, cells, keep) for x in d[1]]
    if k == "tuple": return tuple(build_arg(ffi, x, cells, keep) for x in d[1])
    if k == "intobj": return IntObj(int(d[1]))
    if k == "dict": return dict(("f%d" % (i + 1), build_arg(ffi, x, cells, keep)) for i, x in d[1])
    if k == "cast": return ffi.cast(d[1], build_arg(ffi, d[2], cells, keep))
    if k == "cell":
        c = cells[d[1]]
        return c if d[2] is None else ffi.cast(d[2], c)
    if k == "null":
        return ffi.NULL if d[1] is None else ffi.cast(d[1], 0)
    if k == "struct":
        p = ffi.new(d[1] + " *", [build_arg(ffi, x, cells, keep) for x in d[2]])
        keep.append(p)
        return p[0]
    raise ValueError(d)


def enc_result(ffi, r, cells, tla_type_of_ctype, img8, le_bytes):
    if r is None: return {"k": "none"}
    if isinstance(r, bool): return {"k": "pybool", "b": r}
    if isinstance(r, int): return {"k": "int", "neg": r < 0, "mag": le_bytes(abs(r))}
    if isinstance(r, float): return {"k": "float", "d": img8(r)}
    if isinstance(r, bytes): return {"k": "bytes", "data": list(r)}
    if isinstance(r, ffi.CData):
        ct = ffi.typeof(r)
        if ct.kind == "array":          # the array field of a struct result
            return {"k": "carr", "vals": [enc_result(ffi, r[i], cells, tla_type_of_ctype, img8, le_bytes)
                                          for i in range(len(r))]}
        if ct.kind in ("pointer", "array"):
            addr = int(ffi.cast("uintptr_t", r))
            cell = -1
            if addr == 0:
                cell = 0
            for i, c in enumerate(cells):
                if int(ffi.cast("uintptr_t", c)) == addr:
                    cell = i + 1
            return {"k": "cptr", "ct": tla_type_of_ctype(ct), "cell": cell}
        if ct.kind == "struct":
            vals = []
            for n, _f in ct.fields:
                try:
                    vals.append(enc_result(ffi, getattr(r, n), cells, tla_type_of_ctype, img8, le_bytes))
                except Exception as e:          # e.g. a _Bool field holding neither 0 nor 1
                    vals.append({"k": "unreadable", "exc": type(e).__name__})
            return {"k": "cstruct", "ct": tla_type_of_ctype(ct), "vals": vals}
        return {"k": "other", "repr": ct.cname}
    return {"k": "other", "repr": type(r).__name__}


def run_case(ffi, getfn, case, G):
    keep = []
    cells = []
    for ctype, n, data in case["cells"]:
        c = ffi.new("%s[%d]" % (ctype, n))
        ffi.buffer(c)[:] = bytes(data)
        cells.append(c)
    args = [build_arg(ffi, d, cells, keep) for d in case["args"]]
    fn = getfn(case["fname"])
    if case.get("prime"):
        try:
            fn(*[build_arg(ffi, d, cells, keep) for d in case["prime"]])
        except Exception:
            pass
    ffi.errno = case["errno"]
    try:
        r = fn(*args)
    except Exception as e:
        obs = {"exc": type(e).__name__, "ret": {"k": "none"}, "msg": str(e)[:200]}
    else:
        obs = {"exc": "", "ret": enc_result(ffi, r, cells, G.tla_type_of_ctype, G.img8, G.le_bytes)}
    obs["errno"] = ffi.errno
    obs["mem"] = [list(ffi.buffer(c)[:]) for c in cells]
    return obs


def load_paths(plan):
    """{path name: (ffi, getter)} for the libraries named in the plan."""
    import cffi
    d = plan["dir"]
    if d not in sys.path:
        sys.path.insert(0, d)
    paths = {}
    want = plan["paths"]
    if "api" in want or "addr" in want:
        m = importlib.import_module(plan["api_module"])
        if "api" in want:
            paths["api"] = (m.ffi, lambda n, m=m: getattr(m.lib, n), m.lib)
        if "addr" in want:
            paths["addr"] = (m.ffi, lambda n, m=m: m.ffi.addressof(m.lib, n), m.lib)
    if "inline" in want:
        f = cffi.FFI()
        f.cdef(plan["cdef"])
        lib = f.dlopen(plan["so"])
        paths["inline"] = (f, lambda n, lib=lib: getattr(lib, n), lib)
    if "ool" in want:
        m2 = importlib.import_module(plan["ool_module"])
        lib2 = m2.ffi.dlopen(plan["so"])
        paths["ool"] = (m2.ffi, lambda n, lib2=lib2: getattr(lib2, n), lib2)
    for name in ("verify_cpy", "verify_gen"):
        if name in want:
            import warnings
            f = cffi.FFI()
            f.cdef(plan["cdef"])
            with warnings.catch_warnings():
                warnings.simplefilter("ignore")
                lib = f.verify(plan["src"], tmpdir=os.path.join(d, name), modulename=plan[name + "_module"],
                               force_generic_engine=(name == "verify_gen"))
            paths[name] = (f, lambda n, lib=lib: getattr(lib, n), lib)
    return paths


def main(plan_path, out_path):
    sys.path.insert(0, os.path.dirname(os.path.dirname(os.path.abspath(__file__))))
    from harness import call_gen as G
    with open(plan_path) as f:
        plan = json.load(f)
    paths = load_paths(plan)
    prog = open(out_path + ".progress", "w")
    out = {}
    for case in plan["cases"]:
        obs = {}
        for p in plan["paths"]:
            prog.write("%s %s\n" % (case["id"], p))
            prog.flush()
            ffi, getfn = paths[p][0], paths[p][1]
            obs[p] = run_case(ffi, getfn, case, G)
        out[str(case["id"])] = obs
    with open(out_path + ".tmp", "w") as f:
        json.dump(out, f)
    os.rename(out_path + ".tmp", out_path)


def prebuild(plan_path, name):
    """Compile one ffi.verify() library of the plan (the executor then finds it already built)."""
    with open(plan_path) as f:
        plan = json.load(f)
    plan["paths"] = [name]
    load_paths(plan)


if __name__ == "__main__":
    if sys.argv[1] == "--prebuild":
        prebuild(sys.argv[2], sys.argv[3])
    else:
        main(sys.argv[1], sys.argv[2])
