"""Sub-process executor for harness/call_gen.py plans: imports the modules built from the
repository's working tree, performs every case on every call path and writes what it
observed.  usage: python -m harness.call_exec <plan.json> <out.json>"""
import importlib, json, os, struct, sys


class IntObj:
    def __init__(self, n):
        self.n = n

    def __int__(self):
        return self.n


def build_arg(ffi, d, cells, keep):
    k = d[0]
    if k == "int": return int(d[1])
    if k == "float": return struct.unpack("<d", bytes.fromhex(d[1]))[0]
    if k == "complex": return complex(struct.unpack("<d", bytes.fromhex(d[1]))[0], struct.unpack("<d", bytes.fromhex(d[2]))[0])
    if k == "bytes": return bytes(d[1])
    if k == "str": return d[1]
    if k == "none": return None
    if k == "pybool": return bool(d[1])
    if k == "list": return [build_arg(ffi, x, cells, keep) for x in d[1]]
    if k == "tuple": return tuple(build_arg(ffi, x, cells, keep) for x in d[1])
    if k == "intobj": return IntObj(int(d[1]))
    if k == "dict": return dict(("f%d" % (i + 1), build_arg(ffi, x, cells, keep)) for i, x in d[1])
    if k == "cast": return ffi.cast(d[1], build_arg(ffi, d[2], cells, keep))
    if k == "cell":
        c = cells[d[1]]
        return c if d[2] is None else ffi.cast(d[2], c)
    if k == "null":
        return ffi.NULL if d[1] is None else ffi.cast(d[1], 0)
    if k == "struct":
        p = ffi.new(d[1] + " *", [build_arg(ffi, x, cells, keep) for x in d[2]])
        keep.append(p)
        return p[0]
    raise ValueError(d)


def enc_result(ffi, r, cells, tla_type_of_ctype, img8, le_bytes):
    if r is None: return {"k": "none"}
    if isinstance(r, bool): return {"k": "pybool", "b": r}
    if isinstance(r, int): return {"k": "int", "neg": r < 0, "mag": le_bytes(abs(r))}
    if isinstance(r, float): return {"k": "float", "d": img8(r)}
    if isinstance(r, complex): return {"k": "pycomplex", "re": {"d": img8(r.real)}, "im": {"d": img8(r.imag)}}
    if isinstance(r, bytes): return {"k": "bytes", "data": list(r)}
    if isinstance(r, ffi.CData):
        ct = ffi.typeof(r)
        if ct.kind == "primitive" and ct.cname == "long double":
            return {"k": "cldouble", "d": img8(float(r))}
        if ct.kind == "array":          # the array field of a struct result
            return {"k": "carr", "vals": [enc_result(ffi, r[i], cells, tla_type_of_ctype, img8, le_bytes)
                                          for i in range(len(r))]}
        if ct.kind in ("pointer", "array"):
            addr = int(ffi.cast("uintptr_t", r))
            cell = -1
            if addr == 0:
                cell = 0
            for i, c in enumerate(cells):
                if int(ffi.cast("uintptr_t", c)) == addr:
                    cell = i + 1
            return {"k": "cptr", "ct": tla_type_of_ctype(ct), "cell": cell}
        if ct.kind == "struct":
            vals = []
            for n, _f in ct.fields:
                try:
                    vals.append(enc_result(ffi, getattr(r, n), cells, tla_type_of_ctype, img8, le_bytes))
                except Exception as e:          # e.g. a _Bool field holding neither 0 nor 1
                    vals.append({"k": "unreadable", "exc": type(e).__name__})
            return {"k": "cstruct", "ct": tla_type_of_ctype(ct), "vals": vals}
        return {"k": "other", "repr": ct.cname}
    return {"k": "other", "repr": type(r).__name__}


def failed(case, what, e=None):
    """The recorded outcome of a call that could not even be made on this path."""
    return {"exc": what + (":" + type(e).__name__ if e is not None else ""), "ret": {"k": "none"},
            "msg": str(e)[:200] if e is not None else "", "errno": case["errno"],
            "mem": [list(c[2]) for c in case["cells"]]}


def run_case(ffi, getfn, case, G):
    keep = []
    cells = []
    try:
        for ctype, n, data in case["cells"]:
            c = ffi.new("%s[%d]" % (ctype, n))
            ffi.buffer(c)[:] = bytes(data)
            cells.append(c)
        args = [build_arg(ffi, d, cells, keep) for d in case["args"]]
        prime = [build_arg(ffi, d, cells, keep) for d in case["prime"]] if case.get("prime") else None
        after = [build_arg(ffi, d, cells, keep) for d in case["after"]] if case.get("after") else None
    except Exception as e:               # the types of this path's ffi cannot even build the arguments
        return failed(case, "SetupError", e)
    try:
        fn = getfn(case["fname"])
    except Exception as e:               # the function cannot be fetched / its type cannot be realised
        return failed(case, "FetchError", e)
    if prime is not None:
        try:
            fn(*prime)
        except Exception:
            pass
    ffi.errno = case["errno"]
    try:
        r = fn(*args)
    except Exception as e:
        obs = {"exc": type(e).__name__, "ret": {"k": "none"}, "msg": str(e)[:200]}
    else:
        if after is not None:          # a later call must not change the result object already returned
            try:
                fn(*after)
            except Exception:
                pass
            ffi.errno = ffi.errno
        try:
            obs = {"exc": "", "ret": enc_result(ffi, r, cells, G.tla_type_of_ctype, G.img8, G.le_bytes)}
        except Exception as e:
            obs = {"exc": "", "ret": {"k": "unreadable", "exc": type(e).__name__}}
    obs["errno"] = ffi.errno
    obs["mem"] = [list(ffi.buffer(c)[:]) for c in cells]
    return obs


def load_paths(plan):
    """{path name: (ffi, getter, lib)} for the libraries named in the plan; a path whose module
    cannot be imported / opened is {path name: Exception} (a recorded outcome, not a failure
    of the harness)."""
    import cffi
    d = plan["dir"]
    if d not in sys.path:
        sys.path.insert(0, d)
    paths = {}
    want = plan["paths"]

    def attempt(names, loader):
        names = [n for n in names if n in want]
        if not names:
            return
        try:
            got = loader()
        except Exception as e:
            got = dict((n, e) for n in names)
        for n in names:
            paths[n] = got[n]

    def load_api():
        m = importlib.import_module(plan["api_module"])
        return {"api": (m.ffi, lambda n, m=m: getattr(m.lib, n), m.lib),
                "addr": (m.ffi, lambda n, m=m: m.ffi.addressof(m.lib, n), m.lib)}

    def load_inline():
        f = cffi.FFI()
        f.cdef(plan["cdef"])
        lib = f.dlopen(plan["so"])
        return {"inline": (f, lambda n, lib=lib: getattr(lib, n), lib)}

    def load_ool():
        m2 = importlib.import_module(plan["ool_module"])
        lib2 = m2.ffi.dlopen(plan["so"])
        return {"ool": (m2.ffi, lambda n, lib2=lib2: getattr(lib2, n), lib2)}

    def load_verify(name):
        def load():
            import warnings
            f = cffi.FFI()
            f.cdef(plan["cdef"])
            with warnings.catch_warnings():
                warnings.simplefilter("ignore")
                lib = f.verify(plan["src"], tmpdir=os.path.join(d, name), modulename=plan[name + "_module"],
                               force_generic_engine=(name == "verify_gen"))
            return {name: (f, lambda n, lib=lib: getattr(lib, n), lib)}
        return load
    attempt(["api", "addr"], load_api)
    attempt(["inline"], load_inline)
    attempt(["ool"], load_ool)
    for name in ("verify_cpy", "verify_gen"):
        attempt([name], load_verify(name))
    return paths


def main(plan_path, out_path):
    """Results are appended one JSON line per finished case, so that a crash loses one case only;
    plan["done"] = ids already finished, plan["skip"] = [[id, path]] calls that killed an earlier
    run of this plan (recorded as outcome "Crash"), plan["dead"] = paths not to be used any more."""
    sys.path.insert(0, os.path.dirname(os.path.dirname(os.path.abspath(__file__))))
    from harness import call_gen as G
    with open(plan_path) as f:
        plan = json.load(f)
    done = set(plan.get("done", []))
    skip = set((c, p) for c, p in plan.get("skip", []))
    dead = set(plan.get("dead", []))
    prog = open(out_path + ".progress", "w")
    out = open(out_path, "a")
    prog.write("0 load\n")
    prog.flush()
    paths = load_paths(plan)
    for case in plan["cases"]:
        if case["id"] in done:
            continue
        obs = {}
        for p in plan["paths"]:
            if (case["id"], p) in skip or p in dead:
                obs[p] = failed(case, "Crash")
                continue
            if isinstance(paths[p], Exception):
                obs[p] = failed(case, "LoadError", paths[p])
                continue
            prog.write("%s %s\n" % (case["id"], p))
            prog.flush()
            obs[p] = run_case(paths[p][0], paths[p][1], case, G)
        out.write(json.dumps({"id": case["id"], "obs": obs}) + "\n")
        out.flush()
    out.close()
    open(out_path + ".ok", "w").close()


def prebuild(plan_path, name):
    """Compile one ffi.verify() library of the plan (the executor then finds it already built)."""
    with open(plan_path) as f:
        plan = json.load(f)
    plan["paths"] = [name]
    load_paths(plan)


if __name__ == "__main__":
    if sys.argv[1] == "--prebuild":
        prebuild(sys.argv[2], sys.argv[3])
    else:
        main(sys.argv[1], sys.argv[2])
