"""C31 helper: Denote(cdef text) - everything observable that a cdef declares: the parser's
declaration table, integer constants, the backend's view of every declared type (size,
alignment, field layout, enum values), and the bytes of emit_c_code()/emit_python_code().
Two texts with the same meaning must have equal Denote values.
"""
import hashlib, os, warnings


def _tp(tp):
    """a model type, structurally (names of nested aggregates, not their identity)"""
    from cffi import model
    if isinstance(tp, model.StructOrUnion):
        return [type(tp).__name__, tp.name, tp.forcename, list(tp.fldnames) if tp.fldnames is not None else None,
                [t._get_c_name() for t in tp.fldtypes] if tp.fldtypes is not None else None,
                list(tp.fldbitsize) if tp.fldbitsize is not None else None,
                list(tp.fldquals) if getattr(tp, "fldquals", None) is not None else None,
                bool(tp.partial), tp.packed]
    if isinstance(tp, model.EnumType):
        return ["EnumType", tp.name, tp.forcename, list(tp.enumerators), list(tp.enumvalues), bool(tp.partial)]
    if isinstance(tp, (int, str)):
        return tp
    return [type(tp).__name__, tp._get_c_name()]


def _backend_view(ffi, name):
    """size / alignment / fields of a declared type as the backend computes them"""
    try:
        ct = ffi.typeof(name)
    except Exception as e:
        return ["exc", type(e).__name__]
    out = [ct.kind, ct.cname]
    try:
        out += [ffi.sizeof(ct), ffi.alignof(ct)]
    except Exception as e:
        out += ["exc", type(e).__name__]
    if ct.kind in ("struct", "union"):
        try:
            flds = ct.fields
            out.append(None if flds is None else
                       [[n, f.type.cname, f.offset, f.bitshift, f.bitsize] for n, f in flds])
        except Exception as e:
            out.append(["exc", type(e).__name__])
    elif ct.kind == "enum":
        out.append(sorted(ct.elements.items()))
    return out


def denote(text, workdir):
    import cffi
    d = {}
    with warnings.catch_warnings():
        warnings.simplefilter("ignore")
        ffi = cffi.FFI()
        try:
            ffi.cdef(text)
        except Exception as e:
            return {"rejected": [type(e).__name__, (str(e).splitlines() or [""])[0][:100]]}
        decls = ffi._parser._declarations
        d["declarations"] = sorted([k, _tp(tp), q] for k, (tp, q) in decls.items())
        d["constants"] = sorted(ffi._parser._int_constants.items())
        layout = []
        for key in sorted(decls):
            kind, _, name = key.partition(" ")
            if kind in ("struct", "union", "enum"):
                layout.append([key, _backend_view(ffi, key)])
            elif kind == "typedef":
                layout.append([key, _backend_view(ffi, name)])
        d["layout"] = layout
        for mode, src in (("emit_c", ""), ("emit_py", None)):
            f2 = cffi.FFI()
            f2.cdef(text)
            path = os.path.join(workdir, "c31_%d_%s.out" % (os.getpid(), mode))
            try:
                f2.set_source("_c31_mod", src)
                if src is None:
                    f2.emit_python_code(path)
                else:
                    f2.emit_c_code(path)
                with open(path, "rb") as fh:
                    d[mode] = hashlib.sha256(fh.read()).hexdigest()
            except Exception as e:
                d[mode] = ["exc", type(e).__name__, (str(e).splitlines() or [""])[0][:80]]
    return d


COMPONENTS = ("rejected", "declarations", "constants", "layout", "emit_c", "emit_py")


def first_difference(base, other):
    for c in COMPONENTS:
        if base.get(c) != other.get(c):
            return c
    return None


def worker(env, item):
    workdir, text = item
    import io, contextlib
    with contextlib.redirect_stdout(io.StringIO()), contextlib.redirect_stderr(io.StringIO()):
        return denote(text, workdir)
