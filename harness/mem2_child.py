"""Runs the part of a C15/C17/C20 check that executes the real cffi in a sub-process, so that a
crashing (mutated) implementation is reported as a violation instead of killing the check.

    python -m harness.mem2_child <prop> <infile.json> <outfile.json>

calls props.<prop>.produce(cc, args) with a ChildCtx (seeded exactly like core.Ctx) and writes its
result (a dict with at least "recs") plus the case accounting to <outfile.json>.  Before every
execution the producer calls cc.about(description); the last description survives a crash in
<outfile.json>.last ."""
import importlib, json, os, random, subprocess, sys


class ChildCtx:
    def __init__(self, pid, seed, quick, tmp, lastpath):
        self.pid, self.seed, self.quick, self.tmp = pid, seed, quick, tmp
        self.rng = random.Random("%s-%s" % (pid, seed))
        self.cov = {}
        self.ncases = 0
        self.distinct = set()
        self.samples = []
        self._last = open(lastpath, "w")

    def case(self, key=None, n=1):
        self.ncases += n
        if key is not None:
            self.distinct.add(hash(key))

    def sample(self, obj, limit=6):
        if len(self.samples) < limit:
            self.samples.append(obj)

    def about(self, desc):
        f = self._last
        f.seek(0)
        f.truncate()
        f.write(desc)
        f.flush()


def main():
    from harness import core
    prop, infile, outfile = sys.argv[1:4]
    core.activate()
    mod = importlib.import_module("props." + prop)
    with open(infile) as f:
        args = json.load(f)
    cc = ChildCtx(prop.upper(), args["seed"], args["quick"], args["tmp"], outfile + ".last")
    try:
        out = mod.produce(cc, args)
    except core.MachineryError as e:
        with open(outfile, "w") as f:
            json.dump({"machinery": str(e)}, f)
        sys.exit(2)
    out.update(ncases=cc.ncases, ndistinct=len(cc.distinct), cov=cc.cov, samples=cc.samples)
    with open(outfile, "w") as f:
        json.dump(out, f)


def run_child(ctx, prop, args, timeout=3000):
    """Parent side.  Returns the producer's result dict, or None after reporting a crash."""
    from harness import core
    n = len(os.listdir(ctx.tmp))
    infile = os.path.join(ctx.tmp, "child_in_%d.json" % n)
    outfile = os.path.join(ctx.tmp, "child_out_%d.json" % n)
    args = dict(args, seed=ctx.seed, quick=ctx.quick, tmp=ctx.tmp)
    core.write_json(infile, args)
    try:
        r = subprocess.run([core.PY, "-m", "harness.mem2_child", prop, infile, outfile], cwd=core.VERIF,
                           env=core.sub_env(PYTHONHASHSEED="0"), capture_output=True, text=True, timeout=timeout)
    except subprocess.TimeoutExpired:
        raise core.MachineryError("%s: the executing sub-process did not finish in %d s" % (prop, timeout))
    if r.returncode == 0:
        with open(outfile) as f:
            out = json.load(f)
        ctx.cov["evaluations"] += out["ncases"]
        ctx._distinct.update(("child", n, i) for i in range(out["ndistinct"]))
        for k, v in out["cov"].items():
            ctx.cov[k] = v
        for s in out["samples"]:
            ctx.sample(s)
        return out
    if r.returncode == 2 and os.path.exists(outfile):
        with open(outfile) as f:
            raise core.MachineryError(json.load(f).get("machinery", r.stderr[-2000:]))
    if r.returncode < 0 or r.returncode >= 128:
        last = ""
        if os.path.exists(outfile + ".last"):
            with open(outfile + ".last") as f:
                last = f.read()
        sig = -r.returncode if r.returncode < 0 else r.returncode - 128
        ctx.violation("crash:signal%d" % sig,
                      "the interpreter crashed (signal %d) while executing: %s" % (sig, last or "?"),
                      {"last": last, "stderr": r.stderr[-1500:]})
        return None
    raise core.MachineryError("%s: executing sub-process failed (rc=%d):\n%s" % (prop, r.returncode, r.stderr[-3000:]))


if __name__ == "__main__":
    main()
