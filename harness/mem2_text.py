"""C15: execution of string operations on real cffi character arrays, with the memory
observed and prepared as raw units through ffi.buffer (never through the string paths
under test)."""
import struct

TYPES = {"char": 1, "signed char": 1, "unsigned char": 1, "char16_t": 2, "wchar_t": 4, "char32_t": 4}
FMT = {1: "B", 2: "H", 4: "I"}
ASSIGN_HOWS = ("ptr", "field", "row", "fieldinit")
NEW_HOWS = ("array", "structlist", "structdict")


def pyval(W, s):
    return bytes(s) if W == 1 else "".join(map(chr, s))


class Garbage(Exception):
    """the implementation returned an object that cannot be a str/bytes of valid code points"""


def cps(W, v):
    """the code points of a returned bytes/str; anything else (or a str Python itself cannot walk, or code points
    outside 0..0x10FFFF: uninitialised memory) raises Garbage - a recorded outcome, never a harness failure"""
    try:
        out = list(v) if isinstance(v, (bytes, bytearray)) else [ord(c) for c in v]
    except Exception as e:
        raise Garbage("garbage:" + type(e).__name__)
    if any((not isinstance(c, int)) or c < 0 or c > 0x10FFFF for c in out):
        raise Garbage("garbage:codepoint")
    return out


def outcome_name(e):
    return str(e) if isinstance(e, Garbage) else "raised:" + type(e).__name__


class TextLab:
    def __init__(self):
        import cffi
        self.ffi = cffi.FFI()
        self.structs = set()
        self.sizes = {T: self.ffi.sizeof(T) for T in TYPES}

    def W(self, T):
        return self.sizes[T]

    def struct(self, T, L):
        name = "s_%s_%d" % (T.replace(" ", "_"), L)
        if name not in self.structs:
            self.ffi.cdef("struct %s { int before; %s a[%d]; int after; };" % (name, T, L))
            self.structs.add(name)
        return "struct " + name

    def put(self, cd, W, units):
        self.ffi.buffer(cd)[:] = struct.pack("<%d%s" % (len(units), FMT[W]), *units)

    def get(self, cd, W, n=None):
        b = bytes(self.ffi.buffer(cd))
        return list(struct.unpack("<%d%s" % (len(b) // W, FMT[W]), b))

    def array(self, T, units):
        a = self.ffi.new("%s[%d]" % (T, len(units)))
        self.put(a, self.W(T), units)
        return a

    # ---- storing a string into an existing array holding `old`
    def assign(self, T, old, s, how):
        """returns (new units, exception class name or '')"""
        ffi, W, L = self.ffi, self.W(T), len(old)
        v = pyval(W, s)
        exc = ""
        if how == "ptr":                      # (*(T(*)[L])a) = v
            a = self.array(T, old)
            try:
                ffi.cast("%s(*)[%d]" % (T, L), a)[0] = v
            except Exception as e:
                exc = type(e).__name__
            return self.get(a, W), exc
        if how in ("field", "fieldinit"):     # p.a = v   /   p[0] = {'a': v}
            p = ffi.new(self.struct(T, L) + " *")
            self.put(p.a, W, old)
            p.before, p.after = 0x11223344, 0x55667788
            try:
                if how == "field":
                    p.a = v
                else:
                    p[0] = {"a": v}
            except Exception as e:
                exc = type(e).__name__
            if p.before != 0x11223344 or p.after != 0x55667788:
                exc = exc + "+neighbours-clobbered"
            return self.get(p.a, W), exc
        if how == "row":                      # aa[1] = v  in T[3][L]
            aa = ffi.new("%s[3][%d]" % (T, L))
            for k in range(3):
                self.put(aa[k], W, old)
            try:
                aa[1] = v
            except Exception as e:
                exc = type(e).__name__
            if self.get(aa[0], W) != list(old) or self.get(aa[2], W) != list(old):
                exc = exc + "+neighbours-clobbered"
            return self.get(aa[1], W), exc
        raise ValueError(how)

    def setitem(self, T, old, i, c):
        """a[i] = the unit c (as a character / integer); returns units after or the exception name"""
        a = self.array(T, old)
        W = self.W(T)
        try:
            a[i] = (c if c < 128 or T == "unsigned char" else c - 256) if T in ("signed char", "unsigned char") else (
                bytes([c]) if W == 1 else chr(c))
        except Exception as e:
            return type(e).__name__
        return self.get(a, W)

    # ---- ffi.new with a string initializer
    def new(self, T, decl, s, how):
        """returns (units after, ffi.string(result) as code points, exception or '')"""
        ffi, W = self.ffi, self.W(T)
        v = pyval(W, s)
        try:
            if how == "array":
                a = ffi.new("%s[%s]" % (T, "" if decl < 0 else decl), v)
            else:
                keep = ffi.new(self.struct(T, decl) + " *", [0, v] if how == "structlist" else {"a": v})
                a = keep.a
        except Exception as e:
            return [], [], "new:" + type(e).__name__
        try:
            return self.get(a, W), cps(W, ffi.string(a)), ""
        except Exception as e:
            return self.get(a, W), [], "string:" + outcome_name(e)

    # ---- readers
    def view(self, T, units, isarr):
        """isarr: True (the array), False (a pointer to it) or "field" (the array as a struct field)"""
        if isarr == "field":
            p = self.ffi.new(self.struct(T, len(units)) + " *")
            self.put(p.a, self.W(T), units)
            return p, p.a
        a = self.array(T, units)
        return (a, a) if isarr else (a, self.ffi.cast(T + " *", a))

    def string(self, T, units, isarr, maxlen):
        try:
            keep, v = self.view(T, units, isarr)
            r = self.ffi.string(v) if maxlen < 0 else self.ffi.string(v, maxlen)
            return cps(self.W(T), r), ""
        except Exception as e:
            return None, outcome_name(e)

    def unpack(self, T, units, isarr, n):
        try:
            keep, v = self.view(T, units, isarr)
            r = self.ffi.unpack(v, n)
            if isinstance(r, list):               # signed/unsigned char: list of ints
                return [x & 0xFF for x in r], ""
            return cps(self.W(T), r), ""
        except Exception as e:
            return None, outcome_name(e)

    def items(self, T, units):
        """list(p): every unit converted on its own"""
        a = self.array(T, units)
        out = []
        try:
            for x in a:
                out.append(x & 0xFF if isinstance(x, int) else (x[0] if isinstance(x, bytes) else ord(x)))
        except Exception as e:
            return [type(e).__name__]
        return out
