"""Adversarial identifier sets and their realisation as cdef + C source (used by C25, and as
a declaration generator by C23/C24).

Every generated identifier starts with z / Z / _z so that it cannot collide with anything
Python.h, libc or cffi's own parser already knows (keywords, common types, macros); the
rest of the name is drawn from the characters at the edges of the ASCII classes an
identifier may contain ($ 0 9 A Z _ a z), so that Python's string order and strcmp order
are exercised where they could differ, with prefix chains and common prefixes."""
import re

ROOTS = ["z", "Z", "_z", "zz", "z_", "z0", "zZ", "Zz", "Z_", "Z0", "_z_", "_zZ", "z$", "Z$"]
EDGE = "$09AZ_az"
ALL = "$0123456789ABCDEFGHIJKLMNOPQRSTUVWXYZ_abcdefghijklmnopqrstuvwxyz"
IDENT = re.compile(r"[A-Za-z_$][A-Za-z0-9_$]*\Z")
SAFE = re.compile(r"(?:_?[zZ])")
RESERVED = re.compile(r"zE\d+_\Z|zEnumHolder_\Z")      # names the generator derives itself


def ident_set(rng, n, maxlen=12, dollar=True):
    """n distinct identifiers with many prefix relations."""
    alpha_edge = EDGE if dollar else EDGE.replace("$", "")
    alpha_all = ALL if dollar else ALL.replace("$", "")
    roots = [r for r in ROOTS if dollar or "$" not in r]
    names = set()
    pool = []
    guard = 0
    while len(names) < n and guard < 100 * n + 1000:
        guard += 1
        r = rng.random()
        if pool and r < 0.45:                       # extend an existing name (prefix chain)
            base = rng.choice(pool)
            s = base + "".join(rng.choice(alpha_edge) for _ in range(rng.randint(1, 2)))
        elif pool and r < 0.65:                     # differ after a common prefix
            base = rng.choice(pool)
            k = rng.randint(1, len(base))
            s = base[:k] + rng.choice(alpha_all) + base[k + 1:]
        elif pool and r < 0.75:                     # case flip of one character
            base = rng.choice(pool)
            k = rng.randrange(len(base))
            s = base[:k] + base[k].swapcase() + base[k + 1:]
        else:
            s = rng.choice(roots) + "".join(rng.choice(alpha_edge if rng.random() < 0.7 else alpha_all)
                                            for _ in range(rng.randint(0, 3)))
        if len(s) > maxlen or not IDENT.match(s) or not SAFE.match(s) or RESERVED.match(s) or s in names:
            continue
        names.add(s)
        pool.append(s)
    return sorted(names, key=lambda x: rng.random())


def neighbours(rng, name, k, dollar=True):
    """up to k one-character edits of name that are still 'safe' identifiers"""
    alpha = ALL if dollar else ALL.replace("$", "")
    out = set()
    cands = [name[:-1], name + "_", name + "0", name + "$" if dollar else name + "a", name + "a", name + "z",
             name + "A", name.swapcase(), name[:-1] + "$" if dollar else name[:-1] + "0"]
    for i in range(len(name)):
        cands.append(name[:i] + name[i + 1:])
    for _ in range(3 * k):
        i = rng.randrange(len(name) + 1)
        c = rng.choice(alpha)
        cands.append(name[:i] + c + name[i:])
        if i < len(name):
            cands.append(name[:i] + c + name[i + 1:])
    rng.shuffle(cands)
    for c in cands:
        if c and c != name and IDENT.match(c) and SAFE.match(c):
            out.add(c)
        if len(out) >= k:
            break
    return sorted(out)


class Decls:
    """A random set of declarations over a given identifier set.

    entries: list of dicts {ns, name, kind, payload}; ns is the runtime table the name must
    be found in: globals / struct_unions / enums / typenames.  Every entry has a payload that
    distinguishes it from every other entry of its table (value, size, enumerator set)."""

    def __init__(self, rng, names, tag_fraction=0.6, with_funcs=True):
        self.entries = []
        cdef, csrc = [], []
        uid = [0]

        def nxt():
            uid[0] += 1
            return uid[0]
        names = list(names)
        # ---- ordinary name space: every identifier gets exactly one ordinary meaning
        ordinary = {}
        pending_enumvals = []
        kinds = ["macro", "enumval", "var", "typedef", "anonstruct", "anonenum"] + (["func"] if with_funcs else [])
        for nm in names:
            ordinary[nm] = rng.choice(kinds)
        # anonymous typedef'd enums need one enumerator each: take it from the enumvals
        for nm in names:
            k = ordinary[nm]
            v = nxt()
            if k == "macro":
                cdef.append("#define %s %d" % (nm, v))
                csrc.append("#define %s %d" % (nm, v))
                self._add("globals", nm, k, v)
            elif k == "enumval":
                pending_enumvals.append((nm, v))
                self._add("globals", nm, k, v)
            elif k == "func":
                cdef.append("int %s(void);" % nm)
                csrc.append("int %s(void) { return %d; }" % (nm, v))
                self._add("globals", nm, k, v)
            elif k == "var":
                cdef.append("int %s;" % nm)
                csrc.append("int %s = %d;" % (nm, v))
                self._add("globals", nm, k, v)
            elif k == "typedef":
                cdef.append("typedef char %s[%d];" % (nm, v))
                csrc.append("typedef char %s[%d];" % (nm, v))
                self._add("typenames", nm, k, v)
            elif k == "anonstruct":
                d = "typedef struct { char a[%d]; } %s;" % (v, nm)
                cdef.append(d); csrc.append(d)
                self._add("typenames", nm, k, v)
                self._add("struct_unions", "$" + nm, "anonstruct", v)
            elif k == "anonenum":
                # its single enumerator is a fresh derived name (kept out of the identifier set)
                en = "zE%d_" % v
                d = "typedef enum { %s = %d } %s;" % (en, v, nm)
                cdef.append(d); csrc.append(d)
                self._add("typenames", nm, k, 4)
                self._add("enums", "$" + nm, "anonenum", {en: v})
                self._add("globals", en, "enumval", v)
        # ---- tag name space (struct / union / enum tags share it in C)
        tags = [nm for nm in names if ordinary[nm] != "macro" and rng.random() < tag_fraction]   # a macro would rewrite the tag
        rng.shuffle(tags)
        enum_tags = []
        for nm in tags:
            k = rng.choice(["struct", "union", "enum"])
            v = nxt()
            if k == "struct":
                d = "struct %s { char a[%d]; };" % (nm, v)
                cdef.append(d); csrc.append(d)
                self._add("struct_unions", nm, k, v)
            elif k == "union":
                d = "union %s { char a[%d]; };" % (nm, v)
                cdef.append(d); csrc.append(d)
                self._add("struct_unions", nm, k, v)
            else:
                enum_tags.append(nm)
        # distribute the pending enumerators over the enum tags (each enum needs >= 1)
        rng.shuffle(pending_enumvals)
        groups = {t: [] for t in enum_tags}
        for t in enum_tags:
            if pending_enumvals:
                groups[t].append(pending_enumvals.pop())
            else:
                v = nxt()
                en = "zE%d_" % v
                groups[t].append((en, v))
                self._add("globals", en, "enumval", v)
        if pending_enumvals:
            if not enum_tags:
                t = "zEnumHolder_"
                enum_tags.append(t)
                groups[t] = []
            for ev in pending_enumvals:
                groups[rng.choice(enum_tags)].append(ev)
        for t in enum_tags:
            d = "enum %s { %s };" % (t, ", ".join("%s = %d" % ev for ev in groups[t]))
            cdef.append(d); csrc.append(d)
            self._add("enums", t, "enum", dict(groups[t]))
        order = list(range(len(cdef)))
        # declaration order is irrelevant to C here except typedef-before-use (none): shuffle
        rng.shuffle(order)
        self.cdef = "\n".join(cdef[i] for i in order) + "\n"
        self.csource = "\n".join(csrc[i] for i in order) + "\n"

    def _add(self, ns, name, kind, payload):
        self.entries.append({"ns": ns, "name": name, "kind": kind, "payload": payload})

    def declared(self, ns):
        return [e["name"] for e in self.entries if e["ns"] == ns]


# ---------------------------------------------------------------- reading generated tables

SECTIONS = {"globals": "global", "struct_unions": "struct_union", "enums": "enum", "typenames": "typename"}


def tables_from_c(text):
    """order of the names in the generated C tables"""
    out = {}
    for ns, step in SECTIONS.items():
        m = re.search(r"static const struct _cffi_%s_s _cffi_%ss\[\] = \{\n(.*?)\n\};" % (step, step), text, re.S)
        out[ns] = re.findall(r'^\s*\{ "([^"]*)",', m.group(1), re.M) if m else []
    return out


def tables_from_py(text):
    """order of the names in the generated Python (ABI mode) tables"""
    import ast
    tree = ast.parse(text)
    kw = {}
    for node in ast.walk(tree):
        if isinstance(node, ast.Call) and getattr(node.func, "attr", "") == "FFI":
            for k in node.keywords:
                kw[k.arg] = k.value
    out = {}
    g = ast.literal_eval(kw["_globals"]) if "_globals" in kw else ()
    out["globals"] = [g[i][4:].decode("latin-1") for i in range(0, len(g), 2)]
    s = ast.literal_eval(kw["_struct_unions"]) if "_struct_unions" in kw else ()
    out["struct_unions"] = [x[0][8:].decode("latin-1") for x in s]
    e = ast.literal_eval(kw["_enums"]) if "_enums" in kw else ()
    out["enums"] = [x[8:].split(b"\x00")[0].decode("latin-1") for x in e]
    t = ast.literal_eval(kw["_typenames"]) if "_typenames" in kw else ()
    out["typenames"] = [x[4:].decode("latin-1") for x in t]
    return out


def codes(s):
    return [ord(c) for c in s]
