"""Enum declarations for C10: generation, rendering, gcc probe, cffi measurement in three modes.

A declaration is {"id": str, "items": [{"name", "k": "explicit"|"implicit"|"ref"|"char", "v": int, "ref": int,
"sp": [codes of the source characters between the quotes of a character constant], "cneg": bool (-'c')}]}
(python ints here; enc() turns them into the [neg, mag] limb form of specs/PlatformBV.tla for TLC).
"""
import json, os, re, subprocess, sys

LB = 15
INT_MAX, UINT_MAX, LONG_MAX, ULONG_MAX = 2**31 - 1, 2**32 - 1, 2**63 - 1, 2**64 - 1
TOPS = (INT_MAX, UINT_MAX, LONG_MAX, ULONG_MAX)


def enc(n):
    neg, m, mag = n < 0, abs(n), []
    while m:
        mag.append(m & (2**LB - 1))
        m >>= LB
    return {"neg": neg, "mag": mag}


def dec(z):
    m = 0
    for i, limb in enumerate(z["mag"]):
        m += limb << (LB * i)
    return -m if z["neg"] else m


# --------------------------------------------------------------------------- generation

BOUNDARY = [-2**63, -2**63 + 1, -2**31 - 1, -2**31, -1, 0, 1, INT_MAX, INT_MAX + 1, UINT_MAX, UINT_MAX + 1,
            LONG_MAX, LONG_MAX + 1, ULONG_MAX]


SIMPLE_ESC = {"'": 39, '"': 34, "?": 63, "\\": 92, "a": 7, "b": 8, "f": 12, "n": 10, "r": 13, "t": 9, "v": 11}
PLAIN = [c for c in range(32, 127) if c not in (39, 92)]


def char_value(sp):
    """generator-side copy of Enum.CharValue (used only to stay inside the class and to pick queries; Trace_Enum
    re-derives the values and reports "class:undefined" if this disagrees with the specification)"""
    s = "".join(map(chr, sp))
    if len(s) == 1:
        n = ord(s)
    elif s[1:] in SIMPLE_ESC:
        n = SIMPLE_ESC[s[1:]]
    elif s[1] == "x":
        n = int(s[2:], 16)
    else:
        n = int(s[1:], 8)
    return n - 256 if n >= 128 else n


def random_char(rng):
    """spelling of a random integer character constant: every simple escape sequence, octal escapes, plain
    characters; with VERIF_C10_NUMESC=1 also octal escapes of 2-3 digits and hexadecimal escapes"""
    r = rng.random()
    if r < 0.45:
        sp = "\\" + rng.choice(sorted(SIMPLE_ESC))
    elif r < 0.60:
        sp = "\\" + rng.choice("01234567")
    elif r < 0.70 and os.environ.get("VERIF_C10_NUMESC") == "1":
        sp = "\\" + rng.choice(["%o" % rng.randint(8, 255), "%03o" % rng.randint(0, 255), "x%x" % rng.randint(0, 255),
                               "x%02X" % rng.randint(0, 255)])
    else:
        sp = chr(rng.choice(PLAIN))
    return [ord(c) for c in sp]


def values_of(items):
    vals = []
    for i, it in enumerate(items):
        if it["k"] == "explicit":
            vals.append(it["v"])
        elif it["k"] == "char":
            vals.append(-char_value(it["sp"]) if it["cneg"] else char_value(it["sp"]))
        elif it["k"] == "ref":
            vals.append(vals[it["ref"] - 1])
        else:
            vals.append(vals[-1] + 1 if vals else 0)
    return vals


def defined(items):
    """the class of the property (Enum.Defined): what gcc accepts"""
    vals = values_of(items)
    for i, it in enumerate(items):
        if it["k"] == "implicit" and i > 0 and vals[i - 1] in TOPS:
            return False
    if min(vals) < 0:
        return min(vals) >= -2**63 and max(vals) <= LONG_MAX
    return max(vals) <= ULONG_MAX


def random_enum(rng, ident):
    """One random declaration in the class."""
    while True:
        n = rng.choice([1, 1, 2, 2, 3, 3, 4, 5, 8, 12])
        flavour = rng.choice(["small", "small", "int", "uint", "long", "ulong", "mixed", "mixed"])
        items = []
        for i in range(n):
            r = rng.random()
            if r < 0.30:
                items.append({"k": "implicit", "v": 0, "ref": 0})
            elif r < 0.40 and i > 0:
                items.append({"k": "ref", "v": 0, "ref": rng.randint(1, i)})
            elif r < 0.52 and flavour in ("small", "int", "mixed"):
                items.append({"k": "char", "v": 0, "ref": 0, "sp": random_char(rng), "cneg": rng.random() < 0.25})
            else:
                if flavour == "small":
                    v = rng.randint(-20, 300) if rng.random() < 0.5 else rng.randint(0, 300)
                elif flavour == "int":
                    v = rng.choice([rng.randint(-2**31, INT_MAX), rng.choice([-2**31, INT_MAX, -1, 0])])
                elif flavour == "uint":
                    v = rng.choice([rng.randint(0, UINT_MAX), UINT_MAX, INT_MAX + 1, 0])
                elif flavour == "long":
                    v = rng.choice([rng.randint(-2**63, LONG_MAX), -2**63, LONG_MAX, -2**31 - 1, INT_MAX + 1])
                elif flavour == "ulong":
                    v = rng.choice([rng.randint(0, ULONG_MAX), ULONG_MAX, UINT_MAX + 1, LONG_MAX + 1])
                else:
                    v = rng.choice(BOUNDARY) + rng.choice([0, 0, 1, -1, 2])
                if rng.random() < 0.15 and items:
                    v = rng.choice(values_of(items))           # a duplicate value
                items.append({"k": "explicit", "v": v, "ref": 0})
        for i, it in enumerate(items):
            it["name"] = "E%s_%s" % (ident, "ABCDEFGHIJKLMNOP"[i])
            it.setdefault("sp", [])
            it.setdefault("cneg", False)
        if defined(items):
            return {"id": ident, "items": items}


def literal(v, rng=None):
    """C spelling of an integer constant with the value v whose C type can hold it."""
    if v == -2**63:
        return "(-9223372036854775807-1)"
    if v < 0:
        return "-%d" % -v                 # decimal: int or long, negation is exact
    if v > LONG_MAX:
        return "0x%X" % v                 # unsigned long
    if rng is not None and rng.random() < 0.3:
        return "0x%X" % v
    return "%d" % v


def render(decl, rng=None):
    parts = []
    for it in decl["items"]:
        if it["k"] == "explicit":
            parts.append("%s = %s" % (it["name"], literal(it["v"], rng)))
        elif it["k"] == "ref":
            parts.append("%s = %s" % (it["name"], decl["items"][it["ref"] - 1]["name"]))
        elif it["k"] == "char":
            parts.append("%s = %s'%s'" % (it["name"], "-" if it["cneg"] else "", "".join(map(chr, it["sp"]))))
        else:
            parts.append(it["name"])
    return "enum e%s { %s };" % (decl["id"], ", ".join(parts))


def queries_for(decl, bits, signed, rng, vals=None):
    """values to pass to ffi.string(ffi.cast(enum, v)): every declared value and absent ones,
    all inside the range of the underlying type (a cast would wrap others)."""
    lo, hi = (-2**(bits - 1), 2**(bits - 1) - 1) if signed else (0, 2**bits - 1)
    if vals is None:
        vals = values_of(decl["items"])
    qs = []
    for v in vals + [v + 1 for v in vals] + [v - 1 for v in vals] + [lo, hi, 0, rng.randint(lo, hi)]:
        if lo <= v <= hi and v not in qs:
            qs.append(v)
    return qs


# --------------------------------------------------------------------------- gcc

def gcc_source(decls, texts):
    out = ["#include <stdio.h>"]
    out += texts
    out.append("int main(void) {")
    for d in decls:
        out.append('  printf("%s %%zu %%d", 8 * sizeof(enum e%s), ((enum e%s)-1) < 0);' % (d["id"], d["id"], d["id"]))
        for it in d["items"]:
            out.append('  printf(" %%d %%llu", (%s) < 0, (unsigned long long)(%s));' % (it["name"], it["name"]))
        out.append('  printf("\\n");')
    out.append("  return 0;\n}")
    return "\n".join(out)


def parse_gcc(text):
    res = {}
    for line in text.splitlines():
        p = line.split()
        vals = []
        for i in range(3, len(p), 2):
            u = int(p[i + 1])
            vals.append(u - 2**64 if p[i] == "1" else u)
        res[p[0]] = {"bits": int(p[1]), "signed": p[2] == "1", "vals": vals, "strs": []}
    return res


# --------------------------------------------------------------------------- cffi (runs in a sub-process)

def _str_obs(s):
    if isinstance(s, bytes):
        s = s.decode()
    if re.fullmatch(r"-?(0|[1-9][0-9]*)", s) and s != "-0":
        return {"isdec": True, "name": "", "val": enc(int(s))}
    return {"isdec": False, "name": s, "val": enc(0)}


def _observe(ffi, lib, d, queries, use_lib=True, strings=True):
    ct = ffi.typeof("enum e%s" % d["id"])
    if use_lib:
        vals = [getattr(lib, it["name"]) for it in d["items"]]
    else:
        vals = [ct.relements[it["name"]] for it in d["items"]]
    strs = []
    if strings:
        for q in queries:
            strs.append(_str_obs(ffi.string(ffi.cast(ct, q))))
    return {"ok": True, "err": "", "bits": 8 * ffi.sizeof(ct), "signed": int(ffi.cast(ct, -1)) < 0,
            "vals": [enc(int(v)) for v in vals], "strs": strs}


def _fail(e):
    return {"ok": False, "err": "%s: %s" % (type(e).__name__, str(e)[:300]), "bits": 0, "signed": False,
            "vals": [], "strs": []}


def measure_modes(job, workdir):
    """job: {"decls": [...], "texts": {id: cdef text}, "queries": {id: [ints]}, "modes": [...], "tag": str}
    -> {id: [observation per mode]}"""
    import cffi, importlib
    from harness import core
    decls, texts, queries = job["decls"], job["texts"], job["queries"]
    out = {d["id"]: [] for d in decls}

    def add(d, mode, obs):
        obs["mode"] = mode
        out[d["id"]].append(obs)

    def batch(mode, group, n):
        """declare `group` in one FFI (one module) and observe; returns False if anything failed"""
        src = "\n".join(texts[d["id"]] for d in group)
        ffi = cffi.FFI()
        ffi.cdef(src)
        if mode in ("inline", "inline-type"):
            lib = ffi.dlopen(None)
            f2 = ffi
        elif mode == "abi":
            name = "_c10_abi_%s_%d" % (job["tag"], n)
            ffi.set_source(name, None)
            ffi.emit_python_code(os.path.join(workdir, name + ".py"))
            mod = importlib.import_module(name)
            f2 = mod.ffi
            lib = f2.dlopen(None)
        else:
            name = "_c10_api_%s_%d" % (job["tag"], n)
            ffi.set_source(name, src)
            cpath = os.path.join(workdir, name + ".c")
            ffi.emit_c_code(cpath)
            core.build_ext_module(name, cpath, workdir)
            mod = importlib.import_module(name)
            f2, lib = mod.ffi, mod.lib
        res = []
        for d in group:
            res.append(_observe(f2, lib, d, queries[d["id"]], use_lib=(mode != "inline-type"),
                                strings=(mode != "inline-type")))
        return res

    sys.path.insert(0, workdir)
    counter = [0]
    for mode in job["modes"]:
        chunk = 150
        for lo in range(0, len(decls), chunk):
            group = decls[lo:lo + chunk]
            counter[0] += 1
            try:
                for d, obs in zip(group, batch(mode, group, counter[0])):
                    add(d, mode, obs)
            except Exception:
                for d in group:            # find the culprit(s)
                    counter[0] += 1
                    try:
                        add(d, mode, batch(mode, [d], counter[0])[0])
                    except Exception as e:
                        add(d, mode, _fail(e))
    return out


def measure_cffi(decls, texts, queries, workdir, modes=("inline", "inline-type", "abi", "api"), jobs=3):
    """Run measure_modes in `jobs` sub-processes (fresh backend via core.sub_env)."""
    from harness import core
    per = (len(decls) + jobs - 1) // jobs
    procs = []
    for j in range(jobs):
        part = decls[j * per:(j + 1) * per]
        if not part:
            continue
        wd = os.path.join(workdir, "c10_%d_%d" % (os.getpid(), j))
        os.makedirs(wd, exist_ok=True)
        fin = os.path.join(wd, "in.json")
        with open(fin, "w") as f:
            json.dump({"decls": part, "texts": {d["id"]: texts[d["id"]] for d in part},
                       "queries": {d["id"]: queries[d["id"]] for d in part}, "modes": list(modes),
                       "tag": "%d_%d" % (os.getpid(), j)}, f)
        procs.append((subprocess.Popen([core.PY, "-m", "harness.types_enum", fin, wd], env=core.sub_env(),
                                       cwd=core.VERIF, stdout=subprocess.DEVNULL, stderr=subprocess.PIPE, text=True), wd, part))
    res = {}
    for pr, wd, part in procs:
        _o, err = pr.communicate()
        fout = os.path.join(wd, "out.json")
        if pr.returncode != 0 or not os.path.exists(fout):
            raise core.MachineryError("cffi enum measurement sub-process failed (exit %s):\n%s"
                                      % (pr.returncode, err[-2000:]))
        with open(fout) as f:
            res.update(json.load(f))
    return res


if __name__ == "__main__":
    with open(sys.argv[1]) as f:
        job = json.load(f)
    result = measure_modes(job, sys.argv[2])
    with open(os.path.join(sys.argv[2], "out.json.tmp"), "w") as f:
        json.dump(result, f)
    os.rename(os.path.join(sys.argv[2], "out.json.tmp"), os.path.join(sys.argv[2], "out.json"))
