"""Worker process of the C37 check: executes operation sequences on real lib objects obtained
from ffi.dlopen() (in-line FFI and out-of-line ABI module) and reports one event per
operation.  Started by harness/life_dl.py with LD_PRELOAD=<interposer>, which records every
dlopen/dlsym/dlclose call the process makes.

stdin : one JSON line per batch: [{"id":..,"mode":"inline"|"outofline","ops":[[ev,l,n,arg,x,file,how],..]},..]
        how (open only): "path" = ffi.dlopen(path, flags); "handle" = h = dlopen(path, flags) called by the
        program itself (through ctypes), then ffi.dlopen(ffi.cast("void *", h))
stdout: one JSON line per job: {"id":..,"events":[..]}       (normal mode)
        careful mode (used to re-run a job during which a worker died): {"id":..,"at":op index}
        before and {"id":..,"event":{..}} after every operation, then {"id":..,"done":true}
"""
import sys, json, os, ctypes

PREFIX = "cv37_"


def main():
    cfg = json.loads(sys.argv[1])
    careful = cfg.get("careful", False)
    sys.path.insert(0, cfg["ooldir"])
    import cffi
    ip = ctypes.CDLL(cfg["ip"])
    drain = ip.dllog_drain
    drain.restype = ctypes.c_int
    buf = ctypes.create_string_buffer(1 << 16)

    libc = ctypes.CDLL(None)
    raw_dlopen, raw_dlclose = libc.dlopen, libc.dlclose      # resolve to the interposer's wrappers
    raw_dlopen.restype, raw_dlopen.argtypes = ctypes.c_void_p, [ctypes.c_char_p, ctypes.c_int]
    raw_dlclose.restype, raw_dlclose.argtypes = ctypes.c_int, [ctypes.c_void_p]
    balance = {}               # handle -> dlopen() calls minus dlclose() calls on the test libraries

    def take():
        n = drain(buf, len(buf))
        lines = buf.raw[:n].decode("ascii", "replace").splitlines() if n else []
        for ln in lines:
            f = ln.split()
            if f[0] == "O" and f[2] in testfiles:
                balance[f[1]] = balance.get(f[1], 0) + 1
            elif f[0] == "C" and f[1] in balance:
                balance[f[1]] -= 1
        return lines
    testfiles = set(cfg["libs"].values())

    ffi_in = cffi.FFI()
    ffi_in.cdef(cfg["cdef"])
    oolmod = __import__(cfg["oolmod"])
    ffi_ool = oolmod.ffi
    out = sys.stdout
    flagv = {"local": ffi_in.RTLD_LOCAL | ffi_in.RTLD_NOW, "global": ffi_in.RTLD_GLOBAL | ffi_in.RTLD_NOW,
             "lazy": ffi_in.RTLD_LAZY, "": 0}
    varnames = cfg["vars"]

    def run_job(job):
        ffi = ffi_in if job["mode"] == "inline" else ffi_ool
        inline = job["mode"] == "inline"
        libs, funcs, handles, isopen = {}, {}, {}, {}
        events = []
        for opi, op in enumerate(job["ops"]):
            ev, l, n, arg, x = op[0], op[1], op[2], op[3], op[4]
            fil = op[5] if len(op) > 5 else "a"
            how = op[6] if len(op) > 6 else "path"
            if ev != "open" and l not in libs:
                continue
            if ev == "call" and not (isopen.get(l) and (l, n) in funcs):
                continue                      # never call into a library that may be unmapped
            cn = PREFIX + n
            outc, exc, val = "ok", "", 0
            if careful:
                out.write(json.dumps({"id": job["id"], "at": opi}) + "\n")
                out.flush()
            take()
            try:
                if ev == "open" and how == "handle":
                    h = raw_dlopen(cfg["libs"][fil].encode(), flagv[arg] or ffi_in.RTLD_NOW)
                    if not h:
                        raise RuntimeError("raw dlopen failed")
                    lib = ffi.dlopen(ffi.cast("void *", h))
                    libs[l] = lib
                elif ev == "open":
                    lib = ffi.dlopen(cfg["libs"][fil], flagv[arg])
                    libs[l] = lib
                elif ev == "getfunc":
                    fn = getattr(libs[l], cn)
                    if isopen.get(l):
                        funcs.setdefault((l, n), fn)
                elif ev == "call":
                    val = int(funcs[(l, n)](10))
                elif ev == "readvar":
                    val = int(getattr(libs[l], cn))
                elif ev == "writevar":
                    setattr(libs[l], cn, x)
                    val = x
                elif ev == "addressof":
                    p = ffi.addressof(libs[l], cn)
                    if isopen.get(l) and n not in varnames:
                        funcs.setdefault((l, n), p)
                elif ev == "close":
                    ffi.dlclose(libs[l])
                else:
                    raise RuntimeError("unknown op %r" % (ev,))
            except Exception as e:
                outc, exc, val = "error", ("FFIError" if type(e).__name__ == "error" else type(e).__name__), 0
            log = take()
            if ev == "open":
                if outc == "ok":
                    isopen[l] = True
                    hs = [ln.split()[1] for ln in log if ln.startswith("O ") and ln.split()[2] == cfg["libs"][fil]]
                    handles[l] = hs[-1] if hs else "?"
                sym = cls = 0
            else:
                h = handles.get(l)
                sym = sum(1 for ln in log if ln.startswith("S ") and ln.split()[1] in (h, "(nil)", "0")
                          and ln.split()[2].startswith(PREFIX))
                cls = sum(1 for ln in log if ln.startswith("C ") and ln.split()[1] in (h, "(nil)", "0"))
                if ev == "close" and outc == "ok":
                    isopen[l] = False
            e = {"ev": ev, "l": l, "n": n, "arg": arg, "x": x, "how": how if ev == "open" else "", "out": outc, "exc": exc, "val": val,
                 "sym": sym, "cls": cls, "touch": sym + cls, "d": [], "p": []}
            if inline and l in libs:
                e["d"] = sorted(k[len(PREFIX):] for k in libs[l].__dict__ if k.startswith(PREFIX))
                td = type(libs[l]).__dict__
                e["p"] = sorted(v for v in varnames if (PREFIX + v) in td)
            events.append(e)
            if careful:
                out.write(json.dumps({"id": job["id"], "event": e}) + "\n")
                out.flush()
        # leave the loader clean for the next job: give back every reference still held
        for l, lib in libs.items():
            if isopen.get(l):
                try:
                    ffi.dlclose(lib)
                except Exception:
                    pass
        take()
        # references of the program (raw handles) that no ffi.dlclose() has consumed
        for h, nref in list(balance.items()):
            for _ in range(max(0, min(nref, 8))):
                raw_dlclose(int(h, 16))
        take()
        balance.clear()
        return events

    for line in sys.stdin:
        line = line.strip()
        if not line:
            continue
        for job in json.loads(line):
            if careful:
                out.write(json.dumps({"id": job["id"], "begin": True}) + "\n")
                out.flush()
            evs = run_job(job)
            if careful:
                out.write(json.dumps({"id": job["id"], "done": True}) + "\n")
            else:
                out.write(json.dumps({"id": job["id"], "events": evs}) + "\n")
            out.flush()


main()
