"""Worker process of the C27 check: executes histories of type-building operations and reports the
ctype objects obtained (numbered in order of first appearance) with their descriptions read from the
objects themselves, and their deaths (weak reference callbacks).

argv[1]: JSON {"ooldir":..., "oolmod":...}
stdin  : JSON list of histories; operations (r, rx: names of references the history holds):
           ["ffi", f]                       f = cffi.FFI() with a self-referential struct declared
           ["typeof", f, string, ast, r]    r = ffi_f.typeof(string)     ast: nested expected structure
           ["ool", string, ast, r]          r = <out-of-line ffi>.typeof(string)
           ["bprim", name, r] ["bptr", rx, r] ["barr", rx, n, r] ["bfn", [rargs], rres, ell, r]
           ["item", rx, r] ["result", rx, r] ["arg", rx, i, r]        introspection
           ["drop", r] ["cycdrop", r] ["dropall"] ["dropffi", f] ["gc"]
           ["dropcb", r, [ops]]             drop r after registering a weakref callback that runs ops
           ["cycfin", r, resurrect, [ops], r2]   move r into a garbage cycle together with an object whose __del__
                                            runs ops (requests) when the cycle is collected and, if resurrect,
                                            keeps the ctype alive again under the name r2
stdout : one JSON line per history {"h": i, "events": [...]} and a final {"end": true}
"""
import sys, json, gc, weakref


def main():
    cfg = json.loads(sys.argv[1])
    histories = json.loads(sys.stdin.read())
    sys.path.insert(0, cfg["ooldir"])
    import cffi, _cffi_backend as B
    ool = __import__(cfg["oolmod"]).ffi
    gc.disable()
    out = sys.stdout

    def run_history(ops):
        events = []
        ser = {}            # id(ctype) -> serial, while alive
        wrs = {}            # serial -> weakref
        count = [0]
        pending_dead = []
        ids = {}            # serial -> id()
        userwrs = []        # weak references with user callbacks (kept alive)

        def serial(ct):
            i = id(ct)
            s = ser.get(i)
            if s is None:
                count[0] += 1
                s = count[0]
                ser[i] = s

                def cb(_wr, i=i, s=s):
                    if s in wrs:
                        ser.pop(i, None)
                        wrs.pop(s, None)
                        pending_dead.append(s)
                wrs[s] = weakref.ref(ct, cb)
                ids[s] = i
            return s

        def report_dead_now(s):
            """called from a user weakref callback (it runs before the callback above: the most recently
            registered callback is called first)"""
            if s in wrs:
                ser.pop(ids[s], None)
                wrs.pop(s, None)
                events.append({"op": "dead", "s": s, "d": "", "req": "", "agg": False, "rk": "", "rc": [], "rn": 0})

        def flush_dead():
            # the order of deaths inside one operation is unspecified: composites first
            for s in sorted(pending_dead, reverse=True):
                events.append({"op": "dead", "s": s, "d": "", "req": "", "agg": False, "rk": "", "rc": [], "rn": 0})
            del pending_dead[:]

        def sync_dead():
            """inside a weakref callback / finalizer run by the collector: the collector clears the weak
            references to *all* garbage before it calls any callback, so every tracked object whose weak
            reference is already dead is dead for the program, whether its own callback has run or not"""
            flush_dead()
            for s in sorted([s for s, w in wrs.items() if w() is None], reverse=True):
                report_dead_now(s)

        def describe(ct, emit=True):
            """-> (serial, description); emits obtain events for the components first"""
            k = ct.kind
            agg = False
            if k == "primitive":
                d = "prim:" + ct.cname
            elif k == "void":
                d = "void"
            elif k == "pointer":
                d = "ptr:%d" % describe(ct.item)[0]
            elif k == "array":
                d = "arr:%d:%s" % (describe(ct.item)[0], ct.length)
            elif k == "function":
                d = "fn:%d:(%s):%d:%s" % (describe(ct.result)[0], ",".join(str(describe(a)[0]) for a in ct.args),
                                          int(ct.ellipsis), ct.abi)
            else:
                agg = True
                d = "%s:%s" % (k, ct.cname)
            s = serial(ct)
            if emit:
                events.append({"op": "obtain", "s": s, "d": d, "req": d, "agg": agg, "rk": "", "rc": [], "rn": 0})
            return s, d

        def expect(ct, ast):
            """the description asked for: equals the object's own description iff its structure is `ast`"""
            k = ast[0]
            if k == "prim":
                return "prim:" + ast[1]
            if k == "void":
                return "void"
            if k == "struct":
                return "struct:" + ast[1]
            if k == "ptr" and ast[1][0] == "fn":
                return expect(ct, ast[1])         # a pointer to function is one ctype of kind "function"
            if k == "ptr":
                if ct.kind != "pointer":
                    return "MISMATCH(pointer expected)"
                sub = expect(ct.item, ast[1])
                return "ptr:%d" % describe(ct.item, False)[0] if sub == describe(ct.item, False)[1] else "MISMATCH in " + sub
            if k == "arr":
                if ct.kind != "array":
                    return "MISMATCH(array expected)"
                sub = expect(ct.item, ast[1])
                return ("arr:%d:%s" % (describe(ct.item, False)[0], ast[2])
                        if sub == describe(ct.item, False)[1] else "MISMATCH in " + sub)
            if k == "fn":
                if ct.kind != "function" or len(ct.args) != len(ast[2]):
                    return "MISMATCH(function expected)"
                subs = [expect(ct.result, ast[1])] + [expect(a, x) for a, x in zip(ct.args, ast[2])]
                real = [describe(ct.result, False)[1]] + [describe(a, False)[1] for a in ct.args]
                if subs != real:
                    return "MISMATCH in function"
                return "fn:%d:(%s):0:%s" % (describe(ct.result, False)[0],
                                            ",".join(str(describe(a, False)[0]) for a in ct.args), ct.abi)
            return "MISMATCH(unknown ast)"

        def got(ct, req, rk="", rc=(), rn=0):
            s, d = describe(ct)
            e = events[-1]
            e["req"], e["rk"], e["rc"], e["rn"] = (d if req is None else req), rk, list(rc), rn
            return s

        refs, ffis = {}, {}

        class Skip(Exception):
            pass

        def R(x):
            """a reference operand: a name, or (model paths) the number of an object the history holds"""
            if isinstance(x, str):
                if x not in refs:
                    raise Skip()
                return refs[x]
            for v in refs.values():
                if ser.get(id(v)) == x:
                    return v
            raise Skip()

        def names_of(x):
            if isinstance(x, str):
                if x not in refs:
                    raise Skip()
                return [x]
            ns = [n for n, v in refs.items() if ser.get(id(v)) == x]
            if not ns:
                raise Skip()
            return ns
        def do(op):
            k = op[0]
            if k == "ffi":
                f = cffi.FFI()
                f.cdef("struct node%s { struct node%s *next; int v; };"
                       "typedef int vec_t[5]; typedef void fn_t(vec_t); typedef long lvec_t[2]; "
                       "typedef short fn2_t(lvec_t, vec_t);" % (op[1], op[1]))
                ffis[op[1]] = f
                del f
            elif k == "typeof":
                ct = ffis[op[1]].typeof(op[2])
                got(ct, expect(ct, op[3]))
                refs[op[4]] = ct
                del ct
            elif k == "ool":
                ct = ool.typeof(op[1])
                got(ct, expect(ct, op[2]))
                refs[op[3]] = ct
                del ct
            elif k == "bprim":
                ct = B.new_primitive_type(op[1])
                got(ct, "prim:" + op[1], "prim", (), 0 if op[1] == "short" else 1)
                refs[op[2]] = ct
                del ct
            elif k == "bptr":
                x = R(op[1])
                ct = B.new_pointer_type(x)
                got(ct, "ptr:%d" % serial(x), "ptr", (serial(x),))
                refs[op[2]] = ct
                del ct, x
            elif k == "barr":
                x = R(op[1])
                ct = B.new_array_type(x, op[2])
                got(ct, "arr:%d:%s" % (serial(x.item), op[2]), "arr", (serial(x),), op[2])
                refs[op[3]] = ct
                del ct, x
            elif k == "bfn":
                args = tuple(R(a) for a in op[1])
                res = R(op[2])
                ct = B.new_function_type(args, res, bool(op[3]))
                # the type asked for: an array parameter means the pointer to its item type (C decay)
                want = []
                real = ct.args
                for i, a in enumerate(args):
                    if a.kind == "array":
                        ok = (i < len(real) and real[i].kind == "pointer" and real[i].item is a.item)
                        want.append(str(serial(real[i])) if ok else "MISMATCH(decayed array expected)")
                    else:
                        want.append(str(serial(a)))
                del real
                got(ct, "fn:%d:(%s):%d:%s" % (serial(res), ",".join(want), int(op[3]), ct.abi),
                    "fn", (serial(res),) + tuple(serial(a) for a in args))
                refs[op[4]] = ct
                del ct, args, res
            elif k == "item":
                ct = R(op[1]).item
                got(ct, None)
                refs[op[2]] = ct
                del ct
            elif k == "result":
                ct = R(op[1]).result
                got(ct, None)
                refs[op[2]] = ct
                del ct
            elif k == "arg":
                ct = R(op[1]).args[op[2]]
                got(ct, None)
                refs[op[3]] = ct
                del ct
            elif k == "drop":
                ns = names_of(op[1])
                x = refs.pop(ns[0])
                for n in ns[1:]:
                    del refs[n]
                s = serial(x)
                if not any(y is x for y in refs.values()):
                    events.append({"op": "drop", "s": s, "d": "", "req": "", "agg": False, "rk": "", "rc": [], "rn": 0})
                del x
            elif k == "cycdrop":
                ns = names_of(op[1])
                x = refs.pop(ns[0])
                for n in ns[1:]:
                    del refs[n]
                s = serial(x)
                c = [x]
                c.append(c)
                if not any(y is x for y in refs.values()):
                    events.append({"op": "cycdrop", "s": s, "d": "", "req": "", "agg": False, "rk": "", "rc": [], "rn": 0})
                del x, c
            elif k == "dropall":
                for sx in sorted({ser.get(id(v)) for v in refs.values()}, reverse=True):
                    for n in [n for n, v in refs.items() if ser.get(id(v)) == sx]:
                        del refs[n]
                    events.append({"op": "drop", "s": sx, "d": "", "req": "", "agg": False, "rk": "", "rc": [], "rn": 0})
                    flush_dead()
            elif k == "dropcb":
                # register a weak reference with a callback on the object, then drop it: the callback runs
                # inside ctypedescr_dealloc (after the weak references were cleared, before the unique
                # cache is cleaned) and performs the requests op[2], keeping the results
                ns = names_of(op[1])
                x = refs[ns[0]]
                s = serial(x)
                fired = []

                def usercb(_wr, s=s, inner=op[2]):
                    report_dead_now(s)
                    sync_dead()
                    fired.append(1)
                    for iop in inner:
                        try:
                            do(iop)
                        except Skip:
                            events.append({"op": "skipped"})
                        except (TypeError, ValueError, AttributeError, NotImplementedError) as ex:
                            events.append({"op": "skipped", "why": "%s: %s" % (type(ex).__name__, ex)})
                userwrs.append(weakref.ref(x, usercb))
                for n in ns:
                    del refs[n]
                # "dropcb" if the object dies now (the callback then runs inside this del), else a plain drop
                sole = sys.getrefcount(x) == 2
                events.append({"op": "dropcb" if sole else "drop", "s": s, "d": "", "req": "", "agg": False,
                               "rk": "", "rc": [], "rn": 0})
                del x
                if fired:
                    events.append({"op": "winclose", "s": s, "d": "", "req": "", "agg": False, "rk": "", "rc": [],
                                   "rn": 0})
            elif k == "cycfin":
                ns = names_of(op[1])
                x = refs[ns[0]]
                s = serial(x)

                class Fin(object):
                    def __del__(self, resurrect=op[2], inner=op[3], r2=op[4]):
                        sync_dead()             # the collector has already cleared the weak references
                        for iop in inner:
                            try:
                                do(iop)
                            except Skip:
                                events.append({"op": "skipped"})
                            except (TypeError, ValueError, AttributeError, NotImplementedError) as ex:
                                events.append({"op": "skipped", "why": "%s: %s" % (type(ex).__name__, ex)})
                        if resurrect:
                            got(self.p, None)
                            events[-1]["res"] = True      # this object was resurrected by a finalizer
                            refs[r2] = self.p
                f = Fin()
                f.p = x
                f.cycle = f
                for n in ns:
                    del refs[n]
                if not any(y is x for y in refs.values()):
                    events.append({"op": "cycdrop", "s": s, "d": "", "req": "", "agg": False, "rk": "", "rc": [], "rn": 0})
                del x, f
            elif k == "dropffi":
                ffis.pop(op[1], None)
            elif k == "gc":
                events.append({"op": "gc", "s": 0, "d": "", "req": "", "agg": False, "rk": "", "rc": [], "rn": 0})
                gc.collect()
            else:
                raise RuntimeError("unknown op %r" % (op,))

        gc.collect()
        for op in ops:
          try:
              do(op)
          except Skip:
            events.append({"op": "skipped"})
          except (TypeError, ValueError, AttributeError, NotImplementedError, cffi.FFIError, cffi.CDefError) as ex:
            events.append({"op": "skipped", "why": "%s: %s" % (type(ex).__name__, ex)})
          flush_dead()
        refs.clear()
        ffis.clear()
        gc.collect()
        flush_dead()
        return events

    for hi, ops in enumerate(histories):
        out.write(json.dumps({"h": hi, "events": run_history(ops)}) + "\n")
    out.write(json.dumps({"end": True}) + "\n")
    out.flush()


main()
