"""Shared helpers for C02/C03/C04: BV encoding, the integer type table, the test module
(API mode + plain shared object with the same C source for ABI mode)."""
import os, sys, importlib.util
from harness import core


def bv(n):
    n = int(n)
    m = -n if n < 0 else n
    return {"neg": n < 0, "mag": [int(c) for c in bin(m)[:1:-1]] if m else []}


def bvfloat(x):
    """finite float -> (BV of the integer numerator, exponent e) with x = num * 2**e."""
    num, den = x.as_integer_ratio()
    return bv(num), -(den.bit_length() - 1)


INT_TYPES = [
    # (cffi/C name, identifier)
    ("signed char", "sc"), ("unsigned char", "uc"), ("short", "sh"), ("unsigned short", "ush"),
    ("int", "i"), ("unsigned int", "ui"), ("long", "l"), ("unsigned long", "ul"),
    ("long long", "ll"), ("unsigned long long", "ull"),
    ("int8_t", "i8"), ("uint8_t", "u8"), ("int16_t", "i16"), ("uint16_t", "u16"),
    ("int32_t", "i32"), ("uint32_t", "u32"), ("int64_t", "i64"), ("uint64_t", "u64"),
    ("intptr_t", "ip"), ("uintptr_t", "uip"), ("size_t", "sz"), ("ssize_t", "ssz"),
    ("ptrdiff_t", "pd"), ("intmax_t", "imax"), ("uintmax_t", "umax"),
    ("int_least8_t", "il8"), ("uint_least16_t", "ul16"), ("int_fast16_t", "if16"), ("uint_fast32_t", "uf32"),
    ("int_least64_t", "il64"), ("uint_fast8_t", "uf8"),
    ("_Bool", "b"),
    ("enum eu", "eu"), ("enum es", "es"), ("enum el", "el"),
]
ENUMS_C = """
enum eu { EU_A, EU_B = 4000000000u };
enum es { ES_A = -1, ES_B = 5 };
enum el { EL_A = -1, EL_B = 0x100000000LL };
"""


def c_source(with_extern_python):
    out = ["#include <stdint.h>\n#include <stddef.h>\n#include <sys/types.h>\n", ENUMS_C]
    for t, i in INT_TYPES:
        out.append("%s g_%s; %s last_%s;\n" % (t, i, t, i))
        out.append("%s id_%s(%s x) { last_%s = x; return x; }\n" % (t, i, t, i))
        out.append("%s callcb_%s(%s (*cb)(void)) { last_%s = cb(); return last_%s; }\n" % (t, i, t, i, i))
        out.append("struct s_%s { char p0; %s f; char p1; };\n" % (i, t))
        out.append("unsigned char *addr_last_%s(void) { return (unsigned char *)&last_%s; }\n" % (i, i))
        if with_extern_python:
            out.append("static %s ep_%s(void);\n%s callep_%s(void) { last_%s = ep_%s(); return last_%s; }\n"
                       % (t, i, t, i, i, i, i))
    return "".join(out)


def cdef_source(with_extern_python):
    out = [ENUMS_C]
    for t, i in INT_TYPES:
        out.append("extern %s g_%s; extern %s last_%s;\n" % (t, i, t, i))
        out.append("%s id_%s(%s x);\n" % (t, i, t))
        out.append("%s callcb_%s(%s (*cb)(void));\n" % (t, i, t))
        out.append("struct s_%s { char p0; %s f; char p1; };\n" % (i, t))
        out.append("unsigned char *addr_last_%s(void);\n" % i)
        if with_extern_python:
            out.append('extern "Python" %s ep_%s(void);\n%s callep_%s(void);\n' % (t, i, t, i))
    return "".join(out)


def import_path(name, path):
    spec = importlib.util.spec_from_file_location(name, path)
    mod = importlib.util.module_from_spec(spec)
    spec.loader.exec_module(mod)
    return mod


def build_modules(tmp, tag="ic"):
    """Returns dict(api=(ffi, lib), inline=(ffi, lib), ool=(ffi, lib))."""
    import cffi
    res = {}
    # API mode
    ffi = cffi.FFI()
    ffi.cdef(cdef_source(True))
    name = "_%s_api" % tag
    ffi.set_source(name, c_source(True))
    cpath = os.path.join(tmp, name + ".c")
    ffi.emit_c_code(cpath)
    so = core.build_ext_module(name, cpath, tmp)
    mod = import_path(name, so)
    res["api"] = (mod.ffi, mod.lib)
    # plain shared object for the ABI modes
    plain = core.gcc_shared(c_source(False), os.path.join(tmp, "lib%s_plain.so" % tag))
    ffi2 = cffi.FFI()
    ffi2.cdef(cdef_source(False))
    res["inline"] = (ffi2, ffi2.dlopen(plain))
    ffi3 = cffi.FFI()
    ffi3.cdef(cdef_source(False))
    name3 = "_%s_ool" % tag
    ffi3.set_source(name3, None)
    ppath = os.path.join(tmp, name3 + ".py")
    ffi3.emit_python_code(ppath)
    mod3 = import_path(name3, ppath)
    res["ool"] = (mod3.ffi, mod3.ffi.dlopen(plain))
    return res


def type_facts(ffi, tname):
    """(bits, kind) of an integer type as the spec sees it; taken from the C compiler's
    view through a throw-away probe elsewhere — here from cffi only for driving; the trace
    record's w/kind come from gcc (see gcc_type_facts)."""
    ct = ffi.typeof(tname)
    return ffi.sizeof(ct) * 8


def gcc_type_facts(tmp):
    """sizeof and signedness of every INT_TYPES entry, from the compiler."""
    prog = ["#include <stdio.h>\n#include <stdint.h>\n#include <stddef.h>\n#include <sys/types.h>\n", ENUMS_C,
            "int main(void){\n"]
    for t, i in INT_TYPES:
        prog.append('printf("%s %%d %%d\\n", (int)sizeof(%s), (int)((%s)-1 < (%s)0));\n' % (i, t, t, t))
    prog.append("return 0;}\n")
    out = core.gcc_run("".join(prog), tmp, "intfacts")
    facts = {}
    for line in out.split("\n"):
        if line.strip():
            i, sz, sg = line.split()
            facts[i] = (int(sz) * 8, "signed" if int(sg) else "unsigned")
    facts["b"] = (8, "bool")
    return facts


def boundary_values(rng, width, extra_random=4):
    vals = set()
    for k in (width - 1, width):
        for s in (1, -1):
            for d in (-2, -1, 0, 1, 2):
                vals.add(s * (1 << k) + d)
    vals.update([0, 1, -1, 2, -2])
    # aliases: values that are out of range but congruent to an in-range value modulo a machine word
    # (a check done on a truncated or masked copy accepts them)
    for k in sorted(set((width, 8, 16, 32, 64))):
        for x in (0, 1, (1 << (width - 1)) - 1, -(1 << (width - 1)), (1 << width) - 1):
            for s in (1, -1):
                if k >= width:
                    vals.add(x + s * (1 << k))
    for k in (7, 8, 15, 16, 31, 32, 63, 64):
        if rng.random() < 0.35:
            vals.add(rng.choice((1, -1)) * (1 << k) + rng.randint(-2, 2))
    for _ in range(extra_random):
        vals.add(rng.randint(-(1 << 70), 1 << 70))
        vals.add(rng.randint(-(1 << width), 1 << width))
    return sorted(vals)


def validate_records(ctx, records, pid_prefix=""):
    """Run Trace_IntConv over the records; returns {id: clause} for bad ones."""
    bad = {}
    CH = 4000
    for k in range(0, len(records), CH):
        chunk = records[k:k + CH]
        path = os.path.join(ctx.tmp, "ic_%d_%d.json" % (len(ctx.cov["tlc_runs"]), k))
        core.write_json(path, chunk)
        r = core.tlc("Trace_IntConv", workers=1, env={"TRACE_FILE": path})
        ctx.add_tlc("Trace_IntConv", r, count_states=False)
        checked = core.tla_tuples(r.out, "CHECKED")
        if not checked or int(checked[0][0]) != len(chunk):
            raise core.MachineryError("Trace_IntConv did not check all records:\n" + r.out[-3000:])
        for tup in core.tla_tuples(r.out, "BAD"):
            bad[int(tup[0])] = core.unq(tup[1])
        ctx.validated(len(chunk))
    return bad
