"""Replayer for specs/Call*.tla (C13, C33): turns the signature classes and argument classes
TLC enumerates from CallGen.tla into C functions, cdef text, real Python argument objects at
the real widths, executes them on every call path and encodes calls and observations as the
records Trace_Call.tla validates against Outcome.

A *plan* is JSON-able: {"cdef", "funcs": {fname: sig}, "cases": [case]}; a case is
{"id", "fname", "cells": [[ctype, nitems, [bytes]]], "args": [desc], "errno"}; a desc is
  ["int", "123"] ["float", hex] ["bytes", [..]] ["str", s] ["none"] ["pybool", b]
  ["list", [desc]] ["tuple", [desc]] ["intobj", "n"] ["cast", ctype, scalar-desc]
  ["cell", idx, ctype-or-None] ["null", ctype-or-None] ["struct", ctype, [desc]]
Executed by `python -m harness.call_exec` in a sub-process (crash containment)."""
import ctypes, math, struct

# ------------------------------------------------------------------ types
INTS = {"i8": ("signed char", 1, True), "u8": ("unsigned char", 1, False),
        "i16": ("short", 2, True), "u16": ("unsigned short", 2, False),
        "i32": ("int", 4, True), "u32": ("unsigned int", 4, False),
        "long": ("long", 8, True), "ulong": ("unsigned long", 8, False),
        "i64": ("long long", 8, True), "u64": ("unsigned long long", 8, False)}
STRUCTS = {"sA": ["i8", "i32"], "sB": ["i64", "i64", "i64"], "sC": ["f32", "f32"], "sD": ["f64", "i8"],
           "sE": ["i16", "i16", "i16"], "sF": ["f64"], "sG": ["i32", "f64"], "sH": ["u8"],
           "sI": ["i64", "f64"], "sJ": ["i32", "i32", "i32", "i32", "u16"], "sK": ["p_i32", "char", "bool"],
           # fields that are arrays ("base[d1][d2]..."): libffi receives a flattened element list
           "sL": ["f32[2][2]"], "sM": ["f64[2][1]"], "sN": ["i16[2][3]", "f32"], "sO": ["f32[2]"],
           "sP": ["char[3]", "f64[1][2]"], "sQ": ["f64[2][2]"], "sR": ["i16[2][2]", "char[2][2]"],
           "sS": ["f32[3]", "i32"], "sT": ["char[2][2][2]", "f32[1][2]"]}
ARR_STRUCTS = ["sL", "sM", "sN", "sO", "sP", "sQ", "sR", "sS", "sT"]


def split_arr(t):
    """'f32[2][3]' -> ('f32', [2, 3]); plain types -> (t, [])"""
    if "[" not in t:
        return t, []
    base, rest = t.split("[", 1)
    return base, [int(x) for x in rest.rstrip("]").split("][")]
UNSIGNED_OF = {"signed char": "unsigned char", "short": "unsigned short", "int": "unsigned int",
               "long": "unsigned long", "long long": "unsigned long long"}


CPLX = {"cf": "float _Complex", "cd": "double _Complex", "ld": "long double"}     # C14 only


def cname(t):
    if t in CPLX:
        return CPLX[t]
    if t in INTS:
        return INTS[t][0]
    if t in ("bool", "char", "void"):
        return {"bool": "_Bool", "char": "char", "void": "void"}[t]
    if t == "f32":
        return "float"
    if t == "f64":
        return "double"
    if t.startswith("p_"):
        return cname(t[2:]) + " *"
    if t in STRUCTS:
        return "struct " + t
    raise KeyError(t)


def tla_type(t):
    if t in CPLX:
        return {"cf": {"k": "complex", "size": 8}, "cd": {"k": "complex", "size": 16}, "ld": {"k": "ldouble"}}[t]
    base, dims = split_arr(t)
    if dims:
        r = tla_type(base)
        for n in reversed(dims):
            r = {"k": "arr", "item": r, "len": n}
        return r
    if t in INTS:
        return {"k": "int", "size": INTS[t][1], "signed": INTS[t][2]}
    if t in ("bool", "char", "void"):
        return {"k": t}
    if t in ("f32", "f64"):
        return {"k": "float", "size": 4 if t == "f32" else 8}
    if t.startswith("p_"):
        return {"k": "ptr", "item": tla_type(t[2:])}
    if t in STRUCTS:
        return {"k": "struct", "tag": t, "fields": [tla_type(f) for f in STRUCTS[t]]}
    raise KeyError(t)


_BY_CNAME = {}
for _t in list(INTS) + ["bool", "char", "f32", "f64"]:
    _BY_CNAME[cname(_t)] = _t
_BY_CNAME["signed char"] = "i8"


def tla_type_of_ctype(ct):
    """TLA type descriptor of a cffi ctype object (results are typed by what cffi returned)."""
    k = ct.kind
    if k == "primitive" and ct.cname in CPLX.values():
        return tla_type([n for n, c in CPLX.items() if c == ct.cname][0])
    if k == "primitive":
        t = _BY_CNAME.get(ct.cname)
        return tla_type(t) if t else {"k": "unknown", "name": ct.cname}
    if k == "void":
        return {"k": "void"}
    if k == "pointer":
        return {"k": "ptr", "item": tla_type_of_ctype(ct.item)}
    if k == "array":
        return {"k": "ptr", "item": tla_type_of_ctype(ct.item)}
    if k == "struct":
        def field(ft):
            if ft.kind == "array":
                return {"k": "arr", "item": field(ft.item), "len": ft.length}
            return tla_type_of_ctype(ft)
        return {"k": "struct", "tag": ct.cname.replace("struct ", ""),
                "fields": [field(f.type) for _n, f in ct.fields]}
    return {"k": "unknown", "name": ct.cname}


def size_of(t):
    if t in INTS:
        return INTS[t][1]
    if t in ("bool", "char"):
        return 1
    return {"f32": 4, "f64": 8}.get(t, 8)


# ------------------------------------------------------------------ TLA encodings
def le_bytes(n):
    out = []
    while n:
        out.append(n & 255)
        n >>= 8
    return out


_NAN8 = list(struct.pack("<d", float("nan")))
_NAN4 = list(struct.pack("<f", float("nan")))


def img8(x):
    return _NAN8 if x != x else list(struct.pack("<d", x))


def narrow(x):
    """(float)x as the C compiler does it (ctypes stores a C float)."""
    return ctypes.c_float(x).value


def img4(x):
    y = narrow(x)
    return _NAN4 if y != y else list(struct.pack("<f", y))


def fimg(x):
    return {"d": img8(x), "f": img4(x), "fd": img8(narrow(x))}


WITH_FL = [True]      # float images of ints are only needed where a float is expected


def enc_int(n):
    d = {"k": "int", "neg": n < 0, "mag": le_bytes(abs(n)), "fl": [], "flovf": False}
    if not WITH_FL[0]:
        return d
    try:
        d["fl"] = [fimg(float(n))]
    except OverflowError:
        d["flovf"] = True
    return d


def enc_float(x):
    d = {"k": "float"}
    d.update(fimg(x))
    return d


def twos(n, size):
    return list((n & ((1 << (8 * size)) - 1)).to_bytes(size, "little"))


def fhex(x):
    return struct.pack("<d", x).hex()


def unhex(h):
    return struct.unpack("<d", bytes.fromhex(h))[0]


_CTYPE_BY_CNAME = dict((cname(t), t) for t in list(INTS) + ["bool", "char", "f32", "f64", "void"])
_CTYPE_BY_CNAME["_Bool"] = "bool"


def tname_of_cname(c):
    c = c.strip()
    if c.endswith("*"):
        return "p_" + tname_of_cname(c[:-1])
    if c.startswith("struct "):
        return c[7:]
    return _CTYPE_BY_CNAME[c]


def enc_desc(d, cells):
    """TLA Python-value record of an argument description."""
    k = d[0]
    if k == "int":
        return enc_int(int(d[1]))
    if k == "float":
        return enc_float(unhex(d[1]))
    if k == "complex":
        return {"k": "pycomplex", "re": fimg(unhex(d[1])), "im": fimg(unhex(d[2]))}
    if k == "bytes":
        return {"k": "bytes", "data": list(d[1])}
    if k == "str":
        return {"k": "str"}
    if k == "none":
        return {"k": "none"}
    if k == "pybool":
        return {"k": "pybool", "b": bool(d[1])}
    if k in ("list", "tuple"):
        return {"k": "list", "items": [enc_desc(x, cells) for x in d[1]]}
    if k == "dict":
        return {"k": "dict", "keys": [i + 1 for i, _x in d[1]], "items": [enc_desc(x, cells) for _i, x in d[1]]}
    if k == "intobj":
        n = int(d[1])
        return {"k": "intobj", "v": {"k": "int", "neg": n < 0, "mag": le_bytes(abs(n))}}
    if k == "cast":
        t = tname_of_cname(d[1])
        s = d[2]
        if t in ("f32", "f64"):
            x = unhex(s[1]) if s[0] == "float" else float(int(s[1]))
            if t == "f32":
                x = narrow(x)
            r = {"k": "cfloat", "ct": tla_type(t)}
            r.update(fimg(x))
            return r
        if t == "char":
            v = s[1][0]
        else:
            v = int(s[1])
        size = size_of(t)
        if t == "bool":
            c = [1 if v else 0]
        else:
            c = twos(v, size)
        signed = t in INTS and INTS[t][2]
        val = int.from_bytes(bytes(c), "little", signed=signed)
        return {"k": "cint", "ct": tla_type(t), "c": c}
    if k == "cell":
        item = cells[d[1]][0]
        ct = d[2] if d[2] is not None else item + " *"
        return {"k": "cptr", "ct": tla_type(tname_of_cname(ct)), "cell": d[1] + 1}
    if k == "null":
        ct = d[1] if d[1] is not None else "void *"
        return {"k": "cptr", "ct": tla_type(tname_of_cname(ct)), "cell": 0}
    if k == "struct":
        return {"k": "cstruct", "ct": tla_type(tname_of_cname(d[1])), "vals": [enc_desc(x, cells) for x in d[2]]}
    raise ValueError(d)


def tla_fn(sig):
    f = sig[0]
    if f == "sel":
        return {"f": "sel", "args": [tla_type(t) for t in sig[1]], "k": sig[2]}
    if f == "sum":
        return {"f": "sum", "args": [tla_type(t) for t in sig[1]], "res": tla_type(sig[2])}
    if f in ("wr", "rdi", "bump", "isum"):
        return {"f": f, "t": tla_type(sig[1])}
    if f == "asum":
        return {"f": "asum", "s": tla_type(sig[1])}
    if f == "seterr":
        return {"f": "seterr"}
    if f == "smake":
        return {"f": "smake", "s": tla_type(sig[1])}
    if f == "sget":
        return {"f": "sget", "s": tla_type(sig[1]), "k": sig[2]}
    if f == "vsum":
        return {"f": "vsum"}
    raise ValueError(sig)


def arg_types(sig):
    f = sig[0]
    if f in ("sel", "sum"):
        return list(sig[1])
    if f == "wr":
        return ["p_" + sig[1], sig[1]]
    if f in ("rdi", "bump", "isum", "asum"):
        return ["p_" + sig[1], "i32"]
    if f == "seterr":
        return ["i32"]
    if f == "smake":
        return list(STRUCTS[sig[1]])
    if f == "sget":
        return [sig[1]]
    if f == "vsum":
        return ["p_char"]
    raise ValueError(sig)


# ------------------------------------------------------------------ C rendering
def struct_decls():
    out = []
    for s, fields in STRUCTS.items():
        out.append("struct %s { %s };" % (s, " ".join(
            "%s f%d%s;" % (cname(split_arr(t)[0]), i + 1, "".join("[%d]" % n for n in split_arr(t)[1]))
            for i, t in enumerate(fields))))
    return "\n".join(out) + "\n"


VSUM_C = r"""
long long %(name)s(const char *fmt, ...) {
    va_list ap; unsigned long long r = 0; double d; unsigned long long u; unsigned char *p;
    va_start(ap, fmt);
    for (; *fmt; fmt++) {
        switch (*fmt) {
        case 'i': r += (unsigned long long)(long long)va_arg(ap, int); break;
        case 'u': r += (unsigned long long)va_arg(ap, unsigned int); break;
        case 'l': r += (unsigned long long)va_arg(ap, long long); break;
        case 'd': d = va_arg(ap, double); memcpy(&u, &d, 8); r += u; break;
        case 'p': p = va_arg(ap, unsigned char *); r += p ? *p : 0; break;
        }
    }
    va_end(ap);
    return (long long)r;
}
"""


def render_func(name, sig):
    """(cdef declaration, C definition) of one member of the family."""
    f = sig[0]
    at = arg_types(sig)
    params = ", ".join("%s a%d" % (cname(t), i + 1) for i, t in enumerate(at))
    plain = ", ".join(cname(t) for t in at)
    if f == "sel":
        r = cname(at[sig[2] - 1])
        return "%s %s(%s);" % (r, name, plain), "%s %s(%s) { return a%d; }" % (r, name, params, sig[2])
    if f == "sum":
        r = cname(sig[2])
        body = " + ".join("(unsigned long long)a%d" % (i + 1) for i in range(len(at)))
        return "%s %s(%s);" % (r, name, plain), "%s %s(%s) { return (%s)(%s); }" % (r, name, params, r, body)
    if f == "wr":
        return "void %s(%s);" % (name, plain), "void %s(%s) { *a1 = a2; }" % (name, params)
    if f == "rdi":
        r = cname(sig[1])
        return "%s %s(%s);" % (r, name, plain), "%s %s(%s) { return a1[a2]; }" % (r, name, params)
    if f == "bump":
        c = cname(sig[1])
        u = UNSIGNED_OF.get(c, c)
        return ("void %s(%s);" % (name, plain),
                "void %s(%s) { int i; for (i = 0; i < a2; i++) a1[i] = (%s)((%s)a1[i] + (%s)(i + 1)); }"
                % (name, params, c, u, u))
    if f in ("isum", "asum"):
        terms = (["a1[i]"] if f == "isum" else ["a1[i].f%d" % (j + 1) for j in range(len(STRUCTS[sig[1]]))])
        return ("long long %s(%s);" % (name, plain),
                "long long %s(%s) { unsigned long long r = 0; int i; for (i = 0; i < a2; i++) { %s } return (long long)r; }"
                % (name, params, " ".join("r += (unsigned long long)%s;" % t for t in terms)))
    if f == "seterr":
        return "int %s(int);" % name, "int %s(int a1) { int o = errno; errno = a1; return o; }" % name
    if f == "smake":
        s = cname(sig[1])
        body = " ".join("s.f%d = a%d;" % (i + 1, i + 1) for i in range(len(at)))
        return "%s %s(%s);" % (s, name, plain), "%s %s(%s) { %s s; %s return s; }" % (s, name, params, s, body)
    if f == "sget":
        r = cname(STRUCTS[sig[1]][sig[2] - 1])
        return "%s %s(%s);" % (r, name, plain), "%s %s(%s) { return a1.f%d; }" % (r, name, params, sig[2])
    if f == "vsum":
        return "long long %s(const char *fmt, ...);" % name, VSUM_C % {"name": name}
    raise ValueError(sig)


def render_module(funcs, pad=0):
    """funcs: {name: sig} -> (cdef, C source).  pad: number of never-called padding functions
    `_Bool padK(char x K)`; their function types sort first in the type table of the generated
    modules and push the family's types beyond slot 256 (pad >= 22) / 1000 (pad >= 44)."""
    decls, defs = [], []
    for k in range(1, pad + 1):
        decls.append("_Bool pad%d(%s);" % (k, ", ".join(["char"] * k)))
        defs.append("_Bool pad%d(%s) { return 0; }" % (k, ", ".join("char a%d" % j for j in range(k))))
    for name in sorted(funcs):
        d, c = render_func(name, funcs[name])
        decls.append(d)
        defs.append(c)
    sd = struct_decls()
    cdef = sd + "\n".join(decls) + "\n"
    src = "#include <errno.h>\n#include <stdarg.h>\n#include <string.h>\n" + sd + "\n".join(defs) + "\n"
    return cdef, src


# ------------------------------------------------------------------ TLC output
def parse_gen(out, tla_tuples, parse_value):
    sigs, cls, vcls = [], {}, {}
    for tup in tla_tuples(out, "SIG"):
        vals = [parse_value(x) for x in tup]
        fam = vals[0]
        if fam in ("sel", "sum"):
            sigs.append((fam, tuple(vals[1]), vals[2]))
        elif fam in ("wr", "rdi", "bump", "smake", "isum", "asum"):
            sigs.append((fam, vals[1]))
        elif fam == "sget":
            sigs.append((fam, vals[1], vals[2]))
        elif fam == "seterr":
            sigs.append((fam,))
        elif fam == "vsum":
            sigs.append((fam, tuple(vals[1])))
    for tup in tla_tuples(out, "CLS"):
        t, c, exc, deref, wr = [parse_value(x) for x in tup]
        cls.setdefault(t, {})[c] = (exc, deref, wr)
    for tup in tla_tuples(out, "VCLS"):
        c, exc = [parse_value(x) for x in tup]
        vcls[c] = exc
    return sorted(set(sigs)), cls, vcls


# ------------------------------------------------------------------ concretisation at the real widths
def irange(t):
    _c, size, signed = INTS[t]
    b = 8 * size
    return (-(1 << (b - 1)), (1 << (b - 1)) - 1) if signed else (0, (1 << b) - 1)


def rand_in(rng, t):
    lo, hi = irange(t)
    r = rng.random()
    if r < 0.15:
        return rng.choice([lo, hi, 0, 1 if hi >= 1 else 0, max(lo, -1)])
    if r < 0.4:
        return rng.randint(max(lo, -300), min(hi, 300))
    return rng.randint(lo, hi)


def rand_double(rng):
    while True:
        x = struct.unpack("<d", bytes(rng.getrandbits(8) for _ in range(8)))[0]
        if x == x and not math.isinf(x):
            return x


def rand_float_val(rng):
    r = rng.random()
    if r < 0.3:
        return rng.choice([1.5, -2.25, 0.1, 3.0e10, 1.0 / 3.0, 16777217.0, 1e-40, 65504.0])
    if r < 0.6:
        return rng.uniform(-1e6, 1e6)
    return rand_double(rng)


class Builder:
    """Builds one case (cells + argument descriptions) from a signature and a class tuple."""

    def __init__(self, rng, cls, vcls, exclude=()):
        self.rng, self.cls, self.vcls, self.exclude = rng, cls, vcls, set(exclude)

    # ---- scalar values
    def item_ok(self, t):
        rng = self.rng
        base, dims = split_arr(t)
        if dims:
            inner = base + "".join("[%d]" % n for n in dims[1:])
            return [rng.choice(["list", "tuple"]), [self.item_ok(inner) for _ in range(dims[0])]]
        if t in INTS:
            return ["int", str(rand_in(rng, t))]
        if t == "bool":
            return ["int", str(rng.randint(0, 1))]
        if t == "char":
            return ["bytes", [rng.randint(0, 255)]]
        if t in ("f32", "f64"):
            return ["float", fhex(rand_float_val(rng))]
        if t == "void":
            return ["int", "1"]
        if t.startswith("p_"):
            return ["null", cname(t)]
        raise KeyError(t)

    def item_ovf(self, t):
        if t in INTS:
            lo, hi = irange(t)
            return ["int", str(self.rng.choice([hi + 1, lo - 1, hi + self.rng.randint(1, 1 << 20)]))]
        if t == "bool":
            return ["int", str(self.rng.choice([2, -1, 255, 256]))]
        if t in ("f32", "f64"):
            return ["int", str(10 ** 400)]
        return ["int", "1"]

    def new_cell(self, cells, item, nitems):
        rng = self.rng
        size = size_of(item)
        if item == "bool":
            data = [rng.randint(0, 1) for _ in range(nitems)]
        elif item in ("f32", "f64"):
            data = []
            for _ in range(nitems):
                x = rand_float_val(rng)
                data += list(struct.pack("<f", narrow(x))) if item == "f32" else list(struct.pack("<d", x))
        else:
            data = [rng.getrandbits(8) for _ in range(nitems * size)]
        cells.append([cname(item), nitems, data])
        return len(cells) - 1

    def int_arg(self, t, c):
        rng = self.rng
        lo, hi = irange(t)
        cn = cname(t)
        if c == "zero": return ["int", "0"]
        if c == "one": return ["int", "1"]
        if c == "max": return ["int", str(hi)]
        if c == "min": return ["int", str(lo)]
        if c == "mid": return ["int", str(rand_in(rng, t))]
        if c == "mone": return ["int", "-1"]
        if c == "above": return ["int", str(hi + 1)]
        if c == "below": return ["int", str(lo - 1)]
        if c == "hugepos": return ["int", str((1 << 64) + rng.randint(0, 1 << 70))]
        if c == "hugeneg": return ["int", str(-(1 << 64) - rng.randint(1, 1 << 70))]
        if c == "u64max": return ["int", str((1 << 64) - 1)]
        if c == "i64min": return ["int", str(-(1 << 63))]
        if c == "pybool": return ["pybool", rng.random() < 0.5]
        if c == "float": return ["float", fhex(rng.choice([1.0, 1.5, 0.0]))]
        if c == "str": return ["str", "12"]
        if c == "none": return ["none"]
        if c == "bytes1": return ["bytes", [49]]
        if c == "list": return ["list", []]
        if c == "intobj_ok": return ["intobj", str(rand_in(rng, t))]
        if c == "intobj_ovf": return ["intobj", str(hi + 1)]
        if c == "cint_ok": return ["cast", cn, ["int", str(rand_in(rng, t))]]
        if c == "cint_wide":
            if INTS[t][1] == 8:
                return (["cast", "unsigned long long", ["int", str(1 << 63)]] if INTS[t][2]
                        else ["cast", "long long", ["int", "-1"]])
            return ["cast", "long long", ["int", str(hi + 1)]]
        if c == "cchar": return ["cast", "char", ["bytes", [rng.randint(1, 127)]]]
        if c == "cfloat": return ["cast", "double", ["float", fhex(1.0)]]
        if c == "cptr": return ["null", "int *"]
        raise KeyError(c)

    def bool_arg(self, c):
        rng = self.rng
        m = {"zero": ["int", "0"], "one": ["int", "1"], "two": ["int", "2"], "mone": ["int", "-1"],
             "max8": ["int", "255"], "float": ["float", fhex(1.0)], "none": ["none"], "str": ["str", "1"],
             "bytes1": ["bytes", [1]], "cint_one": ["cast", "int", ["int", "1"]],
             "cint_two": ["cast", "int", ["int", "2"]], "cbool": ["cast", "_Bool", ["int", "1"]],
             "intobj_ok": ["intobj", "1"], "intobj_ovf": ["intobj", "2"]}
        if c == "pybool": return ["pybool", rng.random() < 0.5]
        if c == "hugepos": return ["int", str((1 << 64) + rng.randint(0, 1 << 70))]
        return m[c]

    def char_arg(self, c):
        rng = self.rng
        m = {"bytes1_hi": ["bytes", [255]], "bytes0": ["bytes", []], "bytes2": ["bytes", [65, 66]],
             "int": ["int", "65"], "str": ["str", "a"], "cint8": ["cast", "signed char", ["int", "65"]],
             "none": ["none"], "pybool": ["pybool", True]}
        if c == "bytes1": return ["bytes", [rng.randint(0, 255)]]
        if c == "cchar": return ["cast", "char", ["bytes", [rng.randint(0, 255)]]]
        return m[c]

    def float_arg(self, c):
        rng = self.rng
        if c == "f_small": return ["float", fhex(rng.choice([1.5, -0.75, 2.0, 0.1]))]
        if c == "f_rand": return ["float", fhex(rand_float_val(rng))]
        if c == "f_big": return ["float", fhex(rng.choice([1e300, -1e300, 3.5e38, 3.4028235677973366e38]))]
        if c == "f_tiny": return ["float", fhex(rng.choice([5e-324, 1e-320, 1e-46, 1.4e-45, -7e-46]))]
        if c == "f_inf": return ["float", fhex(rng.choice([float("inf"), float("-inf")]))]
        if c == "f_nan": return ["float", fhex(float("nan"))]
        if c == "f_negzero": return ["float", fhex(-0.0)]
        if c == "int_small": return ["int", str(rng.randint(-1000, 1000))]
        if c == "int_big": return ["int", str(rng.choice([(1 << 63) + 1, (1 << 53) + 1, -(1 << 62) - 3, 16777217]))]
        if c == "int_huge": return ["int", str(10 ** 400)]
        if c == "cfloat": return ["cast", "float", ["float", fhex(rand_float_val(rng))]]
        if c == "cdouble": return ["cast", "double", ["float", fhex(rand_float_val(rng))]]
        if c == "cint": return ["cast", "int", ["int", str(rng.randint(-1000, 1000))]]
        m = {"str": ["str", "1.5"], "none": ["none"], "bytes1": ["bytes", [49]], "list": ["list", []],
             "cptr": ["null", "int *"], "intobj": ["intobj", "1"]}
        return m[c]

    def ptr_arg(self, t, c, cells, n):
        """t = 'p_<item>'; n = number of items the callee may touch."""
        rng = self.rng
        item = t[2:]
        real = "i32" if item == "void" else item
        if c in ("same", "arr", "voidp"):
            idx = self.new_cell(cells, real, n)
            return ["cell", idx, {"same": cname(t), "arr": None, "voidp": "void *"}[c]]
        if c == "null": return ["null", None]
        if c == "null_typed": return ["null", cname(t)]
        if c == "other":
            o = "i32" if item == "i16" else "i16"
            return ["cell", self.new_cell(cells, o, n * 4), cname(o) + " *"]
        if c in ("charp", "ucharp"):
            o = "char" if c == "charp" else "u8"
            idx = self.new_cell(cells, o, n * size_of(real))
            if item == "bool":            # a _Bool object holding anything but 0/1 is undefined in C
                cells[idx][2] = [b & 1 for b in cells[idx][2]]
            return ["cell", idx, cname(o) + " *"]
        if c in ("list_ok", "tuple_ok"):
            return ["list" if c == "list_ok" else "tuple", [self.item_ok(item) for _ in range(n)]]
        if c == "list_empty": return ["list", []]
        if c == "list_ovf":
            items = [self.item_ok(item) for _ in range(n)]
            items.insert(rng.randint(0, len(items)), self.item_ovf(item))
            return ["list", items]
        if c == "list_badtype":
            items = [self.item_ok(item) for _ in range(n - 1)]
            items.insert(rng.randint(0, len(items)), ["none"])
            return ["list", items]
        if c == "bytes":
            data = [rng.randint(0, 255) for _ in range(n)]
            data[rng.randint(0, n - 1)] = rng.randint(2, 255)
            return ["bytes", data]
        if c == "bytes01": return ["bytes", [rng.randint(0, 1) for _ in range(n)]]
        if c == "bytes_empty": return ["bytes", []]
        m = {"str": ["str", "abc"], "int0": ["int", "0"], "none": ["none"], "cint": ["cast", "int", ["int", "0"]],
             "float": ["float", fhex(0.0)]}
        return m[c]

    def nonzero(self, t):
        """an in-range value with every byte-pattern non-zero-ish (dirties a recycled heap block)"""
        lo, hi = irange(t)
        v = rand_in(self.rng, t)
        return ["int", str(v if v != 0 else hi)]

    def pstruct_arg(self, t, c, n):
        """t = 'p_<struct>'; a list of n struct initializers"""
        rng = self.rng
        fields = STRUCTS[t[2:]]
        full = lambda: ["list", [self.nonzero(f) for f in fields]]
        if c == "sl_full": return ["list", [full() for _ in range(n)]]
        if c == "sl_tuple": return ["tuple", [["tuple", full()[1]] for _ in range(n)]]
        if c == "sl_short":
            k = rng.randint(0, len(fields) - 1)
            return ["list", [["list", full()[1][:k]] for _ in range(n)]]
        if c == "sl_dict":
            keep = rng.sample(range(len(fields)), rng.randint(0, len(fields) - 1))
            return ["list", [["dict", [[i, self.nonzero(fields[i])] for i in keep]] for _ in range(n)]]
        if c == "sl_empty": return ["list", [["list", []] for _ in range(n)]]
        items = [full() for _ in range(n)]
        j = rng.randrange(n)
        if c == "sl_ovf": items[j] = ["list", [self.item_ovf(fields[0])] + full()[1][1:]]
        elif c == "sl_long": items[j] = ["list", full()[1] + [["int", "1"]]]
        elif c == "sl_badtype": items[j] = ["none"]
        else:
            return {"none": ["none"], "int0": ["int", "0"], "null": ["null", None], "str": ["str", "abc"]}[c]
        return ["list", items]

    def field_ok(self, t, cells):
        if t.startswith("p_"):
            if self.rng.random() < 0.5:
                return ["null", cname(t)]
            return ["cell", self.new_cell(cells, t[2:], 1), cname(t)]
        return self.item_ok(t)

    def struct_arg(self, t, c, cells):
        fields = STRUCTS[t]
        oks = [self.field_ok(f, cells) for f in fields]
        if c == "same": return ["struct", cname(t), oks]
        if c == "other":
            o = "sB" if t != "sB" else "sA"
            return ["struct", cname(o), [self.field_ok(f, cells) for f in STRUCTS[o]]]
        if c == "list_ok": return ["list", oks]
        if c == "tuple_ok": return ["tuple", oks]
        if c == "list_short": return ["list", oks[:-1]]
        if c == "list_long": return ["list", oks + [["int", "1"]]]
        if c == "list_ovf": return ["list", [self.item_ovf(fields[0])] + oks[1:]]
        if c == "list_badtype": return ["list", [["none"]] + oks[1:]]
        if c == "none": return ["none"]
        if c == "int": return ["int", "0"]
        if c == "ptr_to_same": return ["null", cname(t) + " *"]
        if c == "dict_ok":
            order = list(range(len(fields)))
            self.rng.shuffle(order)
            return ["dict", [[i, oks[i]] for i in order]]
        if c == "dict_short":
            order = self.rng.sample(range(len(fields)), self.rng.randint(0, len(fields) - 1))
            return ["dict", [[i, oks[i]] for i in order]]
        raise KeyError(c)

    def arg(self, t, c, cells, n=1):
        if c == "idx": return ["int", str(self.rng.randint(0, n - 1))]
        if c == "cnt": return ["int", str(self.rng.randint(0, n))]
        if c == "small": return ["int", str(self.rng.randint(0, 150))]
        if c == "cntall": return ["int", str(n)]
        if t in INTS: return self.int_arg(t, c)
        if t == "bool": return self.bool_arg(c)
        if t == "char": return self.char_arg(c)
        if t in ("f32", "f64"): return self.float_arg(c)
        if c == "cntall": return ["int", str(n)]
        if t.startswith("p_s"): return self.pstruct_arg(t, c, n)
        if t.startswith("p_"): return self.ptr_arg(t, c, cells, n)
        return self.struct_arg(t, c, cells)

    def var_arg(self, c, cells):
        rng = self.rng
        m = {"c_i8": "i8", "c_u8": "u8", "c_i16": "i16", "c_u16": "u16", "c_i32": "i32", "c_u32": "u32",
             "c_i64": "i64", "c_u64": "u64", "c_long": "long"}
        if c in m: return ["cast", cname(m[c]), ["int", str(rand_in(rng, m[c]))]], {"c_u32": "u"}.get(c, "l" if INTS[m[c]][1] == 8 else "i")
        if c == "c_bool": return ["cast", "_Bool", ["int", str(rng.randint(0, 1))]], "i"
        if c == "c_char": return ["cast", "char", ["bytes", [rng.randint(0, 255)]]], "i"
        if c == "c_f64": return ["cast", "double", ["float", fhex(rand_float_val(rng))]], "d"
        if c == "c_ptr": return ["cell", self.new_cell(cells, "u8", rng.randint(1, 3)), "unsigned char *"], "p"
        if c == "c_null": return ["null", None], "p"
        if c == "py_int": return ["int", "5"], "i"
        if c == "py_float": return ["float", fhex(1.5)], "d"
        if c == "none": return ["none"], "p"
        if c == "bytes": return ["bytes", [65]], "p"
        raise KeyError(c)

    # ---- class choice
    def classes_for(self, sig, pos, t):
        """(ok classes, error classes) admissible for parameter `pos` (0-based) of `sig`."""
        f = sig[0]
        table = self.cls[t]
        ok = [c for c, (e, _d, _w) in table.items() if e == "" and c not in self.exclude]
        bad = [c for c, (e, _d, _w) in table.items() if e != "" and c not in self.exclude]
        if f in ("wr", "rdi", "bump", "isum", "asum") and pos == 0:
            need = 1 if f in ("rdi", "isum", "asum") else 2     # index into (exc, deref, writable)
            ok = [c for c in ok if table[c][need]]
        if (f, pos) == ("rdi", 1): ok = ["idx"]
        if (f, pos) == ("bump", 1): ok = ["cnt"]
        if f in ("isum", "asum") and pos == 1: ok = ["cntall"]
        if (f, pos) == ("seterr", 0): ok = ["small"]
        if f == "vsum" and pos == 0: ok = ["bytes"]
        return sorted(ok), sorted(bad)

    def big_n(self, sig):
        """array lengths straddling the 640-byte alloca threshold of the conversion helpers"""
        size = sum(size_of(f) for f in STRUCTS[sig[1]]) if sig[0] == "asum" else size_of(sig[1])
        if sig[0] == "asum":
            size = {"sA": 8, "sB": 24, "sE": 6, "sJ": 20}.get(sig[1], size)
        k = max(1, 640 // size)
        if k > 330:                   # one-byte items: a 641-item list is too slow to validate
            return [1, 200]
        return [1, k, k + 1, min(200, 4 * k)]

    def case(self, cid, fname, sig, pbad=0.25, force_ok=False, single_bad=False, force=None):
        """One concrete call of `sig`; returns (case, expect)."""
        rng = self.rng
        at = arg_types(sig)
        cells, args, expect, classes = [], [], None, []
        n = rng.randint(1, 4)
        if sig[0] in ("isum", "asum"):
            n = rng.choice(self.big_n(sig))
        if force is not None:
            n = force[1]
        vfmt = ""
        vdescs = []
        if sig[0] == "vsum":
            for c in sig[1]:
                d, letter = self.var_arg(c, cells)
                vdescs.append(d)
                vfmt += letter
                if self.vcls[c] != "" and expect is None:
                    expect = self.vcls[c]
        first_exc = None
        for pos, t in enumerate(at):
            ok, bad = self.classes_for(sig, pos, t)
            if force is not None and pos == 0:
                c = force[0]
            elif force_ok or not bad or rng.random() >= pbad or (single_bad and (first_exc or expect)):
                c = rng.choice(ok)
            else:
                c = rng.choice(bad)
            if sig[0] == "vsum" and pos == 0 and c == "bytes":
                d = ["bytes", [ord(x) for x in vfmt]]
            else:
                d = self.arg(t, c, cells, n)
            classes.append(c)
            exc = "" if c in ("idx", "cnt", "cntall", "small") else self.cls[t][c][0]
            if exc and first_exc is None:
                first_exc = exc
            args.append(d)
        args += vdescs
        if expect is None:
            expect = first_exc or ""
        # wrong number of arguments
        if not force_ok and rng.random() < 0.03 and not (single_bad and expect):
            if sig[0] == "vsum":
                args = []
            elif rng.random() < 0.5:
                args.pop()
            else:
                args.append(["int", "0"])
            expect = "TypeError"
        if sig[0] == "vsum":
            classes += list(sig[1])
        case = {"id": cid, "fname": fname, "cells": cells, "args": args, "errno": rng.randint(0, 150),
                "classes": classes, "nargs": len(args)}
        if sig[0] == "smake" and expect == "" and len(args) == len(at) and not force_ok:
            # result objects are independent copies: the same function is called once more with other values
            # (result dropped) BEFORE the first result is read
            case["after"] = [self.arg(t, rng.choice(self.classes_for(sig, pos, t)[0]), cells, 1) for pos, t in enumerate(at)]
        if sig[0] == "asum" and classes and classes[0] in ("sl_short", "sl_dict", "sl_empty") and len(args) == 2:
            # the same call with fully initialised non-zero items first: leaves a dirty heap block of that size
            case["prime"] = [self.pstruct_arg(at[0], "sl_full", n), ["int", str(n)]]
        return case, expect


def _has_float(t):
    if t in CPLX:
        return True
    t = split_arr(t)[0]
    if t.startswith("p_"):
        return _has_float(t[2:])
    if t in STRUCTS:
        return any(_has_float(f) for f in STRUCTS[t])
    return t in ("f32", "f64")


def group_obs(obs):
    """[{paths, o}]: paths with textually identical observations share a group."""
    groups = []
    for p, o in obs.items():
        o = {k: v for k, v in o.items() if k != "msg"}
        for g in groups:
            if g["o"] == o:
                g["paths"].append(p)
                break
        else:
            groups.append({"paths": [p], "o": o})
    return groups


def record(case, sig, expect, obs):
    """The Trace_Call record of an executed case."""
    cells = case["cells"]
    at = arg_types(sig)
    args = []
    for i, d in enumerate(case["args"]):
        WITH_FL[0] = i >= len(at) or _has_float(at[i])
        args.append(enc_desc(d, cells))
    WITH_FL[0] = True
    return {"id": case["id"], "fn": tla_fn(sig), "args": args,
            "mem": [list(c[2]) for c in cells], "errno": case["errno"], "expect": expect, "obs": group_obs(obs)}
