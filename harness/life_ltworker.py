"""Worker process of the C21 check: executes operation histories on real cdata objects and reports,
per operation, the destructor / free calls that ran while it executed, the exception class and the
observation of probes.

argv[1]: JSON config {"careful": bool}
stdin  : JSON list of histories; a history is a list of operations
           ["new", o, kind, target, selfcycle, rl]   kind: P S W A T V E H;  rl (kind W): the wrapper on which this
                                                  wrapper's destructor calls ffi.release() when it runs during a
                                                  release / drop operation (0: none; may be o itself)
           ["alias", o] ["dropalias", o] ["drop", o] ["cycle", o]
           ["release", o, via, how]               via: name|alias   how: release|with
           ["gcnone", o] ["collect"]
           ["probelock", o] ["probealive", o] ["probestruct", o] ["fromhandle", o, how]  how: direct|cast
stdout : one JSON line per history {"h": index, "events": [...]}; careful mode: a line {"h":..,"at":..}
         before and {"h":..,"event":..} after every operation
"""
import sys, json, gc, weakref


class BA(bytearray):        # a bytearray that can be weakly referenced
    pass


class Obj(object):
    pass


def main():
    cfg = json.loads(sys.argv[1])
    careful = cfg.get("careful", False)
    histories = json.loads(sys.stdin.read())
    import cffi
    ffi = cffi.FFI()
    ffi.cdef("struct cv21s { int a; long long b; };")
    gc.disable()
    out = sys.stdout
    RAN = []
    NREL = []                  # wrappers released from inside destructors during the current operation
    CUROP = [""]
    DEPTH = [0]
    RAWENT = {}                # address of the raw memory -> entity
    CUR = [0]
    RAWREF = {}

    def addr(p):
        return int(ffi.cast("uintptr_t", p))

    def myalloc(size):
        p = ffi.new("char[]", size)
        RAWENT[addr(p)] = CUR[0]
        RAWREF[CUR[0]] = weakref.ref(p)
        return p

    def myfree(p):
        RAN.append(RAWENT.pop(addr(p), -1))
    allocator = ffi.new_allocator(myalloc, myfree)

    def run_history(hi, ops):
        NAMES, ALIAS, WR, OWNER, XREF, PAT = {}, {}, {}, {}, {}, {}
        KIND = {}

        def nested(rl):
            """body of a destructor: ffi.release() on the wrapper rl the program holds by name (re-entrancy);
            only during release / drop operations, nesting capped (broken code would recurse for ever)"""
            if (rl and CUROP[0] in ("release", "drop") and DEPTH[0] < 2 and rl in NAMES
                    and KIND.get(rl) == "W"):
                DEPTH[0] += 1
                NREL.append(rl)
                try:
                    ffi.release(NAMES[rl])
                finally:
                    DEPTH[0] -= 1
        events = []
        gc.collect()
        del RAN[:]
        RAWENT.clear()
        RAWREF.clear()
        for opi, op in enumerate(ops):
            if careful:
                out.write(json.dumps({"h": hi, "at": opi}) + "\n")
                out.flush()
            kind = op[0]
            o = op[1] if len(op) > 1 else 0
            if kind == "probelock" and WR[o]() is None:
                continue                    # a dead exporter cannot be probed
            e = {"op": kind, "o": o, "k": "", "t": 0, "via": "", "sc": False, "ran": [], "exc": "", "obs": False,
                 "addr": 0, "nrel": [], "rl": 0}
            del RAN[:]
            del NREL[:]
            CUROP[0] = kind
            DEPTH[0] = 0
            try:
                if kind == "new":
                    k, t, sc = op[2], op[3], bool(op[4])
                    rl = op[5] if len(op) > 5 and k == "W" else 0
                    e["k"], e["t"], e["sc"], e["rl"] = k, t, sc, rl
                    KIND[o] = k
                    if k == "P":
                        NAMES[o] = ffi.new("int[2]")
                    elif k == "S":
                        p = ffi.new("struct cv21s *")
                        p.a = PAT[o] = 1000 + o
                        OWNER[o] = weakref.ref(p[0])
                        NAMES[o] = p
                        del p
                    elif k == "A":
                        CUR[0] = o
                        NAMES[o] = allocator("int[2]")
                    elif k == "T":
                        CUR[0] = o
                        p = allocator("struct cv21s *")
                        p.a = PAT[o] = 2000 + o
                        OWNER[o] = weakref.ref(p[0])
                        NAMES[o] = p
                        del p
                    elif k == "E":
                        b = BA(b"0123456789abcdef")
                        WR[o] = weakref.ref(b)
                        NAMES[o] = b
                        del b
                    elif k == "V":
                        NAMES[o] = ffi.from_buffer(NAMES[t])
                    elif k == "W":
                        if sc:
                            cell = []

                            def d(x, o=o, cell=cell, rl=rl):
                                RAN.append(o)
                                nested(rl)
                            w = ffi.gc(NAMES[t], d)
                            cell.append(w)
                            NAMES[o] = w
                            del w, d, cell
                        else:
                            def d(x, o=o, rl=rl):
                                RAN.append(o)
                                nested(rl)
                            NAMES[o] = ffi.gc(NAMES[t], d)
                            del d
                    elif k == "H":
                        x = Obj()
                        hd = ffi.new_handle(x)
                        XREF[o] = weakref.ref(x)
                        if sc:
                            x.h = hd
                        e["addr"] = addr(hd)
                        NAMES[o] = hd
                        del x, hd
                    else:
                        raise RuntimeError("unknown kind %r" % (k,))
                elif kind == "alias":
                    ALIAS[o] = NAMES[o][0]
                elif kind == "dropalias":
                    del ALIAS[o]
                elif kind == "drop":
                    del NAMES[o]
                elif kind == "cycle":
                    c = [NAMES.pop(o)]
                    c.append(c)
                    del c
                elif kind == "release":
                    via, how = op[2], op[3]
                    e["via"] = via
                    x = ALIAS[o] if via == "alias" else NAMES[o]
                    if how == "with":
                        with x:
                            pass
                    else:
                        ffi.release(x)
                    del x
                elif kind == "gcnone":
                    ffi.gc(NAMES[o], None)
                elif kind == "collect":
                    gc.collect()
                elif kind == "probelock":
                    b = WR[o]()
                    try:
                        b.extend(b"x")
                        e["obs"] = False
                    except BufferError:
                        e["obs"] = True
                    del b
                elif kind == "probealive":
                    e["obs"] = WR[o]() is not None
                elif kind == "probestruct":
                    alive = OWNER[o]() is not None
                    if KIND[o] == "T":
                        r = RAWREF.get(o)
                        alive = alive and r is not None and r() is not None
                    if alive:
                        x = NAMES[o] if o in NAMES else ALIAS[o]
                        alive = (x.a == PAT[o])
                        del x
                    e["obs"] = bool(alive)
                elif kind == "fromhandle":
                    hd = NAMES[o]
                    if len(op) > 2 and op[2] == "cast":
                        hd = ffi.cast("void *", hd)
                    got = ffi.from_handle(hd)
                    e["obs"] = got is XREF[o]() and got is not None
                    del got, hd
                else:
                    raise RuntimeError("unknown op %r" % (op,))
            except (RuntimeError, KeyError):
                raise
            except Exception as ex:
                e["exc"] = type(ex).__name__
            e["ran"] = list(RAN)
            e["nrel"] = list(NREL)
            events.append(e)
            if careful:
                out.write(json.dumps({"h": hi, "event": e}) + "\n")
                out.flush()
        NAMES.clear()
        ALIAS.clear()
        gc.collect()
        return events

    for hi, ops in enumerate(histories):
        evs = run_history(hi, ops)
        if not careful:
            out.write(json.dumps({"h": hi, "events": evs}) + "\n")
    out.write(json.dumps({"end": True}) + "\n")
    out.flush()


main()
