#!/bin/sh
# Offline setup: nothing to fetch. Pre-builds the backend from /repo's working tree (checks
# rebuild it themselves when the sources change) and parses every specification once.
set -e
cd "$(dirname "$0")"
/venv/bin/python -c "import sys; sys.path.insert(0,'.'); from harness import core; print('backend:', core.activate())"
(cd specs && for f in *.tla; do tla-sany "$f" >/dev/null 2>&1 || { echo "SANY failed on $f"; tla-sany "$f" | tail -20; exit 1; }; done)
echo setup ok
