------------------------------ MODULE IntConv ------------------------------
(* Integer conversions of cffi: the ideal (C02, C03, C04 as functions over mathematical
   integers) and the algorithms the code uses, over a parametric word size so that TLC can
   compare them for EVERY value.  LL = number of bits of "long long" (6 in the exhaustive
   configuration, 64 in reality); object sizes are given in bits.
   Sources transcribed:  src/c/_cffi_backend.c  convert_from_object (integer part),
   _cffi_to_c_SIGNED_FN/_UNSIGNED_FN, convert_from_object_bitfield,
   convert_to_object_bitfield, cast_to_integer_or_char. *)
EXTENDS Integers, Sequences, FiniteSets
CONSTANTS LL, Variant

P2(n) == 2 ^ n
\* ------------------------------------------------------------------ ideal
Lo(w, signed) == IF signed THEN -P2(w - 1) ELSE 0
Hi(w, signed) == IF signed THEN P2(w - 1) - 1 ELSE P2(w) - 1
Wrap(v, w) == v % P2(w)                                  \* unsigned w-bit pattern of v
AsSigned(u, w) == IF u >= P2(w - 1) THEN u - P2(w) ELSE u

\* C03: a store of v into a w-bit location of the given kind
StoreAccepts(w, kind, v) == CASE kind = "bool" -> v \in {0, 1}
                              [] kind = "signed" -> Lo(w, TRUE) <= v /\ v <= Hi(w, TRUE)
                              [] kind = "unsigned" -> 0 <= v /\ v <= Hi(w, FALSE)
IdealStore(w, kind, v) == IF StoreAccepts(w, kind, v) THEN <<"ok", Wrap(v, w)>> ELSE <<"overflow">>

\* C04: ffi.cast(T, x) for an integer x (floats are truncated toward zero first)
IdealCast(w, kind, x) == CASE kind = "bool" -> IF x = 0 THEN 0 ELSE 1
                           [] kind = "signed" -> AsSigned(Wrap(x, w), w)
                           [] kind = "unsigned" -> Wrap(x, w)

\* C02: a bit-field of bs bits at shift sh inside a w-bit unit holding pattern u
BfAccepts(kind, bs, v) == CASE kind = "bool" -> v \in {0, 1}     \* _Bool bitfields hold 0/1
                            [] kind = "signed" -> (Lo(bs, TRUE) <= v /\ v <= Hi(bs, TRUE)) \/ (bs = 1 /\ v = 1)
                            [] kind = "unsigned" -> 0 <= v /\ v <= Hi(bs, FALSE)
FieldMask(sh, bs) == (P2(bs) - 1) * P2(sh)
BitAnd(a, b, w) == LET RECURSIVE S(_)
                       S(i) == IF i >= w THEN 0
                               ELSE (((a \div P2(i)) % 2) * ((b \div P2(i)) % 2)) * P2(i) + S(i + 1)
                   IN S(0)
IdealBfWrite(w, kind, sh, bs, u, v) ==
    IF BfAccepts(kind, bs, v)
      THEN <<"ok", (u - BitAnd(u, FieldMask(sh, bs), w)) + Wrap(v, bs) * P2(sh)>>
      ELSE <<"overflow", u>>
IdealBfRead(w, kind, sh, bs, u) ==
    LET f == (u \div P2(sh)) % P2(bs) IN IF kind = "signed" THEN AsSigned(f, bs) ELSE f

\* ------------------------------------------------------------------ C arithmetic at LL bits
M == P2(LL)
U(x) == x % M                         \* (unsigned long long) x
S(x) == AsSigned(x % M, LL)           \* (long long) x
ShlU(x, n) == IF n >= LL THEN (IF Variant = "orig" THEN U(x * P2(n % LL)) ELSE 0)   \* n >= LL is undefined in C; x86 masks the count
              ELSE U(x * P2(n))
NotU(x) == M - 1 - x

\* PyLong_AsLongLong / _my_PyLong_AsUnsignedLongLong(strict) / ..Mask
AsLL(v) == IF -P2(LL - 1) <= v /\ v <= P2(LL - 1) - 1 THEN <<"ok", v>> ELSE <<"overflow">>
AsULLStrict(v) == IF v < 0 \/ v > M - 1 THEN <<"overflow">> ELSE <<"ok", v>>
AsULLMask(v) == U(v)

\* write_raw_integer_data / read_raw_*_data on a w-bit object
WriteRaw(x, w) == x % P2(w)
ReadSigned(p, w) == AsSigned(p, w)

\* ---- convert_from_object, integer part (_cffi_backend.c ~1714-1740)
ConvFromObject(w, kind, v) ==
    IF kind = "signed" THEN
        LET t == AsLL(v) IN
        IF t[1] # "ok" THEN <<"overflow">>
        ELSE LET p == WriteRaw(t[2], w) IN
             IF t[2] # ReadSigned(p, w) THEN <<"overflow">> ELSE <<"ok", p>>
    ELSE
        LET t == AsULLStrict(v) IN
        IF t[1] # "ok" THEN <<"overflow">>
        ELSE IF kind = "bool" THEN (IF t[2] > (IF Variant = "bool2" THEN 2 ELSE 1) THEN <<"overflow">> ELSE <<"ok", WriteRaw(t[2], w)>>)
        ELSE LET p == WriteRaw(t[2], w) IN
             IF t[2] # p THEN <<"overflow">> ELSE <<"ok", p>>

\* ---- _cffi_to_c_i<SIZE> / _cffi_to_c_u<SIZE>  (_cffi_backend.c ~7689-7707)
ToC(w, kind, v) ==
    IF kind = "signed" THEN
        LET t == AsLL(v) IN
        IF t[1] # "ok" THEN <<"overflow">>
        ELSE IF t[2] > S(ShlU(1, w - 1) - 1) \/ t[2] < S(U(0 - ShlU(1, w - 1)))
               THEN <<"overflow">> ELSE <<"ok", WriteRaw(t[2], w)>>
    ELSE
        LET t == AsULLStrict(v) IN
        IF t[1] # "ok" THEN <<"overflow">>
        ELSE IF t[2] > NotU(ShlU(M - 2, w - 1)) THEN <<"overflow">> ELSE <<"ok", WriteRaw(t[2], w)>>

\* ---- cast_to_integer_or_char, integer source
CastImpl(w, kind, x) ==
    LET val == AsULLMask(x)
        v2 == IF kind = "bool" THEN (IF x # 0 THEN 1 ELSE 0) ELSE val      \* _my_PyObject_AsBool, then !!value
        p == WriteRaw(v2, w)
    IN IF kind = "signed" THEN ReadSigned(p, w) ELSE p

\* ---- bit-fields.  Mask(n) = (1ULL << n) - 1 is undefined in C for n = LL (x86 masks the
\* shift count); the repaired code ("fixed") never evaluates it for n = LL: a full-width field of
\* a long-long-sized type is handled as a regular field (convert_from_object / convert_to_object).
Mask(n) == U(ShlU(1, n) - 1)
FullWidth(bs) == Variant # "orig" /\ bs = LL
BfWriteImpl(w, kind, sh, bs, u, v) ==
    IF FullWidth(bs) THEN
        LET r == ConvFromObject(w, kind, v) IN IF r[1] = "ok" THEN <<"ok", r[2]>> ELSE <<"overflow", u>>
    ELSE
    LET t == AsLL(v) IN
    IF t[1] # "ok" THEN <<"overflow", u>>
    ELSE LET value == t[2]
             fmin == IF kind = "signed" THEN S(U(0 - S(ShlU(1, bs - 1)))) ELSE 0     \* wraps for bs = LL (-fno-strict-overflow)
             fmax0 == IF kind = "signed" THEN S(U(S(ShlU(1, bs - 1)) - 1)) ELSE S(Mask(bs))
             fmax == IF kind = "signed" /\ fmax0 = 0 THEN 1 ELSE fmax0
         IN IF value < fmin \/ value > fmax THEN <<"overflow", u>>
            ELSE LET rawmask == ShlU(Mask(bs), sh)
                     rawvalue == ShlU(U(value), sh)
                     nu == BitAnd(u, NotU(rawmask), LL) + BitAnd(rawvalue, rawmask, LL)
                 IN <<"ok", WriteRaw(nu, w)>>
BfReadImpl(w, kind, sh, bs, u) ==
    IF FullWidth(bs) THEN (IF kind = "signed" THEN ReadSigned(u, w) ELSE u)
    ELSE IF kind = "signed" THEN
        LET value == U(ReadSigned(u, w))
            valuemask == Mask(bs)
            sfs == ShlU(1, bs - 1)
            v2 == BitAnd(U((value \div P2(sh)) + sfs), valuemask, LL)
        IN S(U(v2 - sfs))        \* (long long)value - (long long)shiftforsign, wrapping
    ELSE BitAnd(u \div P2(sh), Mask(bs), LL)

\* ------------------------------------------------------------------ exhaustive comparison
VARIABLES w, kind, v, sh, bs, u
cvars == <<w, kind, v, sh, bs, u>>
Widths == {2, 3, LL}
Kinds == {"signed", "unsigned", "bool"}
Range == (-(2 * M) - 2)..(2 * M + 2)

Init == /\ w \in Widths /\ kind \in Kinds /\ v \in Range
        /\ bs \in (IF kind = "bool" THEN {1} ELSE 1..w)      \* the compiler rejects wider _Bool bit-fields
        /\ sh \in 0..(w - bs) /\ u \in 0..(P2(w) - 1)
Next == UNCHANGED cvars
Spec == Init /\ [][Next]_cvars

StoreRefines == ConvFromObject(w, kind, v) = IdealStore(w, kind, v)
ToCRefines == kind # "bool" => ToC(w, kind, v) = IdealStore(w, kind, v)
CastRefines == CastImpl(w, kind, v) = IdealCast(w, kind, v)
BfWriteRefines == BfWriteImpl(w, kind, sh, bs, u, v) = IdealBfWrite(w, kind, sh, bs, u, v)
BfReadRefines == BfReadImpl(w, kind, sh, bs, u) = IdealBfRead(w, kind, sh, bs, u)
\* laws of the ideal itself (C02 text): round trip and isolation
BfRoundTrip == LET r == IdealBfWrite(w, kind, sh, bs, u, v) IN
                 r[1] = "ok" => IdealBfRead(w, kind, sh, bs, r[2]) = (IF kind = "signed" /\ bs = 1 /\ v = 1 THEN -1 ELSE v)
BfIsolation == LET r == IdealBfWrite(w, kind, sh, bs, u, v) IN
                 \A i \in 0..(w - 1) : (i < sh \/ i >= sh + bs) => (r[2] \div P2(i)) % 2 = (u \div P2(i)) % 2
CastPtrRoundTrip == IdealCast(LL, "unsigned", IdealCast(LL, "signed", u)) = u % M
=============================================================================
