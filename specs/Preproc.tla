------------------------------- MODULE Preproc -------------------------------
(* C31: comments, white space, backslash-newline continuations and line directives inserted
   between the tokens of a cdef do not change what it declares.

   IDEAL.  A cdef is a sequence of lines, a line is a sequence of preprocessing tokens (C11
   6.4); the text is the tokens of a line separated by one space, lines ended by a newline.
   A piece of trivia may be put into a gap (l, p) = "in line l, after its p-th token"
   (p = 0: before the first token) when the C translation phases 1-4 (C11 5.1.1.2) leave the
   token sequence of every declaration and the (name, replacement list) of every #define
   unchanged.  These legality conditions are the content of this module:
     * a comment is replaced by one space (phase 3): legal in every gap, also inside a
       directive line, also when it spans lines;
     * a line comment extends to the end of the physical line: it must be followed by a
       newline, which is legal where a newline is (not inside a directive line, except at
       its end, where the newline is already there);
     * space and horizontal tab are legal in every gap; newline, form feed and vertical tab
       are white space too (6.4p3) but a newline ends a directive line, so not inside one;
       no white space at all is legal between two tokens that do not fuse (one of them is one
       of ( ) [ ] { } , ; and no '#' line is involved);
     * backslash-newline is deleted in phase 2 (the property speaks of #define lines only): with
       white space around it, legal in every gap of a #define line after the '#'; bare, only
       where the two neighbouring tokens do not fuse into one ('define' 'FOO', 'FOO' '42' do);
     * a line directive ('# N "file"', '#line N "file"', '# N') stands on a line of its own:
       legal in every gap of a declaration line (rendered with a newline before and after),
       not inside a #define line.
   Denote is not modelled here: it is the declaration environment the real FFI builds, and the
   property is Denote(Render(src, ins)) = Denote(Render(src, <<>>)) for every legal ins.
   TLC enumerates, for the cdefs given in IOEnv.CDEF_FILE (sequences of indices into Corpus),
   every single legal insertion (MaxIns = 1, exhaustive) or random multiple insertions
   (simulation), and prints the rendered text with the insertion's class.                *)
EXTENDS Integers, Sequences, FiniteSets, TLC, Json, IOUtils

CONSTANT MaxIns

(* The corpus of lines: kind "define" (tokens: # define NAME replacement...) or "decl". *)
D(toks) == [kind |-> "define", toks |-> toks]
L(toks) == [kind |-> "decl", toks |-> toks]
Corpus == <<
  D(<<"#", "define", "FOO", "42">>),
  D(<<"#", "define", "BAR", "0x1F">>),
  D(<<"#", "define", "NEG", "-", "7">>),
  D(<<"#", "define", "OCT", "010">>),
  D(<<"#", "define", "UL", "10UL">>),
  D(<<"#", "define", "DOTS", "...">>),
  L(<<"typedef", "unsigned", "long", "ul_t", ";">>),
  L(<<"typedef", "struct", "node", "*", "node_p", ";">>),
  L(<<"struct", "node", "{", "int", "val", ";", "char", "tag", "[", "4", "]", ";", "struct", "node", "*", "next", ";", "}", ";">>),
  L(<<"struct", "bits", "{", "int", "a", ":", "3", ";", "unsigned", "b", ":", "5", ";", "long", "c", ";", "}", ";">>),
  L(<<"struct", "part", "{", "int", "x", ";", "...", ";", "}", ";">>),
  L(<<"union", "u", "{", "int", "i", ";", "double", "d", ";", "}", ";">>),
  L(<<"enum", "color", "{", "RED", ",", "GREEN", "=", "5", ",", "BLUE", "=", "GREEN", "+", "2", "}", ";">>),
  L(<<"enum", "open", "{", "OA", ",", "OB", ",", "...", "}", ";">>),
  L(<<"enum", "shift", "{", "S1", "=", "1", "<<", "4", ",", "S2", "=", "'a'", "}", ";">>),
  L(<<"int", "add", "(", "int", "a", ",", "int", "b", ")", ";">>),
  L(<<"int", "printf_like", "(", "const", "char", "*", "fmt", ",", "...", ")", ";">>),
  L(<<"void", "(", "*", "signal_like", "(", "int", ",", "void", "(", "*", ")", "(", "int", ")", ")", ")", "(", "int", ")", ";">>),
  L(<<"extern", "int", "table", "[", "2", "*", "8", "]", ";">>),
  L(<<"extern", "char", "*", "const", "names", "[", "]", ";">>),
  L(<<"static", "const", "int", "KONST", "=", "-", "3", ";">>),
  L(<<"extern", "\"Python\"", "int", "on_event", "(", "int", ",", "void", "*", ")", ";">>),
  L(<<"typedef", "int", "...", "fuzzy_t", ";">>),
  L(<<"typedef", "...", "opaque_t", ";">>),
  L(<<"typedef", "int", "arr_t", "[", "...", "]", ";">>),
  L(<<"int", "(", "__stdcall", "*", "cb", ")", "(", "int", ")", ";">>),
  L(<<"typedef", "struct", "{", "short", "s", ";", "}", "anon_t", ";">>),
  L(<<"long", "double", "ld_fn", "(", "float", ",", "_Bool", ")", ";">>),
  (* the '...' forms whose type is SEVERAL keywords (cdef rewrites them textually before the C
     parser sees them): the gaps between the keywords and between the last keyword and '...' *)
  L(<<"typedef", "unsigned", "long", "...", "ulfuzzy_t", ";">>),
  L(<<"typedef", "long", "long", "int", "...", "llfuzzy_t", ";">>),
  L(<<"typedef", "float", "...", "ffuzzy_t", ";">>),
  L(<<"enum", "given", "{", "GA", "=", "...", ",", "GB", ",", "...", "}", ";">>)
>>

Cdefs == JsonDeserialize(IOEnv.CDEF_FILE)          \* sequence of sequences of Corpus indices
LinesOf(k) == [i \in 1..Len(Cdefs[k]) |-> Corpus[Cdefs[k][i]]]

(* the trivia *)
Trivia == {
  [id |-> "block",      kind |-> "comment",   text |-> "/* c */"],
  [id |-> "block-empty", kind |-> "comment",  text |-> "/**/"],
  [id |-> "block-odd",  kind |-> "comment",   text |-> "/* it's // \"q\" * / #define X 1 */"],
  [id |-> "block-multi", kind |-> "mlcomment", text |-> "/* a\n   b */"],
  [id |-> "line",       kind |-> "linecomment", text |-> "// c"],
  [id |-> "line-odd",   kind |-> "linecomment", text |-> "// it's /* not \"closed"],
  [id |-> "space2",     kind |-> "hspace",    text |-> "  "],
  [id |-> "tab",        kind |-> "hspace",    text |-> "\t"],
  [id |-> "newline",    kind |-> "vspace",    text |-> "\n"],
  [id |-> "newlines",   kind |-> "vspace",    text |-> " \n\n\t"],
  [id |-> "formfeed",   kind |-> "vspace",    text |-> "\f"],
  [id |-> "nospace",    kind |-> "nospace",   text |-> ""],
  [id |-> "continuation", kind |-> "continuation", text |-> "\\\n"],
  [id |-> "continuation-sp", kind |-> "continuation", text |-> " \\\n  "],
  [id |-> "directive",  kind |-> "directive", text |-> "# 7 \"some file.h\""],
  [id |-> "directive-line", kind |-> "directive", text |-> "#line 12 \"x.h\""],
  [id |-> "directive-bare", kind |-> "directive", text |-> "# 99"] }

Tight == {"(", ")", "[", "]", "{", "}", ",", ";"}
TokAt(ln, p) == IF p >= 1 /\ p <= Len(ln.toks) THEN ln.toks[p] ELSE ""

(* two tokens that become one when nothing but a deleted backslash-newline stands between them
   ('define' 'FOO' -> 'defineFOO', 'FOO' '42' -> 'FOO42'): both are identifiers or numbers *)
WordLike(t) == t \notin {"#", "-", "...", ""}
Fuses(a, b) == WordLike(a) /\ WordLike(b)

(* THE LEGALITY CONDITIONS *)
Legal(ln, p, tr) ==
    LET n == Len(ln.toks)
        def == ln.kind = "define"
    IN CASE tr.kind = "comment"      -> TRUE
         [] tr.kind = "mlcomment"    -> TRUE
         [] tr.kind = "linecomment"  -> ~def \/ p = n
         [] tr.kind = "hspace"       -> TRUE
         [] tr.kind = "vspace"       -> ~def \/ p = n
         [] tr.kind = "nospace"      -> ~def /\ p >= 1 /\ p < n /\ (TokAt(ln, p) \in Tight \/ TokAt(ln, p + 1) \in Tight)
         [] tr.kind = "continuation" -> def /\ p >= 1 /\ (tr.text = "\\\n" => p = n \/ ~Fuses(TokAt(ln, p), TokAt(ln, p + 1)))
         [] tr.kind = "directive"    -> ~def

(* how a piece of trivia is written into its gap: what replaces the single separating space *)
Filled(ln, p, tr) ==
    CASE tr.kind \in {"comment", "mlcomment"} -> tr.text
      [] tr.kind = "linecomment" -> IF p = Len(ln.toks) THEN " " \o tr.text ELSE " " \o tr.text \o "\n"
      [] tr.kind \in {"hspace", "vspace", "nospace"} -> tr.text
      [] tr.kind = "continuation" -> tr.text
      [] tr.kind = "directive" -> "\n" \o tr.text \o "\n"

(* a gap INSIDE the type of an ellipsis form: between two of the integer keywords of
   'typedef unsigned long ... T;' (the keyword run ends at a '...').  The keywords are separate
   tokens, so every piece of trivia that is legal in a declaration is legal there too. *)
IntKw == {"int", "long", "short", "signed", "unsigned", "char"}
InEllipsisType(ln, p) ==
    /\ p >= 1 /\ p < Len(ln.toks) /\ ln.toks[p] \in IntKw /\ ln.toks[p + 1] \in IntKw
    /\ \E q \in (p + 2)..Len(ln.toks) : ln.toks[q] = "..." /\ \A j \in (p + 1)..(q - 1) : ln.toks[j] \in IntKw

(* the class of a gap, used to name findings *)
PosClass(ln, p) ==
    LET n == Len(ln.toks) IN
    IF ln.kind = "define"
    THEN (CASE p = 0 -> "before-hash" [] p = 1 -> "after-hash" [] p = 2 -> "before-macro-name"
            [] p = n -> "end" [] p = 3 -> "before-value" [] OTHER -> "inside-value")
    ELSE (IF p = 0 THEN "start" ELSE IF p = n THEN "end"
          ELSE IF InEllipsisType(ln, p) THEN "in-ellipsis-type"
          ELSE IF TokAt(ln, p) = "..." \/ TokAt(ln, p + 1) = "..." THEN "at-ellipsis"
          ELSE IF TokAt(ln, p) = "\"Python\"" \/ TokAt(ln, p + 1) = "\"Python\"" THEN "at-extern-python"
          ELSE IF TokAt(ln, p) = "__stdcall" \/ TokAt(ln, p + 1) = "__stdcall" THEN "at-stdcall"
          ELSE "inner")

-----------------------------------------------------------------------------
VARIABLES k, ins          \* the cdef, the insertions made so far [l, p, tr] in increasing (l, p)
vars == <<k, ins>>

Init == k \in 1..Len(Cdefs) /\ ins = << >>
After(a, l, p) == a.l < l \/ (a.l = l /\ a.p < p)
Insert == /\ Len(ins) < MaxIns
          /\ \E l \in 1..Len(Cdefs[k]) :
               LET ln == Corpus[Cdefs[k][l]] IN
               \E p \in 0..Len(ln.toks), tr \in Trivia :
                  /\ Legal(ln, p, tr)
                  /\ (ins # << >> => After(ins[Len(ins)], l, p))
                  /\ ins' = Append(ins, [l |-> l, p |-> p, tr |-> tr.id, cls |-> ln.kind \o ":" \o PosClass(ln, p)])
          /\ UNCHANGED k
Spec == Init /\ [][Insert]_vars

TrivOf(id) == CHOOSE tr \in Trivia : tr.id = id
(* the untouched text: one space between tokens, nothing at the ends of a line; a sign in a
   macro's replacement list is written next to its number ('#define NEG -7'), which is how such
   constants are written - the space there is one of the insertions *)
DefaultSep(ln, p) == IF p = 0 \/ p = Len(ln.toks) THEN ""
                     ELSE IF ln.kind = "define" /\ ln.toks[p] = "-" THEN "" ELSE " "
RECURSIVE RenderLine(_, _, _, _)
(* tokens p+1.. of line l of cdef k *)
GapText(l, ln, p) ==
    LET here == {i \in 1..Len(ins) : ins[i].l = l /\ ins[i].p = p} IN
    IF here = {} THEN DefaultSep(ln, p)
    ELSE Filled(ln, p, TrivOf(ins[CHOOSE i \in here : TRUE].tr))
RenderLine(l, ln, p, acc) ==
    IF p > Len(ln.toks) THEN acc
    ELSE RenderLine(l, ln, p + 1, acc \o (IF p >= 1 THEN ln.toks[p] ELSE "") \o GapText(l, ln, p))
RECURSIVE RenderAll(_, _)
RenderAll(l, acc) ==
    IF l > Len(Cdefs[k]) THEN acc
    ELSE RenderAll(l + 1, acc \o RenderLine(l, Corpus[Cdefs[k][l]], 0, "") \o "\n")
Render == RenderAll(1, "")

(* design-level checks *)
(* every ellipsis form of the corpus offers its inner gaps: a line whose '...' follows two or more
   integer keywords has a gap of class in-ellipsis-type, and every trivia legal in a declaration
   is legal there (checked on the corpus itself, not only on the chosen cdefs) *)
EllipsisTypeGapsOffered ==
    \A c \in 1..Len(Corpus) : \A p \in 1..(Len(Corpus[c].toks) - 1) :
       InEllipsisType(Corpus[c], p) =>
          /\ Corpus[c].kind = "decl" /\ PosClass(Corpus[c], p) = "in-ellipsis-type"
          /\ \A tr \in Trivia : tr.kind \notin {"continuation", "nospace"} => Legal(Corpus[c], p, tr)
OrderedIns == \A i \in 1..(Len(ins) - 1) : After(ins[i], ins[i + 1].l, ins[i + 1].p)
AllLegal == \A i \in 1..Len(ins) : Legal(Corpus[Cdefs[k][ins[i].l]], ins[i].p, TrivOf(ins[i].tr))
(* a directive line never receives a newline in its middle, a declaration never a continuation *)
NoBrokenDirective ==
    \A i \in 1..Len(ins) :
       LET ln == Corpus[Cdefs[k][ins[i].l]]
           tr == TrivOf(ins[i].tr)
       IN (ln.kind = "define" /\ ins[i].p < Len(ln.toks) => tr.kind \notin {"linecomment", "vspace", "directive"})
          /\ (ln.kind = "decl" => tr.kind # "continuation")
Emit == PrintT(ToString(<<"T", k, ins, Render>>))
=============================================================================
