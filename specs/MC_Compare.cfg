SPECIFICATION Spec
CONSTANTS Variant = "faithful"
INVARIANT Refines
INVARIANT HashLaw
INVARIANT HashAsValue
INVARIANT Reflexive
INVARIANT Symmetric
INVARIANT Transitive
INVARIANT NeIsNotEq
INVARIANT Trichotomy
INVARIANT HashLawAll
CHECK_DEADLOCK FALSE
