------------------------------- MODULE CDecl -------------------------------
(* The common declarator grammar of cffi type strings.

   IDEAL
     * Read(toks)        - the analytic description: the C rule for reading a type name
                           (C11 6.7.2 specifier multisets, 6.7.6 declarators read inside-out,
                           suffixes before pointers, 6.7.6.3 parameter adjustment).
     * the state machine - the generative description, Renders(term, toks): it peels one
                           constructor of the term per step and grows the declarator text
                           around the declarator position, choosing specifier order,
                           qualifiers, number formats, constant names, typedef aliases,
                           redundant parentheses, a dummy identifier, calling-convention
                           keywords and parameter spellings.  Every terminal state is one
                           pair (term, rendering); TLC checks Read(toks) = term for each of
                           them (invariant ReadsBack) and prints the pair for the replayer.
     * near-miss actions - one token of a rendering dropped, doubled, swapped with its
                           neighbour or substituted (the ill-formed neighbourhood).
   IMPLEMENTATION MODEL
     * ParseC(toks)      - src/c/parse_c_type.c (parse_complete :605, parse_sequel :227)
                           transcribed on token sequences, opcode array included, followed by
                           Realize = realize_c_type_or_func_now (src/c/realize_c_type.c:465).
     * PyPrim(names)     - the specifier normalisation of Parser._get_type_and_quals
                           (src/cffi/cparser.py:648-679).
     * Canon / Name      - Tokenize(Name(t)) = Canon(t): the backend's name builder produces
                           the minimal-parentheses rendering (law NameIsCanon).            *)
EXTENDS CDeclRead

CONSTANTS MaxVar,       \* non-canonical choices per rendering
          NmVar,        \* near-misses are taken from renderings with at most NmVar choices ...
          NmDepth       \* ... of terms at most this deep (NoNm: no near-misses)

VARIABLES term, rest, decl, nvar, phase, toks, nm,
          obs      \* [rd, pc, cls]: Read, ParseC and ClassOf of toks, computed once when toks is set
vars == <<term, rest, decl, nvar, phase, toks, nm, obs>>
NoObs == [rd |-> [r |-> "-"], pc |-> [r |-> "-"], cls |-> {}]
ObsOf(s) == [rd |-> Read(s), pc |-> ParseC(s), cls |-> ClassOf(s)]
NoNm == -1

-----------------------------------------------------------------------------
(* THE GENERATOR *)
(* spellings of a length: C integer constants of all three radices and constant names *)
NumForms(n) == CASE n = 3  -> {"3", "03", "0x3", "N"}
                 [] n = 16 -> {"16", "020", "0x10", "0X10", "M"}
                 [] n = 2  -> {"2", "02", "0x2", "E2"}
                 [] n = 5  -> {"5", "05", "0x5"}
                 [] OTHER  -> {ToString(n)}
NumFormsOK == \A n \in {2, 3, 5, 16} : \A f \in NumForms(n) : LenVal(f) = n

(* all orders of a finite sequence *)
RECURSIVE PermsOf(_)
PermsOf(q) == IF Len(q) <= 1 THEN {q}
              ELSE UNION {{<<q[i]>> \o p : p \in PermsOf([j \in 1..(Len(q) - 1) |-> IF j < i THEN q[j] ELSE q[j + 1]])}
                          : i \in 1..Len(q)}
(* C11 6.7.2p2: the specifier multisets of each primitive type *)
SpecSets(n) ==
    CASE n = "char" -> {<<"char">>}
      [] n = "signed char" -> {<<"signed", "char">>}
      [] n = "unsigned char" -> {<<"unsigned", "char">>}
      [] n = "short" -> {<<"short">>, <<"short", "int">>, <<"signed", "short">>, <<"signed", "short", "int">>}
      [] n = "unsigned short" -> {<<"unsigned", "short">>, <<"unsigned", "short", "int">>}
      [] n = "int" -> {<<"int">>, <<"signed">>, <<"signed", "int">>}
      [] n = "unsigned int" -> {<<"unsigned">>, <<"unsigned", "int">>}
      [] n = "long" -> {<<"long">>, <<"long", "int">>, <<"signed", "long">>, <<"signed", "long", "int">>}
      [] n = "unsigned long" -> {<<"unsigned", "long">>, <<"unsigned", "long", "int">>}
      [] n = "long long" -> {<<"long", "long">>, <<"long", "long", "int">>, <<"signed", "long", "long">>,
                             <<"signed", "long", "long", "int">>}
      [] n = "unsigned long long" -> {<<"unsigned", "long", "long">>, <<"unsigned", "long", "long", "int">>}
      [] n = "long double" -> {<<"long", "double">>}
      [] OTHER -> {<<n>>}
SpecSeqs(n) == UNION {PermsOf(q) : q \in SpecSets(n)}
WithQual(q) == {SubSeq(q, 1, i) \o <<c>> \o SubSeq(q, i + 1, Len(q)) : i \in 0..Len(q), c \in Quals}

(* base renderings of a term that has no constructor left: <<tokens, cost>> *)
BaseForms(t) ==
    LET plain == CASE t.k = "prim" -> {<<q, IF q = Tokenize(t.n) THEN 0 ELSE 1>> : q \in SpecSeqs(t.n)}
                   [] t.k = "void" -> {<< <<"void">>, 0 >>}
                   [] OTHER -> {<< <<t.k, t.tag>>, 0 >>}
        qual == IF t.k \in {"prim", "void"}
                THEN UNION {{<<q, f[2] + 1>> : q \in WithQual(f[1])} : f \in plain}
                ELSE {<< <<c>> \o f[1], 1 >> : f \in plain, c \in Quals} \cup
                     {<< f[1] \o <<c>>, 1 >> : f \in plain, c \in Quals}
    IN plain \cup qual
(* a typedef name may stand for the rest of the term at any point of the spine *)
AliasForms(t) ==
    LET names == {n \in DOMAIN Typedefs : Typedefs[n] = t}
    IN {<< <<n>>, 1 >> : n \in names} \cup {<< <<c, n>>, 2 >> : n \in names, c \in Quals}
       \cup {<< <<n, c>>, 2 >> : n \in names, c \in Quals}

QualSeqs == {<< >>, <<"const">>, <<"volatile">>, <<"const", "volatile">>}
AbiForms == {<< >>, <<"__cdecl">>, <<"__stdcall">>}

(* parameter spellings: "alias" every parameter that is Param(T) of an array or function typedef T
   is written as that typedef's name (C adjusts it: Param(t) denotes Adjust(t)); "canon"; "named" every parameter gets a name; "void" for an
   empty list; "arr" the first pointer parameter is written as an array; "fn" the first
   function-pointer parameter is written as a function *)
RECURSIVE ParamToks(_, _, _, _)
ParamToks(a, ell, pv, i) ==
    IF i > Len(a) THEN (IF ell THEN <<",", "...">> ELSE << >>)
    ELSE LET first(Pr(_)) == Pr(a[i]) /\ \A j \in 1..(i - 1) : ~Pr(a[j])
             isp(x) == x.k = "ptr" /\ x.t.k # "fn" /\ Complete(x.t)
             isf(x) == IsFnPtr(x)
             al == {n \in DOMAIN Typedefs : Typedefs[n].k \in {"arr", "fn"} /\ Adjust(Typedefs[n]) = a[i]}
             one == IF pv = "alias" /\ al # {} THEN <<CHOOSE n \in al : TRUE>>      \* Param(vec_t) = Adjust(int[5])
                    ELSE IF pv = "named" THEN Canon(a[i], <<"p" \o ToString(i)>>)
                    ELSE IF pv = "arr" /\ first(isp) THEN Canon(Arr(a[i].t, IF i = 1 THEN Open ELSE 3), << >>)
                    ELSE IF pv = "fn" /\ first(isf)
                         THEN Canon(a[i].t.res, <<"f", "(">> \o CanonArgs(a[i].t.args, a[i].t.ell, 1) \o <<")">>)
                    ELSE Canon(a[i], << >>)
         IN (IF i > 1 THEN <<",">> ELSE << >>) \o one \o ParamToks(a, ell, pv, i + 1)
ParamVariants(a, ell) ==
    {"canon"} \cup (IF Len(a) > 0 THEN {"named"} ELSE {"void"})
    \cup (IF \E i \in 1..Len(a) : a[i].k = "ptr" /\ a[i].t.k # "fn" /\ Complete(a[i].t) THEN {"arr"} ELSE {})
    \cup (IF \E i \in 1..Len(a) : IsFnPtr(a[i]) THEN {"fn"} ELSE {})
    \cup (IF \E i \in 1..Len(a), n \in DOMAIN Typedefs :
               Typedefs[n].k \in {"arr", "fn"} /\ Adjust(Typedefs[n]) = a[i] THEN {"alias"} ELSE {})
Params(a, ell, pv) == IF pv = "void" THEN <<"void">> ELSE ParamToks(a, ell, pv, 1)

Wrap(d) == <<"(">> \o d \o <<")">>
B2N(b) == IF b THEN 1 ELSE 0

(* the term is grown first (so that simulation mode reaches deep terms without enumerating the
   universe), then rendered *)
Init == /\ term \in Base /\ rest = term /\ decl = << >> /\ nvar = 0
        /\ phase = "grow" /\ toks = << >> /\ nm = << >> /\ obs = NoObs
ResultOK(u) == u.k \notin {"arr", "fn"} /\ (u.k \in {"struct", "union"} => Complete(u))
Grow == /\ phase = "grow" /\ DepthOf(term) < Depth
        /\ \/ term' = Ptr(term)
           \/ Complete(term) /\ \E l \in Lens : term' = Arr(term, l)
           \/ ResultOK(term) /\ \E a \in ArgLists : term' = Ptr(Fn(term, a[1], a[2]))
        /\ rest' = term' /\ UNCHANGED <<decl, nvar, phase, toks, nm, obs>>
Begin == /\ phase = "grow" /\ phase' = "decl" /\ UNCHANGED <<term, rest, decl, nvar, toks, nm, obs>>

(* a dummy identifier at the declarator position (only as the very first step) *)
Ident == /\ phase = "decl" /\ rest = term /\ decl = << >> /\ nvar < MaxVar
         /\ decl' = <<"x">> /\ nvar' = nvar + 1 /\ UNCHANGED <<term, rest, phase, toks, nm, obs>>

StepPtr == /\ phase = "decl" /\ rest.k = "ptr" /\ rest.t.k # "fn"
           /\ \E q \in QualSeqs, red \in BOOLEAN :
                LET need == rest.t.k = "arr"
                    in == <<"*">> \o q \o decl
                    cost == B2N(q # << >>) + B2N(red)
                IN /\ ~(need /\ red) /\ nvar + cost <= MaxVar
                   /\ decl' = (IF need \/ red THEN Wrap(in) ELSE in)
                   /\ nvar' = nvar + cost
           /\ rest' = rest.t /\ UNCHANGED <<term, phase, toks, nm, obs>>

StepFnPtr == /\ phase = "decl" /\ IsFnPtr(rest)
             /\ \E q \in QualSeqs, abi \in AbiForms, out \in BOOLEAN, pv \in ParamVariants(rest.t.args, rest.t.ell) :
                  LET cost == B2N(q # << >>) + B2N(abi # << >>) + B2N(pv # "canon")
                      core == <<"*">> \o q \o decl
                      grp == IF out THEN abi \o Wrap(core) ELSE Wrap(abi \o core)
                  IN /\ (out => abi # << >>) /\ nvar + cost <= MaxVar
                     /\ decl' = grp \o <<"(">> \o Params(rest.t.args, rest.t.ell, pv) \o <<")">>
                     /\ nvar' = nvar + cost
             /\ rest' = rest.t.res /\ UNCHANGED <<term, phase, toks, nm, obs>>

(* a pointer to a function type that has a typedef name: '*' and then that name as the base *)
StepFnAlias == /\ phase = "decl" /\ IsFnPtr(rest) /\ \E n \in DOMAIN Typedefs : Typedefs[n] = rest.t
               /\ nvar < MaxVar /\ decl' = <<"*">> \o decl /\ nvar' = nvar + 1 /\ rest' = rest.t
               /\ UNCHANGED <<term, phase, toks, nm, obs>>

StepArr == /\ phase = "decl" /\ rest.k = "arr"
           /\ \E f \in (IF rest.len = Open THEN {""} ELSE NumForms(rest.len)) :
                LET cost == B2N(f # "" /\ f # ToString(rest.len))
                IN /\ nvar + cost <= MaxVar
                   /\ decl' = decl \o <<"[">> \o (IF f = "" THEN << >> ELSE <<f>>) \o <<"]">>
                   /\ nvar' = nvar + cost
           /\ rest' = rest.t /\ UNCHANGED <<term, phase, toks, nm, obs>>

(* redundant parentheses around the declarator built so far *)
Paren == /\ phase = "decl" /\ decl # << >> /\ decl # <<"x">> /\ nvar < MaxVar
         /\ decl' = Wrap(decl) /\ nvar' = nvar + 1 /\ UNCHANGED <<term, rest, phase, toks, nm, obs>>

Finish == /\ phase = "decl"
          /\ \E f \in (IF rest.k \in {"ptr", "arr", "fn"} THEN {} ELSE BaseForms(rest)) \cup AliasForms(rest) :
               /\ nvar + f[2] <= MaxVar
               /\ toks' = f[1] \o decl /\ nvar' = nvar + f[2]
          /\ obs' = ObsOf(toks') /\ phase' = "done" /\ UNCHANGED <<term, rest, decl, nm>>

(* the ill-formed neighbourhood *)
SubstAlphabet == {"*", "(", ")", "[", "]", ",", "...", "int", "const", "unsigned", "struct", "x", "3",
                  "void", "__stdcall", "myint", "08", "long"}
NearMiss == /\ phase = "done" /\ nvar <= NmVar /\ DepthOf(term) <= NmDepth
            /\ \E i \in 1..Len(toks) :
                 \/ toks' = SubSeq(toks, 1, i - 1) \o SubSeq(toks, i + 1, Len(toks)) /\ nm' = <<"drop", i, toks[i]>>
                 \/ toks' = SubSeq(toks, 1, i) \o SubSeq(toks, i, Len(toks)) /\ nm' = <<"dup", i, toks[i]>>
                 \/ /\ i < Len(toks) /\ toks[i] # toks[i + 1]
                    /\ toks' = [toks EXCEPT ![i] = toks[i + 1], ![i + 1] = toks[i]] /\ nm' = <<"swap", i, toks[i]>>
                 \/ \E a \in SubstAlphabet \ {toks[i]} : toks' = [toks EXCEPT ![i] = a] /\ nm' = <<"subst", i, a>>
                 \/ \E a \in SubstAlphabet : /\ toks' = SubSeq(toks, 1, i) \o <<a>> \o SubSeq(toks, i + 1, Len(toks))
                                             /\ nm' = <<"ins", i, a>>
            /\ obs' = ObsOf(toks') /\ phase' = "nm" /\ UNCHANGED <<term, rest, decl, nvar>>

Next == Grow \/ Begin \/ Ident \/ StepPtr \/ StepFnPtr \/ StepFnAlias \/ StepArr \/ Paren \/ Finish \/ NearMiss
Spec == Init /\ [][Next]_vars

-----------------------------------------------------------------------------
(* what TLC checks and prints *)
(* the grow phase reaches exactly the bounded universe *)
GrowsUniverse == term \in Universe
(* generative and analytic descriptions of the grammar agree *)
ReadsBack == phase = "done" => obs.rd = [r |-> "ok", t |-> term]
(* the implementation model of the C parser agrees with the ideal on well-formed strings,
   except in the listed classes, where it may reject *)
ParseCAgrees == phase = "done" =>
                  IF obs.cls = {} THEN obs.pc = [r |-> "ok", t |-> term]
                  ELSE obs.pc.r \in {"syntax", "invalid"} \/ obs.pc = [r |-> "ok", t |-> term]
(* non-vacuity of the classes: without the exemption the law is false *)
ParseCStrict == phase = "done" => obs.pc = [r |-> "ok", t |-> term]
(* the in-line parser's specifier normalisation accepts exactly the orders that do not put
   the base keyword before a modifier *)
PyPrimAgrees == phase = "done" /\ SpecRun(toks) # << >> =>
                  (PyPrimOk(SpecRun(toks)) <=> "base-before-modifier" \notin obs.cls)
(* printing: one line per terminal state (each distinct state is expanded once) *)
Emit == (phase = "done" => PrintT(ToString(<<"R", term, toks, nvar, obs.cls, obs.pc.r>>))) /\
        (phase = "nm" => PrintT(ToString(<<"NM", toks, nm, obs.rd, obs.pc, obs.cls>>)))
=============================================================================
