------------------------------ MODULE ConstExpr ------------------------------
(* C09 - integer constant expressions in a cdef evaluate as C evaluates them.

   Expression trees
     [op |-> "lit", base |-> "dec"|"oct"|"hex", mag |-> N-value, suf |-> ""|"u"|"l"|"ul"|"ll"|"ull"]
     [op |-> "chr", esc |-> BOOLEAN, ch |-> code of the character written (after the backslash if esc)]
     [op |-> "neg" | "pos", a |-> tree]
     [op |-> "+" | "-" | "*" | "/" | "%" | "<<" | ">>" | "&" | "|" | "^", a |-> tree, b |-> tree]

   IDEAL  CEval: C11 evaluation with types - 6.4.4.1 (type of an integer constant: first type of
   the list in which the value fits), 6.4.4.4 (character constants have type int; simple
   escapes), 6.3.1.8 (usual arithmetic conversions), 6.5.x (operators; unsigned arithmetic is
   modular, signed overflow / division by zero / bad shift counts are undefined).  A type is
   [bits, sgn]; int and long of the platform are IntBits and LongBits wide (long long = long).
   Right shift of a negative value is arithmetic (GCC documents it).

   IMPLEMENTATION MODEL  CffiEval: Parser._parse_constant, _c_div and _c_shift_count of
   src/cffi/cparser.py (as of commit 4d735ce), which evaluate with untyped, unbounded Python integers.

   Eval(e) runs both in one pass and, where they differ although all sub-expressions agree, names
   the culprit node's class:  "char-escape:<ch>", "unsigned-wrap:<op>",
   "negative-to-unsigned:<op>" or "other:<op>".                                              *)
EXTENDS PlatformBV
CONSTANTS IntBits, LongBits, Variant      \* Variant: "faithful" | "floordiv" | "pymod" | "ordchr"

TInt   == [bits |-> IntBits,  sgn |-> TRUE]
TUInt  == [bits |-> IntBits,  sgn |-> FALSE]
TLong  == [bits |-> LongBits, sgn |-> TRUE]
TULong == [bits |-> LongBits, sgn |-> FALSE]
Fits(z, t) == ZFits(z, t.bits, t.sgn)
Conv(z, t) == Wrap(z, t.bits, t.sgn)          \* 6.3.1.3 (exact when the value fits; modular to unsigned)

(***************************************************************************)
(* IDEAL: typed C evaluation                                               *)
(***************************************************************************)
Undef == [def |-> FALSE, t |-> TInt, v |-> Z0]
Val(t, v) == [def |-> TRUE, t |-> t, v |-> v]

\* 6.4.4.1p5: the type of an integer constant is the first of the list in which its value fits
LitTypes(base, suf) ==
  CASE suf = ""  /\ base = "dec"          -> <<TInt, TLong>>
    [] suf = ""                           -> <<TInt, TUInt, TLong, TULong>>
    [] suf = "u"                          -> <<TUInt, TULong>>
    [] suf \in {"l", "ll"} /\ base = "dec" -> <<TLong>>
    [] suf \in {"l", "ll"}                -> <<TLong, TULong>>
    [] suf \in {"ul", "ull"}              -> <<TULong>>
CLit(e) ==
  LET z == ZMk(FALSE, e.mag)
      ts == LitTypes(e.base, e.suf)
  IN IF \E i \in 1..Len(ts) : Fits(z, ts[i])
     THEN Val(ts[CHOOSE i \in 1..Len(ts) : Fits(z, ts[i]) /\ \A j \in 1..(i - 1) : ~Fits(z, ts[j])], z)
     ELSE Undef                              \* no type can represent the constant

\* 6.4.4.4: simple escape sequences  \n \t \r \a \b \f \v \\ \' \" \?  and one-digit octal escapes \0 .. \7
EscVal(ch) == CASE ch = 110 -> 10 [] ch = 116 -> 9 [] ch = 114 -> 13 [] ch = 97 -> 7
                [] ch = 98 -> 8 [] ch = 102 -> 12 [] ch = 118 -> 11 [] ch = 92 -> 92 [] ch = 39 -> 39
                [] ch = 34 -> 34 [] ch = 63 -> 63 [] ch \in 48..55 -> ch - 48
IsEsc(ch) == ch \in {110, 116, 114, 97, 98, 102, 118, 92, 39, 34, 63} \cup (48..55)
CChr(e) == IF e.esc THEN (IF IsEsc(e.ch) THEN Val(TInt, Z(EscVal(e.ch))) ELSE Undef) ELSE Val(TInt, Z(e.ch))

\* 6.3.1.8 usual arithmetic conversions (all our types have rank >= int: promotions are no-ops)
UAC(t1, t2) == IF t1 = t2 THEN t1
               ELSE IF t1.bits > t2.bits THEN t1 ELSE IF t2.bits > t1.bits THEN t2
               ELSE [bits |-> t1.bits, sgn |-> FALSE]

\* result of an operation whose mathematical value is m in type t: modular for unsigned types,
\* undefined on signed overflow (6.5p5)
InType(t, m) == IF ~t.sgn THEN Val(t, Conv(m, t)) ELSE IF Fits(m, t) THEN Val(t, m) ELSE Undef

CUnary(op, x) ==
  IF ~x.def THEN Undef
  ELSE IF op = "pos" THEN x ELSE InType(x.t, ZNeg(x.v))

CBinary(op, x, y) ==
  IF ~x.def \/ ~y.def THEN Undef
  ELSE IF op \in {"<<", ">>"} THEN
     \* 6.5.7: the type is that of the (promoted) left operand; the count must be in 0..width-1
     IF y.v.neg \/ ~ZLt(y.v, Z(x.t.bits)) THEN Undef
     ELSE LET k == ZToInt(y.v) IN
          IF op = ">>" THEN Val(x.t, ZShrFloor(x.v, k))
          ELSE IF x.t.sgn /\ x.v.neg THEN Undef           \* left shift of a negative value
          ELSE InType(x.t, ZShl(x.v, k))
  ELSE
     LET t == UAC(x.t, y.t)
         a == Conv(x.v, t)
         b == Conv(y.v, t)
     IN CASE op = "+" -> InType(t, ZAdd(a, b))
          [] op = "-" -> InType(t, ZSub(a, b))
          [] op = "*" -> InType(t, ZMul(a, b))
          [] op \in {"/", "%"} ->
               IF ZIsZero(b) THEN Undef
               ELSE IF op = "/" THEN InType(t, ZDivTrunc(a, b))        \* INT_MIN / -1 does not fit
               ELSE IF t.sgn /\ ~Fits(ZDivTrunc(a, b), t) THEN Undef   \* 6.5.5p6
               ELSE Val(t, ZRemTrunc(a, b))
          [] op \in {"&", "|", "^"} ->
               Val(t, ZBitOp(CASE op = "&" -> "and" [] op = "|" -> "or" [] op = "^" -> "xor", a, b, t.bits, t.sgn))

(***************************************************************************)
(* IMPLEMENTATION MODEL: cparser.py:878-955                                *)
(***************************************************************************)
PErr(msg) == [err |-> msg, v |-> Z0]
PVal(v) == [err |-> "", v |-> v]

\* :881-896  s.rstrip('uUlL'); int(s, 8) if it starts with '0' else int(s, 10); on ValueError hex
\* (i.e. the value of the digits in their base, whatever the suffix)
PLit(e) == PVal(ZMk(FALSE, e.mag))
\* character constants (cparser.py, after fix 4d735ce):
\*   _char_escapes = {'a':7,'b':8,'f':12,'n':10,'r':13,'t':9,'v':11,'0':0,...,'7':7}
\*   if len(s) == 4 and s[2] in _char_escapes: return _char_escapes[s[2]];  return ord(s[-2])
\* Variant "ordchr" is the evaluation before the fix (always ord(s[-2])): '\n' = 110.
CharEscapes(ch) == CASE ch = 97 -> 7 [] ch = 98 -> 8 [] ch = 102 -> 12 [] ch = 110 -> 10 [] ch = 114 -> 13
                     [] ch = 116 -> 9 [] ch = 118 -> 11 [] ch \in 48..55 -> ch - 48
InCharEscapes(ch) == ch \in {97, 98, 102, 110, 114, 116, 118} \cup (48..55)
PChr(e) == IF e.esc /\ InCharEscapes(e.ch) /\ Variant # "ordchr" THEN PVal(Z(CharEscapes(e.ch))) ELSE PVal(Z(e.ch))

\* _c_div (division by zero raises FFIError since 28f0f99 - handled by the callers below)
PCDiv(a, b) ==
  IF Variant = "floordiv" THEN ZDivFloor(a, b)
  ELSE Bind(ZDivFloor(a, b), LAMBDA result :                                           \* a // b
         IF (a.neg # b.neg) /\ ~ZIsZero(ZModFloor(a, b)) THEN ZAdd(result, Z1) ELSE result)

PUnary(op, x) == IF x.err # "" THEN x ELSE IF op = "pos" THEN x ELSE PVal(ZNeg(x.v))    \* :903-909
PBinary(op, x, y) ==                                                                     \* :924-946
  IF x.err # "" THEN x ELSE IF y.err # "" THEN y
  ELSE LET a == x.v
           b == y.v
           V == (IF ZBitLen(a) > ZBitLen(b) THEN ZBitLen(a) ELSE ZBitLen(b)) + 2         \* enough bits for both
       IN CASE op = "+" -> PVal(ZAdd(a, b))
            [] op = "-" -> PVal(ZSub(a, b))
            [] op = "*" -> PVal(ZMul(a, b))
            [] op = "/" -> IF ZIsZero(b) THEN PErr("FFIError: division by zero") ELSE PVal(PCDiv(a, b))
            [] op = "%" -> IF ZIsZero(b) THEN PErr("FFIError: division by zero")
                           ELSE IF Variant = "pymod" THEN PVal(ZModFloor(a, b))
                           ELSE PVal(ZSub(a, ZMul(PCDiv(a, b), b)))                      \* left - _c_div(left, right) * right
            \* _c_shift_count (9ddc2f3): not (0 <= n < 64) raises FFIError
            [] op = "<<" -> IF b.neg \/ ~ZLt(b, Z(64)) THEN PErr("FFIError: invalid shift count")
                            ELSE PVal(ZShl(a, ZToInt(b)))
            [] op = ">>" -> IF b.neg \/ ~ZLt(b, Z(64)) THEN PErr("FFIError: invalid shift count")
                            ELSE PVal(ZShrFloor(a, ZToInt(b)))
            [] op = "&" -> PVal(ZBitOp("and", a, b, V, TRUE))                            \* Python: infinite two's complement
            [] op = "|" -> PVal(ZBitOp("or", a, b, V, TRUE))
            [] op = "^" -> PVal(ZBitOp("xor", a, b, V, TRUE))

(***************************************************************************)
(* both evaluations in one pass, per node                                  *)
(***************************************************************************)
ChName(ch) == CASE ch = 110 -> "n" [] ch = 116 -> "t" [] ch = 114 -> "r" [] ch = 97 -> "a"
                [] ch = 98 -> "b" [] ch = 102 -> "f" [] ch = 118 -> "v"
                [] ch \in 48..55 -> <<"0", "1", "2", "3", "4", "5", "6", "7">>[ch - 47] [] OTHER -> "?"

\* class of a node at which the two evaluations part although they agree on all operands
Classify(e, c, xs) ==
  IF e.op = "chr" THEN "char-escape:" \o ChName(e.ch)
  ELSE IF c.t.sgn THEN "other:" \o e.op
  ELSE IF \E i \in 1..Len(xs) : xs[i].c.v.neg THEN "negative-to-unsigned:" \o e.op
  ELSE "unsigned-wrap:" \o e.op

\* result: [c |-> C result, p |-> cffi result, culprit |-> "" or class, nodes |-> post-order sequence of C results]
RECURSIVE Eval(_)
Node(e, c, p, xs) ==
  LET sub == IF \E i \in 1..Len(xs) : xs[i].culprit # ""
             THEN xs[CHOOSE i \in 1..Len(xs) : xs[i].culprit # "" /\ \A j \in 1..(i - 1) : xs[j].culprit = ""].culprit
             ELSE ""
      nodes == (IF Len(xs) >= 1 THEN xs[1].nodes ELSE <<>>) \o (IF Len(xs) >= 2 THEN xs[2].nodes ELSE <<>>) \o <<c>>
  IN [c |-> c, p |-> p, nodes |-> nodes,
      culprit |-> IF sub # "" THEN sub
                  ELSE IF c.def /\ (p.err # "" \/ p.v # c.v) THEN Classify(e, c, xs) ELSE ""]
Eval(e) ==
  CASE e.op = "lit" -> Node(e, CLit(e), PLit(e), <<>>)
    [] e.op = "chr" -> Node(e, CChr(e), PChr(e), <<>>)
    [] e.op \in {"neg", "pos"} ->
         Bind(Eval(e.a), LAMBDA x : Bind(CUnary(e.op, x.c), LAMBDA c :
           Node(e, c, IF c.def THEN PUnary(e.op, x.p) ELSE PErr("undefined in C"), <<x>>)))
    [] OTHER ->
         Bind(Eval(e.a), LAMBDA x : Bind(Eval(e.b), LAMBDA y :
           Bind(CBinary(e.op, x.c, y.c), LAMBDA c :
             \* (the implementation is only evaluated where C defines the value: the property is silent elsewhere)
             Node(e, c, IF c.def THEN PBinary(e.op, x.p, y.p) ELSE PErr("undefined in C"), <<x, y>>))))

CEval(e) == Eval(e).c
CffiEval(e) == Eval(e).p
Defined(e) == Eval(e).c.def

\* The classes of disagreement that are recorded as known findings of C09; everything else is
\* required to agree.
KnownClass(cls) ==
  \/ cls \in {"unsigned-wrap:" \o x : x \in {"neg", "+", "-", "*", "<<"}}
  \/ cls \in {"negative-to-unsigned:" \o x : x \in {"+", "-", "*", "/", "%", "&", "|", "^"}}

\* the refinement statement for one expression
AgreeModuloKnown(e) == \E r \in {Eval(e)} :
    r.c.def => (r.p.err = "" /\ r.p.v = r.c.v) \/ KnownClass(r.culprit)
AgreeExactly(e) == \E r \in {Eval(e)} : r.c.def => (r.p.err = "" /\ r.p.v = r.c.v)
=============================================================================
