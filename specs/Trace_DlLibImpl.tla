------------------------------ MODULE Trace_DlLibImpl ------------------------------
(* Replays recorded operation sequences on the implementation model DlLib (Mode given by the
   configuration) and compares, after every step, what the real code did with what the model
   predicts: outcome class, exception class, value, number of dlsym()/dlclose() calls and (in-line)
   the projected caches library.__dict__ and the FFILibrary properties.
   The verdict per trace is "same" or <<position, field>> of the first difference; differences are
   *model divergences* (reported as notes): the verdict about C37 comes from Trace_DlLib. *)
EXTENDS DlLib, Sequences, Json, IOUtils
VARIABLES k, i, div, reported
Traces == JsonDeserialize(IOEnv.TRACE_FILE)
tvars == <<vars, k, i, div, reported>>

TInit == Init /\ k \in 1..Len(Traces) /\ i = 1 /\ div = "" /\ reported = FALSE

ToSet(s) == {s[j] : j \in DOMAIN s}

Act(e) == CASE e.ev = "open"      -> IF e.how = "handle" THEN OpenH(e.l, e.arg) ELSE Open(e.l, e.arg)
            [] e.ev = "close"     -> Close(e.l)
            [] e.ev = "call"      -> Call(e.l, e.n)
            [] e.ev = "getfunc"   -> IF Mode = "inline" THEN IGetFunc(e.l, e.n, "getfunc")
                                     ELSE OGet(e.l, e.n, "getfunc")
            [] e.ev = "addressof" -> IF Mode = "outofline" THEN OGet(e.l, e.n, "addressof")
                                     ELSE IF e.n \in Funcs THEN IGetFunc(e.l, e.n, "addressof")
                                     ELSE IAddressOfVar(e.l, e.n)
            [] e.ev = "readvar"   -> IF Mode = "inline" THEN IReadVar(e.l, e.n) ELSE OReadVar(e.l, e.n)
            [] e.ev = "writevar"  -> IF Mode = "inline" THEN IWriteVar(e.l, e.n, e.x)
                                     ELSE OWriteVar(e.l, e.n, e.x)
            [] OTHER -> FALSE

\* first field in which the model's prediction (primed) differs from the record
Diff(e) == CASE det'.out # e.out -> "out"
             [] det'.exc # e.exc -> "exc"
             [] det'.val # e.val -> "val"
             [] det'.sym # e.sym -> "sym"
             [] det'.cls # e.cls -> "cls"
             [] Mode = "inline" /\ dict'[e.l] # ToSet(e.d) -> "dict"
             [] Mode = "inline" /\ props'[e.l] # ToSet(e.p) -> "props"
             [] OTHER -> ""

Consume == /\ i <= Len(Traces[k]) /\ div = ""
           /\ LET e == Traces[k][i] IN
                /\ Act(e)
                /\ div' = (IF Diff(e) = "" THEN "" ELSE Diff(e))
           /\ i' = i + 1 /\ UNCHANGED <<k, reported>>

\* the model cannot take the recorded operation at all (e.g. Call of a function it has not fetched)
Stuck == /\ i <= Len(Traces[k]) /\ div = "" /\ ~ENABLED Act(Traces[k][i])
         /\ div' = "stuck" /\ i' = i + 1 /\ UNCHANGED <<vars, k, reported>>

Report == /\ (i > Len(Traces[k]) \/ div # "") /\ ~reported
          /\ PrintT(<<"IMPL", k, IF div = "" THEN "same" ELSE div, i - 1>>)
          /\ reported' = TRUE /\ UNCHANGED <<vars, k, i, div>>

TNext == Consume \/ Stuck \/ Report
TSpec == TInit /\ [][TNext]_tvars
=============================================================================
