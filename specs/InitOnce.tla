------------------------------ MODULE InitOnce ------------------------------
(* Implementation model of ffi.init_once, one action per shared-memory operation.
   The same step structure describes both implementations:
     FFI.init_once (src/cffi/api.py)            ffi_init_once (src/c/ffi_obj.c)
     p1  x = cache[tag]                         PyDict_GetItemRef(cache, tag)
     p2  cache.setdefault(tag,(False,lock))     cache.setdefault(tag, (False, capsule))
     p3  if x[0]: return x[1]                   PyTuple_GET_ITEM(tup,0) == Py_True
     p4  lock.__enter__                         PyThread_acquire_lock (GIL released)
     p5  x = cache[tag]; if x[0]: return        PyDict_GetItem(cache, tag)
     p6  result = func()   (start / end)        PyObject_CallFunction(func)
     p7  cache[tag] = (True, result)            PyDict_SetItem
     p8  lock.__exit__ (also on exception)      PyThread_release_lock
   Constant Variant selects deliberately broken variants used to show that the
   properties are not vacuous ("norecheck": p5 omitted; "cacheexc": p7 also after a
   raise; "earlyrelease": p8 before p7). *)
EXTENDS Naturals, Sequences, FiniteSets, TLC
CONSTANTS Threads, Tags, MaxCalls, Variant
VARIABLES cache,   \* cache[g] = <<"none">> | <<"lock", id>> | <<"done", v>>
          holder,  \* holder[id] = thread holding lock id, or 0
          pc, x, tag, ncall, res, outcome

vars == <<cache, holder, pc, x, tag, ncall, res, outcome>>
LockIds == Threads \X (1..MaxCalls)
Vals == {t * 10 + i : t \in Threads, i \in 1..MaxCalls}
None == <<"none">>

Init == /\ cache = [g \in Tags |-> None]
        /\ holder = [l \in LockIds |-> 0]
        /\ pc = [t \in Threads |-> "idle"]
        /\ x = [t \in Threads |-> None]
        /\ tag = [t \in Threads |-> "notag"]
        /\ ncall = [t \in Threads |-> 0]
        /\ res = [t \in Threads |-> 0]
        /\ outcome = [t \in Threads |-> <<>>]    \* sequence of <<"ret", v>> / <<"exc">> per finished call

Goto(t, l) == pc' = [pc EXCEPT ![t] = l]

Begin(t) == /\ pc[t] = "idle" /\ ncall[t] < MaxCalls
            /\ \E g \in Tags : tag' = [tag EXCEPT ![t] = g]
            /\ ncall' = [ncall EXCEPT ![t] = @ + 1]
            /\ Goto(t, "p1") /\ UNCHANGED <<cache, holder, x, res, outcome>>

P1(t) == /\ pc[t] = "p1"
         /\ x' = [x EXCEPT ![t] = cache[tag[t]]]
         /\ Goto(t, IF cache[tag[t]] = None THEN "p2" ELSE "p3")
         /\ UNCHANGED <<cache, holder, tag, ncall, res, outcome>>

P2(t) == /\ pc[t] = "p2"
         /\ LET new == IF cache[tag[t]] = None THEN <<"lock", <<t, ncall[t]>> >> ELSE cache[tag[t]]
            IN cache' = [cache EXCEPT ![tag[t]] = new] /\ x' = [x EXCEPT ![t] = new]
         /\ Goto(t, "p3") /\ UNCHANGED <<holder, tag, ncall, res, outcome>>

Finish(t, o) == /\ outcome' = [outcome EXCEPT ![t] = Append(@, o)]
                /\ Goto(t, "idle")

P3(t) == /\ pc[t] = "p3"
         /\ IF x[t][1] = "done"
              THEN Finish(t, <<"ret", x[t][2]>>)
              ELSE Goto(t, "p4") /\ UNCHANGED outcome
         /\ UNCHANGED <<cache, holder, x, tag, ncall, res>>

P4(t) == /\ pc[t] = "p4" /\ holder[x[t][2]] = 0
         /\ holder' = [holder EXCEPT ![x[t][2]] = t]
         /\ Goto(t, IF Variant = "norecheck" THEN "p6" ELSE "p5")
         /\ UNCHANGED <<cache, x, tag, ncall, res, outcome>>

\* p5 keeps the lock id in a separate place: x[t] is overwritten by the re-read in the
\* Python code but the with-statement still holds the lock object.
MyLock(t) == CHOOSE l \in LockIds : holder[l] = t

P5(t) == /\ pc[t] = "p5"
         /\ IF cache[tag[t]][1] = "done"
              THEN res' = [res EXCEPT ![t] = cache[tag[t]][2]] /\ Goto(t, "p8r")
              ELSE Goto(t, "p6") /\ UNCHANGED res
         /\ UNCHANGED <<cache, holder, x, tag, ncall, outcome>>

P6(t) == /\ pc[t] = "p6" /\ Goto(t, "p6b")
         /\ UNCHANGED <<cache, holder, x, tag, ncall, res, outcome>>

P6bOk(t) == /\ pc[t] = "p6b"
            /\ res' = [res EXCEPT ![t] = t * 10 + ncall[t]]
            /\ Goto(t, IF Variant = "earlyrelease" THEN "p8e" ELSE "p7")
            /\ UNCHANGED <<cache, holder, x, tag, ncall, outcome>>

P6bExc(t) == /\ pc[t] = "p6b"
             /\ IF Variant = "cacheexc"
                  THEN res' = [res EXCEPT ![t] = 0] /\ Goto(t, "p7x")
                  ELSE Goto(t, "p8x") /\ UNCHANGED res
             /\ UNCHANGED <<cache, holder, x, tag, ncall, outcome>>

P7(t) == /\ pc[t] \in {"p7", "p7x", "p7e"}
         /\ cache' = [cache EXCEPT ![tag[t]] = <<"done", res[t]>>]
         /\ IF pc[t] = "p7e" THEN Finish(t, <<"ret", res[t]>>)
            ELSE Goto(t, IF pc[t] = "p7" THEN "p8" ELSE "p8x") /\ UNCHANGED outcome
         /\ UNCHANGED <<holder, x, tag, ncall, res>>

P8(t) == /\ pc[t] \in {"p8", "p8r", "p8x", "p8e"}
         /\ holder' = [holder EXCEPT ![MyLock(t)] = 0]
         /\ CASE pc[t] = "p8x" -> Finish(t, <<"exc">>)
              [] pc[t] = "p8e" -> Goto(t, "p7e") /\ UNCHANGED outcome
              [] OTHER -> Finish(t, <<"ret", res[t]>>)
         /\ UNCHANGED <<cache, x, tag, ncall, res>>

Step(t) == Begin(t) \/ P1(t) \/ P2(t) \/ P3(t) \/ P4(t) \/ P5(t) \/ P6(t)
           \/ P6bOk(t) \/ P6bExc(t) \/ P7(t) \/ P8(t)
Next == \E t \in Threads : Step(t)
Spec == Init /\ [][Next]_vars
FairSpec == Spec /\ \A t \in Threads : WF_vars(P1(t) \/ P2(t) \/ P3(t) \/ P4(t) \/ P5(t) \/ P6(t)
                                                \/ P6bOk(t) \/ P6bExc(t) \/ P7(t) \/ P8(t))

\* ------------------------------------------------------------------ refinement of the ideal
phBar(t) == CASE pc[t] = "idle" -> "idle"
              [] pc[t] \in {"p1", "p2", "p3", "p4", "p5", "p6", "p8r"} -> "called"
              [] pc[t] = "p6b" -> "inF"
              [] pc[t] \in {"p7", "p8", "p8e", "p7e"} -> "fOk"
              [] OTHER -> "fRaised"     \* p8x, p7x
stBar == [t \in Threads |->
            IF pc[t] = "idle" THEN [ph |-> "idle", tag |-> "notag", val |-> 0]
            ELSE [ph |-> phBar(t), tag |-> tag[t],
                  val |-> IF phBar(t) = "fOk" THEN res[t] ELSE 0]]
doneBar == [g \in Tags |->
              IF \E t \in Threads : phBar(t) = "fOk" /\ tag[t] = g
                THEN <<res[CHOOSE t \in Threads : phBar(t) = "fOk" /\ tag[t] = g]>>
              ELSE IF cache[g][1] = "done" THEN <<cache[g][2]>> ELSE <<>>]

Ideal == INSTANCE InitOnceIdeal WITH st <- stBar, done <- doneBar
RefinesIdeal == Ideal!ISpec

\* ------------------------------------------------------------------ direct invariants
InFSet(g) == {t \in Threads : pc[t] = "p6b" /\ tag[t] = g}
MutexF == \A g \in Tags : Cardinality(InFSet(g)) <= 1
ReturnsAgree == \A t, u \in Threads : \A i \in 1..Len(outcome[t]) : \A j \in 1..Len(outcome[u]) :
                  TRUE   \* per-tag agreement is checked through the refinement (ReturnG)
LockSafe == \A t \in Threads : pc[t] \in {"p5", "p6", "p6b", "p7", "p8", "p8r", "p8x"} =>
               \E l \in LockIds : holder[l] = t
EveryCallReturns == \A t \in Threads : (pc[t] # "idle") ~> (pc[t] = "idle")
=============================================================================
