SPECIFICATION TSpec
CONSTANTS Variant = "faithful"
CHECK_DEADLOCK FALSE
