------------------------------ MODULE LifetimeIdeal ------------------------------
(* Property C21 itself, as a state machine over operations on cdata objects ("entities") and the
   references the *program* holds to them.  The machine knows only what the documentation
   promises: which object keeps which alive, and when destructors may / must run.

   Entities (kind):  "P" ffi.new("int[2]")                 "S" p = ffi.new("struct s *")
                     "W" ffi.gc(target, destructor)         "A" allocator("int[2]")
                     "T" p = allocator("struct s *")        (allocator = ffi.new_allocator(alloc, free))
                     "V" ffi.from_buffer(exporter)          "E" a bytearray (exporter)
                     "H" ffi.new_handle(obj)
   References of the program: name[o] (a variable), alias[o] (a variable holding p[0], kinds S and T),
   cyc[o] (o was stored into a reference cycle and the variable deleted: unreachable, but only
   the cycle collector can reclaim it).

   Every operation is one event carrying `ran`, the sequence of destructor / free-function calls
   observed while it executed, `exc` (the exception class it raised, "" if none) and the
   observation `obs` of probes.  Clauses:
     AtMostOnce / NeverAfterNone : a call in `ran` is of an *armed* entity, which is then disarmed
     OnlyWhenDue   : ... and that entity is being released by this very operation, or is no longer
                     reachable from the program's references
     AtRelease     : ffi.release(w) / with-exit of an armed ffi.gc() wrapper runs its destructor
     AtCollection  : after gc.collect(), no armed unreachable entity is left (so: exactly once at
                     quiescence, for ffi.gc() wrappers and for allocator frees)
     Idempotent    : ffi.release() never raises on a releasable object and a second release runs nothing
     Locked        : resizing an exporter raises BufferError while a reachable unreleased view
                     exists, and does not once all its views are released or collected
     KeptAlive     : the exporter stays alive while such a view exists
     StructValid   : memory of ffi.new("struct s *") is valid while p or p[0] is referenced
     Handle        : from_handle(h) is the object given to new_handle(); live handles are distinct *)
EXTENDS Naturals, Sequences, FiniteSets
CONSTANTS Ids
VARIABLES kind,    \* kind[o]: "" (not created yet) or one of the kinds above
          name, alias, cyc,      \* the program's references
          tgt,     \* tgt[w]: the entity wrapped by the ffi.gc() wrapper w, exp of views: tgt[v] = exporter
          armed,   \* armed[o] \in {"armed", "none", "done"}: destructor / free function pending
          relsd,   \* relsd[o]: ffi.release(o) (or with-exit) has been executed
          gone,    \* gone[o]: o was unreachable at some gc.collect()
          haddr    \* haddr[h]: address of the handle h
ivars == <<kind, name, alias, cyc, tgt, armed, relsd, gone, haddr>>

Kinds == {"P", "S", "W", "A", "T", "V", "E", "H"}
HasDtor(k) == k \in {"W", "A", "T"}
HasAlias(k) == k \in {"S", "T"}
Releasable(k) == k \in {"P", "S", "W", "A", "T", "V"}

IInit == /\ kind = [o \in Ids |-> ""] /\ name = [o \in Ids |-> FALSE] /\ alias = [o \in Ids |-> FALSE]
         /\ cyc = [o \in Ids |-> FALSE] /\ tgt = [o \in Ids |-> 0] /\ armed = [o \in Ids |-> "none"]
         /\ relsd = [o \in Ids |-> FALSE] /\ gone = [o \in Ids |-> FALSE] /\ haddr = [o \in Ids |-> 0]

\* ---- reachability from the program's references (nm, al) along the documented keep-alive edges:
\*      an unreleased ffi.gc() wrapper keeps its target, an unreleased view keeps its exporter
Edge(o, rl) == IF kind[o] \in {"W", "V"} /\ ~rl[o] /\ tgt[o] # 0 THEN {tgt[o]} ELSE {}
RECURSIVE Closure(_, _)
Closure(S, rl) == LET N == S \cup UNION {Edge(o, rl) : o \in S} IN IF N = S THEN S ELSE Closure(N, rl)
Reach(nm, al, rl) == Closure({o \in Ids : nm[o] \/ al[o]}, rl)
ReachNow == Reach(name, alias, relsd)

\* ---- the calls observed during one operation: r \in ran is an entity id
RECURSIVE RanOK(_, _, _, _)
\* ran: remaining calls; arm: armed so far; rel: the set of entities released during this operation;
\* R: entities reachable once the operation has changed the program's references
RanOK(ran, arm, rel, R) ==
    IF ran = <<>> THEN TRUE
    ELSE LET r == Head(ran) IN
         /\ r \in Ids /\ HasDtor(kind[r])
         /\ arm[r] = "armed"                       \* AtMostOnce, NeverAfterNone
         /\ (r \in rel \/ r \notin R)              \* OnlyWhenDue
         /\ RanOK(Tail(ran), [arm EXCEPT ![r] = "done"], rel, R)
Disarm(ran) == [o \in Ids |-> IF \E i \in DOMAIN ran : ran[i] = o THEN "done" ELSE armed[o]]

\* ---- guards and effects; e is the event record.  The guard of every operation is split into
\*      Pre(e)   the operation is one the program can perform now (a failure is a harness error)
\*      Calls(e) the clauses about the destructor / free calls in e.ran
\*      Post(e)  the clause specific to the operation
Created(o) == kind[o] # ""
Fresh(o) == kind[o] = ""
Upd(f, o, v) == [f EXCEPT ![o] = v]

\* the program's references and the released flags once the operation has taken effect
NameAfter(e)  == CASE e.op \in {"drop", "cycle"} -> Upd(name, e.o, FALSE)
                   [] e.op = "new" -> Upd(name, e.o, TRUE)
                   [] OTHER -> name
AliasAfter(e) == CASE e.op = "alias" -> Upd(alias, e.o, TRUE)
                   [] e.op = "dropalias" -> Upd(alias, e.o, FALSE)
                   [] OTHER -> alias
CycAfter(e)   == IF e.op = "cycle" THEN Upd(cyc, e.o, TRUE) ELSE cyc
\* e.nrel: the wrappers on which a destructor running during this operation called ffi.release()
\* itself (re-entrancy: the program may release any wrapper it holds from inside a destructor,
\* including the one being finalized); they are released by the program just like e.o of a release
NRel(e) == {e.nrel[i] : i \in DOMAIN e.nrel}
Rels(e) == (IF e.op = "release" THEN {e.o} ELSE {}) \cup NRel(e)
RelsdAfter(e) == [o \in Ids |-> relsd[o] \/ o \in Rels(e)]
ReachAfter(e) == Reach(NameAfter(e), AliasAfter(e), RelsdAfter(e))

Pre(e) ==
    CASE e.op = "new" ->
           /\ Fresh(e.o) /\ e.k \in Kinds
           /\ (e.k \in {"W", "V"} => (Created(e.t) /\ name[e.t]))
           /\ (e.k = "V" => kind[e.t] = "E")
           /\ (e.k = "W" => kind[e.t] \in {"P", "S", "W", "A", "T", "V"})
      [] e.op = "alias"       -> Created(e.o) /\ HasAlias(kind[e.o]) /\ name[e.o]
      [] e.op = "dropalias"   -> Created(e.o) /\ alias[e.o]
      [] e.op \in {"drop", "cycle"} -> Created(e.o) /\ name[e.o]
      [] e.op = "release"     -> /\ Created(e.o) /\ Releasable(kind[e.o])
                                 /\ (IF e.via = "alias" THEN alias[e.o] /\ kind[e.o] = "T" ELSE name[e.o])
      [] e.op = "gcnone"      -> Created(e.o) /\ kind[e.o] = "W" /\ name[e.o]
      [] e.op = "collect"     -> TRUE
      [] e.op \in {"probelock", "probealive"} -> Created(e.o) /\ kind[e.o] = "E"
      [] e.op = "probestruct" -> Created(e.o) /\ kind[e.o] \in {"S", "T"} /\ (name[e.o] \/ alias[e.o])
      [] e.op = "fromhandle"  -> Created(e.o) /\ kind[e.o] = "H" /\ name[e.o]
      [] OTHER -> FALSE

Calls(e) == RanOK(e.ran, armed, Rels(e), ReachAfter(e))
\* the first offending call, for the verdict
RECURSIVE CallsWhy(_, _, _, _)
CallsWhy(ran, arm, rel, R) ==
    IF ran = <<>> THEN "" ELSE
    LET r == Head(ran) IN
    IF ~(r \in Ids /\ HasDtor(kind[r])) THEN "UnknownCall"
    ELSE IF arm[r] = "done" THEN "AtMostOnce"
    ELSE IF arm[r] = "none" THEN "NeverAfterNone"
    ELSE IF ~(r \in rel \/ r \notin R) THEN "OnlyWhenDue"
    ELSE CallsWhy(Tail(ran), [arm EXCEPT ![r] = "done"], rel, R)

Views(x) == {v \in Ids : kind[v] = "V" /\ tgt[v] = x /\ ~relsd[v]}
\* Post(e) gives "" or the name of the violated clause
Post(e) ==
    CASE e.op = "new" ->
           IF e.exc # "" THEN "Harness"
           ELSE IF e.k = "H" /\ \E x \in Ids : kind[x] = "H" /\ x \in ReachNow /\ haddr[x] = e.addr
                THEN "HandleDistinct" ELSE ""
      [] e.op = "release" ->
           IF e.exc # "" THEN "Idempotent"                                  \* release never raises
           ELSE IF kind[e.o] = "W" /\ armed[e.o] = "armed" /\ ~\E i \in DOMAIN e.ran : e.ran[i] = e.o
                THEN "AtRelease" ELSE ""
      [] e.op = "collect" ->
           IF \E o \in Ids : Created(o) /\ HasDtor(kind[o]) /\ Disarm(e.ran)[o] = "armed" /\ o \notin ReachNow
           THEN "AtCollection" ELSE ""
      [] e.op = "probelock" ->       \* e.obs = TRUE iff resizing raised BufferError
           IF (\E v \in Views(e.o) : v \in ReachNow) /\ e.obs # TRUE THEN "Locked"
           ELSE IF e.obs = TRUE /\ ~\E v \in Views(e.o) : ~gone[v] THEN "Unlocked" ELSE ""
      [] e.op = "probealive" ->      \* e.obs = TRUE iff the exporter is still alive
           IF (name[e.o] \/ \E v \in Views(e.o) : v \in ReachNow) /\ e.obs # TRUE THEN "KeptAlive" ELSE ""
      [] e.op = "probestruct" ->     \* e.obs = TRUE iff the struct's owner is alive and its content intact
           IF (kind[e.o] = "S" \/ armed[e.o] # "done") /\ e.obs # TRUE THEN "StructValid" ELSE ""
      [] e.op = "fromhandle" ->      \* e.obs = TRUE iff from_handle(h) is the object given to new_handle()
           IF e.obs # TRUE \/ e.exc # "" THEN "FromHandle" ELSE ""
      [] OTHER -> IF e.exc # "" THEN "Harness" ELSE ""

\* a nested release of an armed ffi.gc() wrapper runs its destructor, too (AtRelease)
NestedOK(e) == \A x \in NRel(e) : (kind[x] = "W" /\ armed[x] = "armed") => \E i \in DOMAIN e.ran : e.ran[i] = x
NestedPre(e) == \A x \in NRel(e) : x \in Ids /\ Created(x) /\ name[x] /\ Releasable(kind[x])
Guard(e) == Pre(e) /\ NestedPre(e) /\ Calls(e) /\ NestedOK(e) /\ Post(e) = ""
Why(e) == IF ~Pre(e) \/ ~NestedPre(e) THEN "Harness"
          ELSE IF ~Calls(e) THEN CallsWhy(e.ran, armed, Rels(e), ReachAfter(e))
          ELSE IF ~NestedOK(e) THEN "AtRelease"
          ELSE Post(e)

Effect(e) ==
    /\ name' = NameAfter(e) /\ alias' = AliasAfter(e) /\ relsd' = RelsdAfter(e)
    /\ cyc' = (IF e.op = "collect" THEN [o \in Ids |-> FALSE] ELSE CycAfter(e))
    /\ kind' = (IF e.op = "new" THEN Upd(kind, e.o, e.k) ELSE kind)
    /\ tgt' = (IF e.op = "new" /\ e.k \in {"W", "V"} THEN Upd(tgt, e.o, e.t) ELSE tgt)
    /\ haddr' = (IF e.op = "new" /\ e.k = "H" THEN Upd(haddr, e.o, e.addr) ELSE haddr)
    /\ gone' = (IF e.op = "collect" THEN [o \in Ids |-> gone[o] \/ (Created(o) /\ o \notin ReachNow)] ELSE gone)
    /\ armed' = (CASE e.op = "new" -> Upd(Disarm(e.ran), e.o, IF HasDtor(e.k) THEN "armed" ELSE "none")
                   [] e.op = "gcnone" -> [Disarm(e.ran) EXCEPT ![e.o] = IF @ = "armed" THEN "none" ELSE @]
                   [] OTHER -> Disarm(e.ran))
=============================================================================
