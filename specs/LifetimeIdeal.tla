------------------------------ MODULE LifetimeIdeal ------------------------------
(* Property C21 itself, as a state machine over operations on cdata objects ("entities") and the
   references the *program* holds to them.  The machine knows only what the documentation
   promises: which object keeps which alive, and when destructors may / must run.

   Entities (kind):  "P" ffi.new("int[2]")                 "S" p = ffi.new("struct s *")
                     "W" ffi.gc(target, destructor)         "A" allocator("int[2]")
                     "T" p = allocator("struct s *")        (allocator = ffi.new_allocator(alloc, free))
                     "V" ffi.from_buffer(exporter)          "E" a bytearray (exporter)
                     "H" ffi.new_handle(obj)
   References of the program: name[o] (a variable), alias[o] (a variable holding p[0], kinds S and T),
   cyc[o] (o was stored into a reference cycle and the variable deleted: unreachable, but only
   the cycle collector can reclaim it).

   Every operation is one event carrying `ran`, the sequence of destructor / free-function calls
   observed while it executed, `exc` (the exception class it raised, "" if none) and the
   observation `obs` of probes.  Clauses:
     AtMostOnce / NeverAfterNone : a call in `ran` is of an *armed* entity, which is then disarmed
     OnlyWhenDue   : ... and that entity is being released by this very operation, or is no longer
                     reachable from the program's references
     AtRelease     : ffi.release(w) / with-exit of an armed ffi.gc() wrapper runs its destructor
     AtCollection  : after gc.collect(), no armed unreachable entity is left (so: exactly once at
                     quiescence, for ffi.gc() wrappers and for allocator frees)
     Idempotent    : ffi.release() never raises on a releasable object and a second release runs nothing
     Locked        : resizing an exporter raises BufferError while a reachable unreleased view
                     exists, and does not once all its views are released or collected
     KeptAlive     : the exporter stays alive while such a view exists
     StructValid   : memory of ffi.new("struct s *") is valid while p or p[0] is referenced
     Handle        : from_handle(h) is the object given to new_handle(); live handles are distinct *)
EXTENDS Naturals, Sequences, FiniteSets
CONSTANTS Ids
VARIABLES kind,    \* kind[o]: "" (not created yet) or one of the kinds above
          name, alias, cyc,      \* the program's references
          tgt,     \* tgt[w]: the entity wrapped by the ffi.gc() wrapper w, exp of views: tgt[v] = exporter
          armed,   \* armed[o] \in {"armed", "none", "done"}: destructor / free function pending
          relsd,   \* relsd[o]: ffi.release(o) (or with-exit) has been executed
          gone,    \* gone[o]: o was unreachable at some gc.collect()
          haddr    \* haddr[h]: address of the handle h
ivars == <<kind, name, alias, cyc, tgt, armed, relsd, gone, haddr>>

Kinds == {"P", "S", "W", "A", "T", "V", "E", "H"}
HasDtor(k) == k \in {"W", "A", "T"}
HasAlias(k) == k \in {"S", "T"}
Releasable(k) == k \in {"P", "S", "W", "A", "T", "V"}

IInit == /\ kind = [o \in Ids |-> ""] /\ name = [o \in Ids |-> FALSE] /\ alias = [o \in Ids |-> FALSE]
         /\ cyc = [o \in Ids |-> FALSE] /\ tgt = [o \in Ids |-> 0] /\ armed = [o \in Ids |-> "none"]
         /\ relsd = [o \in Ids |-> FALSE] /\ gone = [o \in Ids |-> FALSE] /\ haddr = [o \in Ids |-> 0]

\* ---- reachability from the program's references (nm, al) along the documented keep-alive edges:
\*      an unreleased ffi.gc() wrapper keeps its target, an unreleased view keeps its exporter
Edge(o, rl) == IF kind[o] \in {"W", "V"} /\ ~rl[o] /\ tgt[o] # 0 THEN {tgt[o]} ELSE {}
RECURSIVE Closure(_, _)
Closure(S, rl) == LET N == S \cup UNION {Edge(o, rl) : o \in S} IN IF N = S THEN S ELSE Closure(N, rl)
Reach(nm, al, rl) == Closure({o \in Ids : nm[o] \/ al[o]}, rl)
ReachNow == Reach(name, alias, relsd)

\* ---- the calls observed during one operation: r \in ran is an entity id
RECURSIVE RanOK(_, _, _, _)
\* ran: remaining calls; arm: armed so far; rel: the entity released by this operation (0 if none);
\* R: entities reachable once the operation has changed the program's references
RanOK(ran, arm, rel, R) ==
    IF ran = <<>> THEN TRUE
    ELSE LET r == Head(ran) IN
         /\ r \in Ids /\ HasDtor(kind[r])
         /\ arm[r] = "armed"                       \* AtMostOnce, NeverAfterNone
         /\ (r = rel \/ r \notin R)                \* OnlyWhenDue
         /\ RanOK(Tail(ran), [arm EXCEPT ![r] = "done"], rel, R)
Disarm(ran) == [o \in Ids |-> IF \E i \in DOMAIN ran : ran[i] = o THEN "done" ELSE armed[o]]

\* ---- guards (G) and effects (E); e is the event record
Created(o) == kind[o] # ""
Fresh(o) == kind[o] = ""

NewG(e) == /\ Fresh(e.o) /\ e.k \in Kinds /\ e.exc = ""
           /\ (e.k \in {"W", "V"} => (Created(e.t) /\ name[e.t] /\ kind[e.t] = (IF e.k = "V" THEN "E" ELSE kind[e.t])))
           /\ (e.k = "W" => kind[e.t] \in {"P", "S", "W", "A", "T", "V"})
           /\ RanOK(e.ran, armed, 0, ReachNow)
           \* Handle: live handles have pairwise distinct addresses
           /\ (e.k = "H" => \A h \in Ids : (kind[h] = "H" /\ h \in ReachNow) => haddr[h] # e.addr)
NewE(e) == /\ kind' = [kind EXCEPT ![e.o] = e.k] /\ name' = [name EXCEPT ![e.o] = TRUE]
           /\ tgt' = [tgt EXCEPT ![e.o] = IF e.k \in {"W", "V"} THEN e.t ELSE 0]
           /\ armed' = [Disarm(e.ran) EXCEPT ![e.o] = IF HasDtor(e.k) THEN "armed" ELSE "none"]
           /\ haddr' = [haddr EXCEPT ![e.o] = IF e.k = "H" THEN e.addr ELSE 0]
           /\ UNCHANGED <<alias, cyc, relsd, gone>>

\* the program's references change: nm, al, cy are the new values
RefsG(e, nm, al, rl, rel) == RanOK(e.ran, armed, rel, Reach(nm, al, rl))
RefsE(e, nm, al, cy, rl) == /\ name' = nm /\ alias' = al /\ cyc' = cy /\ relsd' = rl
                            /\ armed' = Disarm(e.ran) /\ UNCHANGED <<kind, tgt, gone, haddr>>

AliasG(e)     == Created(e.o) /\ HasAlias(kind[e.o]) /\ (name[e.o] \/ alias[e.o]) /\ e.exc = ""
                 /\ RefsG(e, name, [alias EXCEPT ![e.o] = TRUE], relsd, 0)
AliasE(e)     == RefsE(e, name, [alias EXCEPT ![e.o] = TRUE], cyc, relsd)
DropAliasG(e) == Created(e.o) /\ alias[e.o] /\ e.exc = ""
                 /\ RefsG(e, name, [alias EXCEPT ![e.o] = FALSE], relsd, 0)
DropAliasE(e) == RefsE(e, name, [alias EXCEPT ![e.o] = FALSE], cyc, relsd)
DropG(e)      == Created(e.o) /\ name[e.o] /\ e.exc = ""
                 /\ RefsG(e, [name EXCEPT ![e.o] = FALSE], alias, relsd, 0)
DropE(e)      == RefsE(e, [name EXCEPT ![e.o] = FALSE], alias, cyc, relsd)
CycleG(e)     == DropG(e)
CycleE(e)     == RefsE(e, [name EXCEPT ![e.o] = FALSE], alias, [cyc EXCEPT ![e.o] = TRUE], relsd)

\* ffi.release(x) / with x: ...   (via the name, or via the alias p[0] for kind T)
ReleaseG(e) ==
    /\ Created(e.o) /\ Releasable(kind[e.o]) /\ (IF e.via = "alias" THEN alias[e.o] /\ kind[e.o] = "T" ELSE name[e.o])
    /\ e.exc = ""                                                            \* Idempotent: never raises
    /\ RefsG(e, name, alias, [relsd EXCEPT ![e.o] = TRUE], e.o)
    /\ (kind[e.o] = "W" /\ armed[e.o] = "armed"
          => \E i \in DOMAIN e.ran : e.ran[i] = e.o)                         \* AtRelease
ReleaseE(e) == RefsE(e, name, alias, cyc, [relsd EXCEPT ![e.o] = TRUE])

\* ffi.gc(w, None)
GcNoneG(e) == Created(e.o) /\ kind[e.o] = "W" /\ name[e.o] /\ e.exc = "" /\ RanOK(e.ran, armed, 0, ReachNow)
GcNoneE(e) == /\ armed' = [Disarm(e.ran) EXCEPT ![e.o] = IF @ = "armed" THEN "none" ELSE @]
              /\ UNCHANGED <<kind, name, alias, cyc, tgt, relsd, gone, haddr>>

\* gc.collect()
CollectG(e) == /\ e.exc = "" /\ RanOK(e.ran, armed, 0, ReachNow)
               /\ \A o \in Ids : (Created(o) /\ HasDtor(kind[o]) /\ Disarm(e.ran)[o] = "armed")
                                   => o \in ReachNow                          \* AtCollection
CollectE(e) == /\ armed' = Disarm(e.ran)
               /\ gone' = [o \in Ids |-> gone[o] \/ (Created(o) /\ o \notin ReachNow)]
               /\ cyc' = [o \in Ids |-> FALSE]
               /\ UNCHANGED <<kind, name, alias, tgt, relsd, haddr>>

\* probes (no calls may happen during a probe unless due)
Views(x) == {v \in Ids : kind[v] = "V" /\ tgt[v] = x /\ ~relsd[v]}
ProbeLockG(e) ==         \* bytearray.extend(): e.obs = TRUE iff BufferError was raised
    /\ Created(e.o) /\ kind[e.o] = "E" /\ RanOK(e.ran, armed, 0, ReachNow)
    /\ ((\E v \in Views(e.o) : v \in ReachNow) => e.obs = TRUE)               \* Locked
    /\ (e.obs = TRUE => \E v \in Views(e.o) : ~gone[v])                       \* ... and not longer
ProbeAliveG(e) ==        \* weak reference to the exporter: e.obs = TRUE iff it is still alive
    /\ Created(e.o) /\ kind[e.o] = "E" /\ RanOK(e.ran, armed, 0, ReachNow)
    /\ ((name[e.o] \/ \E v \in Views(e.o) : v \in ReachNow) => e.obs = TRUE)  \* KeptAlive
ProbeStructG(e) ==       \* e.obs = TRUE iff the struct's owner is alive and its content intact
    /\ Created(e.o) /\ kind[e.o] \in {"S", "T"} /\ (name[e.o] \/ alias[e.o])
    /\ RanOK(e.ran, armed, 0, ReachNow)
    /\ ((kind[e.o] = "S" \/ armed[e.o] # "done") => e.obs = TRUE)             \* StructValid
FromHandleG(e) ==        \* e.obs = TRUE iff ffi.from_handle(h) is the object given to new_handle()
    /\ Created(e.o) /\ kind[e.o] = "H" /\ name[e.o] /\ RanOK(e.ran, armed, 0, ReachNow)
    /\ e.obs = TRUE /\ e.exc = ""                                             \* Handle
ProbeE(e) == armed' = Disarm(e.ran) /\ UNCHANGED <<kind, name, alias, cyc, tgt, relsd, gone, haddr>>

Guard(e) == CASE e.op = "new"       -> NewG(e)
              [] e.op = "alias"     -> AliasG(e)
              [] e.op = "dropalias" -> DropAliasG(e)
              [] e.op = "drop"      -> DropG(e)
              [] e.op = "cycle"     -> CycleG(e)
              [] e.op = "release"   -> ReleaseG(e)
              [] e.op = "gcnone"    -> GcNoneG(e)
              [] e.op = "collect"   -> CollectG(e)
              [] e.op = "probelock" -> ProbeLockG(e)
              [] e.op = "probealive" -> ProbeAliveG(e)
              [] e.op = "probestruct" -> ProbeStructG(e)
              [] e.op = "fromhandle" -> FromHandleG(e)
              [] OTHER -> FALSE
Effect(e) == CASE e.op = "new"       -> NewE(e)
               [] e.op = "alias"     -> AliasE(e)
               [] e.op = "dropalias" -> DropAliasE(e)
               [] e.op = "drop"      -> DropE(e)
               [] e.op = "cycle"     -> CycleE(e)
               [] e.op = "release"   -> ReleaseE(e)
               [] e.op = "gcnone"    -> GcNoneE(e)
               [] e.op = "collect"   -> CollectE(e)
               [] OTHER              -> ProbeE(e)

\* which clause of the property an event violates (for verdicts)
=============================================================================
