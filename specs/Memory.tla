------------------------------- MODULE Memory -------------------------------
(* C16 - array and pointer indexing, slicing and arithmetic follow the C model.

   A byte arena `mem` (a sequence of bytes; offsets are 0-based), cdata *views*
       [k |-> "arr" | "ptr" | "own", sz |-> item size, off |-> byte offset of item 0 in the
        arena (any integer: pointer arithmetic is unchecked in C), len |-> number of items
        (arrays; 1 for an owning pointer), safe |-> derived from an allocation through
        bounds-checked operations only]
   and the operations GetItem, SetItem, Slice, SliceAssign, PtrAdd, PtrSub, PtrDiff,
   AddressOf, OffsetOf.

   Section IDEAL is the property text of C16 (properties.jsonl) as operators: for every
   operation a guard (is it accepted?) and an effect (value, new view, new memory).
   Where the text is silent the ideal says "free".
   Section IMPLEMENTATION MODEL transcribes the checks and address computations of
   src/c/_cffi_backend.c (source lines in the comments).  The state machine at the end runs
   the implementation model; the action property IdealStep requires every one of its steps
   to satisfy the ideal (TLC, exhaustive within the constants of MC_Memory*.cfg).
   Variant # "faithful" selects deliberately broken implementation models that TLC must
   reject (non-vacuity). *)
EXTENDS Integers, Sequences, FiniteSets, TLC

CONSTANTS ISz,       \* item size of the root's element type (bytes)
          RootLen,   \* items in the root allocation (1 for an owning pointer)
          RootKind,  \* "arr" (ffi.new("T[n]")) or "own" (ffi.new("T*"))
          MaxViews,  \* bound on the number of views (root + derived)
          MaxSteps,  \* bound on the number of operations
          IdxNeg, IdxHi, \* indices, slice bounds and pointer offsets range over -IdxNeg..IdxHi
          Seeds,     \* item values written: seed b stands for the bytes b, b+1, ..
          Prune,     \* TRUE: states reached by an operation that changed nothing are not expanded
                     \*       (graph dumps for replay; exhaustive configurations use VIEW instead)
          Variant    \* "faithful" | "idx_le" | "slice_no_neg" | "own_any" | "ass_extra" |
                     \* "add_bytes" | "memcpy_fwd" | "mask"

VARIABLES mem, views, res, steps
vars == <<mem, views, res, steps>>
Idx == (0 - IdxNeg)..IdxHi

(* ------------------------------------------------------------------ bytes *)
OOB == 0 - 1                                   \* marker byte for "outside the arena"
InArena(m, off, n) == off >= 0 /\ off + n <= Len(m)
Read(m, off, n) == [k \in 1..n |-> IF off + k >= 1 /\ off + k <= Len(m) THEN m[off + k] ELSE OOB]
Write(m, off, bs) == [k \in 1..Len(m) |-> IF k > off /\ k <= off + Len(bs) THEN bs[k - off] ELSE m[k]]
Flat(ss) == LET F[n \in 0..Len(ss)] == IF n = 0 THEN <<>> ELSE F[n - 1] \o ss[n] IN F[Len(ss)]
SubSeqX(s, a, b) == IF a > b THEN <<>> ELSE SubSeq(s, a, b)

(* ------------------------------------------------------------------ IDEAL *)
(* A slice request: mi/mj = bound omitted (None), stp = a step was given. *)
Sl(i, j) == [i |-> i, j |-> j, mi |-> FALSE, mj |-> FALSE, stp |-> FALSE]

ItemOff(v, i) == v.off + i * v.sz              \* "p[i] lives i*sizeof(T) bytes past p"

(* "x[i] (read or write) is accepted iff 0 <= i < n"; "an owning pointer from ffi.new()
   accepts only index 0"; plain pointers: no rejection is stated. *)
IdxOK(v, i) == CASE v.k = "arr" -> 0 <= i /\ i < v.len
                 [] v.k = "own" -> i = 0
                 [] OTHER       -> TRUE

(* "x[i:j] iff 0 <= i <= j <= n with no step" (arrays).  For pointers the text states
   nothing: SliceFree. *)
SliceOK(v, s) == ~s.mi /\ ~s.mj /\ ~s.stp /\ 0 <= s.i /\ s.i <= s.j /\ s.j <= v.len
SliceFree(v) == v.k # "arr"
(* "an accepted slice is an array view of length j-i aliasing elements i..j-1" *)
SliceView(v, s) == [k |-> "arr", sz |-> v.sz, off |-> ItemOff(v, s.i), len |-> s.j - s.i,
                    safe |-> v.safe /\ v.k = "arr"]
PtrView(v, i) == [k |-> "ptr", sz |-> v.sz, off |-> ItemOff(v, i), len |-> 0, safe |-> FALSE]

IGetVal(m, v, i) == Read(m, ItemOff(v, i), v.sz)
ISetMem(m, v, i, bs) == Write(m, ItemOff(v, i), bs)
(* slice assignment with exactly j-i values: element i+k-1 becomes the k-th value; the values
   are taken before anything is written (they are values, not locations). *)
IAssMem(m, v, s, vals) == Write(m, ItemOff(v, s.i), Flat(vals))
ViewVals(m, w) == [k \in 1..w.len |-> Read(m, ItemOff(w, k - 1), w.sz)]
(* (p+i)-p == i *)
IDiff(v, w) == (v.off - w.off) \div v.sz
DiffTyped(v, w) == v.k \in {"ptr", "own"} /\ v.sz = w.sz            \* p - q between pointers to the same T
(* the difference is defined iff the byte distance is a multiple of sizeof(T); its value is distance / size *)
DiffDefined(v, w) == DiffTyped(v, w) /\ (v.off - w.off) % v.sz = 0
(* ffi.offsetof('T[]', i) == i*sizeof(T) *)
IOffsetOf(sz, i) == i * sz

(* Algebraic laws named by the statement, over the ideal operators (checked by TLC for all
   views reached and all i, j in Idx): *)
LawAlias(v, i, j) == ItemOff(PtrView(v, i), j) = ItemOff(v, i + j)
LawDiff(v, i)     == IDiff(PtrView(v, i), PtrView(v, 0)) = i
LawAddr(v, i)     == PtrView(v, i).off = v.off + IOffsetOf(v.sz, i)

(* --------------------------------------------------- IMPLEMENTATION MODEL *)
Err(c) == [st |-> c, off |-> 0, n |-> 0]
Ok(off, n) == [st |-> "ok", off |-> off, n |-> n]

(* _cdata_get_indexed_ptr, _cffi_backend.c:2469-2513 *)
MIndexedPtr(v, i) ==
  IF v.k \in {"ptr", "own"} THEN                                 \* CT_POINTER
      IF v.k = "own" /\ i # 0 /\ Variant # "own_any"             \* CDataOwn_Check: i != 0
         THEN Err("IndexError")
         ELSE Ok(v.off + i * v.sz, 1)
  ELSE                                                           \* CT_ARRAY
      IF i < 0 THEN Err("IndexError")                            \* "negative index"
      ELSE IF (IF Variant = "idx_le" THEN i > v.len ELSE i >= v.len)
         THEN Err("IndexError")                                  \* "index too large"
         ELSE Ok(v.off + i * v.sz, 1)

(* _cdata_getslicearg, _cffi_backend.c:2519-2569: bounds[0] = start, bounds[1] = stop-start *)
MSliceArg(v, s) ==
  IF s.mi THEN Err("IndexError")                                 \* "slice start must be specified"
  ELSE IF s.mj THEN Err("IndexError")                            \* "slice stop must be specified"
  ELSE IF s.stp THEN Err("IndexError")                           \* "slice with step not supported"
  ELSE IF s.i > s.j THEN Err("IndexError")                       \* "slice start > stop"
  ELSE IF v.k = "arr" THEN
      IF s.i < 0 /\ Variant # "slice_no_neg" THEN Err("IndexError")   \* "negative index"
      ELSE IF s.j > v.len THEN Err("IndexError")                 \* "index too large"
      ELSE Ok(v.off + v.sz * s.i, s.j - s.i)
  ELSE Ok(v.off + v.sz * s.i, s.j - s.i)                         \* CT_POINTER: unchecked

(* cdata_slice, :2572: new_sized_cdata(c_data + itemsize*bounds[0], T[], bounds[1]) *)
MSliceView(v, r) == [k |-> "arr", sz |-> v.sz, off |-> r.off, len |-> r.n,
                     safe |-> v.safe /\ v.k = "arr"]

(* cdata_ass_slice, :2597-2686, source = iterable of `cnt` values: items are converted and
   stored one by one; too few -> ValueError after storing them; one more than needed ->
   ValueError after storing `length` of them. *)
MAssList(m, r, sz, vals) ==
  LET cnt == Len(vals)
      stored == IF cnt < r.n THEN cnt ELSE r.n
      m2 == Write(m, r.off, Flat(SubSeqX(vals, 1, stored)))
  IN IF cnt < r.n THEN [st |-> "ValueError", mem |-> m2]
     ELSE IF cnt > r.n /\ Variant # "ass_extra" THEN [st |-> "ValueError", mem |-> m2]
     ELSE [st |-> "ok", mem |-> m2]
(* same, source = bytes / bytearray into a char array (:2631-2653): the length is compared first,
   nothing is stored on a mismatch, memcpy otherwise *)
MAssBytes(m, r, vals) ==
  IF Len(vals) # r.n THEN [st |-> "ValueError", mem |-> m]
  ELSE [st |-> "ok", mem |-> Write(m, r.off, Flat(vals))]
(* same, source = cdata array of the same item type and the same length: memmove (:2617-2624);
   any other cdata array is iterated like a list, reading its items while storing. *)
MMove(m, dst, src, n) ==          \* C memmove: as if through a temporary
  IF Variant = "memcpy_fwd"
    THEN LET F[k \in 0..n] == IF k = 0 THEN m ELSE Write(F[k - 1], dst + k - 1, Read(F[k - 1], src + k - 1, 1))
         IN F[n]
    ELSE Write(m, dst, Read(m, src, n))
MAssView(m, r, sz, w) ==
  IF w.len = r.n THEN [st |-> "ok", mem |-> MMove(m, r.off, w.off, sz * r.n)]
  ELSE LET stored == IF w.len < r.n THEN w.len ELSE r.n
           F[k \in 0..stored] == IF k = 0 THEN m
                                 ELSE Write(F[k - 1], r.off + (k - 1) * sz, Read(F[k - 1], ItemOff(w, k - 1), sz))
       IN [st |-> "ValueError", mem |-> F[stored]]

(* _cdata_add_or_sub, :2749-2798: new_simple_cdata(c_data + i*itemsize, T* ) *)
MAdd(v, i, sign) == [k |-> "ptr", sz |-> v.sz, len |-> 0, safe |-> FALSE,
                     off |-> IF Variant = "add_bytes" THEN v.off + i * sign
                                                      ELSE v.off + (i * sign) * v.sz]
(* cdata_sub with two cdata, :2809-2838 *)
(* d & m on C integers, m >= 0 small: the low bits of the two's complement of d *)
BitAnd(x, y) == LET F[k \in 0..16] == IF k = 16 THEN 0
                                      ELSE (IF (x \div (2^k)) % 2 = 1 /\ (y \div (2^k)) % 2 = 1 THEN 2^k ELSE 0) + F[k + 1]
                IN F[0]
CMask(d, m) == BitAnd(d % 65536, m)
CDiv(d, n) == IF d >= 0 THEN d \div n ELSE 0 - ((0 - d) \div n)            \* C division truncates
MDiff(v, w) ==
  LET d == v.off - w.off IN
  IF v.k = "arr" THEN [st |-> "TypeError", num |-> 0]            \* ct != cdv->c_type
  ELSE IF v.sz > 1 /\ (IF Variant = "mask" THEN CMask(d, v.sz - 1) # 0 ELSE d % v.sz # 0)
         THEN [st |-> "ValueError", num |-> 0]                   \* "not a multiple of the item size"
  ELSE [st |-> "ok", num |-> CDiv(d, v.sz)]
(* direct_typeoffsetof with an integer, :6665-6687, then rawaddressof / ffi_addressof *)
MOffsetOf(sz, i) == i * sz
MAddressOf(v, i) == [k |-> "ptr", sz |-> v.sz, len |-> 0, safe |-> FALSE, off |-> v.off + MOffsetOf(v.sz, i)]

(* ------------------------------------------------------------ the machine *)
ItemBytes(b) == [k \in 1..ISz |-> (b + k - 1) % 256]
Root == [k |-> RootKind, sz |-> ISz, off |-> 0, len |-> RootLen, safe |-> TRUE]
NoRes == [op |-> "init", a |-> 0, b |-> 0, s |-> Sl(0, 0), vals |-> <<>>, st |-> "ok",
          val |-> <<>>, num |-> 0, src |-> "list"]

Init == /\ mem = [k \in 1..(ISz * RootLen) |-> k]          \* distinct bytes: aliasing is visible at once
        /\ views = <<Root>>
        /\ res = NoRes
        /\ steps = 0

(* The environment never lets a *pointer-derived* view touch bytes outside the arena (undefined
   behaviour in C, nothing to verify); views derived from the allocation through checked
   operations are not restricted: if the model accepts an out-of-bounds access there, the
   refinement check fails. *)
Env(v, off, n) == v.safe \/ InArena(mem, off, n)
EnvSl(v, off, n) == (v.safe /\ v.k = "arr") \/ InArena(mem, off, n)   \* slices of pointers are unchecked

Expandable == \/ res.op = "init"
              \/ res.st = "ok" /\ res.op \in {"slice", "add", "sub", "addressof", "cast", "setitem", "assign", "assignview"}
              \/ res.op \in {"assign", "assignview"} /\ res.st = "ValueError"    \* partial stores

Tick == steps < MaxSteps /\ (Prune => Expandable) /\ steps' = steps + 1

GetItem(a, i) ==
  LET v == views[a]  r == MIndexedPtr(v, i) IN
  /\ Tick
  /\ r.st = "ok" => Env(v, r.off, v.sz)
  /\ res' = [NoRes EXCEPT !.op = "getitem", !.a = a, !.s = Sl(i, 0), !.st = r.st,
                          !.val = IF r.st = "ok" THEN Read(mem, r.off, v.sz) ELSE <<>>]
  /\ UNCHANGED <<mem, views>>

SetItem(a, i, b) ==
  LET v == views[a]  r == MIndexedPtr(v, i) IN
  /\ Tick
  /\ r.st = "ok" => Env(v, r.off, v.sz)
  /\ res' = [NoRes EXCEPT !.op = "setitem", !.a = a, !.s = Sl(i, 0), !.st = r.st, !.vals = <<ItemBytes(b)>>]
  /\ mem' = IF r.st = "ok" THEN Write(mem, r.off, ItemBytes(b)) ELSE mem
  /\ UNCHANGED views

Slice(a, s) ==
  LET v == views[a]  r == MSliceArg(v, s) IN
  /\ Tick
  /\ Len(views) < MaxViews
  /\ res' = [NoRes EXCEPT !.op = "slice", !.a = a, !.s = s, !.st = r.st]
  /\ views' = IF r.st = "ok" THEN Append(views, MSliceView(v, r)) ELSE views
  /\ UNCHANGED mem

SliceAssign(a, s, bs, src) ==     \* bs: sequence of seeds; src: a list/tuple/iterator, or bytes (char arrays)
  LET v == views[a]  r == MSliceArg(v, s)
      vals == [k \in 1..Len(bs) |-> ItemBytes(bs[k])]
      o == IF r.st # "ok" THEN [st |-> r.st, mem |-> mem]
           ELSE IF src = "bytes" THEN MAssBytes(mem, r, vals) ELSE MAssList(mem, r, v.sz, vals) IN
  /\ Tick
  /\ r.st = "ok" => EnvSl(v, r.off, v.sz * r.n)
  /\ res' = [NoRes EXCEPT !.op = "assign", !.a = a, !.s = s, !.st = o.st, !.vals = vals, !.src = src]
  /\ mem' = o.mem
  /\ UNCHANGED views

SliceAssignView(a, s, b) ==       \* x[i:j] = w   (w an array view)
  LET v == views[a]  w == views[b]  r == MSliceArg(v, s)
      o == IF r.st = "ok" THEN MAssView(mem, r, v.sz, w) ELSE [st |-> r.st, mem |-> mem] IN
  /\ Tick
  /\ w.k = "arr" /\ InArena(mem, w.off, w.sz * w.len)
  /\ r.st = "ok" => EnvSl(v, r.off, v.sz * r.n)
  /\ res' = [NoRes EXCEPT !.op = "assignview", !.a = a, !.b = b, !.s = s, !.st = o.st]
  /\ mem' = o.mem
  /\ UNCHANGED views

PtrAdd(a, i) ==
  /\ Tick
  /\ Len(views) < MaxViews
  /\ res' = [NoRes EXCEPT !.op = "add", !.a = a, !.s = Sl(i, 0)]
  /\ views' = Append(views, MAdd(views[a], i, 1))
  /\ UNCHANGED mem

PtrSub(a, i) ==
  /\ Tick
  /\ Len(views) < MaxViews
  /\ res' = [NoRes EXCEPT !.op = "sub", !.a = a, !.s = Sl(i, 0)]
  /\ views' = Append(views, MAdd(views[a], i, 0 - 1))
  /\ UNCHANGED mem

(* ffi.cast("T *", ffi.cast("char *", x) + nbytes): a pointer at any byte offset (b_cast: the address as is) *)
CastPtr(a, nb) ==
  /\ Tick
  /\ Len(views) < MaxViews
  /\ res' = [NoRes EXCEPT !.op = "cast", !.a = a, !.s = Sl(nb, 0)]
  /\ views' = Append(views, [k |-> "ptr", sz |-> views[a].sz, len |-> 0, safe |-> FALSE, off |-> views[a].off + nb])
  /\ UNCHANGED mem

PtrDiff(a, b) ==
  LET o == MDiff(views[a], views[b]) IN
  /\ Tick
  /\ res' = [NoRes EXCEPT !.op = "diff", !.a = a, !.b = b, !.st = o.st, !.num = o.num]
  /\ UNCHANGED <<mem, views>>

AddressOf(a, i) ==
  /\ Tick
  /\ Len(views) < MaxViews
  /\ res' = [NoRes EXCEPT !.op = "addressof", !.a = a, !.s = Sl(i, 0)]
  /\ views' = Append(views, MAddressOf(views[a], i))
  /\ UNCHANGED mem

OffsetOf(i) ==
  /\ Tick
  /\ res' = [NoRes EXCEPT !.op = "offsetof", !.s = Sl(i, 0), !.num = MOffsetOf(ISz, i)]
  /\ UNCHANGED <<mem, views>>

VIdx == 1..Len(views)
(* byte offsets of casts: only item sizes that are not powers of two get them (elsewhere every view
   stays a multiple of the item size apart, and the graphs stay small) *)
CastOffs == IF ISz \in {1, 2, 4, 8} THEN {} ELSE {1, ISz - 1, ISz, ISz + 1, 2 * ISz}
SliceReqs == {Sl(i, j) : i \in Idx, j \in Idx}
             \cup {[Sl(0, 1) EXCEPT !.mi = TRUE], [Sl(0, 1) EXCEPT !.mj = TRUE], [Sl(0, 1) EXCEPT !.stp = TRUE]}
(* value lists for slice assignment: n-1, n and n+1 distinct values *)
SeedSeqs(n) == {[k \in 1..c |-> (b + 8 * k) % 256] : c \in {x \in {n - 1, n, n + 1} : x >= 0}, b \in Seeds}

NextOp ==
        \/ \E a \in VIdx, i \in Idx : GetItem(a, i)
        \/ \E a \in VIdx, i \in Idx, b \in Seeds : SetItem(a, i, b)
        \/ \E a \in VIdx, s \in SliceReqs : Slice(a, s)
        \/ \E a \in VIdx, s \in SliceReqs, src \in (IF ISz = 1 THEN {"list", "bytes"} ELSE {"list"}) :
              \E bs \in SeedSeqs(s.j - s.i) : SliceAssign(a, s, bs, src)
        \/ \E a \in VIdx, b \in VIdx, s \in SliceReqs : SliceAssignView(a, s, b)
        \/ \E a \in VIdx, i \in Idx : PtrAdd(a, i)
        \/ \E a \in VIdx, i \in Idx : PtrSub(a, i)
        \/ \E a \in VIdx, b \in VIdx : PtrDiff(a, b)
        \/ \E a \in VIdx, nb \in CastOffs : CastPtr(a, nb)
        \/ \E a \in VIdx, i \in Idx : AddressOf(a, i)
        \/ \E i \in Idx : OffsetOf(i)
Next == NextOp

(* exhaustive configurations: res is an output, not state, and a (mem, views) pair is expanded
   with the step budget of its first (breadth-first: shortest) visit *)
StateView == <<mem, views>>
Spec == Init /\ [][Next]_vars

(* ------------------------------------------- refinement: every step is ideal *)
IdealStep ==
  LET o == res'  v == views[o.a]  i == o.s.i IN
  CASE o.op = "getitem" ->
         /\ mem' = mem /\ views' = views
         /\ IF IdxOK(v, i) THEN o.st = "ok" /\ o.val = IGetVal(mem, v, i) ELSE o.st = "IndexError"
    [] o.op = "setitem" ->
         /\ views' = views
         /\ IF IdxOK(v, i) THEN o.st = "ok" /\ mem' = ISetMem(mem, v, i, o.vals[1])
                           ELSE o.st = "IndexError" /\ mem' = mem
    [] o.op = "slice" ->
         IF SliceFree(v) THEN
              /\ mem' = mem
              /\ IF o.st = "ok" THEN views' = Append(views, SliceView(v, o.s)) ELSE views' = views
         ELSE /\ mem' = mem
              /\ IF SliceOK(v, o.s) THEN o.st = "ok" /\ views' = Append(views, SliceView(v, o.s))
                                    ELSE o.st = "IndexError" /\ views' = views
    [] o.op = "assign" ->
         /\ views' = views
         /\ IF SliceFree(v) THEN
               (o.st = "ok" => Len(o.vals) = o.s.j - o.s.i /\ mem' = IAssMem(mem, v, o.s, o.vals))
            ELSE IF ~SliceOK(v, o.s) THEN o.st = "IndexError" /\ mem' = mem
            ELSE IF Len(o.vals) = o.s.j - o.s.i THEN o.st = "ok" /\ mem' = IAssMem(mem, v, o.s, o.vals)
            ELSE o.st # "ok"                       \* "requires exactly j-i values"
    [] o.op = "assignview" ->
         LET w == views[o.b] IN
         /\ views' = views
         /\ IF SliceFree(v) THEN
               (o.st = "ok" => w.len = o.s.j - o.s.i /\ mem' = IAssMem(mem, v, o.s, ViewVals(mem, w)))
            ELSE IF ~SliceOK(v, o.s) THEN o.st = "IndexError" /\ mem' = mem
            ELSE IF w.len = o.s.j - o.s.i THEN o.st = "ok" /\ mem' = IAssMem(mem, v, o.s, ViewVals(mem, w))
            ELSE o.st # "ok"
    [] o.op = "add" -> mem' = mem /\ views' = Append(views, PtrView(v, i))
    [] o.op = "sub" -> mem' = mem /\ views' = Append(views, PtrView(v, 0 - i))
    [] o.op = "addressof" -> mem' = mem /\ views' = Append(views, PtrView(v, i))     \* == x + i
    [] o.op = "cast" -> mem' = mem /\ views' = Append(views, [PtrView(v, 0) EXCEPT !.off = v.off + i])
    [] o.op = "diff" ->
         /\ mem' = mem /\ views' = views
         /\ DiffDefined(v, views[o.b]) => o.st = "ok" /\ o.num = IDiff(v, views[o.b])
         /\ (DiffTyped(v, views[o.b]) /\ ~DiffDefined(v, views[o.b])) => o.st # "ok"
    [] o.op = "offsetof" -> mem' = mem /\ views' = views /\ o.num = IOffsetOf(ISz, i)
    [] OTHER -> FALSE
RefinesIdeal == [][IdealStep]_vars

(* ------------------------------------------------------------- invariants *)
(* accepted accesses through checked derivations stay inside the owning allocation *)
SafeInside == \A a \in VIdx : views[a].safe => InArena(mem, views[a].off, views[a].sz * views[a].len)
NoOOBValue == \A k \in 1..Len(res.val) : res.val[k] # OOB
MemIsBytes == \A k \in 1..Len(mem) : mem[k] \in 0..255
Laws == \A a \in VIdx : \A i \in Idx, j \in Idx :
            /\ LawAlias(views[a], i, j) /\ LawDiff(views[a], i) /\ LawAddr(views[a], i)
            \* the same laws over the implementation model's operators
            /\ MIndexedPtr(MAdd(views[a], i, 1), j).off = MIndexedPtr(MAdd(views[a], 0, 1), i + j).off
            /\ MDiff(MAdd(views[a], i, 1), MAdd(views[a], 0, 1)).num = i
            /\ MAddressOf(views[a], i) = MAdd(views[a], i, 1)
=============================================================================
