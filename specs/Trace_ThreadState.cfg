SPECIFICATION TSpec
CONSTANTS Foreign = {1,2,3,4,5,6,7,8}
  Toks = {1}
  LocVals = {1}
CHECK_DEADLOCK FALSE
