------------------------------ MODULE ClosuresIdeal ------------------------------
(* Property C29 itself: over any history of creating and dropping ffi.callback() objects, every
   live callback has an address distinct from every other live callback, and calling it (from C
   or through the cdata) invokes exactly its own Python function with its own signature.

   Events:  create(c, a)   callback c was created; int(ffi.cast("uintptr_t", cb)) is a
            drop(c)        the last reference to c was dropped
            call(c, ran, sent, recv, ret, exp)
                           c was called with the arguments `sent`; `ran` is the sequence of callback
                           ids whose Python function ran during the call, `recv` what that function
                           received (decoded by the signature libffi used), `ret` what the caller
                           got back and `exp` what c's own function returns for `sent`.
   Guards are the clauses of the property, effects are separate (total verdicts in trace
   validation). *)
EXTENDS Naturals, Sequences, FiniteSets
CONSTANTS Cbs      \* callback ids
VARIABLES live,    \* live[c] = address of the live callback c (a function with a growing domain)
          last     \* the last event
ivars == <<live, last>>

Empty == [x \in {} |-> 0]
IInit == /\ live = Empty
         /\ last = [ev |-> "init", c |-> 0, a |-> 0, ran |-> <<>>, sent |-> <<>>, recv |-> <<>>, ret |-> 0, exp |-> 0]

Live == DOMAIN live
\* ---- guards
CreateG(c, a) == c \notin Live /\ \A d \in Live : live[d] # a          \* pairwise distinct addresses
DropG(c) == c \in Live
CallG(c, ran, sent, recv, ret, exp) ==
    /\ c \in Live
    /\ ran = <<c>>          \* exactly its own Python function, exactly once
    /\ recv = sent          \* decoded with its own signature
    /\ ret = exp            \* and its result comes back
\* ---- effects
CreateE(c, a) == live' = [d \in Live \cup {c} |-> IF d = c THEN a ELSE live[d]]
DropE(c) == live' = [d \in Live \ {c} |-> live[d]]
CallE(c) == UNCHANGED live

Ev(e, c, a, ran, sent, recv, ret, exp) ==
    last' = [ev |-> e, c |-> c, a |-> a, ran |-> ran, sent |-> sent, recv |-> recv, ret |-> ret, exp |-> exp]

\* The next-state relation is written over the event published in last' (logically the same as
\* quantifying existentially over the address and the argument lists, which are unbounded).
INext == \E c \in Cbs :
           \/ CreateG(c, last'.a) /\ CreateE(c, last'.a) /\ Ev("create", c, last'.a, <<>>, <<>>, <<>>, 0, 0)
           \/ DropG(c) /\ DropE(c) /\ Ev("drop", c, 0, <<>>, <<>>, <<>>, 0, 0)
           \/ /\ CallG(c, <<c>>, last'.sent, last'.sent, last'.ret, last'.ret) /\ CallE(c)
              /\ Ev("call", c, 0, <<c>>, last'.sent, last'.sent, last'.ret, last'.ret)
ISpec == IInit /\ [][INext]_ivars

\* sanity of the formulation
DistinctLive == \A c, d \in Live : c # d => live[c] # live[d]
=============================================================================
