------------------------------ MODULE ClosuresIdeal ------------------------------
(* Property C29 itself: over any history of creating and dropping ffi.callback() objects, every
   live callback has an address distinct from every other live callback, and calling it (from C
   or through the cdata) invokes exactly its own Python function with its own signature.

   Events:  create(c, a)   callback c was created; int(ffi.cast("uintptr_t", cb)) is a
            drop(c)        the last reference to c was dropped
            call(c, ran, sent, recv, ret, exp)
                           c was called with the arguments `sent`; `ran` is the sequence of callback
                           ids whose Python function ran during the call, `recv` what that function
                           received (decoded by the signature libffi used), `ret` what the caller
                           got back and `exp` what c's own function returns for `sent`.
   Histories are not flat: a callback's Python function may itself create, drop and call callbacks
   (also drop the very callback that is running; its closure may then be reused by a new callback
   while the old invocation is still in flight).  An invocation that is observed in two steps is
            begin(c, ran, sent, recv)      the invocation of c has entered Python: `ran` = the ids of the
                           functions entered, `recv` what they received
            ...            any events (create / drop / call / begin..end) that happen inside it
            end(c, how, herr, ret, exp)    it came back: how = "return" (ret must be what the function
                           returned, exp) or "raise" (the function raised: the caller must get c's OWN
                           declared error value and exactly c's OWN onerror handler runs, if it has
                           one: `herr` = ids of the callbacks whose onerror handler ran) - whatever
                           happened to c meanwhile: the binding of an invocation is the one the
                           callback had when it was called.
            create carries the declared error result `errv` and whether an onerror handler was given.
   Guards are the clauses of the property, effects are separate (total verdicts in trace
   validation). *)
EXTENDS Naturals, Sequences, FiniteSets
CONSTANTS Cbs      \* callback ids
VARIABLES live,    \* live[c] = address of the live callback c (a function with a growing domain)
          own,     \* own[c] = [errv, oe]: the error result / onerror handler c was created with
          stack,   \* invocations in flight, innermost last: [c, errv, oe] (binding taken when called)
          last     \* the last event
ivars == <<live, own, stack, last>>

Empty == [x \in {} |-> 0]
NoEvent == [ev |-> "init", c |-> 0, a |-> 0, ran |-> <<>>, sent |-> <<>>, recv |-> <<>>, ret |-> 0, exp |-> 0,
            errv |-> 0, oe |-> FALSE, how |-> "", herr |-> <<>>]
IInit == /\ live = Empty /\ own = Empty /\ stack = <<>>
         /\ last = NoEvent

Live == DOMAIN live
\* ---- guards
CreateG(c, a) == c \notin Live /\ \A d \in Live : live[d] # a          \* pairwise distinct addresses
DropG(c) == c \in Live
CallG(c, ran, sent, recv, ret, exp) ==
    /\ c \in Live
    /\ ran = <<c>>          \* exactly its own Python function, exactly once
    /\ recv = sent          \* decoded with its own signature
    /\ ret = exp            \* and its result comes back
\* an invocation enters Python: the same clauses as the first two of CallG (a live callback; dropping
\* it afterwards, while it runs, is part of the histories the property ranges over)
BeginG(c, ran, sent, recv) == c \in Live /\ ran = <<c>> /\ recv = sent
Top == stack[Len(stack)]
EndDomain(c) == stack # <<>> /\ Top.c = c               \* (harness: invocations nest)
EndG(c, how, herr, ret, exp) ==
    /\ EndDomain(c)
    /\ how \in {"return", "raise"}
    /\ how = "return" => herr = <<>> /\ ret = exp          \* its result comes back
    /\ how = "raise"  => /\ ret = Top.errv                 \* its OWN error result
                         /\ herr = IF Top.oe THEN <<c>> ELSE <<>>     \* its OWN onerror handler, nobody else's
\* ---- effects
CreateE2(c, a, errv, oe) == /\ live' = [d \in Live \cup {c} |-> IF d = c THEN a ELSE live[d]]
                            /\ own' = [d \in Live \cup {c} |-> IF d = c THEN [errv |-> errv, oe |-> oe] ELSE own[d]]
                            /\ UNCHANGED stack
CreateE(c, a) == CreateE2(c, a, 0, FALSE)
DropE(c) == /\ live' = [d \in Live \ {c} |-> live[d]]
            /\ own' = [d \in Live \ {c} |-> own[d]]
            /\ UNCHANGED stack
CallE(c) == UNCHANGED <<live, own, stack>>
BeginE(c) == stack' = Append(stack, [c |-> c, errv |-> own[c].errv, oe |-> own[c].oe]) /\ UNCHANGED <<live, own>>
EndE(c) == stack' = SubSeq(stack, 1, Len(stack) - 1) /\ UNCHANGED <<live, own>>

Ev(e, c, a, ran, sent, recv, ret, exp) ==
    last' = [NoEvent EXCEPT !.ev = e, !.c = c, !.a = a, !.ran = ran, !.sent = sent, !.recv = recv, !.ret = ret, !.exp = exp]

\* The next-state relation is written over the event published in last' (logically the same as
\* quantifying existentially over the address and the argument lists, which are unbounded).
INext == \E c \in Cbs :
           \/ /\ last'.ev = "create" /\ last'.c = c
              /\ CreateG(c, last'.a) /\ CreateE2(c, last'.a, last'.errv, last'.oe)
           \/ DropG(c) /\ DropE(c) /\ Ev("drop", c, 0, <<>>, <<>>, <<>>, 0, 0)
           \/ /\ CallG(c, <<c>>, last'.sent, last'.sent, last'.ret, last'.ret) /\ CallE(c)
              /\ Ev("call", c, 0, <<c>>, last'.sent, last'.sent, last'.ret, last'.ret)
           \/ /\ last'.ev = "begin" /\ last'.c = c
              /\ BeginG(c, last'.ran, last'.sent, last'.recv) /\ BeginE(c)
           \/ /\ last'.ev = "end" /\ last'.c = c
              /\ EndG(c, last'.how, last'.herr, last'.ret, last'.exp) /\ EndE(c)
ISpec == IInit /\ [][INext]_ivars

\* sanity of the formulation
DistinctLive == \A c, d \in Live : c # d => live[c] # live[d]
OwnLive == DOMAIN own = Live
=============================================================================
