SPECIFICATION SafeSpec
CONSTANTS Threads = {1,2}
  defaultInitValue = "nolib"
  Libs = {"A","B"}
  MaxCalls = 1
  SelfCalls = {"A"}
  CrossCalls = {"A","B"}
  FailCode = {}
  FailMod = {}
  PreInit = FALSE
  Variant = "faithful"
INVARIANT PyInitAtMostOnce
INVARIANT InitCodeAtMostOncePerLib
INVARIANT NoEarlyExtern
INVARIANT ZeroAfterFail
INVARIANT SpinExclusive
INVARIANT MutexHeld
INVARIANT GilExclusive
INVARIANT OnlyABBADeadlocks
PROPERTY RefinesIdeal
CHECK_DEADLOCK FALSE
