SPECIFICATION Spec
CONSTANTS Base = 4
  MaxN = 2
  WideN = 9
CHECK_DEADLOCK FALSE
