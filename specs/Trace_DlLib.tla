------------------------------ MODULE Trace_DlLib ------------------------------
(* Validates event traces recorded from real lib objects (both dlopen front ends) against the
   property machine DlLibIdeal.  One JSON file holds many traces; every trace gets a total
   verdict: "ok", or the name of the event whose guard (= clause of C37) failed together with
   its position. *)
EXTENDS DlLibIdeal, Sequences, Json, IOUtils, TLC
VARIABLES k, i, bad, reported
Traces == JsonDeserialize(IOEnv.TRACE_FILE)
tvars == <<ls, fb, last, k, i, bad, reported>>

TInit == IInit /\ k \in 1..Len(Traces) /\ i = 1 /\ bad = "" /\ reported = FALSE

Guard(e) == CASE e.ev = "open"      -> OpenG(e.l, e.out, e.touch)
              [] e.ev = "getfunc"   -> GetFuncG(e.l, e.n, e.out, e.touch)
              [] e.ev = "call"      -> CallG(e.l, e.n, e.out, e.touch)
              [] e.ev = "readvar"   -> ReadVarG(e.l, e.n, e.out, e.touch)
              [] e.ev = "writevar"  -> WriteVarG(e.l, e.n, e.out, e.touch)
              [] e.ev = "addressof" -> AddressOfG(e.l, e.n, e.out, e.touch)
              [] e.ev = "close"     -> CloseG(e.l, e.out, e.touch)
              [] OTHER -> FALSE
Effect(e) == CASE e.ev = "open"      -> OpenE(e.l, e.out)
               [] e.ev = "getfunc"   -> GetFuncE(e.l, e.n, e.out)
               [] e.ev = "call"      -> CallE(e.l, e.n, e.out)
               [] e.ev = "readvar"   -> ReadVarE(e.l, e.n, e.out)
               [] e.ev = "writevar"  -> WriteVarE(e.l, e.n, e.out)
               [] e.ev = "addressof" -> AddressOfE(e.l, e.n, e.out)
               [] e.ev = "close"     -> CloseE(e.l, e.out)

Consume == /\ i <= Len(Traces[k]) /\ bad = ""
           /\ LET e == Traces[k][i] IN
                IF Guard(e) THEN Effect(e) /\ i' = i + 1 /\ UNCHANGED bad
                ELSE bad' = e.ev /\ UNCHANGED <<ls, fb, i>>
           /\ UNCHANGED <<last, k, reported>>

Report == /\ (i > Len(Traces[k]) \/ bad # "") /\ ~reported
          /\ PrintT(<<"VERDICT", k, IF bad # "" THEN bad ELSE "ok", i>>)
          /\ reported' = TRUE /\ UNCHANGED <<ls, fb, last, k, i, bad>>

TNext == Consume \/ Report
TSpec == TInit /\ [][TNext]_tvars
=============================================================================
