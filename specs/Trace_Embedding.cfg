SPECIFICATION TSpec
CONSTANTS Threads = {0,1,2,3,4,5,6,7,8}
  Libs = {0,1,2}
CHECK_DEADLOCK FALSE
