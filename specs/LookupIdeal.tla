------------------------------ MODULE LookupIdeal ------------------------------
(* C25 -- the property itself, and the two orders it is about.

   Strings are sequences of character codes (ASCII code points / bytes; identifiers are
   ASCII so the two coincide).  A generated module carries, per name space (globals,
   struct/union tags, enum tags, typedef names), a table of declared names; the property
   says what a lookup of any string q in a name space with declared set D must give:
       q \in D     -> found, and the entry found is q's own entry
       q \notin D  -> not found
   Nothing else is demanded (in particular not the position of the entry). *)
EXTENDS Integers, Sequences, FiniteSets

\* ---------------------------------------------------------------- the ideal
IdealOutcome(declared, q) == IF q \in declared THEN "own" ELSE "notfound"

\* guard used by the trace specification: `out` is what the implementation did
\*   "own"      the lookup succeeded and the entry carries q's own payload
\*   "other"    the lookup succeeded with some other entry's payload
\*   "notfound" the lookup failed
LookupG(declared, q, out) == out = IdealOutcome(declared, q)

\* ideal position in a given table (0-based, as C returns it); NotFoundIdx when absent
NotFoundIdx == 0 - 1
IdealFind(tbl, q) == IF \E i \in 1..Len(tbl) : tbl[i] = q
                     THEN (CHOOSE i \in 1..Len(tbl) : tbl[i] = q) - 1
                     ELSE NotFoundIdx

\* ---------------------------------------------------------------- Python's str order
\* str.__lt__: the first differing code point decides; a proper prefix is smaller.
MinI(a, b) == IF a < b THEN a ELSE b
CommonLen(s, t) == LET n == MinI(Len(s), Len(t))
                       D == {k \in 1..n : s[k] # t[k]}
                   IN IF D = {} THEN n ELSE (CHOOSE k \in D : \A j \in D : k <= j) - 1
PyLess(s, t) == LET k == CommonLen(s, t)
                IN IF k = Len(s) THEN k < Len(t)
                   ELSE IF k = Len(t) THEN FALSE
                   ELSE s[k + 1] < t[k + 1]

\* list.sort(key=...) on a set of distinct names: selection of successive minima.
\* key "name" is what the generator uses; key "lower" exists only for a broken variant.
Lower(c) == IF c \in 65..90 THEN c + 32 ELSE c
LowerStr(s) == [i \in 1..Len(s) |-> Lower(s[i])]
KeyLess(key, s, t) == IF key = "lower" /\ LowerStr(s) # LowerStr(t)
                      THEN PyLess(LowerStr(s), LowerStr(t)) ELSE PyLess(s, t)
RECURSIVE SortBy(_, _)
SortBy(S, key) ==
    IF S = {} THEN <<>>
    ELSE LET m == CHOOSE x \in S : \A y \in S \ {x} : KeyLess(key, x, y)
         IN <<m>> \o SortBy(S \ {m}, key)
PySort(S) == SortBy(S, "name")

\* ---------------------------------------------------------------- C's comparison
\* A C string is the bytes followed by a terminating 0.  Byte at 0-based offset i;
\* reading past the terminator is an error of the model (never happens, see NoOverread).
OOB == 0 - 1000
ByteAt(s, i) == IF i < Len(s) THEN s[i + 1] ELSE IF i = Len(s) THEN 0 ELSE OOB

\* strcmp(a, b): walk both strings, unsigned char difference at the first mismatch,
\* 0 when both terminators are reached together.
RECURSIVE StrcmpFrom(_, _, _)
StrcmpFrom(a, b, i) == LET c1 == ByteAt(a, i)   c2 == ByteAt(b, i)
                       IN IF c1 # c2 THEN c1 - c2
                          ELSE IF c1 = 0 THEN 0
                          ELSE StrcmpFrom(a, b, i + 1)
Strcmp(a, b) == StrcmpFrom(a, b, 0)

\* strncmp(src, search, n) where `search` is NOT terminated at n (a token inside a longer
\* text): only its first n bytes are looked at; `tail` is the byte that follows them.
SearchByte(search, tail, i) == IF i < Len(search) THEN search[i + 1] ELSE tail
RECURSIVE StrncmpFrom(_, _, _, _, _)
StrncmpFrom(src, search, tail, n, i) ==
    IF i >= n THEN 0
    ELSE LET c1 == ByteAt(src, i)   c2 == SearchByte(search, tail, i)
         IN IF c1 # c2 THEN c1 - c2
            ELSE IF c1 = 0 THEN 0
            ELSE StrncmpFrom(src, search, tail, n, i + 1)
Strncmp(src, search, tail, n) == StrncmpFrom(src, search, tail, n, 0)

\* the lemma the generator/runtime pair relies on
OrderAgree(s, t) == PyLess(s, t) <=> Strcmp(s, t) < 0
SortedForC(tbl) == \A i \in 1..Len(tbl) : \A j \in 1..Len(tbl) : i < j => Strcmp(tbl[i], tbl[j]) < 0
=============================================================================
