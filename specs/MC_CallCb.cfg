SPECIFICATION MCSpec
CONSTANTS Base = 4
  Variant = "faithful"
  Cfgs <- MCCfgs
INVARIANT NoEscape
INVARIANT DeliveredOK
INVARIANT WidenOK
CHECK_DEADLOCK FALSE
