------------------------------ MODULE GenSrc ------------------------------
(* C24 -- cffi-gen-src writes exactly what FFI.emit_c_code() produces.

   TLA+ contributes the input/configuration space and the oracle equation; the generator is
   not modelled.  A configuration is
     sub     "read-sources" | "exec-python"
     inv     "script" (the cffi-gen-src console script) | "module" (python -m cffi.gen_src)
     out     "file" | "stdout" (output argument "-")
     binding "object" | "callable"      how the script binds the FFI   (exec-python only)
     ffivar  "default" | "custom"       --ffi-var given or not         (exec-python only)
   A decoration puts an edge case into one of the input texts (where, what): invisible / control
   code points at the first or last offset (U+FEFF, U+2028, FF, US, DEL, NEL), CR and CRLF line
   endings, empty files, and inputs the in-process reference REJECTS (syntax error, bad module
   name, a declaration the generator cannot emit).
   Equation, both sides:
     EmitC(name, cdef, prelude) = text   =>  the CLI exits 0 and writes exactly text
     EmitC(name, cdef, prelude) raises   =>  the CLI exits non-zero and writes nothing
   for every configuration, where EmitC is FFI().cdef(cdef); set_source(name, prelude);
   emit_c_code().  The matrix is written to IOEnv.GENSRC_OUT (one state per configuration). *)
EXTENDS Integers, Sequences, FiniteSets, SequencesExt, Json, IOUtils, TLC
VARIABLES cfg
Valid(c) == c.sub = "exec-python" \/ (c.binding = "object" /\ c.ffivar = "default")    \* n/a for read-sources
Configs == {c \in [sub : {"read-sources", "exec-python"}, inv : {"script", "module"}, out : {"file", "stdout"},
                   binding : {"object", "callable"}, ffivar : {"default", "custom"}] : Valid(c)}
CodePoints == {"FEFF", "2028", "0C", "1F", "7F", "85", "CR"}
Decorations ==
    [where : {"prelude-start", "prelude-end", "cdef-start", "cdef-end"}, what : CodePoints]
    \cup [where : {"script-start"}, what : {"FEFF"}]                       \* exec-python only
    \cup [where : {"cdef-mid", "prelude-mid"}, what : {"FEFF"}]
    \cup [where : {"prelude-all", "cdef-all"}, what : {"CRLF", "CR"}]        \* every line ending replaced
    \cup [where : {"prelude", "cdef", "both"}, what : {"empty"}]
    \cup [where : {"cdef"}, what : {"syntax-error", "unemittable"}]          \* the reference raises
    \cup [where : {"modname"}, what : {"slash", "dotted"}]
\* state of the output path before the run (out = "file" only).  Ideal: with "absent", "identical", "longer" (a longer,
\* different text left by an earlier run with more declarations) and "shorter" the run succeeds and the file holds exactly
\* EmitC's bytes afterwards; with "directory" and "readonly" the statement is silent about success, but a run that exits 0
\* must still have left exactly those bytes.
PreStates == {"absent", "identical", "longer", "shorter", "directory", "readonly"}
MayFail(pre) == pre \in {"directory", "readonly"}
Init == cfg \in Configs
Next == UNCHANGED cfg
Spec == Init /\ [][Next]_cfg
ASSUME JsonSerialize(IOEnv.GENSRC_OUT, [configs |-> SetToSeq(Configs), decorations |-> SetToSeq(Decorations),
                                         prestates |-> SetToSeq(PreStates)])

\* the clause on one observation o = [status, digest, wrote, mayfail] given the reference r = [ok, digest]
Verdict(r, o) == IF r.ok THEN (IF o.status # 0 THEN (IF o.mayfail THEN "ok" ELSE "status")
                               ELSE IF o.digest # r.digest THEN "bytes" ELSE "ok")
                 ELSE (IF o.status = 0 THEN "accepted-what-the-reference-rejects"
                       ELSE IF o.wrote THEN "wrote-output-on-failure" ELSE "ok")
=============================================================================
