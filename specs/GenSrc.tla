------------------------------ MODULE GenSrc ------------------------------
(* C24 -- cffi-gen-src writes exactly what FFI.emit_c_code() produces.

   TLA+ contributes the configuration space and the oracle equation; the generator is not
   modelled.  A configuration is
     sub     "read-sources" | "exec-python"
     inv     "script" (the cffi-gen-src console script) | "module" (python -m cffi.gen_src)
     out     "file" | "stdout" (output argument "-")
     binding "object" | "callable"      how the script binds the FFI   (exec-python only)
     ffivar  "default" | "custom"       --ffi-var given or not         (exec-python only)
   Equation:  Cli(cfg, name, cdef, prelude) = EmitC(name, cdef, prelude)   for every cfg,
   where EmitC is FFI().cdef(cdef); set_source(name, prelude); emit_c_code(), and the exit
   status is 0.  The matrix is written to IOEnv.GENSRC_OUT (one state per configuration). *)
EXTENDS Integers, Sequences, FiniteSets, SequencesExt, Json, IOUtils, TLC
VARIABLES cfg
Valid(c) == c.sub = "exec-python" \/ (c.binding = "object" /\ c.ffivar = "default")    \* n/a for read-sources
Configs == {c \in [sub : {"read-sources", "exec-python"}, inv : {"script", "module"}, out : {"file", "stdout"},
                   binding : {"object", "callable"}, ffivar : {"default", "custom"}] : Valid(c)}
Init == cfg \in Configs
Next == UNCHANGED cfg
Spec == Init /\ [][Next]_cfg
ASSUME JsonSerialize(IOEnv.GENSRC_OUT, SetToSeq(Configs))
\* the clause, on observations [cfg, status, digest] of one input and the reference digests
Equal(obs, ref) == \A i \in DOMAIN obs : obs[i].status = 0 /\ obs[i].digest = ref
=============================================================================
