---------------------------- MODULE Trace_CTypes ----------------------------
(* Validates what the real ffi.getctype / ffi.typeof produced (code -> spec) for C08.
   A record: [id, t, name, x, text, impl, back, same]
     t     the term projected from the real ctype T        name  T.cname
     x     the declarator suffix given to getctype          text  getctype(T, x)
     impl  "c" (ffi_getctype, compiled FFI) | "py" (FFI.getctype, in-line FFI)
     back  [r, t]: outcome of typeof(text) projected ("err": rejected)
     same  typeof(getctype(T)) is T (only meaningful for x = "")
   VERDICT lines (ideal, the property):
     "roundtrip"  x = "" and typeof(getctype(T)) is not T
     "reparse"    the ideal reader does not read text as the type x builds on T
     "typeof"     the real typeof(text) is not that type either
   DIAG lines: the text or the name differs from the implementation model (CTypes!InsertC /
   InsertPy / Name).                                                                   *)
EXTENDS CDeclRead, Json, IOUtils

Recs == JsonDeserialize(IOEnv.TRACE_FILE)
ReadOf(text) == Read(Tokenize(text))

Check(i) ==
    LET e == Recs[i]
        UU == ApplySuffix(e.x, e.t)
        want == [r |-> "ok", t |-> UU]
        inl == e.impl = "py"
        model == IF inl THEN InsertPym(e.t, e.x, TRUE) ELSE InsertC(e.t, e.x)
        mname == CTm(e.t, inl).name
    IN /\ (e.x = "" /\ ~e.same => PrintT(<<"VERDICT", e.id, "roundtrip">>))
       /\ (IsCType(UU) /\ ReadOf(e.text) # want => PrintT(<<"VERDICT", e.id, "reparse">>))
       /\ (IsCType(UU) /\ e.back # want => PrintT(<<"VERDICT", e.id, "typeof">>))
       /\ (e.text # model \/ e.name # mname => PrintT(<<"DIAG", e.id, model, mname>>))

ASSUME /\ \A i \in 1..Len(Recs) : Check(i)
       /\ PrintT(<<"CHECKED", Len(Recs)>>)

VARIABLE dummy
TInit == dummy = 0
TSpec == TInit /\ [][UNCHANGED dummy]_dummy
=============================================================================
