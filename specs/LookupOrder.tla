------------------------------ MODULE LookupOrder ------------------------------
(* C25 -- OrderAgreement: on every pair of identifiers of the bound, Python's string order
   (the generator's sort key) and C's strcmp order (the runtime's comparator) coincide,
   and both are strict total orders that agree with equality. *)
EXTENDS LookupIdeal, TLC
CONSTANTS Alpha, MaxName
VARIABLES pair
Digits == 48..57
Str(n) == UNION {[1..k -> Alpha] : k \in 0..n}
Idents == {s \in Str(MaxName) : Len(s) >= 1 /\ s[1] \notin Digits}
OInit == pair \in Idents \X Idents
ONext == UNCHANGED pair
OSpec == OInit /\ [][ONext]_pair
OrderAgreement == OrderAgree(pair[1], pair[2])
Trichotomy == LET s == pair[1]   t == pair[2]
              IN /\ (s = t) <=> (Strcmp(s, t) = 0)
                 /\ (s = t) <=> (~PyLess(s, t) /\ ~PyLess(t, s))
                 /\ ~(PyLess(s, t) /\ PyLess(t, s))
AntiSym == (Strcmp(pair[1], pair[2]) < 0) <=> (Strcmp(pair[2], pair[1]) > 0)
=============================================================================
