------------------------------ MODULE MC_LayoutLemma ------------------------------
(* The closed form of the bit-field placement rule used by the ideal (Layout!BitStart) is the
   declarative "first position at or after the current one where the field fits into one
   aligned storage unit of its declared type" (Layout!LeastFit).  Checked by enumeration:
   all positions and widths for 8- and 16-bit units, boundary widths/positions for 32 and 64. *)
EXTENDS Layout
VARIABLE x
LeastFitLemma ==
  /\ \A A \in {8, 16} : \A w \in 1..A : \A base \in 0..(A + 2) : BitStart(base, w, A, A) = LeastFit(base, w, A, A)
  /\ \A w \in {1, 2, 15, 16, 17, 31, 32} : \A base \in 0..34 : BitStart(base, w, 32, 32) = LeastFit(base, w, 32, 32)
  /\ \A w \in {1, 2, 32, 33, 63, 64} : \A base \in {0, 1, 2, 31, 32, 33, 62, 63, 64, 65} :
        BitStart(base, w, 64, 64) = LeastFit(base, w, 64, 64)
ASSUME LeastFitLemma
Init == x = 0
Next == x' = x
=============================================================================
