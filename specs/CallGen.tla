------------------------------ MODULE CallGen ------------------------------
(* The input space of C13 (and of the call part of C33), enumerated by TLC:
     <<"SIG", family, ...>>             every signature class within the bound MaxN
     <<"CLS", type, class, exc, deref>> every argument class of every parameter type with
                                        the outcome ConvertArg predicts for the class's
                                        representative at this scale (Base = 4) and whether
                                        the converted pointer may be dereferenced
     <<"VCLS", class, exc>>             the argument classes of the variadic part
   The replayer (harness/call_gen.py) turns a signature class into a C function and a
   class tuple into real Python objects at the real widths; Trace_Call then checks that
   Outcome at Base = 256 raises exactly what the class table predicted here ("expect"). *)
EXTENDS Call
CONSTANTS MaxN,        \* full product of parameter types up to this many parameters
          WideN        \* rotating signatures with up to this many parameters (stack passing)
VARIABLES c

IntNames == <<"i8", "u8", "i16", "u16", "i32", "u32", "long", "ulong", "i64", "u64">>
IntOf(n) == CASE n = "i8" -> IntT(1, TRUE) [] n = "u8" -> IntT(1, FALSE)
              [] n = "i16" -> IntT(2, TRUE) [] n = "u16" -> IntT(2, FALSE)
              [] n = "i32" -> IntT(4, TRUE) [] n = "u32" -> IntT(4, FALSE)
              [] n \in {"long", "i64"} -> IntT(8, TRUE) [] n \in {"ulong", "u64"} -> IntT(8, FALSE)
ScalarSeq == IntNames \o <<"bool", "char", "f32", "f64">>
\* pointer parameter types used in sel signatures / all pointer types (wr, rdi, bump take a T*)
SelPtrNames == <<"p_i32", "p_u8", "p_i8", "p_char", "p_void", "p_i16", "p_u64", "p_f64", "p_f32", "p_bool">>
PtrNames == SelPtrNames \o <<"p_u16", "p_u32", "p_long", "p_ulong", "p_i64">>
\* structs by value: register classes INTEGER, SSE, mixed, MEMORY (> 16 bytes)
StructNames == <<"sA", "sB", "sC", "sD", "sE", "sF", "sG", "sH", "sI", "sJ", "sK">>
\* structs whose fields are arrays of one or more dimensions (libffi gets a flattened element
\* list): <= 16 bytes all-SSE / mixed / all-INTEGER, and > 16 bytes (MEMORY)
ArrStructNames == <<"sL", "sM", "sN", "sO", "sP", "sQ", "sR", "sS", "sT">>
StructFields(n) == CASE n = "sA" -> <<"i8", "i32">>
                     [] n = "sB" -> <<"i64", "i64", "i64">>
                     [] n = "sC" -> <<"f32", "f32">>
                     [] n = "sD" -> <<"f64", "i8">>
                     [] n = "sE" -> <<"i16", "i16", "i16">>
                     [] n = "sF" -> <<"f64">>
                     [] n = "sG" -> <<"i32", "f64">>
                     [] n = "sH" -> <<"u8">>
                     [] n = "sI" -> <<"i64", "f64">>
                     [] n = "sJ" -> <<"i32", "i32", "i32", "i32", "u16">>
                     [] n = "sK" -> <<"p_i32", "char", "bool">>
                     [] n = "sL" -> <<"f32[2][2]">>
                     [] n = "sM" -> <<"f64[2][1]">>
                     [] n = "sN" -> <<"i16[2][3]", "f32">>
                     [] n = "sO" -> <<"f32[2]">>
                     [] n = "sP" -> <<"char[3]", "f64[1][2]">>
                     [] n = "sQ" -> <<"f64[2][2]">>
                     [] n = "sR" -> <<"i16[2][2]", "char[2][2]">>
                     [] n = "sS" -> <<"f32[3]", "i32">>
                     [] n = "sT" -> <<"char[2][2][2]", "f32[1][2]">>
ArrT(t, n) == [k |-> "arr", item |-> t, len |-> n]
Range(s) == {s[i] : i \in 1..Len(s)}
Ints == Range(IntNames)
Scalars == Range(ScalarSeq)
Ptrs == Range(PtrNames)
PlainStructs == Range(StructNames)
ArrStructs == Range(ArrStructNames)
Structs == PlainStructs \cup ArrStructs
AllT == Scalars \cup Range(SelPtrNames) \cup PlainStructs
\* pointer-to-struct parameters (asum): a list/tuple of struct initializers becomes a temporary array
PStructNames == <<"p_sA", "p_sB", "p_sE", "p_sJ">>
PStructs == Range(PStructNames)
PSItem(n) == CASE n = "p_sA" -> "sA" [] n = "p_sB" -> "sB" [] n = "p_sE" -> "sE" [] n = "p_sJ" -> "sJ"
ClsT == AllT \cup Ptrs \cup ArrStructs \cup PStructs

PItem(n) == CASE n = "p_i32" -> "i32" [] n = "p_u8" -> "u8" [] n = "p_i8" -> "i8"
              [] n = "p_char" -> "char" [] n = "p_void" -> "void" [] n = "p_i16" -> "i16"
              [] n = "p_u64" -> "u64" [] n = "p_f64" -> "f64" [] n = "p_f32" -> "f32"
              [] n = "p_bool" -> "bool" [] n = "p_u16" -> "u16" [] n = "p_u32" -> "u32"
              [] n = "p_long" -> "long" [] n = "p_ulong" -> "ulong" [] n = "p_i64" -> "i64"
RECURSIVE Ty(_)
Ty(n) == IF n \in Ints THEN IntOf(n)
         ELSE CASE n = "bool" -> BoolT [] n = "char" -> CharT
                [] n = "f32" -> FloatT(4) [] n = "f64" -> FloatT(8)
                [] n = "void" -> VoidT
                [] n = "f32[2][2]" -> ArrT(ArrT(FloatT(4), 2), 2) [] n = "f64[2][1]" -> ArrT(ArrT(FloatT(8), 1), 2)
                [] n = "i16[2][3]" -> ArrT(ArrT(IntT(2, TRUE), 3), 2) [] n = "f32[2]" -> ArrT(FloatT(4), 2)
                [] n = "char[3]" -> ArrT(CharT, 3) [] n = "f64[1][2]" -> ArrT(ArrT(FloatT(8), 2), 1)
                [] n = "f64[2][2]" -> ArrT(ArrT(FloatT(8), 2), 2) [] n = "i16[2][2]" -> ArrT(ArrT(IntT(2, TRUE), 2), 2)
                [] n = "char[2][2]" -> ArrT(ArrT(CharT, 2), 2) [] n = "f32[3]" -> ArrT(FloatT(4), 3)
                [] n = "char[2][2][2]" -> ArrT(ArrT(ArrT(CharT, 2), 2), 2) [] n = "f32[1][2]" -> ArrT(ArrT(FloatT(4), 2), 1)
                [] n \in Ptrs -> PtrT(Ty(PItem(n)))
                [] n \in PStructs -> PtrT(Ty(PSItem(n)))
                [] n \in Structs -> [k |-> "struct", tag |-> n,
                                     fields |-> [i \in 1..Len(StructFields(n)) |-> Ty(StructFields(n)[i])]]

-----------------------------------------------------------------------------
(* representatives of the argument classes at this scale *)
RECURSIVE Pow(_, _)
Pow(b, e) == IF e = 0 THEN 1 ELSE b * Pow(b, e - 1)
MaxOf(t) == IF t.signed THEN Pow(Base, t.size) \div 2 - 1 ELSE Pow(Base, t.size) - 1
MinOf(t) == IF t.signed THEN 0 - (Pow(Base, t.size) \div 2) ELSE 0
FImg == [d |-> Zeros(8), f |-> Zeros(4), fd |-> Zeros(8)]
PI(n) == [k |-> "int", neg |-> FromInt(n).neg, mag |-> FromInt(n).mag, fl |-> <<FImg>>, flovf |-> FALSE]
PF == [k |-> "float", d |-> Zeros(8), f |-> Zeros(4), fd |-> Zeros(8)]
PNone == [k |-> "none"]
PStr == [k |-> "str"]
PBytes(d) == [k |-> "bytes", data |-> d]
PList(xs) == [k |-> "list", items |-> xs]
PBool(b) == [k |-> "pybool", b |-> b]
PObj(n) == [k |-> "intobj", v |-> FromInt(n)]
CInt(t, n) == [k |-> "cint", ct |-> t, c |-> Enc(FromInt(n), SizeOf(t))]
CFlt(s) == [k |-> "cfloat", ct |-> FloatT(s), d |-> Zeros(8), f |-> Zeros(4), fd |-> Zeros(8)]
CPtr(t, cell) == [k |-> "cptr", ct |-> t, cell |-> cell]
P64 == Pow(Base, 8)

IntClasses == {"zero", "one", "max", "min", "mid", "mone", "above", "below", "hugepos", "hugeneg",
               "u64max", "i64min", "pybool", "float", "str", "none", "bytes1", "list",
               "intobj_ok", "intobj_ovf", "cint_ok", "cint_wide", "cchar", "cfloat", "cptr"}
IntRep(t, cls) ==
    CASE cls = "zero" -> PI(0) [] cls = "one" -> PI(1) [] cls = "max" -> PI(MaxOf(t))
      [] cls = "min" -> PI(MinOf(t)) [] cls = "mid" -> PI(MaxOf(t) \div 3) [] cls = "mone" -> PI(0 - 1)
      [] cls = "above" -> PI(MaxOf(t) + 1) [] cls = "below" -> PI(MinOf(t) - 1)
      [] cls = "hugepos" -> PI(P64 + 5) [] cls = "hugeneg" -> PI(0 - (P64 + 5))
      [] cls = "u64max" -> PI(P64 - 1) [] cls = "i64min" -> PI(0 - (P64 \div 2))
      [] cls = "pybool" -> PBool(TRUE) [] cls = "float" -> PF [] cls = "str" -> PStr
      [] cls = "none" -> PNone [] cls = "bytes1" -> PBytes(<<1>>) [] cls = "list" -> PList(<<>>)
      [] cls = "intobj_ok" -> PObj(MaxOf(t) \div 3) [] cls = "intobj_ovf" -> PObj(MaxOf(t) + 1)
      [] cls = "cint_ok" -> CInt(t, MaxOf(t) \div 3)
      [] cls = "cint_wide" -> IF t.size = 8
                              THEN (IF t.signed THEN CInt(IntT(8, FALSE), P64 \div 2)
                                    ELSE CInt(IntT(8, TRUE), 0 - 1))
                              ELSE CInt(IntT(8, TRUE), MaxOf(t) + 1)
      [] cls = "cchar" -> CInt(CharT, 1) [] cls = "cfloat" -> CFlt(8)
      [] cls = "cptr" -> CPtr(PtrT(I32), 1)

BoolClasses == {"zero", "one", "pybool", "two", "mone", "hugepos", "max8", "float", "none", "str",
                "bytes1", "cint_one", "cint_two", "cbool", "intobj_ok", "intobj_ovf"}
BoolRep(cls) ==
    CASE cls = "zero" -> PI(0) [] cls = "one" -> PI(1) [] cls = "pybool" -> PBool(TRUE)
      [] cls = "two" -> PI(2) [] cls = "mone" -> PI(0 - 1) [] cls = "hugepos" -> PI(P64 + 5)
      [] cls = "max8" -> PI(Base - 1) [] cls = "float" -> PF [] cls = "none" -> PNone
      [] cls = "str" -> PStr [] cls = "bytes1" -> PBytes(<<1>>)
      [] cls = "cint_one" -> CInt(I32, 1) [] cls = "cint_two" -> CInt(I32, 2)
      [] cls = "cbool" -> CInt(BoolT, 1) [] cls = "intobj_ok" -> PObj(1) [] cls = "intobj_ovf" -> PObj(2)

CharClasses == {"bytes1", "bytes1_hi", "bytes0", "bytes2", "int", "str", "cchar", "cint8", "none", "pybool"}
CharRep(cls) ==
    CASE cls = "bytes1" -> PBytes(<<1>>) [] cls = "bytes1_hi" -> PBytes(<<Base - 1>>)
      [] cls = "bytes0" -> PBytes(<<>>) [] cls = "bytes2" -> PBytes(<<1, 2>>)
      [] cls = "int" -> PI(1) [] cls = "str" -> PStr [] cls = "cchar" -> CInt(CharT, 2)
      [] cls = "cint8" -> CInt(IntT(1, TRUE), 1) [] cls = "none" -> PNone [] cls = "pybool" -> PBool(TRUE)

FloatClasses == {"f_small", "f_rand", "f_big", "f_tiny", "f_inf", "f_nan", "f_negzero", "int_small",
                 "int_big", "int_huge", "cfloat", "cdouble", "cint", "str", "none", "bytes1", "list",
                 "cptr", "intobj"}
FloatRep(cls) ==
    CASE cls \in {"f_small", "f_rand", "f_big", "f_tiny", "f_inf", "f_nan", "f_negzero"} -> PF
      [] cls \in {"int_small", "int_big"} -> PI(7)
      [] cls = "int_huge" -> [PI(P64 + 5) EXCEPT !.flovf = TRUE, !.fl = <<>>]
      [] cls = "cfloat" -> CFlt(4) [] cls = "cdouble" -> CFlt(8) [] cls = "cint" -> CInt(I32, 7)
      [] cls = "str" -> PStr [] cls = "none" -> PNone [] cls = "bytes1" -> PBytes(<<1>>)
      [] cls = "list" -> PList(<<>>) [] cls = "cptr" -> CPtr(PtrT(I32), 1) [] cls = "intobj" -> PObj(1)

\* an in-range / out-of-range / wrong-type item for a list passed to a pointer parameter
ItemOk(t) == CASE t.k = "int" -> PI(1) [] t.k = "bool" -> PI(1) [] t.k = "char" -> PBytes(<<1>>)
               [] t.k = "float" -> PF [] OTHER -> PI(1)
ItemOvf(t) == CASE t.k = "int" -> PI(MaxOf(t) + 1) [] t.k = "bool" -> PI(2)
                [] t.k = "float" -> [PI(P64 + 5) EXCEPT !.flovf = TRUE, !.fl = <<>>]
                [] OTHER -> PI(1)         \* char / void: no overflow exists, a wrong type instead
OtherPtr(t) == IF t.item = IntT(2, TRUE) THEN PtrT(I32) ELSE PtrT(IntT(2, TRUE))
PtrClasses == {"same", "arr", "voidp", "null", "null_typed", "other", "charp", "ucharp", "list_ok",
               "tuple_ok", "list_empty", "list_ovf", "list_badtype", "bytes", "bytes01", "bytes_empty",
               "str", "int0", "none", "cint", "float"}
PtrRep(t, cls) ==
    CASE cls \in {"same", "arr", "null_typed"} -> CPtr(t, IF cls = "null_typed" THEN 0 ELSE 1)
      [] cls = "voidp" -> CPtr(PtrT(VoidT), 1) [] cls = "null" -> CPtr(PtrT(VoidT), 0)
      [] cls = "other" -> CPtr(OtherPtr(t), 1)
      [] cls = "charp" -> CPtr(PtrT(CharT), 1) [] cls = "ucharp" -> CPtr(PtrT(IntT(1, FALSE)), 1)
      [] cls \in {"list_ok", "tuple_ok"} -> PList(<<ItemOk(t.item), ItemOk(t.item)>>)
      [] cls = "list_empty" -> PList(<<>>)
      [] cls = "list_ovf" -> PList(<<ItemOk(t.item), ItemOvf(t.item)>>)
      [] cls = "list_badtype" -> PList(<<PNone>>)
      [] cls = "bytes" -> PBytes(<<1, 3, 2>>) [] cls = "bytes01" -> PBytes(<<1, 0, 1>>)
      [] cls = "bytes_empty" -> PBytes(<<>>)
      [] cls = "str" -> PStr [] cls = "int0" -> PI(0) [] cls = "none" -> PNone
      [] cls = "cint" -> CInt(I32, 0) [] cls = "float" -> PF
\* classes whose converted pointer points to at least the items the replayer asks for
Derefable(cls) == cls \in {"same", "arr", "voidp", "charp", "ucharp", "list_ok", "tuple_ok", "bytes", "bytes01",
                            "sl_full", "sl_short", "sl_dict", "sl_empty", "sl_tuple"}
\* ... and to writable storage
Writable(cls) == cls \in {"same", "arr", "voidp", "charp", "ucharp", "list_ok", "tuple_ok"}

RECURSIVE FieldOk(_)
FieldOk(t) == CASE t.k = "ptr" -> CPtr(t, 0)
                [] t.k = "arr" -> PList([i \in 1..t.len |-> FieldOk(t.item)])
                [] OTHER -> ItemOk(t)
StructClasses == {"same", "other", "list_ok", "tuple_ok", "list_short", "list_long", "list_ovf",
                  "list_badtype", "none", "int", "ptr_to_same", "dict_ok", "dict_short"}
StructRep(t, cls) ==
    LET n == Len(t.fields) oks == [i \in 1..n |-> FieldOk(t.fields[i])] IN
    CASE cls = "same" -> [k |-> "cstruct", ct |-> t, vals |-> oks]
      [] cls = "other" -> [k |-> "cstruct", ct |-> [t EXCEPT !.tag = "sOther"], vals |-> oks]
      [] cls \in {"list_ok", "tuple_ok"} -> PList(oks)
      [] cls = "list_short" -> PList(SubSeq(oks, 1, n - 1))
      [] cls = "list_long" -> PList(oks \o <<PI(1)>>)
      [] cls = "list_ovf" -> PList([oks EXCEPT ![1] = ItemOvf(t.fields[1])])
      [] cls = "list_badtype" -> PList([oks EXCEPT ![1] = PNone])
      [] cls = "none" -> PNone [] cls = "int" -> PI(0)
      [] cls = "ptr_to_same" -> CPtr(PtrT(t), 1)
      [] cls = "dict_ok" -> [k |-> "dict", keys |-> [i \in 1..n |-> n + 1 - i], items |-> [i \in 1..n |-> oks[n + 1 - i]]]
      [] cls = "dict_short" -> [k |-> "dict", keys |-> <<n>>, items |-> <<oks[n]>>]

PStructClasses == {"sl_full", "sl_short", "sl_dict", "sl_empty", "sl_tuple", "sl_ovf", "sl_long", "sl_badtype",
                   "none", "int0", "null", "str"}
PStructRep(t, cls) ==
    LET st == t.item n == Len(st.fields) oks == [i \in 1..n |-> FieldOk(st.fields[i])] IN
    CASE cls \in {"sl_full", "sl_tuple"} -> PList(<<PList(oks), PList(oks)>>)
      [] cls = "sl_short" -> PList(<<PList(SubSeq(oks, 1, n - 1)), PList(<<oks[1]>>)>>)
      [] cls = "sl_dict" -> PList(<<[k |-> "dict", keys |-> <<n>>, items |-> <<oks[n]>>], PList(oks)>>)
      [] cls = "sl_empty" -> PList(<<PList(<<>>), PList(<<>>)>>)
      [] cls = "sl_ovf" -> PList(<<PList(oks), PList([oks EXCEPT ![1] = ItemOvf(st.fields[1])])>>)
      [] cls = "sl_long" -> PList(<<PList(oks \o <<PI(1)>>)>>)
      [] cls = "sl_badtype" -> PList(<<PList(oks), PNone>>)
      [] cls = "none" -> PNone [] cls = "int0" -> PI(0) [] cls = "null" -> CPtr(PtrT(VoidT), 0) [] cls = "str" -> PStr
Classes(n) == IF n \in PStructs THEN PStructClasses ELSE IF n \in Ints THEN IntClasses
              ELSE IF n = "bool" THEN BoolClasses ELSE IF n = "char" THEN CharClasses
              ELSE IF n \in {"f32", "f64"} THEN FloatClasses
              ELSE IF n \in Ptrs THEN PtrClasses ELSE StructClasses
Rep(n, cls) == IF n \in PStructs THEN PStructRep(Ty(n), cls) ELSE IF n \in Ints THEN IntRep(Ty(n), cls)
               ELSE IF n = "bool" THEN BoolRep(cls) ELSE IF n = "char" THEN CharRep(cls)
               ELSE IF n \in {"f32", "f64"} THEN FloatRep(cls)
               ELSE IF n \in Ptrs THEN PtrRep(Ty(n), cls) ELSE StructRep(Ty(n), cls)
\* list_ovf needs an item / first field that can overflow
HasClass(n, cls) ==
    /\ cls \in Classes(n)
    /\ (n \in Ptrs /\ cls \in {"list_ovf"}) => Ty(n).item.k \in {"int", "bool", "float"}
    /\ (n \in Ptrs /\ cls \in {"same", "arr", "null_typed"} /\ n = "p_void") => cls # "arr"
    /\ (n \in Structs /\ cls = "list_ovf") => Ty(n).fields[1].k \in {"int", "bool", "float"}
    /\ (n \in Structs /\ cls = "list_short") => Len(Ty(n).fields) > 1

VarClasses == {"c_i8", "c_u8", "c_i16", "c_u16", "c_i32", "c_u32", "c_i64", "c_u64", "c_long", "c_bool",
               "c_char", "c_f64", "c_ptr", "c_null", "py_int", "py_float", "none", "bytes"}
VarRep(cls) ==
    CASE cls = "c_i8" -> CInt(IntT(1, TRUE), 0 - 1) [] cls = "c_u8" -> CInt(IntT(1, FALSE), 3)
      [] cls = "c_i16" -> CInt(IntT(2, TRUE), 0 - 2) [] cls = "c_u16" -> CInt(IntT(2, FALSE), 9)
      [] cls = "c_i32" -> CInt(I32, 0 - 5) [] cls = "c_u32" -> CInt(IntT(4, FALSE), 200)
      [] cls \in {"c_i64", "c_long"} -> CInt(I64, 0 - 7) [] cls = "c_u64" -> CInt(IntT(8, FALSE), 7)
      [] cls = "c_bool" -> CInt(BoolT, 1) [] cls = "c_char" -> CInt(CharT, 2)
      [] cls = "c_f64" -> CFlt(8) [] cls = "c_ptr" -> CPtr(PtrT(IntT(1, FALSE)), 1)
      [] cls = "c_null" -> CPtr(PtrT(VoidT), 0)
      [] cls = "py_int" -> PI(1) [] cls = "py_float" -> PF [] cls = "none" -> PNone
      [] cls = "bytes" -> PBytes(<<1>>)

-----------------------------------------------------------------------------
(* signature classes *)
Tup(S, n) == [1..n -> S]
Rot(seq, start, step, n) == [i \in 1..n |-> seq[((start + (i - 1) * step) % Len(seq)) + 1]]
WideSeq == ScalarSeq \o <<"p_i32", "p_void">>
SelSigs == {<<"SIG", "sel", a, k>> : a \in UNION {Tup(AllT, n) : n \in 1..MaxN}, k \in 1..MaxN}
           \cup {<<"SIG", "sel", a, k>> : a \in {<<s>> : s \in ArrStructs}
                                              \cup {<<s, x>> : s \in ArrStructs, x \in Scalars \cup ArrStructs}
                                              \cup {<<x, s>> : s \in ArrStructs, x \in Scalars},
                                         k \in 1..2}
SelOk(s) == s[4] <= Len(s[3])
WideSigs == {<<"SIG", "sel", Rot(WideSeq, st, sp, n), ((st + sp) % n) + 1>> :
                 st \in 0..(Len(WideSeq) - 1), sp \in {1, 3, 5}, n \in 5..WideN}
SumSigs == {<<"SIG", "sum", a, r>> : a \in UNION {Tup(Ints, n) : n \in 1..MaxN}, r \in {"i64", "u64"}}
           \cup {<<"SIG", "sum", Rot(IntNames, st, sp, n), "i64">> :
                     st \in 0..(Len(IntNames) - 1), sp \in {1, 3}, n \in 5..WideN}
MemT == Ints \cup {"bool", "char", "f32", "f64"}
WrSigs == {<<"SIG", "wr", t>> : t \in MemT}
RdiSigs == {<<"SIG", "rdi", t>> : t \in Ints \cup {"bool", "char", "f64"}}
BumpSigs == {<<"SIG", "bump", t>> : t \in Ints}
SumArrSigs == {<<"SIG", "isum", t>> : t \in Ints} \cup {<<"SIG", "asum", PSItem(p)>> : p \in PStructs}
StructSigs == {<<"SIG", "smake", s>> : s \in PlainStructs}
              \cup {<<"SIG", "sget", s, k>> : s \in PlainStructs, k \in 1..5}
SgetOk(s) == s[2] # "sget" \/ s[4] <= Len(StructFields(s[3]))
VSigs == {<<"SIG", "vsum", a>> : a \in UNION {Tup(VarClasses, n) : n \in 0..MaxN}}
         \cup {<<"SIG", "vsum", Rot(<<"c_i8", "c_u64", "c_f64", "c_ptr", "c_i32", "c_u16", "c_long", "c_char",
                                     "c_bool", "c_null", "c_u32">>, st, sp, n)>> :
                   st \in 0..10, sp \in {1, 3}, n \in 5..WideN}
ClsOk(r) == HasClass(r[2], r[3])

Cases == {s \in SelSigs : SelOk(s)} \cup WideSigs \cup SumSigs \cup WrSigs \cup RdiSigs \cup BumpSigs \cup SumArrSigs
         \cup {<<"SIG", "seterr">>} \cup {s \in StructSigs : SgetOk(s)} \cup VSigs
         \cup {r \in {<<"CLS", n, cls>> : n \in ClsT, cls \in UNION {Classes(m) : m \in ClsT}} : ClsOk(r)}
         \cup {<<"VCLS", cls>> : cls \in VarClasses}

Row(x) == IF x[1] = "CLS"
          THEN <<"CLS", x[2], x[3], ConvertArg(Ty(x[2]), Rep(x[2], x[3])).exc, Derefable(x[3]), Writable(x[3])>>
          ELSE IF x[1] = "VCLS" THEN <<"VCLS", x[2], VarConv(VarRep(x[2])).exc>>
          ELSE x

Init == c \in Cases /\ PrintT(Row(c))
Next == UNCHANGED c
Spec == Init /\ [][Next]_c
=============================================================================
