------------------------------ MODULE Trace_Layout ------------------------------
(* Validates layout measurements against Layout.tla.  The input (IOEnv.TRACE_FILE) is a JSON
   array of records
     [id, node, gcc |-> [size, align, places], cffi |-> [ok, err, size, align, places, wplaces]]
   where `places` lists, for every named leaf member in hoisted declaration order,
   [bf, pos, w] as defined in Layout.tla; gcc's entries for bit-fields are *measured* storage
   bits (object zeroed, member set to all ones); cffi's `places` come from ffi.sizeof/alignof/
   offsetof and the field metadata, `wplaces` from actually writing the member through cffi
   (pos = -1: not observed).

   For every record the ideal layout is recomputed and one line is printed per failing clause:
     <<"VERDICT", id, who, clause, k>>     who = "class"  the declaration is outside the property's class
                                                 "gcc"    the compiler contradicts the ideal  (machinery error)
                                                 "cffi"   cffi contradicts the ideal          (violation)
                                                 "model"  cffi contradicts the implementation model only (note)
     clause = "rejected" | "size" | "align" | "count" | "offset" | "bits" | "written-bits"; k = member index
   and one line <<"CHECKED", id>> per record (the caller verifies that every record was reached). *)
EXTENDS Layout, Json, IOUtils
VARIABLES k, done
Recs == JsonDeserialize(IOEnv.TRACE_FILE)

\* first index where two place sequences of equal length differ, 0 if none
FirstDiff(a, b) == IF \E i \in 1..Len(a) : a[i] # b[i]
                   THEN CHOOSE i \in 1..Len(a) : a[i] # b[i] /\ \A j \in 1..(i - 1) : a[j] = b[j]
                   ELSE 0
Norm(pl) == [i \in 1..Len(pl) |-> [bf |-> pl[i].bf, pos |-> pl[i].pos, w |-> pl[i].w]]

\* (IF-THEN-ELSE throughout: inside an action TLC explores both sides of a disjunction)
Say(ok, id, who, clause, i) == IF ok THEN TRUE ELSE PrintT(<<"VERDICT", id, who, clause, i>>)

\* compare an observed layout with an expected one
Compare(id, who, obs, exp) ==
  /\ Say(obs.size = exp.size, id, who, "size", 0)
  /\ Say(obs.align = exp.align, id, who, "align", 0)
  /\ IF Len(obs.places) # Len(exp.places) THEN Say(FALSE, id, who, "count", 0)
     ELSE LET d == FirstDiff(Norm(obs.places), exp.places) IN
          IF d = 0 THEN TRUE ELSE Say(FALSE, id, who, IF exp.places[d].bf THEN "bits" ELSE "offset", d)

WrittenOK(wp, i, ideal) ==
  IF wp.pos = 0 - 1 \/ i > Len(ideal.places) THEN TRUE
  ELSE [bf |-> wp.bf, pos |-> wp.pos, w |-> wp.w] = ideal.places[i]

Check(r) ==
  \E ideal \in {AbiLayout(r.node)}, model \in {CffiLayout(r.node)} :     \* (evaluated once each)
  /\ Say(InClass(r.node), r.id, "class", "notinclass", 0)
  /\ Compare(r.id, "gcc", r.gcc, ideal)
  /\ IF ~r.cffi.ok
     THEN /\ Say(FALSE, r.id, "cffi", "rejected", 0)
          /\ Say(model.err # "", r.id, "model", "rejected", 0)
     ELSE /\ Compare(r.id, "cffi", r.cffi, ideal)
          /\ \A i \in 1..Len(r.cffi.wplaces) :
               Say(WrittenOK(r.cffi.wplaces[i], i, ideal), r.id, "cffi", "written-bits", i)
          /\ IF model.err # "" THEN Say(FALSE, r.id, "model", "accepted", 0)
             ELSE Compare(r.id, "model", r.cffi, Proj(model))
  /\ PrintT(<<"CHECKED", r.id>>)

TInit == k \in 1..Len(Recs) /\ done = FALSE
TNext == ~done /\ Check(Recs[k]) /\ done' = TRUE /\ UNCHANGED k
TSpec == TInit /\ [][TNext]_<<k, done>>
=============================================================================
