------------------------------ MODULE Redecl ------------------------------
(* Redeclaration rules of the declaration environment across successive ffi.cdef() calls
   (extra coverage: not one of the listed properties, but the state machine C11/C12/C34 sit on).

   Transcribed from src/cffi/cparser.py, one operator per function:
     Parser._declare            -> Declare      (identity test `prevobj is obj and prevquals == quals`,
                                                 the override option, the store)
     Parser._add_constants      -> AddConst     (equal value: ignored; different: FFIError, never overridable)
     Parser._add_integer_constant -> MacroInt   (_add_constants FIRST, then _declare('macro N', pyvalue))
     Parser._process_macros     -> macros of one cdef() are processed before its declarations
     Parser._preprocess         -> DedupMacros  (duplicate #define of one name inside one source: last value wins silently)
     Parser._internal_parse     -> Call         (items in order, the first failing item aborts the call,
                                                 effects of the earlier items stay)
   Object identity is modelled explicitly (field obj): primitive model types come out of a cache and
   are the same object at every parse, pointer / array / function types are built afresh at every
   parse, a Python int is the same object only inside CPython's small-int cache (-5..256) and the
   string '...' of `#define N ...` is a new object at every parse.  desc is what get_c_name() / str()
   shows for the object, i.e. the *meaning* of the declaration.

   Items of a call (tuples):
     <<"typedef", n, ty>>  <<"var", n, ty, const>>  <<"func", n, sig>>  <<"macroint", n, v>>  <<"macrodots", n>>
     <<"sconst", n, v>>   `static const int n = v;` -- goes through _add_integer_constant like a #define (it is even
                          stored under the key 'macro n'), but in declaration order, not in the macro phase

   Laws checked on this machine by TLC (MC_Redecl.cfg):
     IntsImmutable     an integer constant never changes value once it has one
     BindImmutable     without override=True the meaning (desc, quals) of a bound key never changes
     MacroConsistent   a macro bound to an integer agrees with the integer-constant table
     OkMeansDeclared   after a successful cdef() every item of the call is bound to what the call said
   Ideal-level expectations the code is known NOT to meet (Variant = "faithful" must violate them, the
   corrected variants must satisfy them; the deviations are reported as classes, never as violations):
     NoEqualRejected   redeclaring a name with an equal meaning is accepted   (identity-vs-equality)
     FailureAtomicItem a failing item leaves both tables unchanged            (constant leak) *)
EXTENDS Integers, Sequences, FiniteSets, TLC

CONSTANTS Variant          \* "faithful" | "equality" (compare meanings, not objects) | "declfirst" (_declare before _add_constants)
                           \* broken variants that TLC must reject:
                           \* "override-consts" (override also replaces constants), "nostop" (call continues after a failing item),
                           \* "override-sticky" (conflict without override still stores),
                           \* "include-copies" (include() re-creates the objects), "include-overrides" (include() replaces bindings)

Types == {"int", "long", "int *", "int[3]"}
Sigs  == {"int(*)(int)", "long(*)(void)"}
Cached(ty) == ty \in {"int", "long"}
SmallInt(v) == v >= 0 - 5 /\ v <= 256

EmptyFn == [x \in {} |-> 0]
Put(f, k, v) == (k :> v) @@ f

IntStr(v) == ToString(v)

Key(it) == CASE it[1] = "typedef"   -> "typedef " \o it[2]
             [] it[1] = "var"       -> (IF it[4] THEN "constant " ELSE "variable ") \o it[2]
             [] it[1] = "func"      -> "function " \o it[2]
             [] it[1] = "macroint"  -> "macro " \o it[2]
             [] it[1] = "macrodots" -> "macro " \o it[2]
             [] it[1] = "sconst"    -> "macro " \o it[2]

Desc(it) == CASE it[1] = "typedef"   -> it[3]
              [] it[1] = "var"       -> it[3]
              [] it[1] = "func"      -> it[3]
              [] it[1] = "macroint"  -> IntStr(it[3])
              [] it[1] = "macrodots" -> "..."
              [] it[1] = "sconst"    -> IntStr(it[3])

Quals(it) == IF it[1] = "var" /\ it[4] THEN 1 ELSE 0

IsMacro(it) == it[1] \in {"macroint", "macrodots"}

\* the object the parser hands to _declare for this item, given the fresh-object counter
Obj(it, next) ==
  CASE it[1] \in {"typedef", "var"} -> IF Cached(it[3]) THEN <<"cached", it[3]>> ELSE <<"fresh", next>>
    [] it[1] = "func"               -> <<"fresh", next>>
    [] it[1] \in {"macroint", "sconst"} -> IF SmallInt(it[3]) THEN <<"smallint", it[3]>> ELSE <<"fresh", next>>
    [] it[1] = "macrodots"          -> <<"fresh", next>>

\* machine state: s = [decl : key -> [obj, desc, quals], ints : name -> value, next : Nat]
\*   plus order / iorder: insertion order of the two dicts (what a later ffi.include() iterates over)
S0 == [decl |-> EmptyFn, ints |-> EmptyFn, next |-> 1, order |-> <<>>, iorder |-> <<>>]
S0At(n) == [S0 EXCEPT !.next = n]        \* a second FFI: its fresh objects are distinct from the first one's

Ok(s)      == [s |-> s, err |-> ""]
Fail(s, e) == [s |-> s, err |-> e]

Same(prev, obj, desc, quals) ==
  IF Variant = "equality" THEN prev.desc = desc /\ prev.quals = quals
  ELSE prev.obj = obj /\ prev.quals = quals

Declare(s, key, obj, desc, quals, override) ==
  LET stored == [s EXCEPT !.decl = Put(s.decl, key, [obj |-> obj, desc |-> desc, quals |-> quals]),
                          !.order = IF key \in DOMAIN s.decl THEN s.order ELSE Append(s.order, key)] IN
  IF key \in DOMAIN s.decl
  THEN IF Same(s.decl[key], obj, desc, quals) THEN Ok(s)
       ELSE IF ~override
            THEN (IF Variant = "override-sticky" THEN Fail(stored, "decl") ELSE Fail(s, "decl"))
            ELSE Ok(stored)
  ELSE Ok(stored)

AddConst(s, n, v, override) ==
  IF n \in DOMAIN s.ints
  THEN IF s.ints[n] = v THEN Ok(s)
       ELSE IF Variant = "override-consts" /\ override THEN Ok([s EXCEPT !.ints = Put(s.ints, n, v)])
       ELSE Fail(s, "const")
  ELSE Ok([s EXCEPT !.ints = Put(s.ints, n, v), !.iorder = Append(s.iorder, n)])

Item(s, it, override) ==
  LET obj == Obj(it, s.next)
      s1  == [s EXCEPT !.next = s.next + 1]      \* the parser has built its object(s)
  IN IF it[1] \in {"macroint", "sconst"}
     THEN IF Variant = "declfirst"
          THEN LET d == Declare(s1, Key(it), obj, Desc(it), 0, override) IN
               IF d.err # "" THEN d
               ELSE LET c == AddConst(d.s, it[2], it[3], override) IN
                    IF c.err # "" THEN Fail(s1, c.err) ELSE c
          ELSE LET c == AddConst(s1, it[2], it[3], override) IN
               IF c.err # "" THEN c ELSE Declare(c.s, Key(it), obj, Desc(it), 0, override)
     ELSE Declare(s1, Key(it), obj, Desc(it), Quals(it), override)

\* the #define lines of one cdef() are collected into a dict by _preprocess (macros[name] = value): a name
\* defined twice in the same source keeps the position of its first and the value of its last #define
DedupMacros(m) ==
  LET idx == {i \in 1..Len(m) : \A j \in 1..(i - 1) : m[j][2] # m[i][2]}
      LastOf(i) == CHOOSE j \in 1..Len(m) : m[j][2] = m[i][2] /\ \A l \in (j + 1)..Len(m) : m[l][2] # m[i][2]
  IN [k \in 1..Cardinality(idx) |-> LET i == CHOOSE i \in idx : Cardinality({j \in idx : j < i}) = k - 1 IN m[LastOf(i)]] \o <<>>
\* _process_macros runs before the declarations of the same cdef()
Ordered(items) == DedupMacros(SelectSeq(items, IsMacro)) \o SelectSeq(items, LAMBDA it : ~IsMacro(it))

RECURSIVE Run(_, _, _)
Run(s, items, override) ==
  IF items = <<>> THEN Ok(s)
  ELSE LET r == Item(s, Head(items), override) IN
       IF r.err # "" /\ Variant # "nostop" THEN r
       ELSE LET rest == Run(r.s, Tail(items), override) IN
            IF r.err # "" THEN Fail(rest.s, r.err) ELSE rest

Call(s, items, override) == Run(s, Ordered(items), override)

(* ------------------------------------------------------------------ ffi.include()
   Parser.include(other): every declaration of `other` whose kind is struct/union/enum/anonymous/typedef (of the
   kinds modelled here: typedef) is passed to _declare with the SAME object (included=True, no override: the
   options of the last parse() have been restored), in the insertion order of other's dict; then every integer
   constant goes through _add_constants.  'macro', 'function', 'variable' and 'constant' entries do not travel.
   The first failure aborts; what was copied before it stays. *)
IsTypedefKey(k) == Len(k) > 8 /\ SubSeq(k, 1, 8) = "typedef "

RECURSIVE IncDecls(_, _, _)
IncDecls(b, a, i) ==
  IF i > Len(a.order) THEN Ok(b)
  ELSE LET k == a.order[i] IN
       IF IsTypedefKey(k)
       THEN LET b1 == IF Variant = "include-copies" THEN [b EXCEPT !.next = b.next + 1] ELSE b
                obj == IF Variant = "include-copies" THEN <<"fresh", b.next>> ELSE a.decl[k].obj
                r == Declare(b1, k, obj, a.decl[k].desc, a.decl[k].quals, Variant = "include-overrides") IN
            IF r.err # "" THEN r ELSE IncDecls(r.s, a, i + 1)
       ELSE IncDecls(b, a, i + 1)
RECURSIVE IncInts(_, _, _)
IncInts(b, a, i) ==
  IF i > Len(a.iorder) THEN Ok(b)
  ELSE LET r == AddConst(b, a.iorder[i], a.ints[a.iorder[i]], FALSE) IN
       IF r.err # "" THEN r ELSE IncInts(r.s, a, i + 1)
Include(b, a) == LET d == IncDecls(b, a, 1) IN IF d.err # "" THEN d ELSE IncInts(d.s, a, 1)

\* what a user can see of the state (object identities are visible only through later outcomes)
Proj(s) == [decl |-> [k \in DOMAIN s.decl |-> <<s.decl[k].desc, s.decl[k].quals>>], ints |-> s.ints]

DeclSet(s) == {<<k, s.decl[k].desc, s.decl[k].quals>> : k \in DOMAIN s.decl}
IntSet(s)  == {<<n, s.ints[n]>> : n \in DOMAIN s.ints}

(* ------------------------------------------------------------------ laws over one step *)
IntsImmutableStep(s, t) == \A n \in DOMAIN s.ints : n \in DOMAIN t.ints /\ t.ints[n] = s.ints[n]
BindImmutableStep(s, t, override) ==
  override \/ \A k \in DOMAIN s.decl : k \in DOMAIN t.decl /\ t.decl[k].desc = s.decl[k].desc /\ t.decl[k].quals = s.decl[k].quals
MacroConsistentState(s) ==
  \A k \in DOMAIN s.decl :
     \A n \in DOMAIN s.ints : (k = "macro " \o n /\ s.decl[k].desc # "...") => s.decl[k].desc = IntStr(s.ints[n])
MacroHasConst(s, names) ==
  \A n \in names : (("macro " \o n) \in DOMAIN s.decl /\ s.decl["macro " \o n].desc # "...") => n \in DOMAIN s.ints
OkMeansDeclaredStep(t, items, err) ==
  err = "" => \A i \in DOMAIN items :
                 /\ Key(items[i]) \in DOMAIN t.decl
                 /\ \/ t.decl[Key(items[i])].desc = Desc(items[i]) /\ t.decl[Key(items[i])].quals = Quals(items[i])
                    \/ \E j \in DOMAIN items : j # i /\ Key(items[j]) = Key(items[i])   \* overridden inside the same call
                 /\ items[i][1] \in {"macroint", "sconst"} => items[i][2] \in DOMAIN t.ints /\ t.ints[items[i][2]] = items[i][3]

\* ideal expectations (deviation classes)
EqualRejected(s, it, override) ==      \* a single item, equal in meaning to what is bound, is rejected
  LET r == Item(s, it, override) IN
  /\ r.err = "decl"
  /\ Key(it) \in DOMAIN s.decl /\ s.decl[Key(it)].desc = Desc(it) /\ s.decl[Key(it)].quals = Quals(it)
LeakOnFailure(s, it, override) ==      \* a failing item changed a table
  LET r == Item(s, it, override) IN r.err # "" /\ Proj(r.s) # Proj(s)

\* laws of include (b: including environment before, a: included one)
IncludeNeverOverrides(b, a) == LET r == Include(b, a) IN BindImmutableStep(b, r.s, FALSE) /\ IntsImmutableStep(b, r.s)
IncludeShares(b, a) == LET r == Include(b, a) IN
  r.err = "" => /\ \A k \in DOMAIN a.decl : IsTypedefKey(k) => (k \in DOMAIN r.s.decl /\ r.s.decl[k].obj = a.decl[k].obj)
                /\ \A n \in DOMAIN a.ints : n \in DOMAIN r.s.ints /\ r.s.ints[n] = a.ints[n]
IncludeIdempotent(b, a) == LET r == Include(b, a) IN
  r.err = "" => LET r2 == Include(r.s, a) IN r2.err = "" /\ r2.s = r.s
=============================================================================
