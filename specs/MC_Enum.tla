------------------------------ MODULE MC_Enum ------------------------------
(* Every enum declaration of at most MaxLen enumerators, each given by an explicit value in the
   whole range of long and unsigned long (IntBits = 3, LongBits = 5: -16..31), left implicit, or
   referring to an earlier enumerator: values, underlying type and ffi.string() of the
   implementation model equal the ideal.  The same run prints the declarations of the boundary
   alphabet for replay at the true widths (<<"ENUM", items>> with values in units of the
   symbolic boundaries, see Sym).                                                          *)
EXTENDS Enum
CONSTANTS MaxLen, PrintUpTo, Full       \* Full: explicit values range over all of Lo..Hi, else over the boundary values
VARIABLES nitems            \* explicit values as native integers (printed for replay)
Names == <<"A", "B", "C", "D">>
Lo == 0 - Pow2(LongBits - 1)
Hi == Pow2(LongBits) - 1

\* around every boundary of int, unsigned int, long, unsigned long
Boundary == {Lo, Lo + 1, 0 - Pow2(IntBits - 1) - 1, 0 - Pow2(IntBits - 1), 0 - 1, 0, 1,
             Pow2(IntBits - 1) - 1, Pow2(IntBits - 1), Pow2(IntBits) - 1, Pow2(IntBits),
             Pow2(LongBits - 1) - 1, Pow2(LongBits - 1), Hi}
ValueSet == IF Full THEN Lo..Hi ELSE Boundary

ToItems(ns) == [i \in 1..Len(ns) |-> IF ns[i].k = "explicit" THEN [ns[i] EXCEPT !.v = Z(@)] ELSE ns[i]]
items == ToItems(nitems)

Init == nitems = <<>>
Add(it) == /\ Len(nitems) < MaxLen
           /\ nitems' = Append(nitems, it)
           /\ (Len(nitems') <= PrintUpTo /\ Defined(ToItems(nitems'), Values(ToItems(nitems')))
                 => PrintT(<<"ENUM", nitems'>>))
Next == LET nm == Names[Len(nitems) + 1] IN
        \/ \E v \in ValueSet : Add([name |-> nm, k |-> "explicit", v |-> v, ref |-> 0])
        \/ Add([name |-> nm, k |-> "implicit", v |-> 0, ref |-> 0])
        \/ \E r \in 1..Len(nitems) : Add([name |-> nm, k |-> "ref", v |-> 0, ref |-> r])
Spec == Init /\ [][Next]_nitems

\* every declared value, its neighbours, and the ends of the ranges
Queries == LET vals == Values(items) IN
           UNION {{vals[i], ZAdd(vals[i], Z1), ZSub(vals[i], Z1)} : i \in 1..Len(vals)} \cup {Z(Lo), Z(Hi), Z0}
ValuesOK == items # <<>> => AgreeValues(items)
BaseOK   == items # <<>> => AgreeBase(items)
StringOK == items # <<>> => AgreeString(items, Queries)
=============================================================================
