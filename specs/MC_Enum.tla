------------------------------ MODULE MC_Enum ------------------------------
(* Every enum declaration of at most MaxLen enumerators, each given by an explicit value in the
   whole range of long and unsigned long (IntBits = 3, LongBits = 5: -16..31), left implicit, or
   referring to an earlier enumerator: values, underlying type and ffi.string() of the
   implementation model equal the ideal.  The same run prints the declarations of the boundary
   alphabet for replay at the true widths (<<"ENUM", items>> with values in units of the
   symbolic boundaries, see Sym).
   CharLevel > 0 adds the character-constant dimension (C11 6.4.4.4): an enumerator given by 'c' or
   -'c' for c in every simple escape sequence, every one-digit octal escape and plain characters
   (CharLevel = 1: a representative subset; 2: all; 3: all for the first enumerator, the subset after it;
   for 2 and 3 only the declarations that contain a character constant are printed).  Numeric escapes of more than one digit are in the ideal (CharNat)
   but not in this set: cffi's grammar rejects them (CffiCharOK), see design_notes/C10.md.        *)
EXTENDS Enum
CONSTANTS MaxLen, PrintUpTo, Full, CharLevel       \* Full: explicit values range over all of Lo..Hi, else over the boundary values
VARIABLES nitems            \* explicit values as native integers (printed for replay)
Names == <<"A", "B", "C", "D">>
Lo == 0 - Pow2(LongBits - 1)
Hi == Pow2(LongBits) - 1

\* around every boundary of int, unsigned int, long, unsigned long
Boundary == {Lo, Lo + 1, 0 - Pow2(IntBits - 1) - 1, 0 - Pow2(IntBits - 1), 0 - 1, 0, 1,
             Pow2(IntBits - 1) - 1, Pow2(IntBits - 1), Pow2(IntBits) - 1, Pow2(IntBits),
             Pow2(LongBits - 1) - 1, Pow2(LongBits - 1), Hi}
ValueSet == IF Full THEN Lo..Hi ELSE Boundary

\* spellings: \' \" \? \\ \a \b \f \n \r \t \v, \0..\7, and plain characters
EscLetters == {39, 34, 63, 92, 97, 98, 102, 110, 114, 116, 118}
AllChars == {<<BSL, c>> : c \in EscLetters \cup (48..55)} \cup {<<c>> : c \in {32, 33, 48, 65, 97, 110, 126}}
FewChars == {<<BSL, 97>>, <<BSL, 110>>, <<BSL, 92>>, <<BSL, 48>>, <<97>>}
\* CharLevel 3 (quick tier): all spellings for the first enumerator, the subset for later ones
CharSet == IF CharLevel = 0 THEN {}
           ELSE IF CharLevel = 1 \/ (CharLevel = 3 /\ Len(nitems) > 0) THEN FewChars ELSE AllChars
HasChar(ns) == \E i \in 1..Len(ns) : ns[i].k = "char"

ToItems(ns) == [i \in 1..Len(ns) |-> IF ns[i].k = "explicit" THEN [ns[i] EXCEPT !.v = Z(@)] ELSE ns[i]]
items == ToItems(nitems)

Init == nitems = <<>>
Add(it) == /\ Len(nitems) < MaxLen
           /\ nitems' = Append(nitems, it)
           /\ (Len(nitems') <= PrintUpTo /\ (CharLevel >= 2 => HasChar(nitems')) /\ Defined(ToItems(nitems'), Values(ToItems(nitems')))
                 => PrintT(<<"ENUM", nitems'>>))
Next == LET nm == Names[Len(nitems) + 1] IN
        \/ \E v \in ValueSet : Add([name |-> nm, k |-> "explicit", v |-> v, ref |-> 0, sp |-> <<>>, cneg |-> FALSE])
        \/ Add([name |-> nm, k |-> "implicit", v |-> 0, ref |-> 0, sp |-> <<>>, cneg |-> FALSE])
        \/ \E r \in 1..Len(nitems) : Add([name |-> nm, k |-> "ref", v |-> 0, ref |-> r, sp |-> <<>>, cneg |-> FALSE])
        \/ \E c \in CharSet, ng \in BOOLEAN : Add([name |-> nm, k |-> "char", v |-> 0, ref |-> 0, sp |-> c, cneg |-> ng])
Spec == Init /\ [][Next]_nitems

\* every declared value, its neighbours, and the ends of the ranges
Queries == LET vals == Values(items) IN
           UNION {{vals[i], ZAdd(vals[i], Z1), ZSub(vals[i], Z1)} : i \in 1..Len(vals)} \cup {Z(Lo), Z(Hi), Z0}
ValuesOK == items # <<>> => AgreeValues(items)
BaseOK   == items # <<>> => AgreeBase(items)
StringOK == items # <<>> => AgreeString(items, Queries)
=============================================================================
