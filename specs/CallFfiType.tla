---------------------------- MODULE CallFfiType ----------------------------
(* C13, design level: the ffi_type description cffi hands to libffi for a struct passed or
   returned by value (fb_fill_type, src/c/_cffi_backend.c:5604-5704).  libffi has no array
   type: a field `T f[d1][d2]...` must appear as d1*d2*... consecutive elements of T.
   Pass 1 counts the flattened fields (to size the element list), pass 2 fills the list.
   libffi classifies the struct's eightbytes (x86-64: INTEGER / SSE registers or MEMORY) by
   walking this list, so the list has to cover the whole struct: its elements, laid out with
   their natural alignment, end exactly where the C struct ends.
   Checked for every struct of 1..2 fields, item sizes 1/2/4/8, 0..3 array dimensions.
   Variant "lastdim" (flat = ct_length instead of flat *= ct_length in pass 2) must be rejected. *)
EXTENDS Integers, Sequences, FiniteSets, TLC
CONSTANTS Variant
VARIABLES shape, pc, nflat, elems
vars == <<shape, pc, nflat, elems>>

Dims == {<<>>, <<2>>, <<3>>, <<2, 2>>, <<2, 3>>, <<2, 1>>, <<1, 2>>, <<3, 1>>, <<2, 2, 2>>, <<2, 1, 3>>}
Field == [size : {1, 2, 4, 8}, dims : Dims]
Shapes == UNION {[1..n -> Field] : n \in 1..2}

RECURSIVE Prod(_, _)
Prod(d, i) == IF i > Len(d) THEN 1 ELSE d[i] * Prod(d, i + 1)
\* the while loop over nested array types, outermost dimension first
RECURSIVE FlatLoop(_, _, _, _)
FlatLoop(d, i, flat, mul) == IF i > Len(d) THEN flat
                             ELSE FlatLoop(d, i + 1, IF mul THEN flat * d[i] ELSE d[i], mul)
AlignTo(n, a) == ((n + a - 1) \div a) * a
Max(a, b) == IF a > b THEN a ELSE b
RECURSIVE CEnd(_, _, _), MaxAlign(_, _), ElemEnd(_, _, _)
\* the C compiler's layout: end offset of the last field / the struct's alignment / its size
CEnd(s, i, off) == IF i > Len(s) THEN off
                   ELSE CEnd(s, i + 1, AlignTo(off, s[i].size) + s[i].size * Prod(s[i].dims, 1))
MaxAlign(s, i) == IF i > Len(s) THEN 1 ELSE Max(s[i].size, MaxAlign(s, i + 1))
CSize(s) == AlignTo(CEnd(s, 1, 0), MaxAlign(s, 1))
\* libffi's walk over the element list (each element: size = alignment)
ElemEnd(es, i, off) == IF i > Len(es) THEN off ELSE ElemEnd(es, i + 1, AlignTo(off, es[i]) + es[i])

RECURSIVE Count(_, _), FillV(_, _, _)
Count(s, i) == IF i > Len(s) THEN 0 ELSE FlatLoop(s[i].dims, 1, 1, TRUE) + Count(s, i + 1)
FillV(s, i, variant) == IF i > Len(s) THEN <<>>
                        ELSE [j \in 1..FlatLoop(s[i].dims, 1, 1, variant # "lastdim") |-> s[i].size] \o FillV(s, i + 1, variant)
Fill(s, i) == FillV(s, i, Variant)

Init == shape \in Shapes /\ pc = "count" /\ nflat = 0 /\ elems = <<>>
Pass1 == pc = "count" /\ nflat' = Count(shape, 1) /\ pc' = "fill" /\ UNCHANGED <<shape, elems>>
Pass2 == pc = "fill" /\ elems' = Fill(shape, 1) /\ pc' = "done" /\ UNCHANGED <<shape, nflat>>
Next == Pass1 \/ Pass2
Spec == Init /\ [][Next]_vars

\* non-vacuity, evaluated by TLC in the same run: the broken variant breaks both clauses somewhere
ASSUME \E s \in Shapes : Len(FillV(s, 1, "lastdim")) # Count(s, 1)
ASSUME \E s \in Shapes : AlignTo(ElemEnd(FillV(s, 1, "lastdim"), 1, 0), MaxAlign(s, 1)) # CSize(s)

\* the list allocated after pass 1 is filled exactly
FilledAsCounted == pc = "done" => Len(elems) = nflat
\* the element list covers the C struct
Covers == pc = "done" => AlignTo(ElemEnd(elems, 1, 0), MaxAlign(shape, 1)) = CSize(shape)
=============================================================================
