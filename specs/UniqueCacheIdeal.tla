------------------------------ MODULE UniqueCacheIdeal ------------------------------
(* Property C27 itself: over any history of building types, two live non-aggregate ctype objects
   are the same object iff they describe the same C type, and a type rebuilt after its previous
   ctype was freed is again unique.

   Events:  obtain(s, d, req, agg)  the program obtained (from any ffi / backend call, or by
                      introspection ct.item / ct.args / ct.result) a reference to the ctype object s
                      (objects are numbered in order of first appearance; the number is never
                      reused), whose description is d: its kind, and the object numbers of its
                      components / primitive name / length / ellipsis / abi (read from the object);
                      req is the description that was asked for; agg tells aggregate kinds
                      (struct, union, enum), which the property does not constrain.
            dead(s)   the object died (its weak references were cleared)
   Clauses:  Requested     the object returned is of the description asked for
             SameObject    an object never changes its description        ("same object => same type")
             Canonical     no second live object with the description of a live one ("same type => same object")
   Rebuildable is Canonical applied after dead(s). *)
EXTENDS Naturals, Sequences, FiniteSets
VARIABLES live       \* live[s] = description of the live object s (a function with a growing domain)
ivars == <<live>>
Empty == [x \in {} |-> 0]
IInit == live = Empty
Live == DOMAIN live

Pre(e) == CASE e.op = "obtain" -> TRUE
            [] e.op = "dead"   -> e.s \in Live
            [] OTHER -> e.op \in {"drop", "cycdrop", "gc", "dropcb", "winclose"}     \* the program drops references: no clause
Why(e) == IF ~Pre(e) THEN "Harness"
          ELSE IF e.op # "obtain" THEN ""
          ELSE IF e.req # e.d THEN "Requested"
          ELSE IF e.s \in Live THEN (IF live[e.s] # e.d THEN "SameObject" ELSE "")
          ELSE IF ~e.agg /\ \E t \in Live : live[t] = e.d THEN "Canonical"
          ELSE ""
Guard(e) == Why(e) = ""
Effect(e) == live' = CASE e.op = "obtain" -> [t \in Live \cup {e.s} |-> IF t = e.s THEN e.d ELSE live[t]]
                       [] e.op = "dead" -> [t \in Live \ {e.s} |-> live[t]]
                       [] OTHER -> live
=============================================================================
