---------------------------- MODULE Trace_CallLib ----------------------------
(* Validates behaviours recorded from real libraries (C33) against the library machine
   CallLib: JSON = [lib |-> [G, K], traces |-> <<trace>>], a trace = [id, build, init (cells),
   events]; an event = [op, i, v, expect, obs |-> [exc, ret]]; result-object events [op, j, k, f, v / vs,
   expect, obs] (CallLib: mk, rdobj, wrobj, passobj, same, drop) (+ "static" events whose obs must
   equal the reference ref: names exposed, sizeof/offsetof measured by gcc).
   The machine is stepped through every trace; output <<"VERDICT", trace id, position, clause>>
   for the first event of a trace whose observation breaks the machine ("exc", "ret",
   "static"), or ("spec", "expect") when the machine at Base 256 disagrees with what
   MC_CallLib predicted for the event class at Base 4. *)
EXTENDS CallLib, Json, IOUtils
(* One TLC step per recorded event (a behaviour of this specification = all traces, one after
   the other), so that the depth of evaluation does not grow with the length of a trace.  The
   parsed file is kept in the variable `data` (parsed once); the VIEW leaves it out of the
   fingerprint.  `\E r \in {expr}` binds a value that is evaluated once. *)
VARIABLES data, t, pos, S
vars == <<data, t, pos, S>>
View == <<t, pos>>

StepAll(L, st, e) ==
    IF e.op \in ObjOps
    THEN LET o == ObjStep(L.R, st.objs, e, "faithful") IN
         [S |-> [st |-> st.st, objs |-> o.objs], exc |-> o.exc, ret |-> o.ret]
    ELSE LET g == Step(L.G, L.K, st.st, e) IN
         [S |-> [st |-> g.st, objs |-> st.objs], exc |-> g.exc, ret |-> g.ret]
\* the clause an event breaks, "" if none
Clause(e, r) == IF e.expect # "?" /\ r.exc # e.expect THEN "expect"
                ELSE IF e.obs.exc # r.exc THEN "exc"
                ELSE IF r.exc = "" /\ ~PyEq(e.obs.ret, r.ret) THEN "ret"
                ELSE ""
Start(d, i) == [st |-> d.traces[i].init, objs |-> <<>>]

TInit == \E d \in {JsonDeserialize(IOEnv.TRACE_FILE)} :
            /\ data = d /\ t = 1 /\ pos = 1
            /\ S = IF Len(d.traces) > 0 THEN Start(d, 1) ELSE [st |-> <<>>, objs |-> <<>>]
NextTrace == /\ t' = t + 1 /\ pos' = 1
             /\ S' = IF t + 1 <= Len(data.traces) THEN Start(data, t + 1) ELSE S
TNext ==
    /\ UNCHANGED data
    /\ \/ /\ t <= Len(data.traces) /\ pos > Len(data.traces[t].events)          \* trace accepted
          /\ NextTrace
       \/ /\ t <= Len(data.traces) /\ pos <= Len(data.traces[t].events)
          /\ \E e \in {data.traces[t].events[pos]} :
                IF e.op = "static"
                THEN IF e.obs = e.ref THEN pos' = pos + 1 /\ UNCHANGED <<t, S>>
                     ELSE PrintT(<<"VERDICT", data.traces[t].id, pos, "static">>) /\ NextTrace
                ELSE \E r \in {StepAll(data.lib, S, e)} :
                       \E c \in {Clause(e, r)} :
                          IF c = "" THEN pos' = pos + 1 /\ S' = r.S /\ UNCHANGED t
                          ELSE PrintT(<<"VERDICT", data.traces[t].id, pos, c>>) /\ NextTrace
       \/ /\ t = Len(data.traces) + 1
          /\ PrintT(<<"CHECKED", Len(data.traces)>>)
          /\ t' = t + 1 /\ UNCHANGED <<pos, S>>
TSpec == TInit /\ [][TNext]_vars
=============================================================================
