---------------------------- MODULE Trace_CallLib ----------------------------
(* Validates behaviours recorded from real libraries (C33) against the library machine
   CallLib: JSON = [lib |-> [G, K], traces |-> <<trace>>], a trace = [id, build, init (cells),
   events]; an event = [op, i, v, expect, obs |-> [exc, ret]]; result-object events [op, j, k, f, v / vs,
   expect, obs] (CallLib: mk, rdobj, wrobj, passobj, same, drop) (+ "static" events whose obs must
   equal the reference ref: names exposed, sizeof/offsetof measured by gcc).
   The machine is stepped through every trace; output <<"VERDICT", trace id, position, clause>>
   for the first event of a trace whose observation breaks the machine ("exc", "ret",
   "static"), or ("spec", "expect") when the machine at Base 256 disagrees with what
   MC_CallLib predicted for the event class at Base 4. *)
EXTENDS CallLib, Json, IOUtils
VARIABLES i
Data == JsonDeserialize(IOEnv.TRACE_FILE)

RECURSIVE Run(_, _, _, _, _)
\* L = the library [G, K, R]; S = [st |-> global cells, objs |-> kept result objects]
\* returns <<>> if events pos.. are all accepted, else <<pos, clause>>
Run(L, K, evs, pos, S) ==
    IF pos > Len(evs) THEN <<>>
    ELSE LET e == evs[pos] IN
         IF e.op = "static"
         THEN (IF e.obs = e.ref THEN Run(L, K, evs, pos + 1, S) ELSE <<pos, "static">>)
         ELSE LET r == IF e.op \in ObjOps
                       THEN LET o == ObjStep(L.R, S.objs, e, "faithful") IN
                            [S |-> [st |-> S.st, objs |-> o.objs], exc |-> o.exc, ret |-> o.ret]
                       ELSE LET g == Step(L.G, K, S.st, e) IN
                            [S |-> [st |-> g.st, objs |-> S.objs], exc |-> g.exc, ret |-> g.ret]
              IN
              IF e.expect # "?" /\ r.exc # e.expect THEN <<pos, "expect">>
              ELSE IF e.obs.exc # r.exc THEN <<pos, "exc">>
              ELSE IF r.exc = "" /\ ~PyEq(e.obs.ret, r.ret) THEN <<pos, "ret">>
              ELSE Run(L, K, evs, pos + 1, r.S)

CheckAll == LET D == Data IN
            /\ \A j \in 1..Len(D.traces) :
                  LET t == D.traces[j]
                      v == Run(D.lib, D.lib.K, t.events, 1, [st |-> t.init, objs |-> <<>>])
                  IN IF v # <<>> THEN PrintT(<<"VERDICT", t.id, v[1], v[2]>>) ELSE TRUE
            /\ PrintT(<<"CHECKED", Len(D.traces)>>)
TInit == i = 0 /\ (CheckAll = TRUE)
TNext == UNCHANGED i
TSpec == TInit /\ [][TNext]_i
=============================================================================
