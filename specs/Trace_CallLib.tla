---------------------------- MODULE Trace_CallLib ----------------------------
(* Validates behaviours recorded from real libraries (C33) against the library machine
   CallLib: JSON = [lib |-> [G, K], traces |-> <<trace>>], a trace = [id, build, init (cells),
   events]; an event = [op, i, v, expect, obs |-> [exc, ret]] (+ "static" events whose obs must
   equal the reference ref: names exposed, sizeof/offsetof measured by gcc).
   The machine is stepped through every trace; output <<"VERDICT", trace id, position, clause>>
   for the first event of a trace whose observation breaks the machine ("exc", "ret",
   "static"), or ("spec", "expect") when the machine at Base 256 disagrees with what
   MC_CallLib predicted for the event class at Base 4. *)
EXTENDS CallLib, Json, IOUtils
VARIABLES i
Data == JsonDeserialize(IOEnv.TRACE_FILE)

RECURSIVE Run(_, _, _, _, _)
\* returns <<>> if events pos.. are all accepted, else <<pos, clause>>
Run(G, K, evs, pos, st) ==
    IF pos > Len(evs) THEN <<>>
    ELSE LET e == evs[pos] IN
         IF e.op = "static"
         THEN (IF e.obs = e.ref THEN Run(G, K, evs, pos + 1, st) ELSE <<pos, "static">>)
         ELSE LET r == Step(G, K, st, e) IN
              IF e.expect # "?" /\ r.exc # e.expect THEN <<pos, "expect">>
              ELSE IF e.obs.exc # r.exc THEN <<pos, "exc">>
              ELSE IF r.exc = "" /\ ~PyEq(e.obs.ret, r.ret) THEN <<pos, "ret">>
              ELSE Run(G, K, evs, pos + 1, r.st)

CheckAll == LET D == Data IN
            /\ \A j \in 1..Len(D.traces) :
                  LET t == D.traces[j]
                      v == Run(D.lib.G, D.lib.K, t.events, 1, t.init)
                  IN IF v # <<>> THEN PrintT(<<"VERDICT", t.id, v[1], v[2]>>) ELSE TRUE
            /\ PrintT(<<"CHECKED", Len(D.traces)>>)
TInit == i = 0 /\ (CheckAll = TRUE)
TNext == UNCHANGED i
TSpec == TInit /\ [][TNext]_i
=============================================================================
