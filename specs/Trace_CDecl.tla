----------------------------- MODULE Trace_CDecl -----------------------------
(* Validates recorded outcomes of ffi.typeof(string) on the in-line FFI (Python parser) and a
   compiled / out-of-line FFI (C parser) against the property C07.

   A record: [id, toks, py |-> [r, t], c |-> [r, t], same, diag]
     r     "ok" | "err";  t  the term projected from the real ctype ([k |-> "none"] if err)
     same  the two ctype objects are the identical object
     diag  TRUE: also evaluate the specification's own reading of toks (Read, the ideal, and
           ParseC, the model of parse_c_type.c) and report where the real parsers leave them.
   VERDICT (ideal, the property): both reject, or both denote the same type - the identical
   object unless the type is built on a struct/union/enum.
   DIAG lines are about the models, never verdicts.                                       *)
EXTENDS CDeclRead, Json, IOUtils

Recs == JsonDeserialize(IOEnv.TRACE_FILE)

RECURSIVE HasAgg(_)
HasAgg(t) == CASE t.k \in {"struct", "union", "enum"} -> TRUE
               [] t.k \in {"ptr", "arr"} -> HasAgg(t.t)
               [] t.k = "fn" -> HasAgg(t.res) \/ \E i \in 1..Len(t.args) : HasAgg(t.args[i])
               [] OTHER -> FALSE

AgreeVerdict(e) ==
    IF e.py.r = "err" /\ e.c.r = "err" THEN "ok"
    ELSE IF e.py.r # e.c.r THEN (IF e.py.r = "ok" THEN "py-accepts-c-rejects" ELSE "c-accepts-py-rejects")
    ELSE IF e.py.t # e.c.t THEN "type-mismatch"
    ELSE IF ~HasAgg(e.py.t) /\ ~e.same THEN "not-identical"
    ELSE "ok"

(* how a real outcome relates to a model's reading: "=" same, or what the model said *)
Rel(real, model) ==
    IF real.r = "ok" THEN (IF model.r = "ok" /\ model.t = real.t THEN "=" ELSE model.r)
    ELSE (IF model.r = "ok" THEN "model-accepts" ELSE "=")

Check(i) ==
    LET e == Recs[i]
        v == AgreeVerdict(e)
    IN /\ (v # "ok" => PrintT(<<"VERDICT", e.id, v, ClassOf(e.toks)>>))
       /\ (e.diag => LET a == Rel(e.py, Read(e.toks))
                         b == Rel(e.c, ParseC(e.toks))
                     IN (a # "=" \/ b # "=") => PrintT(<<"DIAG", e.id, a, b, ClassOf(e.toks)>>))

ASSUME /\ \A i \in 1..Len(Recs) : Check(i)
       /\ PrintT(<<"CHECKED", Len(Recs)>>)

VARIABLE dummy
TInit == dummy = 0
TSpec == TInit /\ [][UNCHANGED dummy]_dummy
=============================================================================
