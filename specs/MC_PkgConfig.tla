------------------------------ MODULE MC_PkgConfig ------------------------------
(* Exhaustive configurations for PkgConfig.tla.
   Mode "stream": one package; one of its two outputs is every sequence of at most MaxToks
                  tokens of the alphabet below, rendered with every separator style; the other
                  output is every sequence of at most 1 token.
   Mode "merge":  package lists of length <= 2, every output a sequence of <= MaxToks tokens,
                  every failure placement and kind (exit status, death by signal, undecodable output).
   Mode "dump":   writes the "stream" universe with the implementation model's prediction to
                  IOEnv.PKG_OUT for the replay on the real flags_from_pkgconfig. *)
EXTENDS PkgConfig, SequencesExt, Json, IOUtils
CONSTANTS MaxToks, Mode, MergeFull
VARIABLES st
\* -I/a -I -L/b -lfoo -DX -DX=1 -DX=a=b -DX= -pthread -Wl,x
TokAlpha == {<<45, 73, 47, 97>>, <<45, 73>>, <<45, 76, 47, 98>>, <<45, 108, 102, 111, 111>>, <<45, 68, 88>>, <<45, 68, 88, 61, 49>>, <<45, 68, 88, 61, 97, 61, 98>>, <<45, 68, 88, 61>>, <<45, 112, 116, 104, 114, 101, 97, 100>>, <<45, 87, 108, 44, 120>>}
Seqs(E, n) == UNION {[1..k -> E] : k \in 0..n}
RECURSIVE Render(_, _)
Render(toks, sep) == IF toks = <<>> THEN <<>> ELSE IF Len(toks) = 1 THEN toks[1]
                     ELSE toks[1] \o sep \o Render(Tail(toks), sep)
Styles == {"plain", "padded", "newlines"}
Out(toks, style) == CASE style = "plain" -> Render(toks, <<32>>)
                      [] style = "padded" -> <<32, 9>> \o Render(toks, <<32, 32>>) \o <<32, 10>>
                      [] OTHER -> Render(toks, <<10>>) \o <<10>>
StreamPkgs == {<<[cf |-> Out(a, sty), lb |-> Out(b, "plain"), fail |-> "none", how |-> "status"]>> :
                    a \in Seqs(TokAlpha, MaxToks), b \in Seqs(TokAlpha, 1), sty \in Styles}
              \cup
              {<<[cf |-> Out(b, "plain"), lb |-> Out(a, sty), fail |-> "none", how |-> "status"]>> :
                    a \in Seqs(TokAlpha, MaxToks), b \in Seqs(TokAlpha, 1), sty \in Styles}
MergeAlpha == IF MergeFull
              THEN {t \in TokAlpha : t \in {<<45, 73, 47, 97>>, <<45, 108, 102, 111, 111>>, <<45, 68, 88, 61, 49>>,
                                           <<45, 112, 116, 104, 114, 101, 97, 100>>}}      \* -I/a -lfoo -DX=1 -pthread
              ELSE {t \in TokAlpha : t \in {<<45, 73, 47, 97>>, <<45, 108, 102, 111, 111>>}}      \* -I/a -lfoo
Hows(f) == IF f = "none" THEN {"status"} ELSE {"status", "signal", "undecodable"}
OnePkg(n) == UNION {{[cf |-> Out(a, "plain"), lb |-> Out(b, "plain"), fail |-> f, how |-> h] :
                       a \in Seqs(MergeAlpha, n), b \in Seqs(MergeAlpha, n), h \in Hows(f)} : f \in {"none", "cflags", "libs"}}
MergePkgs == {<<>>} \cup {<<p>> : p \in OnePkg(1)} \cup {<<p, q>> : p \in OnePkg(1), q \in OnePkg(1)}
Universe == IF Mode = "merge" THEN MergePkgs ELSE StreamPkgs

Init == IF Mode = "dump" THEN st = <<>> ELSE st \in Universe
Next == UNCHANGED st
Spec == Init /\ [][Next]_st

\* one invariant evaluation tokenises once; the three clauses are reported separately through Clause
Clause == LET tp == Tok(st)
              r == ImplT(tp)
          IN IF \E i \in DOMAIN tp : \E x \in {tp[i].cf, tp[i].lb} : \E t \in DOMAIN x : x[t] \notin TokAlpha THEN "split"
             ELSE IF VerdictT(tp, r.err, r.res) # "ok" THEN "ideal"
             ELSE IF (\A i \in DOMAIN tp : ~HasCross(tp[i].cf, tp[i].lb)) /\ r # IdealT(tp) THEN "equal"
             ELSE "ok"
SplitRenders == Clause # "split"
ImplSatisfiesIdeal == Clause # "ideal"
ImplEqualsIdeal == Clause # "equal"
AllClauses == Clause = "ok"

\* replay universe: all single-package streams of the bound + all package lists over a 2-token alphabet
Small == {t \in TokAlpha : t \in {<<45, 73, 47, 97>>, <<45, 108, 102, 111, 111>>}}
SmallPkg == UNION {{[cf |-> Out(a, "plain"), lb |-> Out(b, "plain"), fail |-> f, how |-> h] :
                      a \in {<<>>, <<<<45, 73, 47, 97>>>>}, b \in {<<>>, <<<<45, 108, 102, 111, 111>>>>},
                      h \in Hows(f) \ {"undecodable"}} : f \in {"none", "cflags", "libs"}}
DumpPkgs == StreamPkgs \cup {<<>>} \cup {<<p>> : p \in SmallPkg} \cup {<<p, q>> : p \in SmallPkg, q \in SmallPkg}
ASSUME Mode # "dump" \/
       LET us == SetToSeq(DumpPkgs) IN
       JsonSerialize(IOEnv.PKG_OUT, [i \in 1..Len(us) |-> [pkgs |-> us[i], want |-> Impl(us[i])]])
=============================================================================
