----------------------------- MODULE BufferOps -----------------------------
(* C19 - buffers, from_buffer and memmove match a byte-array model: operators.

   IDEAL (the statement): ffi.buffer(p, n) is a live length-n view of the n bytes at p with the
   index/slice semantics of a length-n Python bytearray, except that assignments must preserve
   the length.  The reference semantics below is written declaratively (which positions does a
   slice select?) and does not share code with the implementation model.
   ffi.from_buffer('T[]', obj): len(obj) div sizeof(T) items aliasing obj; a fixed 'T[k]' raises
   ValueError when obj is smaller than k*sizeof(T).  ffi.memmove(dst, src, n): as if the n source
   bytes were first copied to an intermediate buffer.

   IMPLEMENTATION MODEL: minibuffer.h (mb_subscript, mb_ass_subscript, mb_item, mb_slice,
   mb_ass_item, mb_ass_slice) on top of CPython's PySlice_GetIndicesEx = PySlice_Unpack +
   PySlice_AdjustIndices (Objects/sliceobject.c), direct_from_buffer (_cffi_backend.c:7177),
   b_memmove (:7305) on top of C memmove. *)
EXTENDS Integers, Sequences, FiniteSets, TLC
CONSTANT Variant     \* "faithful" | "no_neg_norm" | "clamp_off" | "ass_nolen" | "memcpy_fwd" | "fb_roundup"

(* optional integers (None) and slice keys *)
Nil == [none |-> TRUE, v |-> 0]
Opt(v) == [none |-> FALSE, v |-> v]
Key(a, b, s) == [a |-> a, b |-> b, s |-> s]

Read(m, off, n) == [k \in 1..n |-> IF off + k >= 1 /\ off + k <= Len(m) THEN m[off + k] ELSE 0 - 1]
Write(m, off, bs) == [k \in 1..Len(m) |-> IF k > off /\ k <= off + Len(bs) THEN bs[k - off] ELSE m[k]]
Min(S) == CHOOSE x \in S : \A y \in S : x <= y

(* ------------------------------------------------------------------------------ IDEAL *)
(* bytearray index: -n <= i < n, negative counts from the end *)
RefIdxOK(n, i) == 0 - n <= i /\ i < n
RefPos(n, i) == IF i < 0 THEN i + n ELSE i                        \* 0-based position
(* bytearray slice with step None/1: the positions p of 0..n-1 with lo <= p < hi, where a negative
   bound counts from the end and a missing bound does not restrict *)
NormB(n, x) == IF x < 0 THEN x + n ELSE x
StepOne(k) == k.s.none \/ k.s.v = 1
RefSel(n, k) == {p \in 0..(n - 1) : (k.a.none \/ NormB(n, k.a.v) <= p) /\ (k.b.none \/ p < NormB(n, k.b.v))}
RefGet(bs, k) == LET S == RefSel(Len(bs), k) IN
                 IF S = {} THEN <<>> ELSE [j \in 1..Cardinality(S) |-> bs[Min(S) + j]]
(* length-preserving slice assignment: exactly the selected positions are replaced, in order *)
RefSetOK(n, k, val) == Len(val) = Cardinality(RefSel(n, k))
RefSet(bs, k, val) == LET S == RefSel(Len(bs), k) IN
                      IF S = {} THEN bs ELSE [j \in 1..Len(bs) |-> IF (j - 1) \in S THEN val[j - Min(S)] ELSE bs[j]]
(* from_buffer *)
RefFromBufOpenLen(objlen, isz) == objlen \div isz
RefFromBufFixedOK(objlen, isz, k) == objlen >= k * isz
(* memmove through an intermediate buffer *)
RefMove(m, dst, src, n) == Write(m, dst, Read(m, src, n))

(* ------------------------------------------------------------- IMPLEMENTATION MODEL *)
Huge == 1073741824                         \* stands for PY_SSIZE_T_MAX (any value above every length)

(* PySlice_Unpack *)
MUnpack(k) ==
  LET step == IF k.s.none THEN 1 ELSE k.s.v IN
  IF step = 0 THEN [st |-> "ValueError", start |-> 0, stop |-> 0, step |-> 0]      \* "slice step cannot be zero"
  ELSE [st |-> "ok", step |-> step,
        start |-> IF k.a.none THEN (IF step < 0 THEN Huge ELSE 0) ELSE k.a.v,
        stop  |-> IF k.b.none THEN (IF step < 0 THEN 0 - Huge ELSE Huge) ELSE k.b.v]
(* PySlice_AdjustIndices *)
MAdjust(length, u) ==
  LET s1 == IF u.start < 0
              THEN (IF u.start + length < 0 THEN (IF u.step < 0 THEN 0 - 1 ELSE 0) ELSE u.start + length)
              ELSE IF u.start >= length THEN (IF u.step < 0 THEN length - 1 ELSE length) ELSE u.start
      e1 == IF u.stop < 0
              THEN (IF u.stop + length < 0 THEN (IF u.step < 0 THEN 0 - 1 ELSE 0) ELSE u.stop + length)
              ELSE IF u.stop >= length
                     THEN (IF u.step < 0 \/ Variant = "clamp_off" THEN length - 1 ELSE length) ELSE u.stop
  IN [start |-> s1, stop |-> e1]
(* mb_slice / mb_ass_slice clamping, minibuffer.h:30-38, 72-74 *)
MClamp(size, left, right) ==
  LET l1 == IF left < 0 THEN 0 ELSE left
      r1 == IF right > size THEN size ELSE right
  IN [left |-> IF l1 > r1 THEN r1 ELSE l1, right |-> r1]

(* mb_subscript with a slice, :221-235 *)
MGetSlice(bs, k) ==
  LET u == MUnpack(k) IN
  IF u.st # "ok" THEN [st |-> u.st, out |-> <<>>]
  ELSE IF u.step # 1 THEN [st |-> "TypeError", out |-> <<>>]        \* "buffer doesn't support slicing with step != 1"
  ELSE LET a == MAdjust(Len(bs), u)  c == MClamp(Len(bs), a.start, a.stop)
       IN [st |-> "ok", out |-> Read(bs, c.left, c.right - c.left)]
(* mb_ass_subscript with a slice, :259-274, mb_ass_slice :62-86 *)
MSetSlice(bs, k, val) ==
  LET u == MUnpack(k) IN
  IF u.st # "ok" THEN [st |-> u.st, mem |-> bs]
  ELSE IF u.step # 1 THEN [st |-> "TypeError", mem |-> bs]
  ELSE LET a == MAdjust(Len(bs), u)  c == MClamp(Len(bs), a.start, a.stop)  count == c.right - c.left
       IN IF count # Len(val) /\ Variant # "ass_nolen" THEN [st |-> "ValueError", mem |-> bs]
          ELSE [st |-> "ok", mem |-> Write(bs, c.left, Read(val, 0, IF count < Len(val) THEN count ELSE Len(val)))]
(* mb_subscript / mb_ass_subscript with an index, :212-220, mb_item :21, mb_ass_item :40 *)
MIdx(n, i) ==
  LET j == IF i < 0 /\ Variant # "no_neg_norm" THEN i + n ELSE i IN
  IF j < 0 \/ j >= n THEN [st |-> "IndexError", pos |-> 0] ELSE [st |-> "ok", pos |-> j]

(* direct_from_buffer, :7177: arraylength and the minimum size *)
MFromBuf(objlen, isz, fixed, k) ==
  IF fixed THEN IF objlen < k * isz THEN [st |-> "ValueError", len |-> 0] ELSE [st |-> "ok", len |-> k]
  ELSE IF isz = 1 THEN [st |-> "ok", len |-> objlen]                          \* fast path
  ELSE [st |-> "ok", len |-> IF Variant = "fb_roundup" THEN (objlen + isz - 1) \div isz ELSE objlen \div isz]

(* C memmove as a byte loop: forwards if the destination starts below the source, else backwards *)
MMove(m, dst, src, n) ==
  LET Fwd[k \in 0..n] == IF k = 0 THEN m ELSE Write(Fwd[k - 1], dst + k - 1, Read(Fwd[k - 1], src + k - 1, 1))
      Bwd[k \in 0..n] == IF k = 0 THEN m ELSE Write(Bwd[k - 1], dst + n - k, Read(Bwd[k - 1], src + n - k, 1))
  IN IF dst <= src \/ Variant = "memcpy_fwd" THEN Fwd[n] ELSE Bwd[n]
=============================================================================
