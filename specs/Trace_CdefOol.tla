---------------------------- MODULE Trace_CdefOol ----------------------------
(* C11, code -> spec.  Each record of the JSON file is one behaviour of Cdef.tla together with
   what the real in-line FFI and the real imported out-of-line module showed for it:
     [id, beh = <<action records>>, inl = obs, ool = obs, same = [key |-> BOOLEAN], emit = "ok" | "error:X"]
   TLC re-runs the behaviour on the environment machine (guards included), and gives a total
   verdict per record:

     <<"VERDICT", id, V, D>>
       V = set of <<clause, item, class>>: the property clause `clause` fails for `item`
           (the two real modes disagree).  class # "" iff the disagreement is exactly the one the
           implementation model CdefOol predicts for a documented divergence class.
       D = set of <<"inl"|"ool", clause, item>>: the real mode differs from the ideal projection
           (in-line) / from Decode(Encode(env)) (out-of-line) - model divergences, never verdicts.
     <<"VERDICT", id, {<<"guard", i, "">>}, {}>> if action i of the behaviour is not enabled
           (harness error: such a record says nothing about cffi).                              *)
EXTENDS CdefOol, Json, IOUtils

VARIABLES k, done
Traces == JsonDeserialize(IOEnv.TRACE_FILE)

Has(f, x) == x \in DOMAIN f

\* ---- what the ideal says an FFI shows (shape of harness/modes_gen.py:observe)
IdealSU(ev, key) == AggObs(ev, key)
SUMatches(o, i) ==     \* observed aggregate record against a predicted one with layout
  /\ Has(o, "name") /\ o.name = i.name /\ o.kind = i.kind /\ o.complete = i.complete
  /\ o.fields = i.fields /\ o.size = i.size /\ o.align = i.align
SUMatchesModel(o, m, i) ==   \* against the decoded module (names/types/bits) + the ideal's layout
  /\ Has(o, "name") /\ ~Has(m, "err")
  /\ o.name = m.name /\ o.kind = m.kind /\ o.complete = m.complete
  /\ Len(o.fields) = Len(m.fields)
  /\ \A f \in DOMAIN m.fields : o.fields[f][1] = m.fields[f][1] /\ o.fields[f][2] = m.fields[f][2]
                                /\ o.fields[f][5] = m.fields[f][3]
                                /\ o.fields[f][3] = i.fields[f][3] /\ o.fields[f][4] = i.fields[f][4]
  /\ o.size = i.size /\ o.align = i.align

EnumRel(names, vals) == [n \in ToSet(names) |-> vals[CHOOSE j \in DOMAIN names : names[j] = n]]
EnumEl(names, vals)  == [v \in ToSet(vals) |->      \* b_new_enum_type: the first name wins
                           names[CHOOSE j \in DOMAIN vals : vals[j] = v /\ \A j2 \in DOMAIN vals : vals[j2] = v => j <= j2]]
EnMatches(o, name, names, vals, signed, size) ==
  /\ Has(o, "name") /\ o.name = name
  /\ DOMAIN o.rel = ToSet(names) /\ \A n \in ToSet(names) : o.rel[n] = EnumRel(names, vals)[n]
  /\ DOMAIN o.el = ToSet(vals) /\ \A v \in ToSet(vals) : o.el[v] = EnumEl(names, vals)[v]
  /\ o.signed = signed /\ o.size = size

LtMatches(o, lt) == Len(o) = 3 /\ \A j \in 1..3 : ToSet(o[j]) = lt[j] /\ Len(o[j]) = Cardinality(lt[j])

Verdict(r) ==
  LET run == Run(r.beh, 1, EnvInit)
      ev == run.env
      M == Encode(ev)
      W == Words(M)
      emitOk == r.emit = "ok"
      \* ---------------- property clauses: the two real modes against each other
      vTd == {n \in DOMAIN ev.td : r.inl.td[n] # r.ool.td[n]}
      QSU == {key \in DOMAIN ev.su : Queryable(key)}
      vSu == {key \in QSU : r.inl.su[KeyStr(key)] # r.ool.su[KeyStr(key)]}
      vEn == {g \in DOMAIN ev.en : r.inl.en[g] # r.ool.en[g]}
      vK  == {c \in AllConsts(ev) : r.inl.k[c] # r.ool.k[c]}
      vFn == {f \in DOMAIN ev.fn : r.inl.fn[f] # r.ool.fn[f]}
      vGv == {g \in DOMAIN ev.gv : r.inl.gv[g] # r.ool.gv[g]}
      vAd == {x \in ((DOMAIN ev.fn) \ vFn) \cup ((DOMAIN ev.gv) \ vGv) :
                 ~(Has(r.inl.addr, x) /\ Has(r.ool.addr, x) /\ r.inl.addr[x] = r.ool.addr[x])}
      vLt == r.inl.lt # r.ool.lt
      \* "the same ctype object for non-aggregates"
      vSameTd == {n \in DOMAIN ev.td : NoAgg(ev.td[n]) /\ n \notin vTd /\ ~(Has(r.same, "td:" \o n) /\ r.same["td:" \o n])}
      vSameFn == {f \in DOMAIN ev.fn : NoAgg(ev.fn[f]) /\ f \notin vFn /\ ~(Has(r.same, "fn:" \o f) /\ r.same["fn:" \o f])}
      vSameGv == {g \in DOMAIN ev.gv : NoAgg(ev.gv[g]) /\ g \notin vGv /\ ~(Has(r.same, "gv:" \o g) /\ r.same["gv:" \o g])}
      \* ---------------- each real mode against its specification
      iTd(n) == r.inl.td[n] = Norm(ev, ev.td[n])
      oTd(n) == r.ool.td[n] = OolTd(M, W, n)
      iSu(key) == SUMatches(r.inl.su[KeyStr(key)], AggObs(ev, key))
      oSu(key) == SUMatchesModel(r.ool.su[KeyStr(key)], OolSU(M, W, key), AggObs(ev, key))
      iEn(g) == LET e == EnumObs(ev, g) IN EnMatches(r.inl.en[g], e.name, e.names, e.vals, e.signed, e.size)
      oEn(g) == LET e == OolEnum(M, W, g)
                IN ~Has(e, "err") /\ EnMatches(r.ool.en[g], e.name, e.names, e.vals, e.signed, EnumObs(ev, g).size)
      iK(c) == r.inl.k[c] = ConstVal(ev, c)
      oK(c) == r.ool.k[c] = OolGlobal(M, W, c)
      iFn(f) == r.inl.fn[f] = Norm(ev, ev.fn[f])
      oFn(f) == r.ool.fn[f] = OolGlobal(M, W, f)
      iGv(g) == r.inl.gv[g] = Norm(ev, ev.gv[g])
      oGv(g) == r.ool.gv[g] = OolGlobal(M, W, g)
      \* ---------------- the emitted tables themselves against Encode(env) (harness: module_tables)
      T == r.tables
      \* (model.py computes the name of a pointer/array/function type when the object is built; a
      \*  later "typedef struct s1 t1" renames s1 but not the types built before, so sorted(key=str)
      \*  sees stale names: the table *order* is then not modelled and the comparison is skipped)
      tabBad ==
        IF ~Has(T, "types") \/ \E key \in DOMAIN ev.su : ForcedTagged(ev, key) THEN {}
        ELSE (IF T.types = W THEN {} ELSE {"types"})
             \cup (IF Len(T.globals) = Len(M.globals)
                      /\ \A i \in DOMAIN M.globals : T.globals[i] = <<M.globals[i].name, M.globals[i].w,
                              IF GetOp(M.globals[i].w) \in {OP_CONSTANT_INT, OP_ENUM} THEN M.globals[i].val ELSE "0">>
                   THEN {} ELSE {"globals"})
             \cup (IF Len(T.structs) = Len(M.structs)
                      /\ \A i \in DOMAIN M.structs :
                            /\ T.structs[i][1] = M.structs[i].name /\ T.structs[i][2] = M.structs[i].tidx
                            /\ T.structs[i][3] = M.structs[i].flags
                            /\ Len(T.structs[i][4]) = Len(M.structs[i].fields)
                            /\ \A f \in DOMAIN M.structs[i].fields :
                                  T.structs[i][4][f] = <<M.structs[i].fields[f].name, M.structs[i].fields[f].op,
                                                         M.structs[i].fields[f].arg, M.structs[i].fields[f].bits>>
                   THEN {} ELSE {"struct_unions"})
             \cup (IF Len(T.enums) = Len(M.enums)
                      /\ \A i \in DOMAIN M.enums : T.enums[i] = <<M.enums[i].name, M.enums[i].tidx, M.enums[i].prim,
                                                                     M.enums[i].enumerators>>
                   THEN {} ELSE {"enums"})
             \cup (IF Len(T.typenames) = Len(M.typenames)
                      /\ \A i \in DOMAIN M.typenames : T.typenames[i] = <<M.typenames[i].name, M.typenames[i].tidx>>
                   THEN {} ELSE {"typenames"})
      iLt == LtMatches(r.inl.lt, ListTypes(ev))
      oLt == LtMatches(r.ool.lt, OolListTypes(M))
      \* ---------------- classes of documented divergences, granted only when both modes behave
      \* exactly as specified
      forced == "name:typedef-names-tagged-aggregate"
      cycle == "realize:aggregate-needed-by-value-while-under-construction"
      TErr(o) == o[1] = "error"
      RErr(o) == Has(o, "error")
      cTd(n) == IF iTd(n) /\ TErr(r.ool.td[n]) /\ TouchesCycle(ev, ev.td[n]) THEN cycle
                ELSE IF iTd(n) /\ oTd(n) /\ MentionsForced(ev, ev.td[n]) THEN forced ELSE ""
      cSu(key) == IF iSu(key) /\ RErr(r.ool.su[KeyStr(key)]) /\ TouchesCycle(ev, key) THEN cycle
                  ELSE IF iSu(key) /\ oSu(key) /\ (ForcedTagged(ev, key)
                       \/ \E f \in DOMAIN ev.su[key].fields : MentionsForced(ev, ev.su[key].fields[f][2]))
                  THEN forced ELSE ""
      cFn(f) == IF iFn(f) /\ TErr(r.ool.fn[f]) /\ TouchesCycle(ev, ev.fn[f]) THEN cycle
                ELSE IF iFn(f) /\ oFn(f) /\ MentionsForced(ev, ev.fn[f]) THEN forced ELSE ""
      cGv(g) == IF iGv(g) /\ TErr(r.ool.gv[g]) /\ TouchesCycle(ev, ev.gv[g]) THEN cycle
                ELSE IF iGv(g) /\ oGv(g) /\ MentionsForced(ev, ev.gv[g]) THEN forced ELSE ""
      cLt == IF iLt /\ oLt /\ UsesFile(ev) THEN "list_types:FILE-used" ELSE ""
      cEmit == ""       \* no documented class: every cdef the in-line FFI accepts must be emitted
  IN IF run.bad # 0 THEN << {<<"guard", ToString(run.bad), "">>}, {} >>
     ELSE IF ~emitOk THEN << {<<"emit", r.emit, cEmit>>}, (IF M.ok THEN {<<"ool", "emit", r.emit>>} ELSE {}) >>
     ELSE <<
       {<<"td", n, cTd(n)>> : n \in vTd} \cup {<<"su", KeyStr(key), cSu(key)>> : key \in vSu}
       \cup {<<"en", g, "">> : g \in vEn} \cup {<<"k", c, "">> : c \in vK}
       \cup {<<"fn", f, cFn(f)>> : f \in vFn} \cup {<<"gv", g, cGv(g)>> : g \in vGv}
       \cup {<<"addr", x, "">> : x \in vAd}
       \cup (IF vLt THEN {<<"lt", "", cLt>>} ELSE {})
       \cup {<<"same", "td:" \o n, "">> : n \in vSameTd} \cup {<<"same", "fn:" \o f, "">> : f \in vSameFn}
       \cup {<<"same", "gv:" \o g, "">> : g \in vSameGv},
       \* divergences
       {<<"inl", "td", n>> : n \in {n \in DOMAIN ev.td : ~iTd(n)}}
       \* (an error of the documented eager-realization class is not a divergence of the model:
       \*  the model does not order realizations, the class predicate TouchesCycle stands for it)
       \cup {<<"ool", "td", n>> : n \in {n \in DOMAIN ev.td : ~oTd(n) /\ ~(TErr(r.ool.td[n]) /\ TouchesCycle(ev, ev.td[n]))}}
       \cup {<<"inl", "su", KeyStr(key)>> : key \in {key \in QSU : ~iSu(key)}}
       \cup {<<"ool", "su", KeyStr(key)>> : key \in {key \in QSU : ~oSu(key) /\ ~(RErr(r.ool.su[KeyStr(key)]) /\ TouchesCycle(ev, key))}}
       \cup {<<"inl", "en", g>> : g \in {g \in DOMAIN ev.en : ~iEn(g)}}
       \cup {<<"ool", "en", g>> : g \in {g \in DOMAIN ev.en : ~oEn(g)}}
       \cup {<<"inl", "k", c>> : c \in {c \in AllConsts(ev) : ~iK(c)}}
       \cup {<<"ool", "k", c>> : c \in {c \in AllConsts(ev) : ~oK(c)}}
       \cup {<<"inl", "fn", f>> : f \in {f \in DOMAIN ev.fn : ~iFn(f)}}
       \cup {<<"ool", "fn", f>> : f \in {f \in DOMAIN ev.fn : ~oFn(f) /\ ~(TErr(r.ool.fn[f]) /\ TouchesCycle(ev, ev.fn[f]))}}
       \cup {<<"inl", "gv", g>> : g \in {g \in DOMAIN ev.gv : ~iGv(g)}}
       \cup {<<"ool", "gv", g>> : g \in {g \in DOMAIN ev.gv : ~oGv(g) /\ ~(TErr(r.ool.gv[g]) /\ TouchesCycle(ev, ev.gv[g]))}}
       \cup (IF iLt THEN {} ELSE {<<"inl", "lt", "">>}) \cup (IF oLt THEN {} ELSE {<<"ool", "lt", "">>})
       \cup (IF M.ok THEN {} ELSE {<<"ool", "emit", "model predicts failure">>})
       \cup {<<"ool", "table", x>> : x \in tabBad}
       \* the harness must have asked about exactly the declared names
       \cup (IF DOMAIN r.inl.td = DOMAIN ev.td /\ DOMAIN r.inl.su = {KeyStr(key) : key \in QSU}
                /\ DOMAIN r.inl.en = DOMAIN ev.en /\ DOMAIN r.inl.k = AllConsts(ev)
                /\ DOMAIN r.inl.fn = DOMAIN ev.fn /\ DOMAIN r.inl.gv = DOMAIN ev.gv
             THEN {} ELSE {<<"inl", "domain", "">>})
     >>

TInit == k \in 1..Len(Traces) /\ done = FALSE /\ cenv = EnvInit /\ hist = <<>> /\ variant = "faithful"
TNext == /\ ~done
         /\ LET v == Verdict(Traces[k]) IN PrintT(<<"VERDICT", Traces[k].id, v[1], v[2]>>)
         /\ done' = TRUE /\ UNCHANGED <<k, cenv, hist, variant>>
TSpec == TInit /\ [][TNext]_<<k, done, cenv, hist, variant>>
=============================================================================
