------------------------------ MODULE ErrnoIdeal ------------------------------
(* Property C22 itself, as a state machine.

   What the property talks about is ONE errno register per thread, e[t], as it is seen from
   the two sides of the cffi boundary:
     * C code (a called C function, the address-fetch function of an API-mode global
       variable, the C code that runs after a callback has returned) reads and writes it
       as `errno`;
     * Python code (top level, or inside a callback) reads and writes it as `ffi.errno`.
   "A value assigned to ffi.errno is the errno a subsequently called C function sees"
       = CallEnterG; "the errno left by a C function (or assigned inside a callback) is
   what ffi.errno returns afterwards" = GetG (and CbExitG for the C side of the callback);
   "each thread observes only its own errno" = every guard of thread t mentions e[t] only and
   no action of thread t changes e[u], u # t (NonInterference).
   Whatever else Python code does to the real errno of the thread (Clobber) is invisible.

   stk[t] is the context of thread t above its base: frames alternate, odd positions are C
   frames (the call path by which C was entered, or "raw" for the base of a thread that was
   not created by Python), even positions are callback frames (the kind of callback).
   The errno of a thread before its first assignment is not constrained by the property:
   e[t] = <<>> (unknown) until the first assignment or observation, which binds it.

   Embedding (EmbEnter): C code of a thread may also enter Python by calling a dll-exported
   extern "Python" function of an EMBEDDED module (ffi.embedding_api).  How the call gets to
   the Python function is the mode m: "emb1" = this call starts the interpreter / runs the
   module's init code first, "embw" = it arrives while another thread is doing that and has
   to wait for it, "emb" = the module is initialised already.  The property makes no
   difference: whatever start-up runs between the C caller and the Python function is
   invisible, e[t] is unchanged by the entry in every mode (so the GetG of an ffi.errno read
   inside the function and the CbExitG of the C caller judge it like any other callback).

   Every action is split into a context guard (XxxC: bookkeeping of the harness), a guard
   (XxxG: the clause of the property) and an effect (XxxE), so that the trace specification
   gives total verdicts naming the failing clause. *)
EXTENDS Naturals, Sequences, FiniteSets
CONSTANTS Threads,    \* all threads
          Raw,        \* subset of Threads: threads not created by Python (base frame is C)
          Vals,       \* errno values
          Paths,      \* ways of entering C from Python
          Kinds,      \* kinds of callback
          MaxLen      \* bound on Len(stk[t])
VARIABLES e, stk, obs
ivars == <<e, stk, obs>>

\* (any initial errno, or an unknown one: the trace specification starts from "unknown")
IInit == /\ e \in [Threads -> {<<>>} \cup {<<v>> : v \in Vals}]
         /\ stk = [t \in Threads |-> IF t \in Raw THEN <<"raw">> ELSE <<>>]
         /\ obs = [t \in Threads |-> <<>>]

InC(t)  == Len(stk[t]) % 2 = 1
InPy(t) == Len(stk[t]) % 2 = 0
Sees(t, o) == e[t] = <<>> \/ e[t] = <<o>>       \* thread t's errno is (or may be) o
Top(t) == stk[t][Len(stk[t])]
Pop(s) == SubSeq(s, 1, Len(s) - 1)

\* ---- context guards (which side of the boundary the thread is on)
SetC(t)       == InPy(t)
GetC(t)       == InPy(t)
ClobberC(t)   == InPy(t)
CallEnterC(t) == InPy(t) /\ Len(stk[t]) < MaxLen
CSetC(t)      == InC(t)
CbEnterC(t)   == InC(t) /\ Len(stk[t]) < MaxLen
EmbModes == {"emb1", "embw", "emb"}
EmbEnterC(t, m) == InC(t) /\ Len(stk[t]) < MaxLen /\ m \in EmbModes
CbExitC(t)    == InPy(t) /\ Len(stk[t]) > 0
CallExitC(t)  == InC(t) /\ Top(t) # "raw"

\* ---- guards: the clauses of the property
GetG(t, r)          == Sees(t, r)     \* ffi.errno returns the thread's errno
CallEnterG(t, p, o) == Sees(t, o)     \* the C function sees the thread's errno
CbExitG(t, o)       == Sees(t, o)     \* C code sees it again when the callback has returned

\* ---- effects
SetE(t, v)          == /\ e' = [e EXCEPT ![t] = <<v>>]
                       /\ obs' = [obs EXCEPT ![t] = <<>>] /\ UNCHANGED stk
GetE(t, r)          == /\ e' = [e EXCEPT ![t] = <<r>>]
                       /\ obs' = [obs EXCEPT ![t] = <<r>>] /\ UNCHANGED stk
ClobberE(t)         == /\ obs' = [obs EXCEPT ![t] = <<>>] /\ UNCHANGED <<e, stk>>
CallEnterE(t, p, o) == /\ e' = [e EXCEPT ![t] = <<o>>]
                       /\ stk' = [stk EXCEPT ![t] = Append(@, p)]
                       /\ obs' = [obs EXCEPT ![t] = <<o>>]
CSetE(t, v)         == /\ e' = [e EXCEPT ![t] = <<v>>]
                       /\ obs' = [obs EXCEPT ![t] = <<>>] /\ UNCHANGED stk
CbEnterE(t, k)      == /\ stk' = [stk EXCEPT ![t] = Append(@, k)]
                       /\ obs' = [obs EXCEPT ![t] = <<>>] /\ UNCHANGED e
\* entering an embedded module, start-up included: the thread's errno is untouched
EmbEnterE(t, m)     == /\ stk' = [stk EXCEPT ![t] = Append(@, m)]
                       /\ obs' = [obs EXCEPT ![t] = <<>>] /\ UNCHANGED e
CbExitE(t, o)       == /\ e' = [e EXCEPT ![t] = <<o>>]
                       /\ stk' = [stk EXCEPT ![t] = Pop(@)]
                       /\ obs' = [obs EXCEPT ![t] = <<o>>]
CallExitE(t)        == /\ stk' = [stk EXCEPT ![t] = Pop(@)]
                       /\ obs' = [obs EXCEPT ![t] = <<>>] /\ UNCHANGED e

Set(t, v)          == SetC(t) /\ SetE(t, v)
Get(t, r)          == GetC(t) /\ GetG(t, r) /\ GetE(t, r)
Clobber(t)         == ClobberC(t) /\ ClobberE(t)
CallEnter(t, p, o) == CallEnterC(t) /\ CallEnterG(t, p, o) /\ CallEnterE(t, p, o)
CSet(t, v)         == CSetC(t) /\ CSetE(t, v)
CbEnter(t, k)      == CbEnterC(t) /\ CbEnterE(t, k)
EmbEnter(t, m)     == EmbEnterC(t, m) /\ EmbEnterE(t, m)
CbExit(t, o)       == CbExitC(t) /\ CbExitG(t, o) /\ CbExitE(t, o)
CallExit(t)        == CallExitC(t) /\ CallExitE(t)

IStep(t) == \/ \E v \in Vals : Set(t, v) \/ Get(t, v) \/ CSet(t, v) \/ CbExit(t, v)
            \/ Clobber(t) \/ CallExit(t)
            \/ \E p \in Paths, o \in Vals : CallEnter(t, p, o)
            \/ \E k \in Kinds : CbEnter(t, k)
            \/ \E m \in EmbModes : EmbEnter(t, m)
INext == \E t \in Threads : IStep(t)
ISpec == IInit /\ [][INext]_ivars

\* ---- the thread-locality clause once more, as a property of the ideal itself (it holds by
\* construction here; Errno.tla states it for the implementation's steps)
NonInterference == [][\A t \in Threads : IStep(t) => \A u \in Threads \ {t} : e'[u] = e[u]]_ivars
TypeOK == /\ \A t \in Threads : Len(e[t]) <= 1 /\ Len(obs[t]) <= 1 /\ Len(stk[t]) <= MaxLen
=============================================================================
