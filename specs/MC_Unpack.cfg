SPECIFICATION Spec
CONSTANTS MaxN = 1
  Big = TRUE
  Variant = "faithful"
INVARIANT FastEqualsGeneric
INVARIANT UnitsExact
INVARIANT ConvertIsElem
CHECK_DEADLOCK FALSE
