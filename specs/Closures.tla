------------------------------ MODULE Closures ------------------------------
(* Implementation model of the closure allocator behind ffi.callback():
     src/c/malloc_closure.h   more_core, cffi_closure_alloc, cffi_closure_free
     src/c/_cffi_backend.c    b_callback (alloc, ffi_prep_closure: user_data = infotuple; the error
                              path frees the closure again), cdataowninggc_dealloc (free),
                              invoke_callback (runs closure->user_data)
   one action per Python-level operation.

   Addresses are integers: block number * Gap + byte offset, blocks being the regions mmap()ed by
   more_core (the real base addresses are chosen by the kernel; the replayer binds them
   existentially).  The free list is the C singly linked list, head first.

   Variant selects deliberately broken variants that TLC must reject (non-vacuity):
     "nopop"      cffi_closure_alloc returns the head without unlinking it
     "doublefree" the closure is put back on the free list twice
     "doublefree-on-oom"  the exit of b_callback taken when PyObject_GC_New() fails frees the closure
                  itself and then falls into the common error label, which frees it again
     "stalebind"  user_data is not rewritten when a freed closure is reused
     "borrowed-info"  general_invoke_callback does not take its own reference to the info tuple
                  (ct, py_func, error value, onerror) for the duration of the invocation: when the
                  callback is dropped while it runs and its closure is reused, the error path reads
                  the error value / onerror handler of the NEW owner of that memory
     "cap-after-count"  more_core limits allocate_num_pages to Cap pages *after* it has computed the
                  number of blocks from the unlimited value: fewer bytes are mmap()ed than blocks are
                  threaded onto the free list *)
EXTENDS ClosuresIdeal, TLC
CONSTANTS PageSize,   \* _pagesize
          SlotSize,   \* sizeof(union mmapped_block)
          Gap,        \* distance between the (abstract) base addresses of consecutive blocks
          Sigs,       \* signatures
          OnErrs,     \* choices for "was an onerror handler given" (subset of BOOLEAN)
          MaxDepth,   \* bound on the nesting of invocations in flight (exhaustive configurations)
          Cap,        \* (only used by the variant "cap-after-count") page limit of one mmap() request
          Variant
VARIABLES fl,         \* free_list, head first
          npages,     \* allocate_num_pages
          nblocks,    \* number of mmap()ed chunks
          maps,       \* maps[b] = number of bytes mmap()ed for chunk b
          bind,       \* bind[a] = [fn, sig, errv, oe]: closure->user_data (the info tuple) of the closure at a
          sig,        \* sig[c] = signature of the live callback c
          frames      \* general_invoke_callback activations, innermost last: [c, a, info] (info = the
                      \* tuple it holds its own reference to: Py_INCREF(cb_args) ... Py_DECREF(cb_args))
vars == <<live, own, stack, last, fl, npages, nblocks, maps, bind, sig, frames>>
View == <<live, own, stack, fl, npages, nblocks, maps, bind, sig, frames>>

Init == IInit /\ fl = <<>> /\ npages = 0 /\ nblocks = 0 /\ maps = <<>> /\ bind = Empty /\ sig = Empty /\ frames = <<>>
ErrOf(c) == c            \* the error result callback c is created with (its own: distinct per callback)

\* ------------------------------------------------------------------ malloc_closure.h
\* The allocator as pure operators over a record A = [fl, npages, nblocks, maps] (used by the actions
\* below and, folded over a whole recorded session, by Trace_ClosuresImpl).
GrowPages(n) == 1 + (n * 13) \div 10          \* 1 + (Py_ssize_t)(n * PAGE_ALLOCATION_GROWTH_RATE)
Base(b) == b * Gap
\* cffi_closure_free(p): p->next = free_list; free_list = p
Pushed(a, l) == IF Variant = "doublefree" THEN <<a, a>> \o l ELSE <<a>> \o l
\* more_core(): bump allocate_num_pages; count = the number of mmapped_blocks to thread onto the
\* free list; mmap(allocate_num_pages * _pagesize); the items are pushed in address order, so the
\* last one becomes the head.  The bytes mapped and the blocks threaded are separate quantities.
MoreCore(A) ==
    LET n      == GrowPages(A.npages)
        count  == (n * PageSize) \div SlotSize
        np     == IF Variant = "cap-after-count" /\ n > Cap THEN Cap ELSE n
        mapped == np * PageSize
        b      == A.nblocks + 1
    IN [fl |-> [i \in 1..count |-> Base(b) + (count - i) * SlotSize] \o A.fl,
        npages |-> np, nblocks |-> b, maps |-> Append(A.maps, mapped)]
\* cffi_closure_alloc(): if (!free_list) more_core(); item = free_list; free_list = item->next
AllocOp(A) == LET B == IF A.fl = <<>> THEN MoreCore(A) ELSE A
              IN [item |-> Head(B.fl), st |-> [B EXCEPT !.fl = IF Variant = "nopop" THEN @ ELSE Tail(@)]]
FreeOp(A, a) == [A EXCEPT !.fl = Pushed(a, @)]

Cur == [fl |-> fl, npages |-> npages, nblocks |-> nblocks, maps |-> maps]
SetAlloc(A) == fl' = A.fl /\ npages' = A.npages /\ nblocks' = A.nblocks /\ maps' = A.maps

Set(f, k, v) == [x \in DOMAIN f \cup {k} |-> IF x = k THEN v ELSE f[x]]
Del(f, k) == [x \in DOMAIN f \ {k} |-> f[x]]

\* ------------------------------------------------------------------ operations
Create(c, s, oe) ==     \* ffi.callback(sig, fn, error, onerror): b_callback
    /\ c \notin Live
    /\ LET r == AllocOp(Cur) IN
         /\ SetAlloc(r.st)
         /\ bind' = IF Variant = "stalebind" /\ r.item \in DOMAIN bind THEN bind
                    ELSE Set(bind, r.item, [fn |-> c, sig |-> s, errv |-> ErrOf(c), oe |-> oe])
         /\ CreateE2(c, r.item, ErrOf(c), oe)
         /\ last' = [NoEvent EXCEPT !.ev = "create", !.c = c, !.a = r.item, !.errv = ErrOf(c), !.oe = oe]
    /\ sig' = Set(sig, c, s)
    /\ UNCHANGED frames

\* b_callback fails after cffi_closure_alloc() has popped a closure.  The exits of the real code:
\*   "gcnew"    PyObject_GC_New() returns NULL (out of memory): goto error with cd == NULL, the error
\*              label calls cffi_closure_free(closure)
\*   "cif"      ct->ct_extra == NULL (unsupported / variadic signature: NotImplementedError)
\*   "prep"     ffi_prep_closure() != FFI_OK (SystemError)
\*   "userdata" closure->user_data != infotuple (SystemError, issue #266)
\*              in these three cd exists: the error label does Py_DECREF(cd) and
\*              cdataowninggc_dealloc calls cffi_closure_free(closure)
\* In every case the closure is given back exactly once.
FailPoints == {"gcnew", "cif", "prep", "userdata"}
FreedAfterFail(pt, a, l) ==
    IF Variant = "doublefree-on-oom" /\ pt = "gcnew" THEN <<a, a>> \o l ELSE Pushed(a, l)
CreateFail(pt) ==
    /\ pt \in FailPoints
    /\ LET r == AllocOp(Cur) IN SetAlloc([r.st EXCEPT !.fl = FreedAfterFail(pt, r.item, @)])
    /\ UNCHANGED <<live, own, stack, last, bind, sig, frames>>

Drop(c) ==              \* cdataowninggc_dealloc
    /\ c \in Live
    /\ SetAlloc(FreeOp(Cur, live[c]))
    /\ sig' = Del(sig, c)
    /\ DropE(c) /\ Ev("drop", c, 0, <<>>, <<>>, <<>>, 0, 0)
    /\ UNCHANGED <<bind, frames>>

Call(c) ==              \* through the cdata or from C: the trampoline at live[c] -> invoke_callback(user_data)
    /\ c \in Live
    /\ LET b == bind[live[c]] IN Ev("call", c, 0, <<b.fn>>, <<sig[c]>>, <<b.sig>>, 0, 0)
    /\ CallE(c) /\ UNCHANGED <<fl, npages, nblocks, maps, bind, sig, frames>>

\* The same invocation observed in two steps, so that other operations (in particular Drop(c) itself and
\* a Create that reuses c's closure) can happen while c's Python function runs.
\* general_invoke_callback (_cffi_backend.c): cb_args = closure->user_data; Py_INCREF(cb_args); ... call
\* py_func ... on error: raw_error_value = item 2, onerror = item 3 of cb_args ... Py_DECREF(cb_args).
Begin(c) ==
    /\ c \in Live /\ Len(frames) < MaxDepth
    /\ LET b == bind[live[c]] IN
         /\ frames' = Append(frames, [c |-> c, a |-> live[c], info |-> b])
         /\ last' = [NoEvent EXCEPT !.ev = "begin", !.c = c, !.ran = <<b.fn>>, !.sent = <<sig[c]>>, !.recv = <<b.sig>>]
    /\ BeginE(c) /\ UNCHANGED <<fl, npages, nblocks, maps, bind, sig>>
End(how) ==
    /\ frames # <<>>
    /\ LET f == frames[Len(frames)]
           info == IF Variant = "borrowed-info" THEN bind[f.a] ELSE f.info IN
         /\ last' = [NoEvent EXCEPT !.ev = "end", !.c = f.c, !.how = how,
                                    !.ret = IF how = "raise" THEN info.errv ELSE 0,
                                    !.herr = IF how = "raise" /\ info.oe THEN <<info.fn>> ELSE <<>>]
         /\ EndE(f.c)
    /\ frames' = SubSeq(frames, 1, Len(frames) - 1)
    /\ UNCHANGED <<fl, npages, nblocks, maps, bind, sig>>

Next == \/ \E c \in Cbs, s \in Sigs, oe \in OnErrs : Create(c, s, oe)
        \/ \E pt \in FailPoints : CreateFail(pt)
        \/ \E c \in Cbs : Drop(c)
        \/ \E c \in Cbs : Call(c)
        \/ \E c \in Cbs : Begin(c)
        \/ \E how \in {"return", "raise"} : End(how)
Spec == Init /\ [][Next]_vars

\* ------------------------------------------------------------------ exhaustive configurations
Sym == Permutations(Cbs)

\* ------------------------------------------------------------------ properties (besides ISpec)
Range(q) == {q[i] : i \in DOMAIN q}
LiveAddrs == {live[c] : c \in Live}
FreeDisjointLive == Range(fl) \cap LiveAddrs = {}                      \* free /\ live = {}
FreeNoDup == Cardinality(Range(fl)) = Len(fl)
BoundOwn == \A c \in Live : bind[live[c]] = [fn |-> c, sig |-> sig[c], errv |-> own[c].errv, oe |-> own[c].oe]   \* bound to its own function / error binding
\* every activation keeps the binding its callback had when it was called
FramesOwn == /\ Len(frames) = Len(stack)
             /\ \A j \in DOMAIN frames : /\ frames[j].c = stack[j].c /\ frames[j].info.fn = stack[j].c
                                          /\ frames[j].info.errv = stack[j].errv /\ frames[j].info.oe = stack[j].oe
\* every block handed out or on the free list lies inside the bytes mmap()ed for its chunk
InsideMapping == \A a \in Range(fl) \cup LiveAddrs :
                   \E b \in 1..nblocks : a >= Base(b) /\ a + SlotSize <= Base(b) + maps[b]
\* LIFO reuse: the closure freed last is the one handed out next
Lifo == [][\A c \in Cbs : (last'.ev = "drop" /\ last'.c = c /\ c \in Live) => Head(fl') = live[c]]_vars
=============================================================================
