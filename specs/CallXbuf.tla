------------------------------ MODULE CallXbuf ------------------------------
(* C13, design level: the exchange buffer of cdata_call (the path used by ffi.addressof(lib, f)
   and by both dlopen() modes).  fb_build (src/c/_cffi_backend.c:5730) lays out one malloc'ed
   buffer:  [ nargs pointers | result slot (>= sizeof(ffi_arg)) | argument slots ... ]
   cdata_call (:3146-3230) stores &slot_i into the pointer array and the converted argument
   into slot_i, ffi_call reads every argument THROUGH the pointer array and writes the result
   (a whole ffi_arg for small integers) into the result slot, cdata_call reads ct_size bytes
   of it.  The buffer is modelled byte by byte with tokens, so any overlap, misalignment or
   access beyond exchange_size shows up as a wrong token / a violated invariant.
   Checked for every signature of <= MaxN parameters over the size/alignment classes Lay. *)
EXTENDS Integers, Sequences, FiniteSets, TLC
CONSTANTS MaxN, Variant
VARIABLES sig, pc, buf, got
vars == <<sig, pc, buf, got>>

\* <<size, alignment>> of the ffi_type: integers/pointers/floats/doubles, structs
Lay == {<<1, 1>>, <<2, 2>>, <<4, 4>>, <<8, 8>>, <<2, 1>>, <<3, 1>>, <<8, 4>>, <<12, 4>>, <<16, 8>>, <<24, 8>>}
Void == <<0, 1>>
FfiArg == 8
AlignTo(n, a) == ((n + a - 1) \div a) * a

RECURSIVE Offsets(_, _, _)
\* the loop over the arguments: exchange_offset_arg[1 + i]
Offsets(args, i, off) ==
    IF i > Len(args) THEN <<>>
    ELSE LET o == AlignTo(AlignTo(off, args[i][2]), 8) IN
         <<o>> \o Offsets(args, i + 1, o + args[i][1])
LayoutV(s, variant) ==
    LET n == Len(s.args)
        o0 == IF variant = "off0_zero" THEN 0 ELSE n * 8
        ro == AlignTo(AlignTo(o0, s.res[2]), 8)
        rs == IF s.res[1] < FfiArg THEN FfiArg ELSE s.res[1]
        ao == Offsets(s.args, 1, ro + rs)
        last == IF n = 0 THEN ro + rs
                ELSE ao[n] + (IF variant = "size_short" THEN 0 ELSE s.args[n][1])
    IN [res |-> ro, arg |-> ao, size |-> AlignTo(last, 8)]
Layout(s) == LayoutV(s, Variant)

Sigs == {[args |-> a, res |-> r] : a \in UNION {[1..n -> Lay] : n \in 0..MaxN}, r \in Lay \cup {Void}}
Put(b, off, toks) == TLCEval([j \in 1..Len(b) |-> IF j > off /\ j <= off + Len(toks) THEN toks[j - off] ELSE b[j]])
Toks(kind, i, n) == TLCEval([j \in 1..n |-> <<kind, i, j>>])
\* struct arguments are given as a short initializer: cdata_call zeroes the slot (d72c0a3), then
\* convert_from_object writes only the leading half; libffi must see zeros in the rest
StructLay == {<<2, 1>>, <<3, 1>>, <<8, 4>>, <<12, 4>>, <<16, 8>>, <<24, 8>>}
Given(a) == IF a \in StructLay THEN (a[1] + 1) \div 2 ELSE a[1]
ArgToks(i, a) == TLCEval([j \in 1..a[1] |-> IF j <= Given(a) THEN <<"arg", i, j>> ELSE <<"zero", 0, 0>>])
StoredV(b, off, i, a, variant) == IF variant = "struct_nozero" THEN Put(b, off, Toks("arg", i, Given(a)))
                                  ELSE Put(b, off, ArgToks(i, a))
RECURSIVE MarshalledV(_, _, _, _, _)
MarshalledV(b, s, L, i, variant) ==
    IF i > Len(s.args) THEN b
    ELSE MarshalledV(StoredV(Put(b, (i - 1) * 8, Toks("ptr", i, 8)), L.arg[i], i, s.args[i], variant),
                     s, L, i + 1, variant)
Marshalled(b, s, L, i) == MarshalledV(b, s, L, i, Variant)
Free(n) == TLCEval([j \in 1..n |-> <<"free", 0, 0>>])

\* the whole call as one expression: does libffi see what cdata_call stored, inside the buffer?
CallOK(s, variant) ==
    LET L == LayoutV(s, variant)
        rs == IF s.res[1] < FfiArg THEN FfiArg ELSE s.res[1]
        fits == /\ L.res + rs <= L.size /\ Len(s.args) * 8 <= L.size
                /\ \A i \in 1..Len(s.args) : L.arg[i] + s.args[i][1] <= L.size
    IN fits /\ LET b == MarshalledV(Free(L.size), s, L, 1, variant) IN
               \A i \in 1..Len(s.args) : /\ SubSeq(b, (i - 1) * 8 + 1, i * 8) = Toks("ptr", i, 8)
                                          /\ SubSeq(b, L.arg[i] + 1, L.arg[i] + s.args[i][1]) = ArgToks(i, s.args[i])

\* non-vacuity, evaluated by TLC in the same run: each broken variant breaks some signature
ASSUME \A variant \in {"off0_zero", "size_short", "struct_nozero"} :
          \E s \in {x \in Sigs : Len(x.args) = 2 /\ x.res = <<4, 4>>} : ~CallOK(s, variant)
ASSUME \A s \in {x \in Sigs : Len(x.args) <= 1} : CallOK(s, "faithful")

Init == sig \in Sigs /\ pc = "marshal" /\ buf = <<>> /\ got = <<>>
\* buffer = PyObject_Malloc(exchange_size); the loop over the arguments
Marshal == /\ pc = "marshal"
           /\ buf' = Marshalled(Free(Layout(sig).size), sig, Layout(sig), 1)
           /\ pc' = "call" /\ UNCHANGED <<sig, got>>
\* ffi_call: libffi fetches argument i at the address stored in buffer_array[i], then stores the result
Call == /\ pc = "call"
        /\ got' = [i \in 1..Len(sig.args) |->
                     [ptr |-> SubSeq(buf, (i - 1) * 8 + 1, i * 8),
                      val |-> SubSeq(buf, Layout(sig).arg[i] + 1, Layout(sig).arg[i] + sig.args[i][1])]]
        /\ buf' = IF sig.res = Void THEN buf
                  ELSE Put(buf, Layout(sig).res, Toks("res", 0, IF sig.res[1] < FfiArg THEN FfiArg ELSE sig.res[1]))
        /\ pc' = "read" /\ UNCHANGED sig
Read == /\ pc = "read" /\ pc' = "done" /\ UNCHANGED <<sig, buf, got>>
Next == Marshal \/ Call \/ Read
Spec == Init /\ [][Next]_vars

L == Layout(sig)
\* every slot lies inside the buffer and is aligned for its type
InBounds == /\ L.res + (IF sig.res[1] < FfiArg THEN FfiArg ELSE sig.res[1]) <= L.size
            /\ \A i \in 1..Len(sig.args) : L.arg[i] + sig.args[i][1] <= L.size
            /\ Len(sig.args) * 8 <= L.size
Aligned == /\ L.res % sig.res[2] = 0
           /\ \A i \in 1..Len(sig.args) : L.arg[i] % sig.args[i][2] = 0
\* libffi saw exactly the pointers and argument bytes cdata_call stored
ArgsIntact == pc \in {"read", "done"} =>
                 \A i \in 1..Len(sig.args) : got[i].ptr = Toks("ptr", i, 8) /\ got[i].val = ArgToks(i, sig.args[i])
\* cdata_call reads ct_size bytes of the result at exchange_offset_arg[0]
ResultIntact == (pc = "done" /\ sig.res # Void) =>
                   SubSeq(buf, L.res + 1, L.res + sig.res[1]) = Toks("res", 0, sig.res[1])
=============================================================================
