------------------------------ MODULE MC_Flatten ------------------------------
(* Exhaustive configurations for Flatten.tla: one state per value (or per key input) of a
   bounded universe built over an adversarial alphabet (digits, the type letters s l d i,
   the minus sign), so that string contents look like pieces of the encoding itself. *)
EXTENDS Flatten, FiniteSetsExt, SequencesExt, Json, IOUtils
CONSTANTS Alpha,       \* code points strings are made of
          MaxStr,      \* longest string
          IntRange,    \* set of integers
          MaxItems,    \* longest list / dict
          Depth,       \* 1: containers of atoms; 2: containers of (small) depth-1 values
          MaxSrc,      \* longest list of cdef sources in a key
          Mode         \* "values" | "keys" | "dump"
VARIABLES st
Seqs(E, n) == UNION {[1..k -> E] : k \in 0..n}
IntV(n) == [t |-> "i", v |-> IF n < 0 THEN <<cMinus>> \o Dec(0 - n) ELSE Dec(n)]
StrV(q) == [t |-> "s", v |-> q]
Strs(n) == {StrV(q) : q \in Seqs(Alpha, n)}
Atoms == Strs(MaxStr) \cup {IntV(n) : n \in IntRange}
Lists(E, n) == {[t |-> "l", v |-> q] : q \in Seqs(E, n)}
RECURSIVE SortKeys(_)
SortKeys(S) == IF S = {} THEN <<>>
               ELSE LET m == CHOOSE p \in S : \A q \in S \ {p} : StrLess(p.v, q.v) IN <<m>> \o SortKeys(S \ {m})
Dicts(K, E, n) == UNION {UNION {LET ks == SortKeys(KS) IN
                                  {[t |-> "d", v |-> [i \in 1..Len(ks) |-> <<ks[i], f[i]>>]] : f \in [1..Len(ks) -> E]}
                                : KS \in kSubset(k, K)} : k \in 0..n}
Keys1 == Strs(1)
D1(z) == Atoms \cup Lists(Atoms, MaxItems) \cup Dicts(Keys1, Atoms, MaxItems)   \* (parameter: keeps TLC from evaluating it eagerly)
D1small(z) == Atoms \cup Lists(Atoms, 1) \cup Dicts(Keys1, Atoms, 1)
D1tiny(z) == Atoms \cup Lists(Atoms, 1)
D2(z) == D1(z) \cup Lists(D1small(z), MaxItems) \cup Dicts(Keys1, D1small(z), 1) \cup Dicts(Keys1, D1tiny(z), MaxItems)
Universe == IF Mode \in {"keys", "bytes"} THEN {} ELSE IF Depth = 1 THEN D1(0) ELSE D2(0)

\* text that may follow an encoded value (the key continues after the flattened keywords)
Tails == {<<>>, <<49>>, <<cS>>, <<49, cS, 49>>, <<NUL, 49, cI>>, <<cMinus, 49, cI>>, <<48, cD>>}

\* ---- values: Parse is a left inverse of Flatten, whatever follows
RoundTrip == st.mode = "v" => \A tl \in Tails :
                 LET p == Parse(Flatten(st.x) \o tl) IN p.ok /\ p.val = st.x /\ p.rest = tl
\* ---- a dict listed in any order gives the same text
DictOrder == (st.mode = "v" /\ st.x.t = "d" /\ Len(st.x.v) = 2) =>
                 /\ FlattenDictAsWritten(<<st.x.v[1], st.x.v[2]>>) = Flatten(st.x)
                 /\ FlattenDictAsWritten(<<st.x.v[2], st.x.v[1]>>) = Flatten(st.x)
\* ---- keys: (preamble, kwds, sources) can be read back from the key
KAlpha == Alpha
KStr == Seqs(KAlpha, 2)
KKwds == {[t |-> "d", v |-> <<>>]} \cup Dicts(Keys1, Strs(1), 1)
KeyInputs == IF Mode = "keys" THEN [pre : KStr, kw : KKwds, src : Seqs(KStr, MaxSrc)] ELSE {}
Ver == <<51, 46, 49>>                   \* "3.1"
KeyRoundTrip == st.mode = "k" =>
    LET u == UnKey(Key(Ver, Ver, st.x.pre, st.x.kw, st.x.src)) IN
    u.ok /\ u.preamble = st.x.pre /\ u.kwds = st.x.kw /\ u.sources = st.x.src

\* ---- bytes: the encoding step of the key is injective (read back through a UTF-8 decoder); the strings are
\* long enough to spell a character's escape sequence ("\xe9" next to the character itself)
ByteInputs == IF Mode = "bytes" THEN Seqs(Alpha, MaxStr) ELSE {}
BytesRoundTrip == st.mode = "b" =>
    LET kb == KeyBytes(Ver, Ver, st.x, [t |-> "d", v |-> <<>>], <<>>)
        u == UnKey(Utf8Dec(kb))
    IN u.ok /\ u.preamble = st.x /\ u.sources = <<>> /\ \A i \in DOMAIN kb : kb[i] \in 0..255

Init == \/ Mode = "values" /\ st \in [mode : {"v"}, x : Universe]
        \/ Mode = "bytes" /\ st \in [mode : {"b"}, x : ByteInputs]
        \/ Mode = "keys" /\ st \in [mode : {"k"}, x : KeyInputs]
        \/ Mode = "dump" /\ st \in [mode : {"dump"}, x : {0}]
Next == UNCHANGED st
Spec == Init /\ [][Next]_st

\* ---- oracle for the replay on the real ffiplatform.flatten: every value of the universe with its text
ASSUME Mode # "dump" \/
       LET us == SetToSeq(Universe) IN
       JsonSerialize(IOEnv.FLATTEN_OUT, [i \in 1..Len(us) |-> [val |-> us[i], flat |-> Flatten(us[i])]])
=============================================================================
