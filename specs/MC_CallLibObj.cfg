SPECIFICATION Spec
CONSTANTS Base = 4
  Variant = "faithful"
PROPERTY ResultsIndependent
PROPERTY DistinctObjects
CHECK_DEADLOCK FALSE
