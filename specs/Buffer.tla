------------------------------- MODULE Buffer -------------------------------
(* C19, the history part: a byte arena (the memory of a bytearray / array.array / cdata char[]),
   live ffi.buffer views [off, len] on it, from_buffer array views [off, isz, len], writes through
   cdata, memmove inside the arena.  The machine runs the implementation model of BufferOps.tla;
   the action property RefinesIdeal requires every step to satisfy the reference semantics
   (bytearray slices with length-preserving assignment, live aliasing, memmove through a
   temporary).  Exhaustive slice/index/memmove/from_buffer equivalence: BufferSlice.tla. *)
EXTENDS BufferOps
CONSTANTS N,          \* arena bytes
          MaxBufs, MaxSteps,
          Prune       \* TRUE: states reached by operations that changed nothing are not expanded (dumps)
VARIABLES mem, bufs, fbs, res, steps
vars == <<mem, bufs, fbs, res, steps>>

KeyIdx == {0 - (N + 1), 0 - N, 0 - 1, 0, 1, N - 1, N, N + 1}
OptKey == {Nil} \cup {Opt(i) : i \in KeyIdx}
Keys == {Key(a, b, s) : a \in OptKey, b \in OptKey, s \in {Nil, Opt(2)}} \cup {Key(Opt(0), Opt(2), Opt(1)), Key(Nil, Nil, Opt(0))}
NoKey == Key(Nil, Nil, Nil)
NoRes == [op |-> "init", b |-> 0, i |-> 0, j |-> 0, n |-> 0, key |-> NoKey, val |-> <<>>, st |-> "ok", out |-> <<>>]
ValBytes(seed, n) == [k \in 1..n |-> seed + k]
BufBytes(b) == Read(mem, b.off, b.len)

Init == /\ mem = [k \in 1..N |-> k] /\ bufs = <<>> /\ fbs = <<>> /\ res = NoRes /\ steps = 0

Expandable == res.op = "init" \/ (res.st = "ok" /\ res.op \in {"buffer", "setidx", "setslice", "cwrite", "move", "frombuf", "fbset"})
Tick == steps < MaxSteps /\ (Prune => Expandable) /\ steps' = steps + 1

(* ffi.buffer(p + off, n) *)
MkBuffer(off, n) ==
  /\ Tick /\ Len(bufs) < MaxBufs /\ off + n <= N
  /\ bufs' = Append(bufs, [off |-> off, len |-> n])
  /\ res' = [NoRes EXCEPT !.op = "buffer", !.i = off, !.n = n]
  /\ UNCHANGED <<mem, fbs>>
GetIdx(b, i) ==
  LET m == MIdx(bufs[b].len, i) IN
  /\ Tick
  /\ res' = [NoRes EXCEPT !.op = "getidx", !.b = b, !.i = i, !.st = m.st,
                          !.out = IF m.st = "ok" THEN Read(mem, bufs[b].off + m.pos, 1) ELSE <<>>]
  /\ UNCHANGED <<mem, bufs, fbs>>
SetIdx(b, i, v) ==
  LET m == MIdx(bufs[b].len, i) IN
  /\ Tick
  /\ res' = [NoRes EXCEPT !.op = "setidx", !.b = b, !.i = i, !.st = m.st, !.val = <<v>>]
  /\ mem' = IF m.st = "ok" THEN Write(mem, bufs[b].off + m.pos, <<v>>) ELSE mem
  /\ UNCHANGED <<bufs, fbs>>
GetSlice(b, k) ==
  LET m == MGetSlice(BufBytes(bufs[b]), k) IN
  /\ Tick
  /\ res' = [NoRes EXCEPT !.op = "getslice", !.b = b, !.key = k, !.st = m.st, !.out = m.out]
  /\ UNCHANGED <<mem, bufs, fbs>>
SetSlice(b, k, vl) ==
  LET val == ValBytes(50, vl)  m == MSetSlice(BufBytes(bufs[b]), k, val) IN
  /\ Tick
  /\ res' = [NoRes EXCEPT !.op = "setslice", !.b = b, !.key = k, !.st = m.st, !.val = val]
  /\ mem' = Write(mem, bufs[b].off, m.mem)
  /\ UNCHANGED <<bufs, fbs>>
(* a store through the cdata pointer: p[off] = v *)
CWrite(off, v) ==
  /\ Tick
  /\ res' = [NoRes EXCEPT !.op = "cwrite", !.i = off, !.val = <<v>>]
  /\ mem' = Write(mem, off, <<v>>)
  /\ UNCHANGED <<bufs, fbs>>
(* ffi.memmove(p + d, p + s, n) *)
Move(d, s, n) ==
  /\ Tick /\ d + n <= N /\ s + n <= N
  /\ res' = [NoRes EXCEPT !.op = "move", !.i = d, !.j = s, !.n = n]
  /\ mem' = MMove(mem, d, s, n)
  /\ UNCHANGED <<bufs, fbs>>
(* ffi.from_buffer('T[]' or 'T[k]', memoryview(obj)[off:off+ol]) with sizeof(T) = isz *)
FromBuf(off, ol, isz, fx, k) ==
  LET m == MFromBuf(ol, isz, fx, k) IN
  /\ Tick /\ Len(fbs) < MaxBufs /\ off + ol <= N
  /\ res' = [NoRes EXCEPT !.op = "frombuf", !.i = off, !.j = ol, !.n = isz, !.b = IF fx THEN k + 1 ELSE 0, !.st = m.st,
                          !.out = <<m.len>>]
  /\ fbs' = IF m.st = "ok" THEN Append(fbs, [off |-> off, isz |-> isz, len |-> m.len]) ELSE fbs
  /\ UNCHANGED <<mem, bufs>>
(* item access through a from_buffer view (bounds as for any array, C16) shows the aliasing *)
FbGet(f, i) ==
  /\ Tick /\ i < fbs[f].len
  /\ res' = [NoRes EXCEPT !.op = "fbget", !.b = f, !.i = i, !.out = Read(mem, fbs[f].off + i * fbs[f].isz, fbs[f].isz)]
  /\ UNCHANGED <<mem, bufs, fbs>>
FbSet(f, i) ==
  LET val == ValBytes(80, fbs[f].isz) IN
  /\ Tick /\ i < fbs[f].len
  /\ res' = [NoRes EXCEPT !.op = "fbset", !.b = f, !.i = i, !.val = val]
  /\ mem' = Write(mem, fbs[f].off + i * fbs[f].isz, val)
  /\ UNCHANGED <<bufs, fbs>>

BIdx == 1..Len(bufs)
Next == \/ \E off \in {0, 1, N}, n \in {0, 1, 2, N - 1, N} : MkBuffer(off, n)        \* empty, one byte, .., everything
        \/ \E b \in BIdx, i \in KeyIdx : GetIdx(b, i)
        \/ \E b \in BIdx, i \in KeyIdx : SetIdx(b, i, 33)
        \/ \E b \in BIdx, k \in Keys : GetSlice(b, k)
        \/ \E b \in BIdx, k \in Keys : \E vl \in {x \in {Cardinality(RefSel(bufs[b].len, k)) + d : d \in {0 - 1, 0, 1}} : x >= 0} :
                SetSlice(b, k, vl)
        \/ \E off \in 0..(N - 1) : CWrite(off, 44)
        \/ \E d \in 0..(N - 1), s \in 0..(N - 1), n \in 0..N : Move(d, s, n)
        \/ \E off \in 0..1, ol \in {N - 2, N - 1, N}, isz \in {1, 2}, fx \in BOOLEAN, k \in 1..2 : FromBuf(off, ol, isz, fx, k)
        \/ \E f \in 1..Len(fbs), i \in 0..(N - 1) : FbGet(f, i)
        \/ \E f \in 1..Len(fbs), i \in 0..(N - 1) : FbSet(f, i)
Spec == Init /\ [][Next]_vars
StateView == <<mem, bufs, fbs>>

(* ------------------------------------------- refinement: every step is ideal *)
IdealStep ==
  LET o == res' IN
  CASE o.op = "buffer" -> mem' = mem /\ bufs' = Append(bufs, [off |-> o.i, len |-> o.n])     \* a length-n view at p
    [] o.op = "getidx" ->
         LET b == bufs[o.b] IN
         /\ mem' = mem
         /\ IF RefIdxOK(b.len, o.i) THEN o.st = "ok" /\ o.out = <<BufBytes(b)[RefPos(b.len, o.i) + 1]>>
                                    ELSE o.st = "IndexError"
    [] o.op = "setidx" ->
         LET b == bufs[o.b] IN
         IF RefIdxOK(b.len, o.i) THEN o.st = "ok" /\ mem' = Write(mem, b.off + RefPos(b.len, o.i), o.val)
                                 ELSE o.st = "IndexError" /\ mem' = mem
    [] o.op = "getslice" ->
         /\ mem' = mem
         /\ StepOne(o.key) => o.st = "ok" /\ o.out = RefGet(BufBytes(bufs[o.b]), o.key)
    [] o.op = "setslice" ->
         LET b == bufs[o.b] IN
         IF StepOne(o.key)
           THEN IF RefSetOK(b.len, o.key, o.val)
                  THEN o.st = "ok" /\ mem' = Write(mem, b.off, RefSet(BufBytes(b), o.key, o.val))
                  ELSE o.st # "ok" /\ mem' = mem
           ELSE o.st # "ok" => mem' = mem
    [] o.op = "cwrite" -> mem' = Write(mem, o.i, o.val)
    [] o.op = "move" -> mem' = RefMove(mem, o.i, o.j, o.n)
    [] o.op = "frombuf" ->
         /\ mem' = mem
         /\ IF o.b > 0 THEN IF RefFromBufFixedOK(o.j, o.n, o.b - 1)
                               THEN o.st = "ok" /\ fbs' = Append(fbs, [off |-> o.i, isz |-> o.n, len |-> o.b - 1])
                               ELSE o.st = "ValueError" /\ fbs' = fbs
            ELSE o.st = "ok" /\ fbs' = Append(fbs, [off |-> o.i, isz |-> o.n, len |-> RefFromBufOpenLen(o.j, o.n)])
    [] o.op = "fbget" -> mem' = mem /\ o.out = Read(mem, fbs[o.b].off + o.i * fbs[o.b].isz, fbs[o.b].isz)
    [] o.op = "fbset" -> mem' = Write(mem, fbs[o.b].off + o.i * fbs[o.b].isz, o.val)
    [] OTHER -> FALSE
RefinesIdeal == [][IdealStep]_vars
(* liveness of the views: what a buffer shows is always exactly the arena bytes it covers (by
   construction of BufBytes; checked on the real code after every replayed step) *)
BytesOnly == \A k \in 1..N : mem[k] \in 0..255
=============================================================================
