------------------------------ MODULE MC_BV ------------------------------
(* Checks the bit-sequence operators of BV (used for trace validation at 64-bit widths)
   against TLC's native integers, and against the ideal of IntConv, for all small operands. *)
EXTENDS BV, TLC
IC == INSTANCE IntConv WITH LL <- 5, Variant <- "fixed", w <- 0, kind <- "", v <- 0, sh <- 0, bs <- 0, u <- 0
VARIABLES n, wd, e
K == 8
Init == n \in -140..140 /\ wd \in 1..6 /\ e \in {0, 1, 2, 3, 9} \cup {0 - 1, 0 - 2, 0 - 9}
Next == UNCHANGED <<n, wd, e>>
Spec == Init /\ [][Next]_<<n, wd, e>>
bv == ToBV(n, K)
RoundTrip == ToInt(bv) = n
FitsS == FitsSigned(bv, wd) = (IC!Lo(wd, TRUE) <= n /\ n <= IC!Hi(wd, TRUE))
FitsU == FitsUnsigned(bv, wd) = (0 <= n /\ n <= IC!Hi(wd, FALSE))
TwosOk == BitsNat(Twos(bv, wd)) = IC!Wrap(n, wd)
FromSOk == ToInt(FromSigned(Twos(bv, wd))) = IC!AsSigned(IC!Wrap(n, wd), wd)
FromUOk == ToInt(FromUnsigned(Twos(bv, wd))) = IC!Wrap(n, wd)
EqOk == \A m \in {n - 1, n, n + 1, 0 - n} : Eq(bv, ToBV(m, K + wd)) = (n = m)
TruncDiv(a, b) == IF a >= 0 THEN a \div b ELSE -((-a) \div b)
ScaleOk == ToInt(Scale(bv, e)) = IF e >= 0 THEN n * (2 ^ e) ELSE TruncDiv(n, 2 ^ (0 - e))
BytesOk == n >= 0 => BitsNat(BytesBits(<<n % 256, (n \div 2) % 256>>)) = (n % 256) + 256 * ((n \div 2) % 256)
=============================================================================
