------------------------------- MODULE CdefApi -------------------------------
(* C12 - API-mode modules reflect the C source and detect mismatches.

   Two environments: cw, the "C world" (what the C source given to set_source() really
   declares and defines) and cenv, what the cdef says.  Declarations go to both; then the cdef
   may be mutated (MutateField / MutateConst / MutateEnumerator) and/or made flexible (AddDots:
   "...;" in a struct, "#define K ..."), while cw stays what it is.

   Ideal (the property): for every declared item
     - if its checked facts agree with the C world, using it works and shows the compiler's facts
       (layout, value);
     - if a checked fact disagrees - size of a listed field (always), offset of a listed field or
       total size (struct without "..."), value of an integer constant / enumerator without
       "..." - using it raises an error;
     - with "..." the compiler's layout / value is used silently.
     Where the statement is silent the outcome is "any": a disagreement only in the total
     alignment, and items that depend by value on a struct in error.

   Implementation model, transcribed from recompiler.py (_struct_ctx: _CFFI_F_CHECK_FIELDS unless
   partial, sizeof/offsetof expressions evaluated by the compiler; _generate_cpy_const:
   _cffi_check_int only when a check_value is given - for '#define' / 'static const', not for
   enumerators) and realize_c_type.c:do_realize_lazy_struct (detect_custom_layout on the field
   size with SF_STD_FIELD_POS unconditionally), _cffi_backend.c:b_complete_struct_or_union
   (offset, total size, total alignment compared under the struct's sflags),
   realize_global_int (neg == 2 => error).                                                   *)
EXTENDS CdefOol

VARIABLES cw,        \* the C world
          flex,      \* items made flexible in the cdef: <<"su", key>>, <<"k", name>>, <<"gv", name>> (array length [...])
          phase      \* "decl" | "mut" (after the first mutation no more declarations)
avars == <<cenv, hist, variant, cw, flex, phase>>

CONSTANT MaxMut

(* ------------------------------------------------------------------ mutations of the cdef *)
FieldIdx(fs, name) == CHOOSE i \in DOMAIN fs : fs[i][1] = name
HasField(fs, name) == \E i \in DOMAIN fs : fs[i][1] = name
DropAt(s, i) == [j \in 1..(Len(s) - 1) |-> IF j < i THEN s[j] ELSE s[j + 1]]
Swap(s, i) == [j \in DOMAIN s |-> IF j = i THEN s[i + 1] ELSE IF j = i + 1 THEN s[i] ELSE s[j]]

\* mutations and "..." are applied to structs without bit-fields and without fields of a nested
\* anonymous type (their "$N" numbering follows the text of the cdef)
PlainFields(ev, key) ==
  \A f \in DOMAIN ev.su[key].fields :
     /\ ev.su[key].fields[f][3] = Unk
     /\ ~(IsSU(ev.su[key].fields[f][2]) /\ ~Queryable(ev.su[key].fields[f][2]))

\* how = "type": field i gets primitive type arg (of another size); "drop": field i disappears from
\* the cdef; "swap": fields i and i+1 change places
MutateFieldG(ev, key, how, i, arg) ==
  /\ key \in DOMAIN ev.su /\ ev.su[key].complete /\ SubSeq(key[2], 1, 1) # "$"
  /\ i \in DOMAIN ev.su[key].fields
  /\ PlainFields(ev, key)
  /\ CASE how = "type" -> /\ ev.su[key].fields[i][2][1] = "prim" /\ arg \in KnownPrims
                          /\ PrimSize[arg] # PrimSize[ev.su[key].fields[i][2][2]]
       \* (a dropped field must not be the text that declares another struct/union)
       [] how = "drop" -> Len(ev.su[key].fields) >= 2 /\ SUsOf(ev.su[key].fields[i][2]) = {}
       [] how = "swap" -> i < Len(ev.su[key].fields)
       [] OTHER -> FALSE
MutateFieldE(ev, key, how, i, arg) ==
  LET fs == ev.su[key].fields
      fs2 == CASE how = "type" -> [fs EXCEPT ![i] = <<fs[i][1], Prim(arg), Unk>>]
               [] how = "drop" -> DropAt(fs, i)
               [] how = "swap" -> Swap(fs, i)
  IN [ev EXCEPT !.su = [@ EXCEPT ![key].fields = fs2]]

MutateConstG(ev, name, val) == name \in DOMAIN ev.kc /\ ev.kc[name] # val
MutateConstE(ev, name, val) == [ev EXCEPT !.kc = [@ EXCEPT ![name] = val]]

MutateEnumeratorG(ev, tag, i, val) == tag \in DOMAIN ev.en /\ i \in DOMAIN ev.en[tag].vals /\ ev.en[tag].vals[i] # val
                                      /\ IsNeg(val) = IsNeg(ev.en[tag].vals[i])     \* same base type
MutateEnumeratorE(ev, tag, i, val) == [ev EXCEPT !.en = [@ EXCEPT ![tag].vals = [@ EXCEPT ![i] = val]]]

\* packing: ffi.cdef(..., packed=True) for the chunk that declares the struct ("cdef"), __attribute__((packed))
\* on the C side ("c"), or both.  Recorded in the same set as the flexible items: <<"pkc", key>>, <<"pkw", key>>.
\* Only structs/unions of plain fields that hold no aggregate by value and are held by value nowhere.
PkC(fl, key) == <<"pkc", key>> \in fl
PkW(fl, key) == <<"pkw", key>> \in fl
MutatePackG(ev, fl, key, where) ==
  /\ where \in {"cdef", "c", "both"}
  /\ key \in DOMAIN ev.su /\ ev.su[key].complete /\ SubSeq(key[2], 1, 1) # "$" /\ PlainFields(ev, key)
  /\ \A f \in DOMAIN ev.su[key].fields : NeedsNow(ev.su[key].fields[f][2]) = {}
  /\ \A k2 \in DOMAIN ev.su : key \notin FieldNeeds(ev.su, k2)
  /\ ~PkC(fl, key) /\ ~PkW(fl, key)
MutatePackE(fl, key, where) ==
  fl \cup (IF where \in {"cdef", "both"} THEN {<<"pkc", key>>} ELSE {}) \cup (IF where \in {"c", "both"} THEN {<<"pkw", key>>} ELSE {})

AddDotsG(ev, fl, item) ==
  /\ item \notin fl
  /\ \/ item[1] = "su" /\ item[2] \in DOMAIN ev.su /\ ev.su[item[2]].complete /\ SubSeq(item[2][2], 1, 1) # "$"
        /\ PlainFields(ev, item[2])
        \* cparser.py refuses a partial struct inside a nested anonymous one ("partial but has no C name")
        /\ \A k2 \in DOMAIN ev.su : ~Queryable(k2) => item[2] \notin NeedsClosure(ev.su, FieldNeeds(ev.su, k2))
     \/ item[1] = "k" /\ item[2] \in DOMAIN ev.kc
     \* "extern T g[...];": the length of a global array is taken from the C source
     \/ item[1] = "gv" /\ item[2] \in DOMAIN ev.gv /\ ev.gv[item[2]][1] = "arr" /\ ev.gv[item[2]][3] # Open

(* ------------------------------------------------------------------ layouts in both worlds *)
\* byte offset of field i: for a bit-field, of its 4-byte unit
OffsetOf(ev, key, i) ==
  IF key[1] = "union" THEN 0
  ELSE IF ev.su[key].fields[i][3] = Unk THEN BitPos(ev, ev.su[key].fields, i) \div 8
  ELSE 4 * (BitPos(ev, ev.su[key].fields, i) \div 32)

(* A struct declared with "...;" is partial: its layout is the compiler's.  cparser.py makes a
   struct that has a *field whose type is a partial struct* partial too
   (_get_struct_union_enum_type: isinstance(type, model.StructType) and type.partial), and so on. *)
FlexStep(ev, S) ==
  S \cup {k \in DOMAIN ev.su : ev.su[k].complete /\ k[1] = "struct" /\
            \E i \in DOMAIN ev.su[k].fields : ev.su[k].fields[i][2][1] = "struct" /\ ev.su[k].fields[i][2] \in S}
RECURSIVE FlexClose(_, _)
FlexClose(ev, S) == IF FlexStep(ev, S) = S THEN S ELSE FlexClose(ev, FlexStep(ev, S))
EffFlex(ev, fl) == FlexClose(ev, {item[2] : item \in {x \in fl : x[1] = "su" /\ x[2][1] = "struct"}})
                   \cup {item[2] : item \in {x \in fl : x[1] = "su"}}
\* the cdef's environment in which every (effectively) flexible aggregate has the compiler's layout
Eff(ev, c, fl) == [ev EXCEPT !.su = [k \in DOMAIN ev.su |-> IF k \in EffFlex(ev, fl) THEN c.su[k] ELSE ev.su[k]]]
\* ... and in which `key` itself is laid out from the fields the cdef lists
EffOwn(ev, c, fl, key) == [ev EXCEPT !.su = [k \in DOMAIN ev.su |->
                              IF k # key /\ k \in EffFlex(ev, fl) THEN c.su[k] ELSE ev.su[k]]]

\* packed layout (fields of plain types one after the other, alignment 1)
RECURSIVE PSum(_, _, _)
PSum(e, fs, i) == IF i = 0 THEN 0 ELSE PSum(e, fs, i - 1) + SizeOf(e, fs[i][2])
LOff(e, key, i, pk) == IF ~pk THEN OffsetOf(e, key, i) ELSE IF key[1] = "union" THEN 0 ELSE PSum(e, e.su[key].fields, i - 1)
LSize(e, key, pk) == IF ~pk THEN SizeOf(e, key)
                     ELSE IF key[1] = "union" THEN MaxOf({SizeOf(e, e.su[key].fields[i][2]) : i \in DOMAIN e.su[key].fields})
                     ELSE PSum(e, e.su[key].fields, Len(e.su[key].fields))
LAlign(e, key, pk) == IF pk THEN 1 ELSE AlignOf(e, key)

\* disagreements between what the cdef implies and what the C compiler says, for struct `key`
SizeBad(ev, c, fl, key) ==
  \E i \in DOMAIN ev.su[key].fields :
     LET f == ev.su[key].fields[i]
     IN SizeOf(Eff(ev, c, fl), f[2]) # SizeOf(c, c.su[key].fields[FieldIdx(c.su[key].fields, f[1])][2])
OffsetBad(ev, c, fl, key) ==
  \E i \in DOMAIN ev.su[key].fields :
     LOff(EffOwn(ev, c, fl, key), key, i, PkC(fl, key)) # LOff(c, key, FieldIdx(c.su[key].fields, ev.su[key].fields[i][1]), PkW(fl, key))
TotalBad(ev, c, fl, key) == LSize(EffOwn(ev, c, fl, key), key, PkC(fl, key)) # LSize(c, key, PkW(fl, key))
AlignBad(ev, c, fl, key) == LAlign(EffOwn(ev, c, fl, key), key, PkC(fl, key)) # LAlign(c, key, PkW(fl, key))

\* the aggregate as the module must show it when it is usable: the cdef's fields with the
\* compiler's facts
ApiAggObs(ev, c, fl, key) ==
  LET fs == ev.su[key].fields
  IN [ kind |-> key[1], complete |-> ev.su[key].complete,
       fields |-> [i \in DOMAIN fs |-> << fs[i][1],
                        IF ev.su[key].complete /\ c.su[key].complete /\ HasField(c.su[key].fields, fs[i][1])
                        THEN LOff(c, key, FieldIdx(c.su[key].fields, fs[i][1]), PkW(fl, key)) ELSE Unk,
                        fs[i][3] >>],
       size |-> LSize(c, key, PkW(fl, key)), align |-> LAlign(c, key, PkW(fl, key)) ]

(* ------------------------------------------------------------------ the ideal *)
\* "ok" | "error" | "any"
IdealSU(ev, c, fl, key) ==
  IF ~ev.su[key].complete THEN "ok"
  ELSE IF SizeBad(ev, c, fl, key) THEN "error"
  ELSE IF <<"su", key>> \in fl THEN "ok"
  ELSE IF key \in EffFlex(ev, fl) THEN "any"           \* made partial by a field: the statement is silent
  ELSE IF OffsetBad(ev, c, fl, key) \/ TotalBad(ev, c, fl, key) THEN "error"
  ELSE IF AlignBad(ev, c, fl, key) THEN "any"
  ELSE "ok"
IdealConst(ev, c, fl, name) ==
  IF <<"k", name>> \in fl THEN "ok" ELSE IF ev.kc[name] # c.kc[name] THEN "error" ELSE "ok"
IdealEnumerator(ev, c, tag, i) == IF ev.en[tag].vals[i] # c.en[tag].vals[i] THEN "error" ELSE "ok"

\* structs whose use is an error, and everything that needs one of them by value
BrokenSUs(ev, c, fl) == {key \in DOMAIN ev.su : IdealSU(ev, c, fl, key) # "ok"}
\* ... and every type that mentions (also behind pointers) an enum with a disagreeing enumerator, or
\* needs by value a struct that has such a field: building the ctype realizes the enum
BrokenEnums(ev, c) == {g \in DOMAIN ev.en : \E i \in DOMAIN ev.en[g].vals : IdealEnumerator(ev, c, g, i) # "ok"}
TypeEnums(ev, t) ==
  EnumsOf(t) \cup UNION {UNION {EnumsOf(ev.su[k].fields[i][2]) : i \in DOMAIN ev.su[k].fields}
                         : k \in {k2 \in NeedsClosure(ev.su, NeedsNow(t)) : k2 \in DOMAIN ev.su}}
DependsOnBroken(ev, c, fl, t) ==
  \/ NeedsClosure(ev.su, NeedsNow(t)) \cap BrokenSUs(ev, c, fl) # {}
  \/ TypeEnums(ev, t) \cap BrokenEnums(ev, c) # {}

(* ------------------------------------------------------------------ the implementation model *)
ModelSU(ev, c, fl, key) ==
  IF ~ev.su[key].complete THEN "ok"
  ELSE LET \* _CFFI_F_CHECK_FIELDS unless tp.partial -> SF_STD_FIELD_POS; _CFFI_F_PACKED -> sflags |= SF_PACKED.
           \* Variant "packed-wipes-checkfields": sflags = SF_PACKED drops SF_STD_FIELD_POS of a packed struct
           check == key \notin EffFlex(ev, fl) /\ ~(variant = "packed-wipes-checkfields" /\ PkC(fl, key))
       IN IF SizeBad(ev, c, fl, key) /\ (check \/ variant # "nosizecheck")
          THEN "error"                                 \* do_realize_lazy_struct: always SF_STD_FIELD_POS
          ELSE IF check /\ (OffsetBad(ev, c, fl, key) \/ (TotalBad(ev, c, fl, key) /\ variant # "nototal")
                            \/ AlignBad(ev, c, fl, key)) THEN "error"
          ELSE "ok"
ModelConst(ev, c, fl, name) ==         \* _cffi_check_int only with a check_value
  IF <<"k", name>> \in fl \/ variant = "nocheckint" THEN "ok" ELSE IF ev.kc[name] # c.kc[name] THEN "error" ELSE "ok"
ModelEnumerator(ev, c, tag, i) == "ok"   \* _generate_cpy_enum_decl: no check_value; the compiler's value

(* An integer constant used as an array length in a run-time type string, ffi.typeof("char[K]") /
   sizeof / new (parse_c_type.c:parse_sequel, case TOK_IDENTIFIER): the same clause as lib.K - an
   error iff the checked value disagrees with the C value - otherwise the length is the C value.
   Only small non-negative C values are constrained (a negative or huge value is no array length). *)
SmallLen(v) == ~IsNeg(v) /\ Len(v) <= 9
IdealLen(ev, c, fl, name) ==
  IF IdealConst(ev, c, fl, name) = "error" THEN <<"error">>
  ELSE IF SmallLen(c.kc[name]) THEN <<"ok", c.kc[name]>> ELSE <<"any">>
IdealEnLen(ev, c, tag, i) ==
  IF IdealEnumerator(ev, c, tag, i) = "error" THEN <<"error">>
  ELSE IF SmallLen(c.en[tag].vals[i]) THEN <<"ok", c.en[tag].vals[i]>> ELSE <<"any">>
(* the implementation: the generated getter returns bit 0 = "value <= 0", bit 1 = "the cdef
   disagrees" (only where a check_value was generated), and parse_sequel accepts
   neg == 0 || (neg == 1 && value == 0), refuses the other neg == 1 ("expected a positive integer
   constant") and otherwise reports the disagreement.
   Variant "lenzero" is the code before /repo 8c4f132 (neg == 0 || value == 0: a disagreeing constant
   whose C value is 0 was accepted as length 0); variant "lenmaskbit" tests only bit 0 (!(neg & 1)):
   every positive disagreeing value is accepted. *)
ModelLenOf(cv, mism) ==
  IF cv = "0" THEN (IF mism /\ variant # "lenzero" THEN <<"error">> ELSE <<"ok", "0">>)
  ELSE IF ~IsNeg(cv) /\ (~mism \/ variant = "lenmaskbit") THEN (IF SmallLen(cv) THEN <<"ok", cv>> ELSE <<"any">>)
  ELSE <<"error">>
ModelLen(ev, c, fl, name) == ModelLenOf(c.kc[name], ModelConst(ev, c, fl, name) = "error")
ModelEnLen(ev, c, tag, i) == ModelLenOf(c.en[tag].vals[i], FALSE)          \* enumerators carry no check

ApiBad(ev, c, fl, strict) ==
  {<<"su", KeyStr(key)>> : key \in {key \in DOMAIN ev.su :
        IdealSU(ev, c, fl, key) # "any" /\ ModelSU(ev, c, fl, key) # IdealSU(ev, c, fl, key)}}
  \cup {<<"k", n>> : n \in {n \in DOMAIN ev.kc : ModelConst(ev, c, fl, n) # IdealConst(ev, c, fl, n)}}
  \cup {<<"len", n>> : n \in {n \in DOMAIN ev.kc : /\ IdealLen(ev, c, fl, n) # <<"any">> /\ ModelLen(ev, c, fl, n) # <<"any">>
                                                    /\ ModelLen(ev, c, fl, n) # IdealLen(ev, c, fl, n)}}
  \cup (IF strict THEN UNION {{<<"en", ev.en[g].names[i]>> : i \in {i \in DOMAIN ev.en[g].vals :
                                   ModelEnumerator(ev, c, g, i) # IdealEnumerator(ev, c, g, i)}} : g \in DOMAIN ev.en}
        ELSE {})

(* ------------------------------------------------------------------ the machine *)
MutPrims == {"char", "long"}
MutVals == {"8"}

AInit == Init /\ variant \in Variants /\ cw = EnvInit /\ flex = {} /\ phase = "decl"

Decl == phase = "decl" /\ Next /\ cw' = cenv' /\ UNCHANGED <<variant, flex, phase>>

NMut == Cardinality({i \in DOMAIN hist : hist[i][1] \in {"MutateField", "MutateConst", "MutateEnumerator", "MutatePack"}})

MutateField(key, how, i, arg) ==
  /\ NMut < MaxMut /\ MutateFieldG(cenv, key, how, i, arg)
  /\ cenv' = MutateFieldE(cenv, key, how, i, arg)
  /\ hist' = Append(hist, <<"MutateField", <<key[1], key[2], how, i, arg>>>>)
  /\ phase' = "mut" /\ UNCHANGED <<variant, cw, flex>>
MutateConst(name, val) ==
  /\ NMut < MaxMut /\ MutateConstG(cenv, name, val)
  /\ cenv' = MutateConstE(cenv, name, val)
  /\ hist' = Append(hist, <<"MutateConst", <<name, val>>>>)
  /\ phase' = "mut" /\ UNCHANGED <<variant, cw, flex>>
MutateEnumerator(tag, i, val) ==
  /\ NMut < MaxMut /\ MutateEnumeratorG(cenv, tag, i, val)
  /\ cenv' = MutateEnumeratorE(cenv, tag, i, val)
  /\ hist' = Append(hist, <<"MutateEnumerator", <<tag, i, val>>>>)
  /\ phase' = "mut" /\ UNCHANGED <<variant, cw, flex>>
MutatePack(key, where) ==
  /\ NMut < MaxMut /\ MutatePackG(cenv, flex, key, where)
  /\ flex' = MutatePackE(flex, key, where)
  /\ hist' = Append(hist, <<"MutatePack", <<key[1], key[2], where>>>>)
  /\ phase' = "mut" /\ UNCHANGED <<variant, cw, cenv>>
AddDots(item) ==
  /\ AddDotsG(cenv, flex, item)
  /\ Cardinality({x \in flex : x[1] \in {"su", "k", "gv"}}) < 1
  /\ flex' = flex \cup {item}
  /\ hist' = Append(hist, <<"AddDots", <<item[1], item[2]>>>>)
  /\ phase' = "mut" /\ UNCHANGED <<variant, cw, cenv>>

ANext ==
  \/ Decl
  \/ \E key \in DOMAIN cenv.su, how \in {"type", "drop", "swap"}, i \in 1..3, arg \in MutPrims :
        (how = "type" \/ arg = "char") /\ MutateField(key, how, i, arg)
  \/ \E n \in DOMAIN cenv.kc, v \in MutVals : MutateConst(n, v)
  \/ \E g \in DOMAIN cenv.en, i \in 1..2, v \in {"8", "-8"} : MutateEnumerator(g, i, v)
  \/ \E key \in DOMAIN cenv.su, w \in {"cdef", "c", "both"} : MutatePack(key, w)
  \/ \E key \in DOMAIN cenv.su : AddDots(<<"su", key>>)
  \/ \E n \in DOMAIN cenv.kc : AddDots(<<"k", n>>)
  \/ \E g \in DOMAIN cenv.gv : AddDots(<<"gv", g>>)
ASpec == AInit /\ [][ANext]_avars

ApiRefines ==
  variant = "faithful" =>
     LET b == ApiBad(cenv, cw, flex, FALSE)
     IN IF b = {} THEN TRUE ELSE PrintT(<<"BAD", b, hist>>) /\ FALSE
ApiProbe == (variant # "faithful" /\ ApiBad(cenv, cw, flex, variant = "strict") # {})
               => PrintT(<<"CAUGHT", variant, ApiBad(cenv, cw, flex, variant = "strict")>>)
\* behaviours worth building: at least one declaration
EmitApi == PrintT(<<"BEH", hist>>)
=============================================================================
