------------------------------ MODULE BV ------------------------------
(* Integers of any magnitude as bit sequences, for trace validation at true widths
   (TLC's own integers are 32-bit).  A value is [neg |-> BOOLEAN, mag |-> Seq({0,1})],
   little-endian magnitude, trailing zeros allowed, "minus zero" never produced by the
   drivers (and treated as zero here).  MC_BV checks every operator against TLC's native
   integers for all small operands, so this module is verified, not trusted. *)
EXTENDS Integers, Sequences

Bit(m, i) == IF i <= Len(m) THEN m[i] ELSE 0            \* 1-based, zero-extended
IsZeroMag(m) == \A i \in 1..Len(m) : m[i] = 0
IsZero(v) == IsZeroMag(v.mag)
IsNeg(v) == v.neg /\ ~IsZeroMag(v.mag)

\* magnitude < 2^k
MagLt2Pow(m, k) == \A i \in 1..Len(m) : i > k => m[i] = 0
\* magnitude = 2^k
MagIs2Pow(m, k) == Bit(m, k + 1) = 1 /\ \A i \in 1..Len(m) : i # k + 1 => m[i] = 0

\* v in [-2^(w-1), 2^(w-1)-1]
FitsSigned(v, w) == IF IsNeg(v) THEN MagLt2Pow(v.mag, w - 1) \/ MagIs2Pow(v.mag, w - 1)
                    ELSE MagLt2Pow(v.mag, w - 1)
\* v in [0, 2^w-1]
FitsUnsigned(v, w) == ~IsNeg(v) /\ MagLt2Pow(v.mag, w)

\* w-bit window of the magnitude
Low(m, w) == [i \in 1..w |-> Bit(m, i)]
\* two's-complement negation of a w-bit pattern
FirstOne(b) == IF \E i \in 1..Len(b) : b[i] = 1
                 THEN CHOOSE i \in 1..Len(b) : b[i] = 1 /\ \A j \in 1..(i - 1) : b[j] = 0
                 ELSE Len(b) + 1
NegBits(b) == LET j == FirstOne(b) IN [i \in 1..Len(b) |-> IF i <= j THEN b[i] ELSE 1 - b[i]]

\* v mod 2^w as a w-bit pattern (C conversion to a w-bit type)
Twos(v, w) == IF IsNeg(v) THEN NegBits(Low(v.mag, w)) ELSE Low(v.mag, w)

\* value of a w-bit pattern read as unsigned / signed
FromUnsigned(b) == [neg |-> FALSE, mag |-> b]
FromSigned(b) == IF Len(b) > 0 /\ b[Len(b)] = 1 THEN [neg |-> TRUE, mag |-> NegBits(b)]
                 ELSE [neg |-> FALSE, mag |-> b]

\* numeric equality
Eq(a, b) == /\ IsNeg(a) = IsNeg(b)
            /\ \A i \in 1..(IF Len(a.mag) > Len(b.mag) THEN Len(a.mag) ELSE Len(b.mag)) :
                   Bit(a.mag, i) = Bit(b.mag, i)

\* truncation toward zero of mag * 2^e  (e may be negative): shift of the magnitude
ShiftMag(m, e) == IF e >= 0 THEN [i \in 1..(Len(m) + e) |-> IF i <= e THEN 0 ELSE m[i - e]]
                  ELSE IF -e >= Len(m) THEN <<>>
                  ELSE [i \in 1..(Len(m) + e) |-> m[i - e]]
Scale(v, e) == [neg |-> v.neg, mag |-> ShiftMag(v.mag, e)]

\* bytes <-> bits (little-endian)
ByteBits(b) == [i \in 1..8 |-> (b \div (2 ^ (i - 1))) % 2]
BytesBits(bs) == [i \in 1..(8 * Len(bs)) |-> ByteBits(bs[((i - 1) \div 8) + 1])[((i - 1) % 8) + 1]]

\* ---- native counterparts (small values only; used by MC_BV and by the small-width models)
Abs(n) == IF n < 0 THEN -n ELSE n
ToBV(n, k) == [neg |-> n < 0, mag |-> [i \in 1..k |-> (Abs(n) \div (2 ^ (i - 1))) % 2]]
BitsNat(b) == LET RECURSIVE S(_)
                  S(i) == IF i > Len(b) THEN 0 ELSE b[i] * (2 ^ (i - 1)) + S(i + 1)
              IN S(1)
ToInt(v) == IF v.neg THEN -BitsNat(v.mag) ELSE BitsNat(v.mag)
=============================================================================
