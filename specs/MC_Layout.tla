------------------------------ MODULE MC_Layout ------------------------------
(* Exhaustive design-level check of C01: the loop of b_complete_struct_or_union as a state
   machine (one AddField action per iteration, Finish = CffiFinish applied to the current state)
   against the ideal GCC/x86-64 layout, for EVERY sequence of at most MaxFields members drawn
   from Alphabet, for structs and unions, natural / packed / pack=2 / pack=4 and (Hist = TRUE) for
   every declaration history: the tag first mentioned without a body in an earlier cdef() made
   with any of the four packing options, in four forms.  Every prefix of a
   member sequence is itself a declaration, so the invariants are checked on all of them.

   The same run prints the declarations of at most PrintUpTo members (<<"DECL", kind, pack,
   indices>>) and the alphabet; the check renders each of them as a cdef and as C, runs cffi and
   gcc on them and has Trace_Layout validate the answers (spec -> code binding).           *)
EXTENDS Layout

CONSTANTS MaxFields, PrintUpTo,
          Hist        \* TRUE: also enumerate the declaration histories (first mention under another packing)
VARIABLES kind, pack, idx, mst, ist, cls, hist
vars == <<kind, pack, idx, mst, ist, cls, hist>>

PrimT(n)   == [c |-> "prim", name |-> n]
ArrT(t, n) == [c |-> "arr", of |-> t, n |-> n]
F(t)       == [named |-> TRUE,  bf |-> FALSE, w |-> 0, t |-> t]
B(n, w)    == [named |-> TRUE,  bf |-> TRUE,  w |-> w, t |-> PrimT(n)]
U(n, w)    == [named |-> FALSE, bf |-> TRUE,  w |-> w, t |-> PrimT(n)]
Node(k, p, fs) == [kind |-> k, pack |-> p, fields |-> fs]
Agg(nd)    == [c |-> "agg", node |-> nd]
Anon(nd)   == [named |-> FALSE, bf |-> FALSE, w |-> 0, t |-> Agg(nd)]

\* members allowed under every packing
Plain(pk) == <<
  F(PrimT("char")), F(PrimT("short")), F(PrimT("int")), F(PrimT("long long")),
  F(PrimT("double")), F(PrimT("long double")), F(PrimT("float _Complex")), F([c |-> "ptr"]),
  F(ArrT(PrimT("char"), 3)), F(ArrT(PrimT("int"), 2)),
  \* a separately declared (natural layout) struct and union used as named members
  F(Agg(Node("struct", 0, <<F(PrimT("char")), F(PrimT("int"))>>))),
  F(Agg(Node("union", 0, <<F(ArrT(PrimT("char"), 5)), F(PrimT("short"))>>))),
  F(ArrT(Agg(Node("struct", 0, <<F(PrimT("short")), F(PrimT("char"))>>)), 2)),
  \* anonymous members, declared inline: they inherit the packing of the enclosing cdef
  Anon(Node("union", pk, <<F(PrimT("char")), F(PrimT("int"))>>)),
  Anon(Node("struct", pk, <<F(PrimT("char")), F(PrimT("short")), F(PrimT("char"))>>)),
  \* trailing flexible array
  F([c |-> "flex", of |-> PrimT("int")]) >>

Bitfields == <<
  B("unsigned char", 1), B("signed char", 3), B("unsigned char", 7), B("unsigned char", 8),
  B("short", 1), B("unsigned short", 7), B("short", 9), B("unsigned short", 16),
  B("int", 1), B("unsigned int", 3), B("int", 7), B("int", 8), B("unsigned int", 17),
  B("int", 31), B("unsigned int", 32),
  B("long long", 1), B("unsigned long long", 31), B("long long", 33), B("unsigned long long", 63),
  B("long long", 64), B("_Bool", 1),
  U("unsigned char", 3), U("int", 3), U("unsigned int", 31), U("long long", 33),
  U("unsigned char", 0), U("short", 0), U("int", 0), U("long long", 0),
  Anon(Node("struct", 0, <<B("int", 3), F(PrimT("char")), B("unsigned short", 9)>>)),
  Anon(Node("union", 0, <<B("unsigned int", 5), B("long long", 40)>>)) >>

\* (zero-arity definitions: TLC evaluates them once)
Alpha0 == Plain(0) \o Bitfields
Alpha1 == Plain(1)
Alpha2 == Plain(2)
Alpha4 == Plain(4)
Alphabet(pk) == CASE pk = 0 -> Alpha0 [] pk = 1 -> Alpha1 [] pk = 2 -> Alpha2 [] pk = 4 -> Alpha4

Fields(pk, ix) == [k \in 1..Len(ix) |-> Alphabet(pk)[ix[k]]]
NoHist == [form |-> "none", pack |-> 0]
Histories == {NoHist} \cup (IF Hist THEN [form : {"fwd", "typedef", "ptr", "realized"}, pack : {0, 1, 2, 4}] ELSE {})
\* a node with its declaration history (pack = the option of the defining cdef)
NodeH(k, p, fs) == IF hist = NoHist THEN Node(k, p, fs) ELSE [kind |-> k, pack |-> p, fields |-> fs, hist |-> hist]
TheNode == NodeH(kind, pack, Fields(pack, idx))

\* Both machines advance in lockstep, one member per step:
\*   mst  state of cffi's loop (byteoffset, bitoffset, alignment, byteoffsetmax, ...)
\*   ist  state of the ideal (first free bit, alignment, highest bit used)
\*   cls  the declaration built so far belongs to the class the property quantifies over
Init == /\ kind \in {"struct", "union"}
        /\ pack \in {0, 1, 2, 4}
        /\ idx = <<>>
        /\ mst = CffiInit
        /\ ist = AbiInit
        /\ cls = FALSE
        /\ hist \in Histories

AddField(i) ==
  LET f  == Alphabet(pack)[i]
      nd == NodeH(kind, pack, <<>>)       \* the steps only look at kind, pack and the history
  IN
  /\ Len(idx) < MaxFields
  /\ (Len(idx) > 0 => Alphabet(pack)[idx[Len(idx)]].t.c # "flex")     \* nothing follows T x[]
  /\ idx' = Append(idx, i)
  /\ mst' = CffiStep(Cx(nd), mst, f, f.t.c = "flex")
  /\ ist' = AbiMember(nd, ist, f)
  /\ cls' = InClass(Node(kind, pack, Fields(pack, idx')))
  /\ (Len(idx') <= PrintUpTo /\ cls' => PrintT(<<"DECL", kind, pack, idx', hist>>))
  /\ UNCHANGED <<kind, pack, hist>>

Next == \E i \in 1..Len(Alphabet(pack)) : AddField(i)
Spec == Init /\ [][Next]_vars

Fin   == CffiFinish(mst)
Ideal == AbiFinish(ist)

\* ---- the clauses of the property, one invariant each
NotRejected == cls => Fin.err = ""
SizeOK      == cls /\ Fin.err = "" => Fin.size = Ideal.size
AlignOK     == cls /\ Fin.err = "" => Fin.align = Ideal.align
PlacesOK    == cls /\ Fin.err = "" => SeqMap(ProjField, Fin.fields) = Ideal.places
\* the action-per-iteration machines and the folds used in trace validation are the same functions
\* (checked in the configurations with MaxFields <= 2 only: it recomputes everything)
MachineIsFold == Fin = CffiLayout(TheNode) /\ Ideal = AbiLayout(TheNode)
\* no two named bit-fields overlap in a struct without anonymous members (sanity of the ideal itself)
Storage(p) == IF p.bf THEN p.pos .. (p.pos + p.w - 1) ELSE {}
IdealDisjointBits == (kind = "struct" /\ \A k \in 1..Len(idx) : ~IsAnonAgg(Alphabet(pack)[idx[k]])) =>
    \A i, j \in 1..Len(Ideal.places) : i < j => Storage(Ideal.places[i]) \cap Storage(Ideal.places[j]) = {}

ASSUME PrintT(<<"ALPHABET", 0, Alphabet(0)>>) /\ PrintT(<<"ALPHABET", 1, Alphabet(1)>>)
       /\ PrintT(<<"ALPHABET", 2, Alphabet(2)>>) /\ PrintT(<<"ALPHABET", 4, Alphabet(4)>>)
=============================================================================
