------------------------------ MODULE Trace_NewInit ------------------------------
(* C20, code -> spec.  Each record describes one construction executed on the real cffi:
     T, isptr, init     the type (layout as cffi reports it), 'X *' or array form, the initializer tree
     alloc, guard       the size direct_newp requested from the allocator (observed with ffi.new_allocator);
                        guard = the bytes after it were left alone
     sizeof             ffi.sizeof(p[0]) (structs) / ffi.sizeof(a) (arrays) of the ffi.new result, -1 if n/a
     bytes1, err1       ffi.buffer of ffi.new(T, init)  (err1 = exception class or "")
     haslaw, bytes2, err2   ffi.buffer after p = ffi.new(T [sized]); p[0] = init
   Verdicts from NewInitIdeal; divergences from the model NewInit (informational).          *)
EXTENDS NewInit, Json, IOUtils, TLC
VARIABLES i
Recs == JsonDeserialize(IOEnv.TRACE_FILE)
Sel(c, name) == IF c THEN <<>> ELSE <<name>>

Verdict(r) ==
  IF ~WF(r.T, r.init)                                    \* the statement gives the initializer no meaning (e.g. a str
    THEN IF r.err1 = "" /\ ~r.guard THEN <<"new.fits">>  \* with more units than a T[N] has items): rejecting it is
         ELSE <<>>                                       \* fine, so is anything inside the allocation - not a write
                                                         \* past the size direct_newp asked the allocator for
  ELSE LET cl == Claims(r.T, 0, r.init) IN
       IF ~NoOverlap(cl) THEN <<>>                       \* two overlapping union members named: order-dependent
       ELSE IF r.err1 # "" THEN <<"new.raised">>
       ELSE IF ~r.guard THEN <<"new.fits">>             \* wrote past the size it asked the allocator for
       ELSE Sel(FitsG(r.T, r.init, r.alloc) /\ Len(r.bytes1) <= r.alloc, "new.fits")
            \o Sel(r.sizeof >= 0 => SizeofG(r.sizeof, r.alloc), "new.sizeof")
            \o Sel(Len(r.bytes1) >= Extent(r.T, r.init) /\ r.bytes1 = Mem(Len(r.bytes1), cl), "new.bytes")
            \o Sel(r.haslaw => r.err2 = "" /\ LawG(r.bytes1, r.bytes2), "new.law")

Diverge(r) ==
  LET m == DirectNewp("faithful", r.T, r.init, r.isptr) IN
  IF m.err # r.err1 THEN "error class: model " \o m.err
  ELSE IF m.err # "" THEN ""
  ELSE IF ~r.guard THEN "wrote past the allocation"
  ELSE IF m.size # r.alloc THEN "allocation size"
  ELSE IF m.ovf THEN "model writes past the allocation"
  ELSE IF SubSeq(m.mem, 1, Len(r.bytes1)) # r.bytes1 THEN "bytes"
  ELSE ""

TInit == i = 0
TNext == \/ /\ i < Len(Recs) /\ i' = i + 1
            /\ LET r == Recs[i + 1]  v == Verdict(r)  d == Diverge(r) IN
                 /\ (v # <<>> => PrintT(<<"VERDICT", i + 1, v>>))
                 /\ (d # "" => PrintT(<<"DIVERGE", i + 1, d>>))
         \/ /\ i = Len(Recs) /\ i' = i + 1 /\ PrintT(<<"CHECKED", i>>)
TSpec == TInit /\ [][TNext]_i
=============================================================================
