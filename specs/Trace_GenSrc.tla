------------------------------ MODULE Trace_GenSrc ------------------------------
(* Records [id, ref, ref2, obs]: ref = digest of emit_c_code() into a StringIO, ref2 = digest of
   emit_c_code() to a path, obs = sequence of [status, digest] of the CLI runs of every
   configuration.  Prints <<"VERDICT", k, clause, i>> for every bad observation i of record k
   ("status": non-zero exit, "bytes": different bytes, "reference": the two in-process
   references differ) and finally <<"CHECKED", records, observations>>. *)
EXTENDS Integers, Sequences, FiniteSets, Json, IOUtils, TLC
VARIABLES k, n
Recs == JsonDeserialize(IOEnv.TRACE_FILE)
Bad(r) == {i \in DOMAIN r.obs : r.obs[i].status # 0 \/ r.obs[i].digest # r.ref}
First(S) == CHOOSE i \in S : \A j \in S : i <= j
TInit == k = 0 /\ n = 0
TNext == \/ /\ k < Len(Recs)
            /\ LET r == Recs[k + 1] IN
               /\ IF r.ref # r.ref2 THEN PrintT(<<"VERDICT", k + 1, "reference", 0>>)
                  ELSE IF Bad(r) = {} THEN TRUE
                  ELSE \A i \in Bad(r) :
                       PrintT(<<"VERDICT", k + 1, IF r.obs[i].status # 0 THEN "status" ELSE "bytes", i>>)
               /\ n' = n + Len(r.obs)
            /\ k' = k + 1
         \/ /\ k = Len(Recs) /\ PrintT(<<"CHECKED", k, n>>) /\ k' = k + 1 /\ UNCHANGED n
TSpec == TInit /\ [][TNext]_<<k, n>>
=============================================================================
