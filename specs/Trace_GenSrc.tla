------------------------------ MODULE Trace_GenSrc ------------------------------
(* Records [id, ok, ref, ref2, obs]: ok = the in-process reference succeeded, ref = digest of
   emit_c_code() into a StringIO, ref2 = digest of emit_c_code() to a path, obs = sequence of
   [status, digest, wrote, mayfail] of the CLI runs (mayfail: the output path was a
   directory / read-only before the run, where the property does not demand success).  Prints <<"VERDICT", k, clause, i>> for every bad
   observation i of record k (clauses of GenSrc!Verdict, or "reference" when the two in-process
   references differ) and finally <<"CHECKED", records, observations>>. *)
EXTENDS Integers, Sequences, FiniteSets, Json, IOUtils, TLC
VARIABLES k, n
Recs == JsonDeserialize(IOEnv.TRACE_FILE)
Verdict(r, o) == IF r.ok THEN (IF o.status # 0 THEN (IF o.mayfail THEN "ok" ELSE "status")
                               ELSE IF o.digest # r.ref THEN "bytes" ELSE "ok")
                 ELSE (IF o.status = 0 THEN "accepted-what-the-reference-rejects"
                       ELSE IF o.wrote THEN "wrote-output-on-failure" ELSE "ok")
Bad(r) == {i \in DOMAIN r.obs : Verdict(r, r.obs[i]) # "ok"}
TInit == k = 0 /\ n = 0
TNext == \/ /\ k < Len(Recs)
            /\ LET r == Recs[k + 1] IN
               /\ IF r.ok /\ r.ref # r.ref2 THEN PrintT(<<"VERDICT", k + 1, "reference", 0>>)
                  ELSE \A i \in Bad(r) : PrintT(<<"VERDICT", k + 1, Verdict(r, r.obs[i]), i>>)
               /\ n' = n + Len(r.obs)
            /\ k' = k + 1
         \/ /\ k = Len(Recs) /\ PrintT(<<"CHECKED", k, n>>) /\ k' = k + 1 /\ UNCHANGED n
TSpec == TInit /\ [][TNext]_<<k, n>>
=============================================================================
