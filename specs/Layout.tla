------------------------------ MODULE Layout ------------------------------
(* C01 - ABI-mode struct/union layout equals the compiler's.

   Two descriptions of "where do the members of a C aggregate live":

   * IDEAL  AbiLayout(node): the rules GCC applies on x86-64 / System V, written declaratively
     from the psABI (3.1.2 "Aggregates and Unions", "Bit-Fields") and GCC's documented
     behaviour for zero-width and unnamed bit-fields and #pragma pack.  This is the oracle; it
     is itself validated against gcc on every declaration the checks use (Trace_Layout).

   * IMPLEMENTATION MODEL  CffiLayout(node): the field-by-field machine of
     b_complete_struct_or_union_lock_held (src/c/_cffi_backend.c) with the arguments
     model.StructOrUnion.finish_backend_type (src/cffi/model.py) passes to it, transcribed
     statement by statement, including the MSVC / ARM / big-endian branches that the constant
     Variant can switch on (they are what the deliberately broken variants use).  Line numbers
     in the comments refer to the pinned snapshot (commit 58a6019).

   Terms
     type  ::= [c |-> "prim", name |-> <name in Platform.Prim>]
             | [c |-> "ptr"]
             | [c |-> "arr",  of |-> type, n |-> 1..]       T x[n]
             | [c |-> "flex", of |-> type]                   T x[]   (flexible array member)
             | [c |-> "agg",  node |-> node]                 nested struct/union
     field ::= [named |-> BOOLEAN, bf |-> BOOLEAN, w |-> Nat, t |-> type]
               bf = TRUE: bit-field of width w;  named = FALSE and t an "agg": anonymous
               struct/union whose members are hoisted;  named = FALSE and bf: unnamed bit-field
     node  ::= [kind |-> "struct" | "union", pack |-> 0 | 1 | 2 | 4 | 8 | 16, fields |-> Seq(field)]
               pack = 0: natural layout; pack = N: declared under cdef(pack=N) / #pragma pack(N);
               pack = 1 is cdef(packed=True).  pack is the option of the cdef() call that contains
               the DEFINITION (the "{ ... }").
               Optional declaration history: hist |-> [form |-> "fwd" | "typedef" | "ptr" | "realized",
               pack |-> option of an EARLIER cdef() call in which the tag was first mentioned without
               a body ("struct S;", "typedef struct S S_t;", a "struct S *" member of another struct,
               or "struct S;" followed by realising "struct S *" in the backend)].

   Result of both descriptions
     [size, align, places]  places = one entry per named leaf member in declaration order
                            (members of anonymous aggregates hoisted, as C11 6.7.2.1p13 says):
     [bf |-> FALSE, pos |-> byte offset, w |-> 0]
     [bf |-> TRUE,  pos |-> absolute index of the first storage bit, w |-> width]
     (bit b of the object = bit b%8 of byte b\div 8: x86-64 is little-endian)            *)
EXTENDS Platform, Integers

Max(a, b) == IF a >= b THEN a ELSE b
Min(a, b) == IF a <= b THEN a ELSE b
RoundUp(x, m) == ((x + m - 1) \div m) * m
SeqMap(Op(_), s) == [i \in 1..Len(s) |-> Op(s[i])]

\* TLC binds operator arguments and LET definitions lazily and may re-evaluate them at every use,
\* which is exponential for folds over nested aggregates.  Bind(v, Body) evaluates v exactly
\* once (a bound variable of a set constructor is bound to a value) and yields Body(v).
Bind(v, Body(_)) == CHOOSE y \in {Body(x) : x \in {v}} : TRUE

RECURSIVE FoldL(_, _, _, _)
\* FoldL(Op, acc, s, i): Op(acc, s[k], k) for k = i..Len(s)
FoldL(Op(_, _, _), acc, s, i) ==
  IF i > Len(s) THEN acc ELSE Bind(Op(acc, s[i], i), LAMBDA a : FoldL(Op, a, s, i + 1))

IsAnonAgg(f) == ~f.named /\ ~f.bf /\ f.t.c = "agg"

(***************************************************************************)
(* IDEAL                                                                   *)
(***************************************************************************)
\* A bit-field of width w > 0 whose declared type has size S bits and alignment A bits may start
\* at bit p iff it lies inside one storage unit of the declared type placed at a multiple of the
\* type's alignment (psABI: "bit-fields must be contained in a storage unit appropriate for its
\* declared type").
BitFits(p, w, S, A) == \E u \in {p - (p % A)} : u <= p /\ p + w <= u + S
\* ... and it starts at the first such bit at or after the current position.  (The closed form
\* below is checked against the "least p" definition by LeastFitLemma in MC_Layout.)
BitStart(base, w, S, A) == IF BitFits(base, w, S, A) THEN base ELSE RoundUp(base, A)
LeastFit(base, w, S, A) == CHOOSE p \in base..(base + A) :
                              BitFits(p, w, S, A) /\ \A q \in base..(p - 1) : ~BitFits(q, w, S, A)

RECURSIVE AbiLayout(_), AbiSA(_)

\* size (bytes) and alignment of a type; sub = the places of the members of an aggregate type
AbiSA(t) ==
  CASE t.c = "prim" -> [s |-> Prim[t.name].size, a |-> Prim[t.name].align, sub |-> <<>>]
    [] t.c = "ptr"  -> [s |-> PtrSize, a |-> PtrAlign, sub |-> <<>>]
    [] t.c = "arr"  -> Bind(AbiSA(t.of), LAMBDA e : [s |-> e.s * t.n, a |-> e.a, sub |-> <<>>])
    [] t.c = "flex" -> Bind(AbiSA(t.of), LAMBDA e : [s |-> 0, a |-> e.a, sub |-> <<>>])  \* alignment only
    [] t.c = "agg"  -> Bind(AbiLayout(t.node), LAMBDA L : [s |-> L.size, a |-> L.align, sub |-> L.places])

AbiInit == [pos |-> 0, al |-> 1, mx |-> 0, places |-> <<>>]

\* one member; st.pos = first free bit (struct) - unions restart every member at bit 0
AbiMemberSA(node, st, f, sa) ==
  LET base == IF node.kind = "union" THEN 0 ELSE st.pos
      \* #pragma pack(N) in effect at the DEFINITION caps the alignment of every member at N (an earlier
      \* incomplete declaration under another packing has no influence)
      ea   == IF node.pack > 0 THEN Min(node.pack, sa.a) ELSE sa.a
  IN
  IF ~f.bf THEN
     \* ordinary member: next byte boundary, rounded up to the member's (capped) alignment
     LET start == RoundUp(base, 8 * ea)
         end   == start + 8 * sa.s
         here  == IF IsAnonAgg(f)
                  \* members of an anonymous struct/union are members of the enclosing aggregate
                  THEN [k \in 1..Len(sa.sub) |->
                           [sa.sub[k] EXCEPT !.pos = IF sa.sub[k].bf THEN @ + start ELSE @ + start \div 8]]
                  ELSE << [bf |-> FALSE, pos |-> start \div 8, w |-> 0] >>
     IN [pos |-> end, al |-> Max(st.al, ea), mx |-> Max(st.mx, end), places |-> st.places \o here]
  ELSE IF f.w = 0 THEN
     \* "T : 0" - the next member starts at a boundary of T; no effect on the alignment (x86)
     LET p == RoundUp(base, 8 * sa.a) IN
     [st EXCEPT !.pos = p, !.mx = Max(st.mx, p)]
  ELSE
     LET start == BitStart(base, f.w, 8 * sa.s, 8 * sa.a)
         end   == start + f.w
     IN [pos |-> end,
         \* only a *named* bit-field raises the aggregate's alignment to that of its type
         al  |-> IF f.named THEN Max(st.al, sa.a) ELSE st.al,
         mx  |-> Max(st.mx, end),
         places |-> IF f.named THEN Append(st.places, [bf |-> TRUE, pos |-> start, w |-> f.w])
                    ELSE st.places]

AbiMember(node, st, f) == Bind(AbiSA(f.t), LAMBDA sa : AbiMemberSA(node, st, f, sa))

\* the size is the end of the last storage byte used, rounded up to the aggregate's alignment
AbiFinish(st) == [size |-> RoundUp((st.mx + 7) \div 8, st.al), align |-> st.al, places |-> st.places]

AbiLayout(node) ==
  LET Step(st, f, i) == AbiMember(node, st, f)
  IN AbiFinish(FoldL(Step, AbiInit, node.fields, 1))

(***************************************************************************)
(* The class of declarations the property speaks about                     *)
(***************************************************************************)
RECURSIVE InClass(_), TypeOK(_, _)
\* inner = TRUE: the type is used below an array or as a nested member (no flexible arrays there)
TypeOK(t, inner) ==
  CASE t.c = "prim" -> t.name \in PrimNames
    [] t.c = "ptr"  -> TRUE
    [] t.c = "arr"  -> t.n >= 1 /\ TypeOK(t.of, TRUE)
    [] t.c = "flex" -> ~inner /\ TypeOK(t.of, TRUE)
    [] t.c = "agg"  -> InClass(t.node) /\ ~\E i \in 1..Len(t.node.fields) : t.node.fields[i].t.c = "flex"
    [] OTHER -> FALSE

RECURSIVE HasNamedStorage(_)
HasNamedStorage(node) == \E i \in 1..Len(node.fields) :
     LET f == node.fields[i] IN
       \/ f.named /\ f.t.c # "flex" /\ (f.bf => f.w > 0)
       \/ IsAnonAgg(f) /\ HasNamedStorage(f.t.node)

InClass(node) ==
  /\ node.kind \in {"struct", "union"}
  /\ node.pack \in {0, 1, 2, 4, 8, 16}
  /\ HasNamedStorage(node)          \* C11 6.7.2.1p8: otherwise the declaration is undefined
  /\ \A i \in 1..Len(node.fields) :
       LET f == node.fields[i] IN
       /\ TypeOK(f.t, FALSE)
       /\ f.t.c = "flex" => /\ i = Len(node.fields) /\ node.kind = "struct" /\ ~f.bf /\ f.named
                            /\ \E j \in 1..(i - 1) : node.fields[j].named
       /\ f.bf => /\ f.t.c = "prim" /\ IsBitfieldType(f.t.name) /\ f.w <= MaxBits(f.t.name)
                  /\ (f.w = 0 => ~f.named)
                  /\ node.pack = 0               \* packing only "when no bitfield is present"
       /\ ~f.named => (f.bf \/ f.t.c = "agg")

(***************************************************************************)
(* IMPLEMENTATION MODEL - b_complete_struct_or_union_lock_held             *)
(***************************************************************************)
CONSTANT Variant     \* "faithful" | deliberately broken: "arm" | "msvc" | "fitge" | "nounionreset" | "firstmention"

DEFAULT_PACKING == 1073741824     \* SF_DEFAULT_PACKING = 0x40000000, _cffi_backend.c:5092
BS_REGULAR     == 0 - 1
BS_EMPTY_ARRAY == 0 - 2

\* model.py:420-427 finish_backend_type: packed == 1 -> sflags = SF_PACKED; packed = N -> (0, N)
\* _cffi_backend.c:5095 complete_sflags on this platform: SF_GCC_X86_BITFIELDS|SF_GCC_LITTLE_ENDIAN
\* _cffi_backend.c:5163-5168
\* cparser.py Parser._get_struct_union_enum_type: `tp.packed = self._options.get('packed')` is executed
\* where the BODY of the struct/union is parsed, i.e. with the options of the cdef() that defines it; an
\* earlier mention without body creates the StructType with packed = 0 and leaves it alone.
\* Variant "firstmention": the attribute is taken where the tag is first mentioned instead.
HasHist(node) == "hist" \in DOMAIN node
PackedAttr(node) == IF Variant = "firstmention" /\ HasHist(node) THEN node.hist.pack ELSE node.pack
Cx(node) ==
  LET sf_packed_arg == PackedAttr(node) = 1
      pack_arg      == IF PackedAttr(node) > 1 THEN PackedAttr(node) ELSE 0
  IN [union  |-> node.kind = "union",
      msvc   |-> Variant = "msvc",
      arm    |-> Variant = "arm",
      bigend |-> FALSE,
      packed |-> sf_packed_arg \/ pack_arg > 0,
      pack   |-> IF sf_packed_arg THEN 1 ELSE IF pack_arg <= 0 THEN DEFAULT_PACKING ELSE pack_arg]

ROUNDUP_BYTES(bytes, bits) == bytes + (IF bits > 0 THEN 1 ELSE 0)            \* :5145
AlignUp(x, a)  == ((x + a - 1) \div a) * a       \* (x + a-1) & ~(a-1), a a power of two
AlignDown(x, a) == x - (x % a)                   \* x & ~(a-1)

RECURSIVE CffiLayout(_), CffiSA(_)

\* ct_size / get_alignment() of a field type (:1872); s = -1: unknown size (open array);
\* sub = the CField list (ct_extra) of a struct/union type
CffiSA(t) ==
  CASE t.c = "prim" -> [s |-> Prim[t.name].size, a |-> Prim[t.name].align, err |-> "", sub |-> <<>>]
    [] t.c = "ptr"  -> [s |-> PtrSize, a |-> PtrAlign, err |-> "", sub |-> <<>>]
    [] t.c = "arr"  -> Bind(CffiSA(t.of), LAMBDA e : [s |-> e.s * t.n, a |-> e.a, err |-> e.err, sub |-> <<>>])
    [] t.c = "flex" -> Bind(CffiSA(t.of), LAMBDA e : [s |-> 0 - 1, a |-> e.a, err |-> e.err, sub |-> <<>>])
    [] t.c = "agg"  -> Bind(CffiLayout(t.node),
                            LAMBDA L : [s |-> L.size, a |-> L.align, err |-> L.err, sub |-> L.fields])

CffiInit == [bo |-> 0, bi |-> 0, al |-> 1, bmax |-> 0, pbs |-> 0, pbf |-> 0, fields |-> <<>>, err |-> ""]

\* end of the loop body (:5469-5471)
LoopEnd(st, bo, bi, al, pbs, pbf, newf) ==
  [bo |-> bo, bi |-> bi, al |-> al, pbs |-> pbs, pbf |-> pbf, err |-> "",
   bmax |-> IF ROUNDUP_BYTES(bo, bi) > st.bmax THEN ROUNDUP_BYTES(bo, bi) ELSE st.bmax,
   fields |-> st.fields \o newf]

\* one iteration of the loop :5194-5472; `last` = (i == nb_fields - 1)
CffiStepSA(cx, st, f, last, sa) ==
  IF st.err # "" THEN st ELSE
  LET fbitsize  == IF f.bf THEN f.w ELSE 0 - 1
      reset     == cx.union /\ Variant # "nounionreset"
      bo0       == IF reset THEN 0 ELSE st.bo                                   \* :5239
      bi0       == IF reset THEN 0 ELSE st.bi
      falignorg == sa.a                                                         \* :5244
      falign    == IF cx.pack < falignorg THEN cx.pack ELSE falignorg           \* :5247
      do_align  == IF ~cx.arm /\ fbitsize >= 0                                  \* :5249-5259
                   THEN (IF ~cx.msvc THEN f.named ELSE fbitsize > 0)
                   ELSE TRUE
      al1       == IF st.al < falign /\ do_align THEN falign ELSE st.al         \* :5260
  IN
  IF sa.err # "" THEN [st EXCEPT !.err = sa.err]
  ELSE IF sa.s < 0 /\ ~(f.t.c = "flex" /\ fbitsize < 0 /\ last)                 \* :5214-5225
       THEN [st EXCEPT !.err = "TypeError: field of unknown size"]
  ELSE IF fbitsize < 0 THEN
     \* ---- not a bit-field (:5265-5329)
     LET b1   == ROUNDUP_BYTES(bo0, bi0)                                         \* :5278
         b2   == AlignUp(b1, falign)                                             \* :5281
         newf == IF ~f.named /\ f.t.c = "agg"                                    \* :5297-5318
                 THEN [k \in 1..Len(sa.sub) |-> [sa.sub[k] EXCEPT !.offset = b2 + @]]
                 ELSE << [offset |-> b2,
                          bitshift |-> IF f.t.c = "flex" THEN BS_EMPTY_ARRAY ELSE BS_REGULAR,
                          bitsize |-> 0 - 1] >>
         b3   == IF sa.s >= 0 THEN b2 + sa.s ELSE b2                             \* :5326
     IN LoopEnd(st, b3, 0, al1, 0, st.pbf, newf)
  ELSE
     \* ---- a bit-field (:5330-5467)
     IF ~(f.t.c = "prim" /\ Prim[f.t.name].kind \in {"int", "bool", "char"})     \* :5343
     THEN [st EXCEPT !.err = "TypeError: cannot be a bit field"]
     ELSE IF fbitsize > 8 * sa.s                                                 \* :5352
     THEN [st EXCEPT !.err = "TypeError: exceeds the width of the type"]
     ELSE
     LET fob == AlignDown(bo0, falign) IN                                        \* :5364-5365
     IF fbitsize = 0 THEN
        IF f.named THEN [st EXCEPT !.err = "TypeError: declared with :0"]        \* :5368
        ELSE IF ~cx.msvc THEN                                                    \* :5374-5384
           LET fob1 == IF ROUNDUP_BYTES(bo0, bi0) > fob THEN fob + falign ELSE fob
           IN LoopEnd(st, fob1, 0, al1, 0, st.pbf, <<>>)
        ELSE LoopEnd(st, bo0, bi0, al1, 0, st.pbf, <<>>)                         \* :5385-5392
     ELSE IF ~cx.msvc THEN
        \* GCC's algorithm (:5395-5427)
        LET occupied == (bo0 - fob) * 8 + bi0                                    \* :5400
            nofit    == IF Variant = "fitge" THEN occupied + fbitsize >= 8 * sa.s
                        ELSE occupied + fbitsize > 8 * sa.s                      \* :5403
        IN
        IF nofit /\ cx.packed /\ (occupied % 8) # 0                              \* :5406
        THEN [st EXCEPT !.err = "NotImplementedError: packed bit-field reuses bits of the previous field"]
        ELSE
        LET fob1     == IF nofit THEN fob + falign ELSE fob                      \* :5414
            bo1      == IF nofit THEN fob1 ELSE bo0                              \* :5416
            bi1      == IF nofit THEN 0 ELSE bi0
            bitshift == IF nofit THEN 0 ELSE occupied                            \* :5418/:5421
            bi2      == bi1 + fbitsize                                           \* :5424
            bo2      == bo1 + (bi2 \div 8)                                       \* :5425
            bi3      == bi2 % 8                                                  \* :5426
            shift1   == IF cx.bigend THEN 8 * sa.s - fbitsize - bitshift ELSE bitshift   \* :5454
            newf     == IF f.named                                               \* :5457
                        THEN << [offset |-> fob1, bitshift |-> shift1, bitsize |-> fbitsize] >>
                        ELSE <<>>
        IN LoopEnd(st, bo2, bi3, al1, st.pbs, st.pbf, newf)
     ELSE
        \* MSVC's algorithm (:5428-5453)
        LET reuse    == st.pbs = sa.s /\ st.pbf >= fbitsize                      \* :5435
            bitshift == IF reuse THEN 8 * st.pbs - st.pbf ELSE 0
            bo1      == IF reuse THEN bo0
                        ELSE AlignUp(ROUNDUP_BYTES(bo0, bi0), falign) + sa.s     \* :5442-5446
            bi1      == IF reuse THEN bi0 ELSE 0
            pbs1     == IF reuse THEN st.pbs ELSE sa.s
            pbf1     == (IF reuse THEN st.pbf ELSE 8 * sa.s) - fbitsize          \* :5451
            fob1     == bo1 - sa.s                                               \* :5452
            newf     == IF f.named
                        THEN << [offset |-> fob1, bitshift |-> bitshift, bitsize |-> fbitsize] >>
                        ELSE <<>>
        IN LoopEnd(st, bo1, bi1, al1, pbs1, pbf1, newf)

CffiStep(cx, st, f, last) == Bind(CffiSA(f.t), LAMBDA sa : CffiStepSA(cx, st, f, last, sa))

\* after the loop (:5478-5506) with totalsize = totalalignment = -1 (model.py:426)
CffiFinish(st) ==
  LET alignedsize == AlignUp(st.bmax, st.al) IN
  [size |-> IF alignedsize = 0 THEN 1 ELSE alignedsize, align |-> st.al, fields |-> st.fields, err |-> st.err]

CffiLayout(node) ==
  LET cx == Cx(node)
      Step(st, f, i) == CffiStep(cx, st, f, i = Len(node.fields))
  IN CffiFinish(FoldL(Step, CffiInit, node.fields, 1))

\* projection of the implementation's per-field triple to the property's vocabulary:
\* what ffi.offsetof reports / which storage bits read_raw/write_raw touch (little-endian)
ProjField(cf) == IF cf.bitsize < 0 THEN [bf |-> FALSE, pos |-> cf.offset, w |-> 0]
                 ELSE [bf |-> TRUE, pos |-> 8 * cf.offset + cf.bitshift, w |-> cf.bitsize]
Proj(L) == [size |-> L.size, align |-> L.align, places |-> SeqMap(ProjField, L.fields)]

\* The refinement statement, per declaration
Agree(node) == \E L \in {CffiLayout(node)} : L.err = "" /\ Proj(L) = AbiLayout(node)
=============================================================================
