------------------------------ MODULE PlatformBV ------------------------------
(* Integers of any magnitude for the platform specifications (TLC's own integers are 32-bit).

   N-values : natural numbers as little-endian sequences of limbs 0..Base-1, Base = 2^LB,
              canonical (no most-significant zero limb; zero = <<>>).
   Z-values : [neg |-> BOOLEAN, mag |-> N-value], canonical (zero is not negative).

   LB is 15 in trace validation (products of two limbs fit TLC's 32-bit integers) and 2 in
   MC_PlatformBV, where TLC compares every operator below with its native arithmetic for all
   operands of a small range - the library is checked, not trusted.                         *)
EXTENDS Platform, Integers, Bitwise
CONSTANT LB

RECURSIVE Pow2(_)
Pow2(k) == IF k = 0 THEN 1 ELSE 2 * Pow2(k - 1)
Base == Pow2(LB)

\* Bind(v, Body): evaluate v once, then Body(v) (TLC re-evaluates LET definitions and operator
\* arguments at every use; a bound variable of a set constructor holds a value).
Bind(v, Body(_)) == CHOOSE y \in {Body(x) : x \in {v}} : TRUE

(***************************************************************************)
(* naturals                                                                *)
(***************************************************************************)
Limb(a, i) == IF i <= Len(a) THEN a[i] ELSE 0

RECURSIVE NTrim(_)
NTrim(a) == IF a = <<>> THEN <<>>
            ELSE IF a[Len(a)] = 0 THEN NTrim(SubSeq(a, 1, Len(a) - 1)) ELSE a

RECURSIVE NFromInt(_)
NFromInt(n) == IF n = 0 THEN <<>> ELSE <<n % Base>> \o NFromInt(n \div Base)
RECURSIVE NToInt(_)
NToInt(a) == IF a = <<>> THEN 0 ELSE a[1] + Base * NToInt(Tail(a))      \* small values only

RECURSIVE NCmpAt(_, _, _)
NCmpAt(a, b, i) == IF i = 0 THEN 0 ELSE IF a[i] < b[i] THEN 0 - 1 ELSE IF a[i] > b[i] THEN 1
                   ELSE NCmpAt(a, b, i - 1)
NCmp(a, b) == IF Len(a) < Len(b) THEN 0 - 1 ELSE IF Len(a) > Len(b) THEN 1 ELSE NCmpAt(a, b, Len(a))

RECURSIVE NAddAt(_, _, _, _)
NAddAt(a, b, i, c) ==
  IF i > Len(a) /\ i > Len(b) THEN (IF c = 0 THEN <<>> ELSE <<c>>)
  ELSE Bind(Limb(a, i) + Limb(b, i) + c, LAMBDA s : <<s % Base>> \o NAddAt(a, b, i + 1, s \div Base))
NAdd(a, b) == NAddAt(a, b, 1, 0)

RECURSIVE NSubAt(_, _, _, _)
NSubAt(a, b, i, br) ==
  IF i > Len(a) THEN <<>>
  ELSE Bind(a[i] - Limb(b, i) - br,
            LAMBDA d : <<IF d < 0 THEN d + Base ELSE d>> \o NSubAt(a, b, i + 1, IF d < 0 THEN 1 ELSE 0))
NSub(a, b) == NTrim(NSubAt(a, b, 1, 0))                     \* requires a >= b

RECURSIVE NMulSmallAt(_, _, _, _)
NMulSmallAt(a, m, i, c) ==
  IF i > Len(a) THEN (IF c = 0 THEN <<>> ELSE <<c>>)
  ELSE Bind(a[i] * m + c, LAMBDA p : <<p % Base>> \o NMulSmallAt(a, m, i + 1, p \div Base))
NMulSmall(a, m) == IF m = 0 THEN <<>> ELSE NMulSmallAt(a, m, 1, 0)          \* 0 <= m < Base

RECURSIVE NMulAt(_, _, _)
\* a * (b[j] + Base * b[j+1] + ...)
NMulAt(a, b, j) == IF j > Len(b) THEN <<>>
                   ELSE Bind(NMulAt(a, b, j + 1),
                             LAMBDA hi : NAdd(NMulSmall(a, b[j]), IF hi = <<>> THEN <<>> ELSE <<0>> \o hi))
NMul(a, b) == IF a = <<>> \/ b = <<>> THEN <<>> ELSE NTrim(NMulAt(a, b, 1))

\* 2^k as an N-value
NPow2(k) == [i \in 1..(k \div LB) |-> 0] \o <<Pow2(k % LB)>>
NShl(a, k) == NMul(a, NPow2(k))

RECURSIVE NDivSmallAt(_, _, _, _)
\* quotient limbs 1..i of (r * Base^i + a[1..i]) by m, 0 <= r < m <= Base
NDivSmallAt(a, m, i, r) ==
  IF i = 0 THEN <<>>
  ELSE Bind(r * Base + a[i], LAMBDA cur : NDivSmallAt(a, m, i - 1, cur % m) \o <<cur \div m>>)
NDivSmall(a, m) == NTrim(NDivSmallAt(a, m, Len(a), 0))
\* floor(a / 2^k)
NShr(a, k) == LET drop == k \div LB IN
              IF drop >= Len(a) THEN <<>>
              ELSE NDivSmall(SubSeq(a, drop + 1, Len(a)), Pow2(k % LB))

RECURSIVE SmallBitLen(_)
SmallBitLen(n) == IF n = 0 THEN 0 ELSE 1 + SmallBitLen(n \div 2)
NBitLen(a) == IF a = <<>> THEN 0 ELSE (Len(a) - 1) * LB + SmallBitLen(a[Len(a)])
NBit(a, i) == LET l == i \div LB + 1 IN IF l > Len(a) THEN 0 ELSE (a[l] \div Pow2(i % LB)) % 2

\* a mod 2^w
NModPow2(a, w) ==
  LET full == w \div LB
      part == w % LB
  IN NTrim([i \in 1..(IF part = 0 THEN full ELSE full + 1) |->
              IF i <= full THEN Limb(a, i) ELSE Limb(a, i) % Pow2(part)])

RECURSIVE NDivModAt(_, _, _, _, _)
\* binary long division: bits i..0 of a still to bring down, q/r so far
NDivModAt(a, b, i, q, r) ==
  IF i < 0 THEN [q |-> q, r |-> r]
  ELSE Bind(NAdd(NAdd(r, r), IF NBit(a, i) = 1 THEN <<1>> ELSE <<>>), LAMBDA r2 :
       Bind(NAdd(q, q), LAMBDA q2 :
         IF NCmp(r2, b) >= 0
         THEN Bind(NSub(r2, b), LAMBDA r3 : Bind(NAdd(q2, <<1>>), LAMBDA q3 : NDivModAt(a, b, i - 1, q3, r3)))
         ELSE NDivModAt(a, b, i - 1, q2, r2)))
NDivMod(a, b) == NDivModAt(a, b, NBitLen(a) - 1, <<>>, <<>>)                 \* b # 0

\* limb-wise bit operations (op: "and" | "or" | "xor")
NBitOp(op, a, b) ==
  NTrim([i \in 1..(IF Len(a) > Len(b) THEN Len(a) ELSE Len(b)) |->
           CASE op = "and" -> Limb(a, i) & Limb(b, i)
             [] op = "or"  -> Limb(a, i) | Limb(b, i)
             [] op = "xor" -> Limb(a, i) ^^ Limb(b, i)])

(***************************************************************************)
(* integers                                                                *)
(***************************************************************************)
ZMk(neg, mag) == [neg |-> neg /\ mag # <<>>, mag |-> mag]
Z(n) == IF n < 0 THEN ZMk(TRUE, NFromInt(0 - n)) ELSE ZMk(FALSE, NFromInt(n))
ZToInt(z) == IF z.neg THEN 0 - NToInt(z.mag) ELSE NToInt(z.mag)             \* small values only
Z0 == ZMk(FALSE, <<>>)
Z1 == ZMk(FALSE, <<1>>)
ZIsZero(z) == z.mag = <<>>
ZNeg(z) == ZMk(~z.neg, z.mag)
ZAbs(z) == ZMk(FALSE, z.mag)
ZAdd(a, b) == IF a.neg = b.neg THEN ZMk(a.neg, NAdd(a.mag, b.mag))
              ELSE IF NCmp(a.mag, b.mag) >= 0 THEN ZMk(a.neg, NSub(a.mag, b.mag))
              ELSE ZMk(b.neg, NSub(b.mag, a.mag))
ZSub(a, b) == ZAdd(a, ZNeg(b))
ZMul(a, b) == ZMk(a.neg # b.neg, NMul(a.mag, b.mag))
ZCmp(a, b) == IF a.neg # b.neg THEN (IF a.neg THEN 0 - 1 ELSE 1)
              ELSE IF a.neg THEN NCmp(b.mag, a.mag) ELSE NCmp(a.mag, b.mag)
ZLt(a, b) == ZCmp(a, b) < 0
ZLe(a, b) == ZCmp(a, b) <= 0
ZPow2(k) == ZMk(FALSE, NPow2(k))
\* C99 division: truncation toward zero, the remainder has the sign of the dividend
ZDivTrunc(a, b) == Bind(NDivMod(a.mag, b.mag), LAMBDA d : ZMk(a.neg # b.neg, d.q))
ZRemTrunc(a, b) == Bind(NDivMod(a.mag, b.mag), LAMBDA d : ZMk(a.neg, d.r))
\* Python's // and %: floor
ZDivFloor(a, b) == Bind(NDivMod(a.mag, b.mag), LAMBDA d :
                     IF a.neg # b.neg /\ d.r # <<>> THEN ZMk(TRUE, NAdd(d.q, <<1>>)) ELSE ZMk(a.neg # b.neg, d.q))
ZModFloor(a, b) == ZSub(a, ZMul(ZDivFloor(a, b), b))
\* a * 2^k and floor(a / 2^k) (Python's << and >> on unbounded integers)
ZShl(a, k) == ZMk(a.neg, NShl(a.mag, k))
ZShrFloor(a, k) == IF ~a.neg THEN ZMk(FALSE, NShr(a.mag, k))
                   ELSE ZMk(TRUE, NShr(NAdd(a.mag, NSub(NPow2(k), <<1>>)), k))

\* ---- fixed width: W-bit two's complement
\* z mod 2^W as an N-value (the bit pattern)
ToTwos(z, W) == Bind(NModPow2(z.mag, W), LAMBDA m :
                  IF ~z.neg \/ m = <<>> THEN m ELSE NSub(NPow2(W), m))
\* the value of a W-bit pattern read as signed / unsigned
FromTwos(n, W, signed) == IF signed /\ NBit(n, W - 1) = 1 THEN ZMk(TRUE, NSub(NPow2(W), n)) ELSE ZMk(FALSE, n)
Wrap(z, W, signed) == FromTwos(ToTwos(z, W), W, signed)
ZFits(z, W, signed) ==
  IF signed THEN \/ NBitLen(z.mag) <= W - 1
                 \/ z.neg /\ z.mag = NPow2(W - 1)
  ELSE ~z.neg /\ NBitLen(z.mag) <= W
\* bit operation on two integers through patterns of V bits, V large enough for both
\* (Python's & | ^ on unbounded two's complement; C's on W-bit operands)
ZBitOp(op, a, b, V, signed) == FromTwos(NBitOp(op, ToTwos(a, V), ToTwos(b, V)), V, signed)
ZBitLen(z) == NBitLen(z.mag)

\* JSON form written by the harness: [neg |-> BOOLEAN, mag |-> <<limbs>>]
ZOfJson(j) == ZMk(j.neg, j.mag)
=============================================================================
