------------------------------ MODULE Enum ------------------------------
(* C10 - enum values and underlying integer type match the compiler.

   An enum declaration is a non-empty sequence of items
       [name |-> STRING, k |-> "explicit", v |-> [neg, mag]]    NAME = <integer constant>
       [name |-> STRING, k |-> "implicit"]                      NAME            (previous + 1, or 0)
       [name |-> STRING, k |-> "ref", ref |-> i]                NAME = <name of the i-th item>, i earlier
   (integers are PlatformBV Z-values so that the true widths 32/64 can be used in trace
   validation; MC_Enum uses IntBits = 3, LongBits = 5).

   IDEAL: C11 6.7.2.2 for the values, GCC's documented choice of the compatible integer type
   ("unsigned int if there are no negative values, otherwise int", extended to long / unsigned
   long when the values do not fit - c-decl.cc finish_enum), ffi.string() as the property
   states it.  IMPLEMENTATION MODEL: Parser._build_enum_type (cparser.py:957),
   EnumType.build_baseinttype (model.py:519), the reverse loop of b_new_enum_type
   (_cffi_backend.c:6480), convert_cdata_to_enum_string (:2103), Recompiler._enum_ctx
   (recompiler.py:1116) with EnumExpr.as_python_expr / _cffi_prim_int.  Line numbers: snapshot 58a6019.                     *)
EXTENDS PlatformBV
CONSTANTS IntBits, LongBits, Variant     \* Variant: "faithful" | "fwddict" | "signle" | "rangele"

RECURSIVE FoldI(_, _, _, _)
FoldI(Op(_, _, _), acc, s, i) == IF i > Len(s) THEN acc ELSE Bind(Op(acc, s[i], i), LAMBDA a : FoldI(Op, a, s, i + 1))

(***************************************************************************)
(* IDEAL                                                                   *)
(***************************************************************************)
\* C11 6.7.2.2p3: "= constant" gives the value; the first enumerator without "=" is 0, each
\* later one is the previous value plus 1
Values(items) ==
  LET Step(vals, it, i) ==
        Append(vals, CASE it.k = "explicit" -> ZOfJson(it.v)
                       [] it.k = "implicit" -> IF i = 1 THEN Z0 ELSE ZAdd(vals[i - 1], Z1)
                       [] it.k = "ref"      -> vals[it.ref])
  IN FoldI(Step, <<>>, items, 1)

AnyNeg(vals) == \E i \in 1..Len(vals) : vals[i].neg
AllFit(vals, W, signed) == \A i \in 1..Len(vals) : ZFits(vals[i], W, signed)

\* the tops of the C integer types an enumeration constant can have: gcc rejects "previous + 1"
\* there ("overflow in enumeration values")
Tops == {ZSub(ZPow2(IntBits - 1), Z1), ZSub(ZPow2(IntBits), Z1),
         ZSub(ZPow2(LongBits - 1), Z1), ZSub(ZPow2(LongBits), Z1)}

\* the declarations the compiler accepts (the class of the property)
Defined(items, vals) ==
  /\ Len(items) >= 1
  /\ \A i, j \in 1..Len(items) : i # j => items[i].name # items[j].name
  /\ \A i \in 1..Len(items) : /\ items[i].k = "ref" => items[i].ref \in 1..(i - 1)
                              /\ (items[i].k = "implicit" /\ i > 1) => vals[i - 1] \notin Tops
  /\ IF AnyNeg(vals) THEN AllFit(vals, LongBits, TRUE) ELSE AllFit(vals, LongBits, FALSE)

\* GCC: unsigned int / unsigned long without negative values, int / long otherwise
GccBase(vals) ==
  IF AnyNeg(vals) THEN [bits |-> IF AllFit(vals, IntBits, TRUE) THEN IntBits ELSE LongBits, signed |-> TRUE]
  ELSE [bits |-> IF AllFit(vals, IntBits, FALSE) THEN IntBits ELSE LongBits, signed |-> FALSE]

\* ffi.string(): the name of the first declared enumerator with that value, else the number
StringOf(items, vals, q) ==
  IF \E i \in 1..Len(vals) : vals[i] = q
  THEN [isdec |-> FALSE, name |-> items[CHOOSE i \in 1..Len(vals) : vals[i] = q /\ \A j \in 1..(i - 1) : vals[j] # q].name,
        val |-> Z0]
  ELSE [isdec |-> TRUE, name |-> "", val |-> q]

(***************************************************************************)
(* IMPLEMENTATION MODEL                                                    *)
(***************************************************************************)
\* cparser.py:957-979 _build_enum_type (Python integers: unbounded)
CffiValues(items) ==
  LET Step(st, it, i) ==
        Bind(CASE it.k = "explicit" -> ZOfJson(it.v)              \* _parse_constant: literal
               [] it.k = "ref"      -> st.vals[it.ref]            \* ... or self._int_constants[name]
               [] it.k = "implicit" -> st.next,
             LAMBDA v : [vals |-> Append(st.vals, v), next |-> ZAdd(v, Z1)])      \* nextenumvalue += 1
  IN FoldI(Step, [vals |-> <<>>, next |-> Z0], items, 1).vals

RECURSIVE ZMinOf(_, _), ZMaxOf(_, _)
ZMinOf(vals, i) == IF i = Len(vals) THEN vals[i] ELSE Bind(ZMinOf(vals, i + 1), LAMBDA m : IF ZLt(vals[i], m) THEN vals[i] ELSE m)
ZMaxOf(vals, i) == IF i = Len(vals) THEN vals[i] ELSE Bind(ZMaxOf(vals, i + 1), LAMBDA m : IF ZLt(m, vals[i]) THEN vals[i] ELSE m)

\* model.py:519-558 build_baseinttype (self.enumvalues non-empty)
CffiBase(vals) ==
  LET smallest == ZMinOf(vals, 1)
      largest  == ZMaxOf(vals, 1)
      needsign == IF Variant = "signle" THEN ZLe(smallest, Z0) ELSE ZLt(smallest, Z0)        \* :539
      sign     == IF needsign THEN 1 ELSE 0
      Fits(bits) == /\ ZLe(ZNeg(ZPow2(bits - 1)), smallest)                                   \* :551/:554
                    /\ IF Variant = "rangele" THEN ZLe(largest, ZPow2(bits - sign))
                       ELSE ZLt(largest, ZPow2(bits - sign))
  IN IF Fits(IntBits) THEN [bits |-> IntBits, signed |-> needsign, err |-> ""]                \* btype1
     ELSE IF Fits(LongBits) THEN [bits |-> LongBits, signed |-> needsign, err |-> ""]         \* btype2
     ELSE [bits |-> 0, signed |-> FALSE, err |-> "CDefError: values don't all fit into either 'long' or 'unsigned long'"]

\* _cffi_backend.c:6516-6535: for (i=n; --i >= 0; ) { convert_from_object(range check);
\*                             dict1[name] = value; dict2[value] = name; }
\* dict2 as a function value -> name; a later assignment replaces an earlier one
CffiDict2(items, vals, base) ==
  LET n == Len(vals)
      Order(j) == IF Variant = "fwddict" THEN j ELSE n + 1 - j          \* j-th iteration handles item Order(j)
      Step(d, it, j) == Bind(Order(j), LAMBDA i :
                          IF d.err # "" THEN d
                          ELSE IF ~ZFits(vals[i], base.bits, base.signed)
                          THEN [d EXCEPT !.err = "OverflowError"]
                          ELSE [d EXCEPT !.map = (vals[i] :> items[i].name) @@ d.map])
  IN FoldI(Step, [map |-> <<>>, err |-> ""], items, 1)

\* :2103 convert_cdata_to_enum_string with both = 0; q = the integer read back from the cdata
CffiString(dict2, q) == IF q \in DOMAIN dict2.map THEN [isdec |-> FALSE, name |-> dict2.map[q], val |-> Z0]
                        ELSE [isdec |-> TRUE, name |-> "", val |-> q]

\* the base type in the three modes:
\*   "inline": build_baseinttype;  "abi" (out-of-line, target_is_python): recompiler.py:1128-1131
\*   build_baseinttype -> (size, signed) -> EnumExpr.as_python_expr picks intN_t/uintN_t of that size;
\*   "api": size/sign come from the C compiler (sizeof(enum e), ((enum e)-1) <= 0) -> _cffi_prim_int
ModeBase(mode, vals) ==
  IF mode = "api" THEN Bind(GccBase(vals), LAMBDA g : [bits |-> g.bits, signed |-> g.signed, err |-> ""])
  ELSE CffiBase(vals)

\* the refinement statement for one declaration
AgreeValues(items) == CffiValues(items) = Values(items)
AgreeBase(items) == \E vals \in {Values(items)} :
    Defined(items, vals) => \E b \in {CffiBase(vals)} : b.err = "" /\ [bits |-> b.bits, signed |-> b.signed] = GccBase(vals)
AgreeString(items, queries) == \E vals \in {Values(items)} :
    Defined(items, vals) => \E d \in {CffiDict2(items, vals, CffiBase(vals))} :
        d.err = "" /\ \A q \in queries : CffiString(d, q) = StringOf(items, vals, q)
=============================================================================
