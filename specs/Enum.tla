------------------------------ MODULE Enum ------------------------------
(* C10 - enum values and underlying integer type match the compiler.

   An enum declaration is a non-empty sequence of items
       [name |-> STRING, k |-> "explicit", v |-> [neg, mag]]    NAME = <integer constant>
       [name |-> STRING, k |-> "implicit"]                      NAME            (previous + 1, or 0)
       [name |-> STRING, k |-> "ref", ref |-> i]                NAME = <name of the i-th item>, i earlier
       [name |-> STRING, k |-> "char", sp |-> Seq(0..127), cneg |-> BOOLEAN]
                                                                NAME = 'c' or NAME = -'c': an integer character
                                                                constant; sp = the codes of the source characters
                                                                between the quotes (<<92, 97>> for '\a')
   (integers are PlatformBV Z-values so that the true widths 32/64 can be used in trace
   validation; MC_Enum uses IntBits = 3, LongBits = 5).

   IDEAL: C11 6.7.2.2 for the values, GCC's documented choice of the compatible integer type
   ("unsigned int if there are no negative values, otherwise int", extended to long / unsigned
   long when the values do not fit - c-decl.cc finish_enum), ffi.string() as the property
   states it.  IMPLEMENTATION MODEL: Parser._build_enum_type (cparser.py:957),
   EnumType.build_baseinttype (model.py:519), the reverse loop of b_new_enum_type
   (_cffi_backend.c:6480), convert_cdata_to_enum_string (:2103), Recompiler._enum_ctx
   (recompiler.py:1116) with EnumExpr.as_python_expr / _cffi_prim_int.  Line numbers: snapshot 58a6019.                     *)
EXTENDS PlatformBV
CONSTANTS IntBits, LongBits, Variant     \* Variant: "faithful" | "fwddict" | "signle" | "rangele" | "rawesc"

RECURSIVE FoldI(_, _, _, _)
FoldI(Op(_, _, _), acc, s, i) == IF i > Len(s) THEN acc ELSE Bind(Op(acc, s[i], i), LAMBDA a : FoldI(Op, a, s, i + 1))

(***************************************************************************)
(* IDEAL                                                                   *)
(***************************************************************************)
\* C11 6.4.4.4: integer character constants.  p3/Table: the simple escape sequences \' \" \? \\ \a \b \f \n \r
\* \t \v (values of the execution character set = ASCII: 5.2.2p2 alert, backspace, form feed, new line, carriage
\* return, horizontal tab, vertical tab); p5/p6: octal escapes of 1-3 digits, hexadecimal escapes; p10: the value is
\* that of an object of type char with that content converted to int (plain char is signed on this platform - gcc is
\* validated against this rule first).  A spelling is a sequence of source character codes (ASCII).
BSL == 92
SimpleEsc == (39 :> 39) @@ (34 :> 34) @@ (63 :> 63) @@ (92 :> 92) @@ (97 :> 7) @@ (98 :> 8) @@ (102 :> 12)
             @@ (110 :> 10) @@ (114 :> 13) @@ (116 :> 9) @@ (118 :> 11)
OctDigit(c) == c \in 48..55
HexDigit(c) == c \in 48..57 \/ c \in 65..70 \/ c \in 97..102
HexVal(c) == IF c \in 48..57 THEN c - 48 ELSE IF c \in 97..102 THEN c - 87 ELSE c - 55
RECURSIVE DigitsVal(_, _, _, _)
DigitsVal(sp, i, base, acc) == IF i > Len(sp) THEN acc ELSE DigitsVal(sp, i + 1, base, acc * base + HexVal(sp[i]))
\* the value of the escape / character as a non-negative number, -1 if the spelling is not a character constant
CharNat(sp) ==
  IF Len(sp) = 1 THEN (IF sp[1] \in 32..126 /\ sp[1] # 39 /\ sp[1] # BSL THEN sp[1] ELSE 0 - 1)
  ELSE IF Len(sp) < 2 \/ sp[1] # BSL THEN 0 - 1
  ELSE IF Len(sp) = 2 /\ sp[2] \in DOMAIN SimpleEsc THEN SimpleEsc[sp[2]]
  ELSE IF Len(sp) <= 4 /\ \A i \in 2..Len(sp) : OctDigit(sp[i]) THEN DigitsVal(sp, 2, 8, 0)
  ELSE IF Len(sp) \in 3..4 /\ sp[2] = 120 /\ \A i \in 3..Len(sp) : HexDigit(sp[i]) THEN DigitsVal(sp, 3, 16, 0)
  ELSE 0 - 1
CharDefined(sp) == CharNat(sp) \in 0..255                      \* gcc: "octal escape sequence out of range" beyond
CharValue(sp) == Bind(CharNat(sp), LAMBDA n : IF n >= 128 THEN n - 256 ELSE n)
CharItem(it) == IF it.cneg THEN Z(0 - CharValue(it.sp)) ELSE Z(CharValue(it.sp))

\* C11 6.7.2.2p3: "= constant" gives the value; the first enumerator without "=" is 0, each
\* later one is the previous value plus 1
Values(items) ==
  LET Step(vals, it, i) ==
        Append(vals, CASE it.k = "explicit" -> ZOfJson(it.v)
                       [] it.k = "implicit" -> IF i = 1 THEN Z0 ELSE ZAdd(vals[i - 1], Z1)
                       [] it.k = "ref"      -> vals[it.ref]
                       [] it.k = "char"     -> CharItem(it))
  IN FoldI(Step, <<>>, items, 1)

AnyNeg(vals) == \E i \in 1..Len(vals) : vals[i].neg
AllFit(vals, W, signed) == \A i \in 1..Len(vals) : ZFits(vals[i], W, signed)

\* the tops of the C integer types an enumeration constant can have: gcc rejects "previous + 1"
\* there ("overflow in enumeration values")
Tops == {ZSub(ZPow2(IntBits - 1), Z1), ZSub(ZPow2(IntBits), Z1),
         ZSub(ZPow2(LongBits - 1), Z1), ZSub(ZPow2(LongBits), Z1)}

\* the declarations the compiler accepts (the class of the property)
Defined(items, vals) ==
  /\ Len(items) >= 1
  /\ \A i, j \in 1..Len(items) : i # j => items[i].name # items[j].name
  /\ \A i \in 1..Len(items) : /\ items[i].k = "ref" => items[i].ref \in 1..(i - 1)
                              /\ (items[i].k = "implicit" /\ i > 1) => vals[i - 1] \notin Tops
                              /\ items[i].k = "char" => CharDefined(items[i].sp)
  /\ IF AnyNeg(vals) THEN AllFit(vals, LongBits, TRUE) ELSE AllFit(vals, LongBits, FALSE)

\* GCC: unsigned int / unsigned long without negative values, int / long otherwise
GccBase(vals) ==
  IF AnyNeg(vals) THEN [bits |-> IF AllFit(vals, IntBits, TRUE) THEN IntBits ELSE LongBits, signed |-> TRUE]
  ELSE [bits |-> IF AllFit(vals, IntBits, FALSE) THEN IntBits ELSE LongBits, signed |-> FALSE]

\* ffi.string(): the name of the first declared enumerator with that value, else the number
StringOf(items, vals, q) ==
  IF \E i \in 1..Len(vals) : vals[i] = q
  THEN [isdec |-> FALSE, name |-> items[CHOOSE i \in 1..Len(vals) : vals[i] = q /\ \A j \in 1..(i - 1) : vals[j] # q].name,
        val |-> Z0]
  ELSE [isdec |-> TRUE, name |-> "", val |-> q]

(***************************************************************************)
(* IMPLEMENTATION MODEL                                                    *)
(***************************************************************************)
\* cparser.py:50 _char_escapes and :928-934 _parse_constant for s[0] == "'":
\*   len(s) == 3 or (len(s) == 4 and s[1] == "\\") else CDefError("invalid constant");
\*   if len(s) == 4 and s[2] in _char_escapes: return _char_escapes[s[2]];  return ord(s[-2])
CffiEscapes == (97 :> 7) @@ (98 :> 8) @@ (102 :> 12) @@ (110 :> 10) @@ (114 :> 13) @@ (116 :> 9) @@ (118 :> 11)
               @@ [c \in 48..55 |-> c - 48]
CffiCharOK(sp) == Len(sp) = 1 \/ (Len(sp) = 2 /\ sp[1] = BSL)
CffiChar(sp) == IF Len(sp) = 2 /\ sp[2] \in DOMAIN CffiEscapes /\ Variant # "rawesc" THEN CffiEscapes[sp[2]]
                ELSE sp[Len(sp)]
\* does cdef() parse the declaration at all ("invalid constant" otherwise)
CffiParses(items) == \A i \in 1..Len(items) : items[i].k = "char" => CffiCharOK(items[i].sp)

\* cparser.py:957-979 _build_enum_type (Python integers: unbounded); UnaryOp '-' -> -self._parse_constant(...)
CffiValues(items) ==
  LET Step(st, it, i) ==
        Bind(CASE it.k = "explicit" -> ZOfJson(it.v)              \* _parse_constant: literal
               [] it.k = "ref"      -> st.vals[it.ref]            \* ... or self._int_constants[name]
               [] it.k = "char"     -> IF it.cneg THEN Z(0 - CffiChar(it.sp)) ELSE Z(CffiChar(it.sp))
               [] it.k = "implicit" -> st.next,
             LAMBDA v : [vals |-> Append(st.vals, v), next |-> ZAdd(v, Z1)])      \* nextenumvalue += 1
  IN FoldI(Step, [vals |-> <<>>, next |-> Z0], items, 1).vals

RECURSIVE ZMinOf(_, _), ZMaxOf(_, _)
ZMinOf(vals, i) == IF i = Len(vals) THEN vals[i] ELSE Bind(ZMinOf(vals, i + 1), LAMBDA m : IF ZLt(vals[i], m) THEN vals[i] ELSE m)
ZMaxOf(vals, i) == IF i = Len(vals) THEN vals[i] ELSE Bind(ZMaxOf(vals, i + 1), LAMBDA m : IF ZLt(m, vals[i]) THEN vals[i] ELSE m)

\* model.py:519-558 build_baseinttype (self.enumvalues non-empty)
CffiBase(vals) ==
  LET smallest == ZMinOf(vals, 1)
      largest  == ZMaxOf(vals, 1)
      needsign == IF Variant = "signle" THEN ZLe(smallest, Z0) ELSE ZLt(smallest, Z0)        \* :539
      sign     == IF needsign THEN 1 ELSE 0
      Fits(bits) == /\ ZLe(ZNeg(ZPow2(bits - 1)), smallest)                                   \* :551/:554
                    /\ IF Variant = "rangele" THEN ZLe(largest, ZPow2(bits - sign))
                       ELSE ZLt(largest, ZPow2(bits - sign))
  IN IF Fits(IntBits) THEN [bits |-> IntBits, signed |-> needsign, err |-> ""]                \* btype1
     ELSE IF Fits(LongBits) THEN [bits |-> LongBits, signed |-> needsign, err |-> ""]         \* btype2
     ELSE [bits |-> 0, signed |-> FALSE, err |-> "CDefError: values don't all fit into either 'long' or 'unsigned long'"]

\* _cffi_backend.c:6516-6535: for (i=n; --i >= 0; ) { convert_from_object(range check);
\*                             dict1[name] = value; dict2[value] = name; }
\* dict2 as a function value -> name; a later assignment replaces an earlier one
CffiDict2(items, vals, base) ==
  LET n == Len(vals)
      Order(j) == IF Variant = "fwddict" THEN j ELSE n + 1 - j          \* j-th iteration handles item Order(j)
      Step(d, it, j) == Bind(Order(j), LAMBDA i :
                          IF d.err # "" THEN d
                          ELSE IF ~ZFits(vals[i], base.bits, base.signed)
                          THEN [d EXCEPT !.err = "OverflowError"]
                          ELSE [d EXCEPT !.map = (vals[i] :> items[i].name) @@ d.map])
  IN FoldI(Step, [map |-> <<>>, err |-> ""], items, 1)

\* :2103 convert_cdata_to_enum_string with both = 0; q = the integer read back from the cdata
CffiString(dict2, q) == IF q \in DOMAIN dict2.map THEN [isdec |-> FALSE, name |-> dict2.map[q], val |-> Z0]
                        ELSE [isdec |-> TRUE, name |-> "", val |-> q]

\* the base type in the three modes:
\*   "inline": build_baseinttype;  "abi" (out-of-line, target_is_python): recompiler.py:1128-1131
\*   build_baseinttype -> (size, signed) -> EnumExpr.as_python_expr picks intN_t/uintN_t of that size;
\*   "api": size/sign come from the C compiler (sizeof(enum e), ((enum e)-1) <= 0) -> _cffi_prim_int
ModeBase(mode, vals) ==
  IF mode = "api" THEN Bind(GccBase(vals), LAMBDA g : [bits |-> g.bits, signed |-> g.signed, err |-> ""])
  ELSE CffiBase(vals)

\* the refinement statement for one declaration
AgreeValues(items) == CffiParses(items) /\ CffiValues(items) = Values(items)
AgreeBase(items) == \E vals \in {Values(items)} :
    Defined(items, vals) => \E b \in {CffiBase(vals)} : b.err = "" /\ [bits |-> b.bits, signed |-> b.signed] = GccBase(vals)
AgreeString(items, queries) == \E vals \in {Values(items)} :
    Defined(items, vals) => \E d \in {CffiDict2(items, vals, CffiBase(vals))} :
        d.err = "" /\ \A q \in queries : CffiString(d, q) = StringOf(items, vals, q)
=============================================================================
