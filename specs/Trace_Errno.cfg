SPECIFICATION TSpec
CONSTANTS Threads = {1,2,3,4,5,6,7,8}
  Raw = {}
  Vals = {0}
  Paths = {"api"}
  Kinds = {"cbk"}
  MaxLen = 64
CHECK_DEADLOCK FALSE
