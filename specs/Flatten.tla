------------------------------ MODULE Flatten ------------------------------
(* C32 -- the key ffi.verify() hashes into the module name.

   Values (the keyword arguments of verify()) are tagged records
       [t |-> "s", v |-> <<chars>>]          a str (characters are code points)
       [t |-> "i", v |-> <<chars>>]          an int, given by its decimal digits (45 = "-" first if negative)
       [t |-> "l", v |-> <<values>>]         a list or a tuple (the two are identified)
       [t |-> "d", v |-> <<<<key, value>>>>] a dict, pairs sorted by key (canonical form:
                                             a dict has no order)
   Flatten is ffiplatform._flatten (src/cffi/ffiplatform.py:91) transcribed on character
   sequences; Key is the construction in Verifier.__init__ (src/cffi/verifier.py:53).
   The property: Flatten is injective (shown by a decoder Parse with Parse(Flatten(v)) = v
   and no input left over, on every value of the bound, even when followed by arbitrary
   text), independent of the order in which a dict lists its items, and Key is injective on
   (preamble, kwds, sources) as long as preamble and sources contain no NUL character.

   Variant selects broken encoders TLC must reject:
     "nolen"   strings written without their length
     "notag"   ints written without the trailing 'i'
     "nosort"  dict items written in insertion order
     "newline-joined"    the cdef sources glued with '\n' into one field of the key
     "backslashreplace"  the key encoded with ('ascii', 'backslashreplace') instead of UTF-8  *)
EXTENDS Integers, Sequences, FiniteSets, TLC

CONSTANTS Variant

\* ---------------------------------------------------------------- characters and decimal numbers
cS == 115  cD == 100  cL == 108  cI == 105  cMinus == 45  NUL == 0
DigitChar(d) == 48 + d
RECURSIVE Dec(_)
Dec(n) == IF n < 10 THEN <<DigitChar(n)>> ELSE Dec(n \div 10) \o <<DigitChar(n % 10)>>     \* '%d' % n, n >= 0
IsDigit(c) == c \in 48..57
DigitVal(c) == c - 48

\* ---------------------------------------------------------------- ffiplatform._flatten
StrLess(a, b) ==   \* Python's str order: first differing code point, a proper prefix is smaller
    LET n == IF Len(a) < Len(b) THEN Len(a) ELSE Len(b)
        D == {k \in 1..n : a[k] # b[k]}
    IN IF D = {} THEN Len(a) < Len(b)
       ELSE LET k == CHOOSE k \in D : \A j \in D : k <= j IN a[k] < b[k]

RECURSIVE Flatten(_), FlattenSeq(_), FlattenPairs(_)
Flatten(x) ==
    CASE x.t = "s" -> IF Variant = "nolen" THEN <<cS>> \o x.v
                      ELSE Dec(Len(x.v)) \o <<cS>> \o x.v                    \* :93  '%ds%s' % (len(x), x)
      [] x.t = "d" -> Dec(Len(x.v)) \o <<cD>> \o FlattenPairs(x.v)           \* :95-99 (x.v is already sorted by key)
      [] x.t = "l" -> Dec(Len(x.v)) \o <<cL>> \o FlattenSeq(x.v)             \* :101-103
      [] x.t = "i" -> IF Variant = "notag" THEN x.v ELSE x.v \o <<cI>>       \* :105 '%di' % x
FlattenSeq(s) == IF s = <<>> THEN <<>> ELSE Flatten(Head(s)) \o FlattenSeq(Tail(s))
FlattenPairs(s) == IF s = <<>> THEN <<>>
                   ELSE Flatten(Head(s)[1]) \o Flatten(Head(s)[2]) \o FlattenPairs(Tail(s))

\* a dict as the caller wrote it: any order of the items; the encoder sorts the keys (:95)
RECURSIVE SortPairs(_)
SortPairs(S) == IF S = {} THEN <<>>
                ELSE LET m == CHOOSE p \in S : \A q \in S \ {p} : StrLess(p[1].v, q[1].v)
                     IN <<m>> \o SortPairs(S \ {m})
FlattenDictAsWritten(items) ==     \* items: sequence of <<key, value>> in insertion order, distinct keys
    IF Variant = "nosort" THEN Dec(Len(items)) \o <<cD>> \o FlattenPairs(items)
    ELSE Flatten([t |-> "d", v |-> SortPairs({items[i] : i \in DOMAIN items})])

\* ---------------------------------------------------------------- the decoder (witness of injectivity)
\* Parse(s) = [ok, val, rest]: reads exactly one value from the front of s
Fail == [ok |-> FALSE, val |-> [t |-> "s", v |-> <<>>], rest |-> <<>>]
RECURSIVE ReadDigits(_)
ReadDigits(s) == IF s # <<>> /\ IsDigit(Head(s)) THEN LET r == ReadDigits(Tail(s)) IN [d |-> <<Head(s)>> \o r.d, rest |-> r.rest]
                 ELSE [d |-> <<>>, rest |-> s]
RECURSIVE ToNat(_)
ToNat(d) == IF d = <<>> THEN 0 ELSE 10 * ToNat(SubSeq(d, 1, Len(d) - 1)) + DigitVal(d[Len(d)])
Drop(s, n) == SubSeq(s, n + 1, Len(s))

RECURSIVE Parse(_), ParseSeq(_, _), ParsePairs(_, _)
Parse(s) ==
    LET neg == s # <<>> /\ Head(s) = cMinus
        s1 == IF neg THEN Tail(s) ELSE s
        num == ReadDigits(s1)
        r == num.rest
    IN IF num.d = <<>> \/ r = <<>> THEN Fail
       ELSE LET c == Head(r)   body == Tail(r)   n == ToNat(num.d) IN
            IF c = cI THEN [ok |-> TRUE, val |-> [t |-> "i", v |-> (IF neg THEN <<cMinus>> ELSE <<>>) \o num.d], rest |-> body]
            ELSE IF neg THEN Fail
            ELSE IF c = cS THEN (IF Len(body) < n THEN Fail
                                  ELSE [ok |-> TRUE, val |-> [t |-> "s", v |-> SubSeq(body, 1, n)], rest |-> Drop(body, n)])
            ELSE IF c = cL THEN LET p == ParseSeq(n, body) IN
                                 IF p.ok THEN [ok |-> TRUE, val |-> [t |-> "l", v |-> p.val], rest |-> p.rest] ELSE Fail
            ELSE IF c = cD THEN LET p == ParsePairs(n, body) IN
                                 IF p.ok THEN [ok |-> TRUE, val |-> [t |-> "d", v |-> p.val], rest |-> p.rest] ELSE Fail
            ELSE Fail
ParseSeq(n, s) == IF n = 0 THEN [ok |-> TRUE, val |-> <<>>, rest |-> s]
                  ELSE LET a == Parse(s) IN IF ~a.ok THEN [ok |-> FALSE, val |-> <<>>, rest |-> <<>>]
                       ELSE LET b == ParseSeq(n - 1, a.rest) IN
                            [ok |-> b.ok, val |-> <<a.val>> \o b.val, rest |-> b.rest]
ParsePairs(n, s) == IF n = 0 THEN [ok |-> TRUE, val |-> <<>>, rest |-> s]
                    ELSE LET k == Parse(s) IN IF ~k.ok THEN [ok |-> FALSE, val |-> <<>>, rest |-> <<>>]
                         ELSE LET w == Parse(k.rest) IN IF ~w.ok THEN [ok |-> FALSE, val |-> <<>>, rest |-> <<>>]
                              ELSE LET b == ParsePairs(n - 1, w.rest) IN
                                   [ok |-> b.ok, val |-> <<<<k.val, w.val>>>> \o b.val, rest |-> b.rest]

\* ---------------------------------------------------------------- Verifier.__init__: the key
RECURSIVE Join(_)
Join(parts) == IF Len(parts) = 1 THEN parts[1] ELSE parts[1] \o <<NUL>> \o Join(Tail(parts))
\* every cdef() source is a field of its own: the key must tell how the text was split over the cdef() calls
RECURSIVE JoinNL(_)
JoinNL(parts) == IF parts = <<>> THEN <<>> ELSE IF Len(parts) = 1 THEN parts[1] ELSE parts[1] \o <<10>> \o JoinNL(Tail(parts))
Key(ver, vvm, preamble, kwds, sources) ==                           \* verifier.py:53-56
    IF Variant = "newline-joined" THEN Join(<<ver, vvm, preamble, Flatten(kwds), JoinNL(sources)>>)   \* broken
    ELSE Join(<<ver, vvm, preamble, Flatten(kwds)>> \o sources)
\* decoder of the key for NUL-free version strings, preamble and sources
RECURSIVE SplitNul(_)
SplitNul(s) == LET P == {k \in 1..Len(s) : s[k] = NUL} IN
               IF P = {} THEN <<s>>
               ELSE LET k == CHOOSE k \in P : \A j \in P : k <= j IN <<SubSeq(s, 1, k - 1)>> \o SplitNul(Drop(s, k))
UnKey(key) == LET f3 == SplitNul(key)                 \* ver, vvm, preamble are NUL-free: first three fields
                  after == Drop(key, Len(f3[1]) + Len(f3[2]) + Len(f3[3]) + 3)
                  p == Parse(after)                    \* the flattened keywords delimit themselves
              IN [preamble |-> f3[3], kwds |-> p.val,
                  sources |-> IF p.rest = <<>> THEN <<>> ELSE SplitNul(Tail(p.rest)),
                  ok |-> p.ok /\ (p.rest = <<>> \/ Head(p.rest) = NUL)]

\* ---------------------------------------------------------------- the bytes that are hashed
\* verifier.py:57  key = key.encode('utf-8'); the two CRC32 halves are taken over these BYTES, so the
\* encoding step must be injective too.  (Non-recursive: keys are thousands of characters long.)
Utf8(c) == IF c < 128 THEN <<c>>
           ELSE IF c < 2048 THEN <<192 + (c \div 64), 128 + (c % 64)>>
           ELSE IF c < 65536 THEN <<224 + (c \div 4096), 128 + ((c \div 64) % 64), 128 + (c % 64)>>
           ELSE <<240 + (c \div 262144), 128 + ((c \div 4096) % 64), 128 + ((c \div 64) % 64), 128 + (c % 64)>>
HexDigit(d) == IF d < 10 THEN 48 + d ELSE 87 + d                           \* lower-case hex, as Python prints it
RECURSIVE Hex(_, _)
Hex(n, width) == IF width = 0 THEN <<>> ELSE Hex(n \div 16, width - 1) \o <<HexDigit(n % 16)>>
\* broken variant: key.encode('ascii', 'backslashreplace')
BackslashReplace(c) == IF c < 128 THEN <<c>>
                       ELSE IF c < 256 THEN <<92, 120>> \o Hex(c, 2)         \* \xNN
                       ELSE IF c < 65536 THEN <<92, 117>> \o Hex(c, 4)       \* \uNNNN
                       ELSE <<92, 85>> \o Hex(c, 8)                          \* \UNNNNNNNN
EncodeChar(c) == IF Variant = "backslashreplace" THEN BackslashReplace(c) ELSE Utf8(c)
\* the byte string that is hashed; divide and conquer keeps the recursion depth logarithmic
RECURSIVE EncodeRange(_, _, _)
EncodeRange(s, lo, hi) == IF lo > hi THEN <<>>
                          ELSE IF lo = hi THEN EncodeChar(s[lo])
                          ELSE LET mid == (lo + hi) \div 2 IN EncodeRange(s, lo, mid) \o EncodeRange(s, mid + 1, hi)
Encode(s) == EncodeRange(s, 1, Len(s))
\* UTF-8 decoder (witness that the faithful encoding step is injective)
Utf8Len(b) == IF b < 128 THEN 1 ELSE IF b < 224 THEN 2 ELSE IF b < 240 THEN 3 ELSE 4
RECURSIVE Utf8Dec(_)
Utf8Dec(bs) ==
    IF bs = <<>> THEN <<>>
    ELSE LET n == Utf8Len(bs[1])
             c == IF n = 1 THEN bs[1]
                  ELSE IF n = 2 THEN (bs[1] - 192) * 64 + (bs[2] - 128)
                  ELSE IF n = 3 THEN (bs[1] - 224) * 4096 + (bs[2] - 128) * 64 + (bs[3] - 128)
                  ELSE (bs[1] - 240) * 262144 + (bs[2] - 128) * 4096 + (bs[3] - 128) * 64 + (bs[4] - 128)
         IN <<c>> \o Utf8Dec(SubSeq(bs, n + 1, Len(bs)))
KeyBytes(ver, vvm, preamble, kwds, sources) == Encode(Key(ver, vvm, preamble, kwds, sources))
=============================================================================
