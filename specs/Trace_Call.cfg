SPECIFICATION TSpec
CONSTANTS Base = 256
CHECK_DEADLOCK FALSE
