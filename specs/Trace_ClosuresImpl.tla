------------------------------ MODULE Trace_ClosuresImpl ------------------------------
(* Runs the allocator of the implementation model Closures (the operators MoreCore / AllocOp /
   FreeOp, at the real page and closure sizes given by the configuration) over the operation
   sequence of a recorded session and prints, per session, the address (chunk * Gap + offset) the
   model predicts for every successful ffi.callback(); the replayer checks that the real addresses
   are these up to one page-aligned base per chunk.  The session is folded in one evaluation (a
   session with tens of thousands of callbacks alive is too large to step state by state).
   Events:  create / createfail / drop(j)  where j is the number of the create whose closure is freed. *)
EXTENDS Closures, SequencesExt, Json, IOUtils
VARIABLES k, reported
Traces == JsonDeserialize(IOEnv.TRACE_FILE)
tvars == <<vars, k, reported>>
TInit == Init /\ k \in 1..Len(Traces) /\ reported = FALSE

A0 == [fl |-> <<>>, npages |-> 0, nblocks |-> 0, maps |-> <<>>]
Step(S, e) ==
    CASE e.ev = "create"     -> LET r == AllocOp(S.A) IN [A |-> r.st, pred |-> Append(S.pred, r.item)]
      [] e.ev = "createfail" -> LET r == AllocOp(S.A) IN [S EXCEPT !.A = FreeOp(r.st, r.item)]
      [] e.ev = "drop"       -> [S EXCEPT !.A = FreeOp(S.A, S.pred[e.j])]
      [] OTHER               -> S
Predict(tr) == FoldLeft(Step, [A |-> A0, pred |-> <<>>], tr)
\* every predicted block lies inside the bytes mapped for its chunk
Inside(S) == \A i \in DOMAIN S.pred :
               LET a == S.pred[i] b == a \div Gap IN a - Base(b) + SlotSize <= S.A.maps[b]

Report == /\ ~reported
          /\ LET S == Predict(Traces[k]) IN
               PrintT("SLOTS " \o ToString(k) \o " " \o (IF Inside(S) THEN "in" ELSE "OUT") \o " " \o ToString(S.pred))
          /\ reported' = TRUE /\ UNCHANGED <<vars, k>>
TSpec == TInit /\ [][Report]_tvars
=============================================================================
