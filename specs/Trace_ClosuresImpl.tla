------------------------------ MODULE Trace_ClosuresImpl ------------------------------
(* Runs the implementation model Closures (at the real page and closure sizes given by the
   configuration) over the operation sequence of a recorded session and prints, per session, the
   address (block * Gap + offset) the model predicts for every successful ffi.callback(); the
   replayer checks that the real addresses are these up to one page-aligned base per block. *)
EXTENDS Closures, Json, IOUtils
VARIABLES k, i, pred, reported
Traces == JsonDeserialize(IOEnv.TRACE_FILE)
tvars == <<vars, k, i, pred, reported>>

TInit == Init /\ k \in 1..Len(Traces) /\ i = 1 /\ pred = <<>> /\ reported = FALSE

Act(e) == CASE e.ev = "create"     -> Create(e.c, e.s)
            [] e.ev = "createfail" -> CreateFail("cif")
            [] e.ev = "drop"       -> Drop(e.c)
            [] OTHER -> FALSE

Consume == /\ i <= Len(Traces[k])
           /\ LET e == Traces[k][i] IN
                /\ Act(e)
                /\ pred' = IF e.ev = "create" THEN Append(pred, last'.a) ELSE pred
           /\ i' = i + 1 /\ UNCHANGED <<k, reported>>

Report == /\ i > Len(Traces[k]) /\ ~reported
          /\ PrintT("SLOTS " \o ToString(k) \o " " \o ToString(pred))
          /\ reported' = TRUE /\ UNCHANGED <<vars, k, i, pred>>

TNext == Consume \/ Report
TSpec == TInit /\ [][TNext]_tvars
=============================================================================
