---------------------------- MODULE Trace_Embedding ----------------------------
(* Validates event traces recorded from the real _embedding.h (scheduling harness
   harness/embed, and the end-to-end run of a real embedded library) against the property
   machine EmbeddingIdeal.  One JSON file holds many traces; every trace gets a total
   verdict: "ok", the name of the event whose guard (= clause of C28) failed together with
   its position, or "unfinished" (a call never returned).
   Event: [ev |-> "callbegin" | "pyinit" | "initstart" | "initend" | "initabort" | "body" |
           "callend", t |-> thread, l |-> library, r |-> "ok"/"fail" or "ran"/"zero"/"other"] *)
EXTENDS EmbeddingIdeal, Json, IOUtils, TLC
VARIABLES k, i, bad, reported
Traces == JsonDeserialize(IOEnv.TRACE_FILE)
tvars == <<py, init, ninit, initer, frames, last, k, i, bad, reported>>

TInit == /\ py = 0
         /\ init = [l \in Libs |-> "none"]
         /\ ninit = [l \in Libs |-> 0]
         /\ initer = [l \in Libs |-> 0]
         /\ frames = [t \in Threads |-> <<>>]
         /\ last = [t \in Threads |-> "none"]
         /\ k \in 1..Len(Traces) /\ i = 1 /\ bad = "" /\ reported = FALSE

Guard(e) == CASE e.ev = "callbegin" -> CallBeginG(e.t, e.l)
              [] e.ev = "pyinit"    -> PyInitG(e.t)
              [] e.ev = "initstart" -> InitStartG(e.t, e.l)
              [] e.ev = "initend"   -> InitEndG(e.t, e.l, e.r = "ok")
              [] e.ev = "initabort" -> InitAbortG(e.t, e.l)
              [] e.ev = "body"      -> BodyG(e.t, e.l)
              [] e.ev = "callend"   -> CallEndG(e.t, e.l, e.r)
              [] OTHER -> FALSE
Effect(e) == CASE e.ev = "callbegin" -> CallBeginE(e.t, e.l)
               [] e.ev = "pyinit"    -> PyInitE(e.t)
               [] e.ev = "initstart" -> InitStartE(e.t, e.l)
               [] e.ev = "initend"   -> InitEndE(e.t, e.l, e.r = "ok")
               [] e.ev = "initabort" -> InitAbortE(e.t, e.l)
               [] e.ev = "body"      -> BodyE(e.t, e.l)
               [] e.ev = "callend"   -> CallEndE(e.t, e.l, e.r)

Consume == /\ i <= Len(Traces[k]) /\ bad = ""
           /\ LET e == Traces[k][i] IN
                IF Guard(e) THEN Effect(e) /\ i' = i + 1 /\ UNCHANGED bad
                ELSE bad' = e.ev /\ UNCHANGED <<py, init, ninit, initer, frames, last, i>>
           /\ UNCHANGED <<k, reported>>

AllReturned == \A t \in Threads : frames[t] = <<>>
Report == /\ (i > Len(Traces[k]) \/ bad # "") /\ ~reported
          /\ PrintT(<<"VERDICT", k, IF bad # "" THEN bad ELSE IF AllReturned THEN "ok" ELSE "unfinished", i>>)
          /\ reported' = TRUE /\ UNCHANGED <<py, init, ninit, initer, frames, last, k, i, bad>>

TNext == Consume \/ Report
TSpec == TInit /\ [][TNext]_tvars
=============================================================================
