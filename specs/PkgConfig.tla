------------------------------ MODULE PkgConfig ------------------------------
(* C35 -- pkg-config output is translated to build keywords without loss.

   Characters are code points, a token is a sequence of them, an output is the text
   pkg-config printed.  A package is [cf |-> output of --cflags, lb |-> output of --libs,
   fail |-> "none" | "cflags" | "libs", how |-> "status" | "signal" | "undecodable" | "missing"]:
   fail names the call that does not succeed and how says why: it exits with a non-zero status,
   it is terminated by a signal (after printing cf / lb, possibly a partial line), it prints
   bytes that cannot be decoded, or pkg-config cannot be run at all.  Ideal: any call that
   does not exit with status 0 (or cannot be decoded / run) => PkgConfigError, nothing returned.

   Ideal: Translate / MergeAll below.  Implementation model: the six list comprehensions
   of flags_from_pkgconfig (src/cffi/pkgconfig.py:86-108), kwargs() (:111) and the
   merge_flags loop (:7, :125).

   Cross tokens (-L/-l in --cflags output, -I/-D in --libs output) can be read both ways in
   the property text; for them only conservation is demanded (the token must appear exactly
   once, in its prefix's keyword or in the stream's "other" keyword).

   Variant selects broken translators TLC must reject:
     "rsplit"     -DX=a=b split at the last '='
     "dupD"       -D tokens also copied to extra_compile_args
     "overwrite"  merge replaces instead of extending
     "dropempty"  tokens that are only a prefix ("-I") dropped
     "signalok"   returncode > 0 instead of returncode != 0 (death by signal accepted)  *)
EXTENDS Integers, Sequences, FiniteSets, TLC
CONSTANTS Variant

cDash == 45  cI == 73  cL == 76  cl == 108  cD == 68  cEq == 61
WS == {32, 9, 10, 13, 11, 12}                      \* ASCII white space
KEYS == <<"include_dirs", "library_dirs", "libraries", "define_macros", "extra_compile_args", "extra_link_args">>
KeySet == {KEYS[i] : i \in DOMAIN KEYS}
Empty == [k \in KeySet |-> <<>>]

\* ---------------------------------------------------------------- tokens
\* str.split(): the maximal runs of non-white-space characters, in order (written without
\* recursion: outputs are hundreds of characters long)
Split(s) ==
    LET n == Len(s)
        IsTok(i) == s[i] \notin WS
        starts == {i \in 1..n : IsTok(i) /\ (i = 1 \/ ~IsTok(i - 1))}
        ends == {i \in 1..n : IsTok(i) /\ (i = n \/ ~IsTok(i + 1))}
        Kth(S, k) == CHOOSE i \in S : Cardinality({j \in S : j < i}) = k - 1
    IN [k \in 1..Cardinality(starts) |-> SubSeq(s, Kth(starts, k), Kth(ends, k))]
\* a package with its two outputs tokenised once
Tok(pkgs) == [i \in DOMAIN pkgs |-> [cf |-> Split(pkgs[i].cf), lb |-> Split(pkgs[i].lb), fail |-> pkgs[i].fail,
                                     how |-> pkgs[i].how]]
Starts(tok, c) == Len(tok) >= 2 /\ tok[1] = cDash /\ tok[2] = c       \* x.startswith("-I")
Drop2(tok) == SubSeq(tok, 3, Len(tok))                                  \* x[2:]
Pfx(tok) == IF Starts(tok, cI) THEN "I" ELSE IF Starts(tok, cL) THEN "L" ELSE IF Starts(tok, cl) THEN "l"
            ELSE IF Starts(tok, cD) THEN "D" ELSE "o"
\* a macro is [name, has, val]: ("name", "val") or ("name", None)
MacroAt(x, k) == [name |-> SubSeq(x, 1, k - 1), has |-> TRUE, val |-> SubSeq(x, k + 1, Len(x))]
Macro(x) == LET E == {k \in 1..Len(x) : x[k] = cEq} IN                 \* split at the FIRST '='
            IF E = {} THEN [name |-> x, has |-> FALSE, val |-> <<>>]
            ELSE MacroAt(x, CHOOSE k \in E : \A j \in E : k <= j)
\* the sub-sequence of toks whose prefix class is in P, each converted by conv
Sel(toks, P) == SelectSeq(toks, LAMBDA t : Pfx(t) \in P)
Map(s, Op(_)) == [i \in DOMAIN s |-> Op(s[i])]

\* ---------------------------------------------------------------- ideal
Cross(stream, tok) == IF stream = "cflags" THEN Pfx(tok) \in {"L", "l"} ELSE Pfx(tok) \in {"I", "D"}
HasCross(cf, lb) == (\E i \in DOMAIN cf : Cross("cflags", cf[i])) \/ (\E i \in DOMAIN lb : Cross("libs", lb[i]))
\* translation of the two token streams of one package (cross tokens -> the stream's "other" keyword)
Translate(cf, lb) ==
    [k \in KeySet |->
        CASE k = "include_dirs"       -> Map(Sel(cf, {"I"}), Drop2)
          [] k = "define_macros"      -> Map(Sel(cf, {"D"}), LAMBDA t : Macro(Drop2(t)))
          [] k = "extra_compile_args" -> Sel(cf, {"L", "l", "o"})
          [] k = "library_dirs"       -> Map(Sel(lb, {"L"}), Drop2)
          [] k = "libraries"          -> Map(Sel(lb, {"l"}), Drop2)
          [] k = "extra_link_args"    -> Sel(lb, {"I", "D", "o"})]
Merge(a, b) == [k \in KeySet |-> a[k] \o b[k]]                          \* per-key concatenation, call order
RECURSIVE MergeAll(_)
MergeAll(rs) == IF rs = <<>> THEN Empty ELSE Merge(Head(rs), MergeAll(Tail(rs)))
Fails(pkgs) == \E i \in DOMAIN pkgs : pkgs[i].fail # "none"
IdealT(tp) == IF Fails(tp) THEN [err |-> TRUE, res |-> Empty]
              ELSE [err |-> FALSE, res |-> MergeAll([i \in DOMAIN tp |-> Translate(tp[i].cf, tp[i].lb)])]
Ideal(pkgs) == IdealT(Tok(pkgs))

\* conservation: every token appears exactly once, in a keyword allowed for it
Conv(k, tok) == CASE k \in {"include_dirs", "library_dirs", "libraries"} -> Drop2(tok)
                  [] k = "define_macros" -> Macro(Drop2(tok))
                  [] OTHER -> tok
Allowed(stream, tok) ==
    LET other == IF stream = "cflags" THEN "extra_compile_args" ELSE "extra_link_args"
        p == Pfx(tok)
        own == CASE p = "I" -> "include_dirs" [] p = "L" -> "library_dirs" [] p = "l" -> "libraries"
                 [] p = "D" -> "define_macros" [] OTHER -> other
    IN IF Cross(stream, tok) THEN {own, other} ELSE {own}
InSeq(x, s) == \E i \in DOMAIN s : s[i] = x
Conserved(toks, res) ==
    LET pkgs == toks
        RECURSIVE Sum(_)
        Sum(i) == IF i = 0 THEN 0 ELSE Sum(i - 1) + Len(toks[i].cf) + Len(toks[i].lb)
        RECURSIVE SumK(_)
        SumK(i) == IF i = 0 THEN 0 ELSE SumK(i - 1) + Len(res[KEYS[i]])
    IN /\ Sum(Len(pkgs)) = SumK(Len(KEYS))
       /\ \A i \in DOMAIN pkgs :
            /\ \A j \in DOMAIN toks[i].cf : \E k \in Allowed("cflags", toks[i].cf[j]) : InSeq(Conv(k, toks[i].cf[j]), res[k])
            /\ \A j \in DOMAIN toks[i].lb : \E k \in Allowed("libs", toks[i].lb[j]) : InSeq(Conv(k, toks[i].lb[j]), res[k])

\* total verdict on an observed outcome (err: PkgConfigError raised; res: returned dict, all six keys)
VerdictT(tp, err, res) ==
    LET id == IdealT(tp)
        cross == \E i \in DOMAIN tp : HasCross(tp[i].cf, tp[i].lb)
    IN IF id.err THEN (IF err THEN "ok" ELSE "error-expected")
       ELSE IF err THEN "spurious-error"
       ELSE IF ~Conserved(tp, res) THEN "lost-or-duplicated"
       ELSE IF ~cross /\ res # id.res THEN "wrong-keyword-or-order"
       ELSE "ok"
Verdict(pkgs, err, res) == VerdictT(Tok(pkgs), err, res)

\* ---------------------------------------------------------------- implementation model
MacroImpl(x) == LET E == {k \in 1..Len(x) : x[k] = cEq} IN             \* :97-102  x.split("=", 1)
                IF E = {} THEN [name |-> x, has |-> FALSE, val |-> <<>>]
                ELSE IF Variant = "rsplit" THEN MacroAt(x, CHOOSE k \in E : \A j \in E : k >= j)
                ELSE MacroAt(x, CHOOSE k \in E : \A j \in E : k <= j)
NonEmpty(s) == IF Variant = "dropempty" THEN SelectSeq(s, LAMBDA t : Len(t) > 2) ELSE s
Kwargs(cfs, lbs) ==                                                     \* :111-121, strings already split
    LET cf == NonEmpty(cfs)   lb == NonEmpty(lbs) IN
    [k \in KeySet |->
        CASE k = "include_dirs"       -> Map(SelectSeq(cf, LAMBDA t : Starts(t, cI)), Drop2)              \* :87
          [] k = "library_dirs"       -> Map(SelectSeq(lb, LAMBDA t : Starts(t, cL)), Drop2)              \* :90
          [] k = "libraries"          -> Map(SelectSeq(lb, LAMBDA t : Starts(t, cl)), Drop2)              \* :93
          [] k = "define_macros"      -> Map(SelectSeq(cf, LAMBDA t : Starts(t, cD)), LAMBDA t : MacroImpl(Drop2(t)))   \* :96
          [] k = "extra_compile_args" -> SelectSeq(cf, LAMBDA t : ~Starts(t, cI) /\ (Variant = "dupD" \/ ~Starts(t, cD)))  \* :104
          [] k = "extra_link_args"    -> SelectSeq(lb, LAMBDA t : ~Starts(t, cL) /\ ~Starts(t, cl))]      \* :108
\* merge_flags(cfg1, cfg2) (:7): keys missing in cfg1 are taken over, the others extended
MergeFlags(c1, c2) ==
    [k \in (DOMAIN c1) \cup (DOMAIN c2) |->
        IF k \notin DOMAIN c1 THEN c2[k]
        ELSE IF k \notin DOMAIN c2 THEN c1[k]
        ELSE IF Variant = "overwrite" THEN c2[k] ELSE c1[k] \o c2[k]]
\* call() (:27-47): subprocess return code > 0 for an exit status, < 0 for death by a signal
ReturnCode(how) == IF how = "status" THEN 1 ELSE IF how = "signal" THEN 0 - 9 ELSE 0
CallRaises(how) == \/ how = "missing"                                           \* :33 OSError from Popen
                   \/ (IF Variant = "signalok" THEN ReturnCode(how) > 0 ELSE ReturnCode(how) # 0)   \* :38
                   \/ how = "undecodable"                                        \* :46 UnicodeDecodeError
RECURSIVE Loop(_, _)
Loop(pkgs, ret) ==                                                      \* :124-127
    IF pkgs = <<>> THEN [err |-> FALSE, res |-> ret]
    ELSE LET p == Head(pkgs) IN
         IF p.fail # "none" /\ CallRaises(p.how) THEN [err |-> TRUE, res |-> Empty]   \* call() raises PkgConfigError
         ELSE Loop(Tail(pkgs), MergeFlags(ret, Kwargs(p.cf, p.lb)))          \* pkgs already tokenised (Tok)
ImplT(tp) == LET r == Loop(tp, << >>) IN
              IF r.err THEN r ELSE [err |-> FALSE, res |-> [k \in KeySet |-> IF k \in DOMAIN r.res THEN r.res[k] ELSE <<>>]]
Impl(pkgs) == ImplT(Tok(pkgs))
=============================================================================
