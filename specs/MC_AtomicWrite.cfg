SPECIFICATION Spec
CONSTANTS Olds = {"absent", "same", "diff"}
  MaxChunks = 3
  StaleTmp = {TRUE, FALSE}
  RenameFails = FALSE
  Procs = {1}
  Variant = "faithful"
INVARIANT InvAtomic
INVARIANT InvUntouched
INVARIANT InvReturn
INVARIANT InvDoneNew
PROPERTY Finishes
CHECK_DEADLOCK FALSE
