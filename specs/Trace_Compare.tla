------------------------------ MODULE Trace_Compare ------------------------------
(* C17, code -> spec.  A record = one pair of objects and everything observed about it:
     a, b      comparands [id, cd, ptr, v] (CompareIdeal)   same = a is b
     res       the six outcomes of a == b, !=, <, <=, >, >=  ("T", "F" or exception class)
     ha, hb    hash(a), hash(b) as <<sign, limb3..limb0>> (sign 2 = hash raised)
     hva, hvb  hash of the plain Python value the side stands for (= ha/hb for non-primitive sides)
     pyres     Python's own six outcomes on the two plain values (<<>> unless both sides are values)
     inset     b in {a}
   First Python itself is validated against the specification's model of Python (SPECBUG),
   then cffi's answers against the clauses (VERDICT) and the implementation model (DIVERGE). *)
EXTENDS Compare, Json, IOUtils, TLC
VARIABLES i
Recs == JsonDeserialize(IOEnv.TRACE_FILE)
Sel(cnd, name) == IF cnd THEN <<>> ELSE <<name>>

SpecBug(r) == r.pyres # <<>> /\ \E j \in 1..6 : r.pyres[j] # PyCompare(r.a.v, r.b.v, Ops[j])

Verdict(r) ==
  Sel(\A j \in 1..6 : CompareG(r.a, r.b, Ops[j], r.res[j]), IF BothPtr(r.a, r.b) THEN "cmp.address" ELSE "cmp.value")
  \o Sel(HashLawG(r.a, r.b, r.res[1], r.ha, r.hb), "hash.law")
  \o Sel(HashValG(r.a, r.ha, r.hva) /\ HashValG(r.b, r.hb, r.hvb), "hash.value")
  \o Sel((r.a.cd \/ r.b.cd) /\ (r.same \/ r.res[1] \in {"T", "F"}) /\ r.ha[1] # 2 /\ r.hb[1] # 2
           /\ ~HasNaN(r.a.v) /\ ~HasNaN(r.b.v)          \* a NaN is re-hashed by identity of a temporary
           => (r.inset = B(r.same \/ (r.res[1] = "T" /\ r.ha = r.hb))), "set.member")

Diverge(r) == \E j \in 1..6 : r.res[j] # ImplCompare(r.a, r.b, Ops[j])

TInit == i = 0 /\ a = 0 /\ b = 0 /\ c = 0
TNext == /\ UNCHANGED <<a, b, c>>
         /\ \/ /\ i < Len(Recs) /\ i' = i + 1
               /\ LET r == Recs[i + 1] IN
                    IF SpecBug(r) THEN PrintT(<<"SPECBUG", i + 1>>)
                    ELSE LET v == Verdict(r) IN
                         /\ (v # <<>> => PrintT(<<"VERDICT", i + 1, v>>))
                         /\ (Diverge(r) => PrintT(<<"DIVERGE", i + 1, "outcome">>))
            \/ /\ i = Len(Recs) /\ i' = i + 1 /\ PrintT(<<"CHECKED", i>>)
TSpec == TInit /\ [][TNext]_<<i, a, b, c>>
=============================================================================
