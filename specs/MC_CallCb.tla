----------------------------- MODULE MC_CallCb -----------------------------
(* Exhaustive configuration of CallCb: every result type class x {callback, extern "Python"}
   x Python body {raises, returns a boundary value, returns an out-of-range value, returns a
   value of the wrong type} x error= {absent, given} x onerror {absent, returns None, returns a
   convertible value, returns an unconvertible value, raises, returns a short list / dict
   initializer (struct results)}.  Base = 4.
   Each configuration is also printed (<<"CB", ...>>): the replayer executes every one of them
   on real callbacks with real C callers. *)
EXTENDS CallCb
RECURSIVE Pow(_, _)
Pow(b, e) == IF e = 0 THEN 1 ELSE b * Pow(b, e - 1)
MaxOf(t) == IF t.signed THEN Pow(Base, t.size) \div 2 - 1 ELSE Pow(Base, t.size) - 1
MinOf(t) == IF t.signed THEN 0 - (Pow(Base, t.size) \div 2) ELSE 0
PI(n) == [k |-> "int", neg |-> FromInt(n).neg, mag |-> FromInt(n).mag,
          fl |-> <<[d |-> <<2, 0, 0, 0, 0, 0, 0, 1>>, f |-> <<2, 0, 0, 1>>, fd |-> <<2, 0, 0, 0, 0, 0, 0, 1>>]>>, flovf |-> FALSE]
PFl(x) == [k |-> "float", d |-> <<x, 1, 0, 0, 0, 0, 0, 1>>, f |-> <<x, 1, 0, 1>>, fd |-> <<x, 1, 0, 0, 0, 0, 0, 1>>]
PNone == [k |-> "none"]
PBytes(d) == [k |-> "bytes", data |-> d]
PList(xs) == [k |-> "list", items |-> xs]
CPtr(t, cell) == [k |-> "cptr", ct |-> t, cell |-> cell]

IntNames == {"i8", "u8", "i16", "u16", "i32", "u32", "i64", "u64"}
Ty(n) == CASE n = "i8" -> IntT(1, TRUE) [] n = "u8" -> IntT(1, FALSE)
           [] n = "i16" -> IntT(2, TRUE) [] n = "u16" -> IntT(2, FALSE)
           [] n = "i32" -> IntT(4, TRUE) [] n = "u32" -> IntT(4, FALSE)
           [] n = "i64" -> IntT(8, TRUE) [] n = "u64" -> IntT(8, FALSE)
           [] n = "bool" -> BoolT [] n = "char" -> CharT [] n = "f32" -> FloatT(4) [] n = "f64" -> FloatT(8)
           [] n = "void" -> VoidT [] n = "p_i32" -> PtrT(I32)
           [] n = "cf" -> [k |-> "complex", size |-> 8] [] n = "cd" -> [k |-> "complex", size |-> 16]
           [] n = "ld" -> [k |-> "ldouble"]
           [] n = "sA" -> [k |-> "struct", tag |-> "sA", fields |-> <<IntT(1, TRUE), I32>>]
           [] n = "sB" -> [k |-> "struct", tag |-> "sB", fields |-> <<I64, I64, I64>>]
           [] n = "sE" -> [k |-> "struct", tag |-> "sE", fields |-> <<IntT(2, TRUE), IntT(1, FALSE)>>]
RtNames == IntNames \cup {"bool", "char", "f32", "f64", "void", "p_i32", "sA", "sB", "sE", "cf", "cd", "ld"}
PCx(x, y) == [k |-> "pycomplex", re |-> [d |-> PFl(x).d, f |-> PFl(x).f, fd |-> PFl(x).fd],
              im |-> [d |-> PFl(y).d, f |-> PFl(y).f, fd |-> PFl(y).fd]]

\* value classes of what a Python function (body / onerror) may return for result type n
Val(n, cls) ==
    LET t == Ty(n) IN
    CASE cls = "none" -> PNone
      [] cls = "short" -> PList(IF n = "sA" THEN <<PI(1)>> ELSE IF n = "sB" THEN <<PI(1), PI(0 - 2)>> ELSE <<PI(2)>>)
      [] cls = "dshort" -> IF n \in {"sA", "sB", "sE"}
                           THEN [k |-> "dict", keys |-> <<Len(Ty(n).fields)>>, items |-> <<PI(1)>>] ELSE PNone
      [] n \in IntNames ->
           (CASE cls = "ok" -> PI(MaxOf(t)) [] cls = "ok2" -> PI(MinOf(t)) [] cls = "err" -> PI(IF t.signed THEN 0 - 2 ELSE 2)
              [] cls = "ovf" -> PI(MaxOf(t) + 1) [] cls = "badtype" -> PFl(1))
      [] n = "bool" -> (CASE cls \in {"ok", "err"} -> PI(1) [] cls = "ok2" -> PI(0) [] cls = "ovf" -> PI(2) [] cls = "badtype" -> PFl(1))
      [] n = "char" -> (CASE cls = "ok" -> PBytes(<<Base - 1>>) [] cls = "ok2" -> PBytes(<<0>>) [] cls = "err" -> PBytes(<<2>>)
                          [] cls = "ovf" -> PBytes(<<1, 1>>) [] cls = "badtype" -> PI(1))
      [] n \in {"f32", "f64"} -> (CASE cls = "ok" -> PFl(3) [] cls = "ok2" -> PI(7) [] cls = "err" -> PFl(2)
                                    [] cls = "ovf" -> [PI(5) EXCEPT !.flovf = TRUE, !.fl = <<>>] [] cls = "badtype" -> PBytes(<<1>>))
      [] n \in {"cf", "cd"} -> (CASE cls = "ok" -> PCx(3, 2) [] cls = "ok2" -> PFl(3) [] cls = "err" -> PCx(1, 3)
                                  [] cls \in {"ovf", "badtype"} -> PBytes(<<1>>))
      [] n = "ld" -> (CASE cls = "ok" -> PFl(3) [] cls = "ok2" -> PI(7) [] cls = "err" -> PFl(2)
                        [] cls = "ovf" -> [PI(5) EXCEPT !.flovf = TRUE, !.fl = <<>>] [] cls = "badtype" -> PBytes(<<1>>))
      [] n = "void" -> (CASE cls \in {"ok", "ok2", "err"} -> PNone [] cls \in {"ovf", "badtype"} -> PI(0))
      [] n = "p_i32" -> (CASE cls \in {"ok", "err"} -> CPtr(PtrT(I32), 1) [] cls = "ok2" -> CPtr(PtrT(VoidT), 0)
                           [] cls = "ovf" -> CPtr(PtrT(IntT(2, TRUE)), 1) [] cls = "badtype" -> PI(0))
      [] n = "sA" -> (CASE cls = "ok" -> PList(<<PI(0 - 2), PI(MaxOf(I32))>>) [] cls = "ok2" -> PList(<<PI(1), PI(MinOf(I32))>>)
                        [] cls = "err" -> PList(<<PI(1), PI(0 - 3)>>)
                        [] cls = "ovf" -> PList(<<PI(1), PI(MaxOf(I32) + 1)>>) [] cls = "badtype" -> PI(0))
      [] n = "sB" -> (CASE cls = "ok" -> PList(<<PI(MinOf(I64)), PI(5), PI(MaxOf(I64))>>) [] cls = "ok2" -> PList(<<PI(0), PI(0 - 1), PI(1)>>)
                        [] cls = "err" -> PList(<<PI(1), PI(2), PI(3)>>)
                        [] cls = "ovf" -> PList(<<PI(1), PI(2), PI(3), PI(4)>>) [] cls = "badtype" -> PList(<<PI(1), PNone>>))
      [] n = "sE" -> (CASE cls = "ok" -> PList(<<PI(0 - 1), PI(3)>>) [] cls = "ok2" -> PList(<<PI(2), PI(0)>>)
                        [] cls = "err" -> PList(<<PI(2), PI(2)>>)
                        [] cls = "ovf" -> PList(<<PI(1), PI(0 - 1)>>) [] cls = "badtype" -> PNone)
BodyClasses == {"raise", "ok", "ok2", "ovf", "badtype", "none", "short", "dshort"}
StructRts == {"sA", "sB", "sE"}
\* "short" / "dshort": onerror returns a short list / dict initializer (struct results only).  With
\* error= given, Val(n, "err") is non-zero in every field, so "the fields onerror's value does not
\* name are zero" is distinguishable from "they keep the error value's bytes".
OnerrClasses == {"absent", "none", "raise", "ok", "ovf", "short", "dshort"}
OnerrValues == {"ok", "ovf", "short", "dshort"}
AllCfgs == {[mode |-> m, rtn |-> n, rt |-> Ty(n), bcls |-> b, ocls |-> o,
            body |-> IF b = "raise" THEN "raise" ELSE "ret",
            retv |-> IF b = "raise" THEN PNone ELSE Val(n, b),
            haserr |-> h, errv |-> Val(n, "err"),
            onerr |-> IF o \in OnerrValues THEN "value" ELSE o,
            onv |-> IF o \in OnerrValues THEN Val(n, o) ELSE PNone] :
              m \in {"callback", "extern"}, n \in RtNames, b \in BodyClasses,
              h \in BOOLEAN, o \in OnerrClasses}
\* (a short list / dict initializer exists only for struct results)
\* (libffi has no complex types: ffi.callback() refuses them; extern "Python" supports them)
MCCfgs == {c \in AllCfgs : /\ ~(c.rtn = "void" /\ c.haserr) /\ (c.bcls \in {"short", "dshort"} => c.rtn \in StructRts)
                           /\ (c.ocls \in {"short", "dshort"} => c.rtn \in StructRts)
                           /\ ~(c.mode = "callback" /\ c.rtn \in {"cf", "cd"})}
\* a slice of the product, enough to reject the broken variants quickly
SmallCfgs == {c \in MCCfgs : c.rtn \in {"i8", "u16", "sA"}}

\* ---- the argument slots of extern "Python" (Call.tla section 8), every signature of <= 3 parameters
SlotTs == {IntT(1, TRUE), I32, I64, FloatT(4), FloatT(8), [k |-> "complex", size |-> 8],
           [k |-> "complex", size |-> 16], [k |-> "ldouble"], [k |-> "struct", tag |-> "s", fields |-> <<I64, I64>>]}
SlotSigs == UNION {[1..n -> SlotTs] : n \in 0..3}
DC == [k |-> "complex", size |-> 16]
HasDC(ts) == \E i \in 1..Len(ts) : ts[i] = DC
DCNotLast(ts) == \E i \in 1..(Len(ts) - 1) : ts[i] = DC
\* what the code does is right for every signature without a double _Complex parameter ...
ASSUME \A ts \in SlotSigs : ~HasDC(ts) => (SlotsExact(ts, "impl") /\ SlotsInBounds(ts, "impl"))
\* ... passing everything wider than a slot by reference would be right for all ...
ASSUME \A ts \in SlotSigs : SlotsExact(ts, "wide") /\ SlotsInBounds(ts, "wide")
\* ... and the OPEN FINDING, reproduced by the model: a 16-byte double _Complex is stored by value
\* into its 8-byte slot; the next argument's store overwrites its imaginary part, and as the
\* last argument it is written 8 bytes beyond `char a[]`
ASSUME \A ts \in SlotSigs : DCNotLast(ts) => ~SlotsExact(ts, "impl")
ASSUME \A ts \in SlotSigs : (Len(ts) > 0 /\ ts[Len(ts)] = DC) => ~SlotsInBounds(ts, "impl")

\* expected classification of the case at this scale, for the replayer's cross-check
Kind(c) == IF c.body = "ret" /\ ConvRes(c.rt, c.retv).ok THEN "result"
           ELSE IF c.onerr = "value" THEN (IF ConvRes(c.rt, c.onv).ok THEN "onerror" ELSE "unspecified")
           ELSE IF c.haserr THEN "error" ELSE "zero"
MCInit == Init /\ PrintT(<<"CB", cf.mode, cf.rtn, cf.bcls, cf.haserr, cf.ocls, Kind(cf)>>)
MCSpec == MCInit /\ [][Next]_vars
=============================================================================
