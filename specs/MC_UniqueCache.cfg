SPECIFICATION Spec
CONSTANTS Addrs = {1,2,3}
  MaxSer = 3
  Mode = "c"
  Variant = "faithful"
  GcAtomic = FALSE
  Prims = {0,1}
  MinAddr = FALSE
VIEW View
PROPERTY RefinesIdeal
INVARIANT LiveAgree
INVARIANT NoStaleEntry
INVARIANT CompsAlive
CHECK_DEADLOCK FALSE
