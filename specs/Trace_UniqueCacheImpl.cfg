SPECIFICATION TSpec
CONSTANTS Addrs = {1,2,3,4,5,6,7,8}
  MaxSer = 1000
  Mode = "c"
  Variant = "faithful"
  GcAtomic = TRUE
  MinAddr = TRUE
CHECK_DEADLOCK FALSE
