SPECIFICATION TSpec
CONSTANTS Addrs = {1,2,3,4,5,6,7,8}
  MaxSer = 1000
  Mode = "c"
  Variant = "faithful"
  GcAtomic = TRUE
  Prims = {0,1}
  MinAddr = TRUE
CHECK_DEADLOCK FALSE
