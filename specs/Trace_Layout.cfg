SPECIFICATION TSpec
CONSTANT Variant = "faithful"
CHECK_DEADLOCK FALSE
