SPECIFICATION Spec
CONSTANTS LL = 5
  Variant = "fixed"
INVARIANT StoreRefines
INVARIANT ToCRefines
INVARIANT CastRefines
INVARIANT BfWriteRefines
INVARIANT BfReadRefines
INVARIANT BfRoundTrip
INVARIANT BfIsolation
INVARIANT CastPtrRoundTrip
CHECK_DEADLOCK FALSE
