------------------------------ MODULE NewInit ------------------------------
(* C20 - implementation model: direct_newp (_cffi_backend.c:3833), the optvarsize pre-pass
   of convert_struct_from_object (:1574) / convert_vfield_from_object (:1414) /
   add_varsize_length (:1391), get_new_array_length (:1341), and the write pass
   convert_from_object (:1640) / convert_array_from_object (:1476) /
   convert_from_object_bitfield, as sequential mutations of a byte memory.
   A result is [mem, err, ovf]: err = "" or the exception class, ovf = a write went past the
   allocation.  `v' is the model variant: "faithful", or deliberately broken
   "nozero" | "noplus1" | "unionall" | "nodictprepass" | "noforce-when-size-known" |
   "pair-above-10000" (the unit counter takes U+10000 for a one-unit character).                       *)
EXTENDS NewInitIdeal

R0(mem) == [mem |-> mem, err |-> "", ovf |-> FALSE]
Fail(r, e) == IF r.err # "" THEN r ELSE [r EXCEPT !.err = e]
WriteBytes(r, off, b) ==
  IF r.err # "" THEN r
  ELSE [mem |-> [j \in 1..Len(r.mem) |-> IF j > off /\ j <= off + Len(b) THEN b[j - off] ELSE r.mem[j]],
        err |-> "", ovf |-> r.ovf \/ off + Len(b) > Len(r.mem)]

\* PyBytes_GET_SIZE / _my_PyUnicode_SizeAsChar16 (wchar_helper_3.h:101: the length plus one for every
\* character > 0xFFFF) / _my_PyUnicode_SizeAsChar32 (the length): how many units a bytes/str needs.
\* Used by the sizing pass (get_new_array_length) AND by the bound check of the write pass.
FirstPair(v) == IF v = "pair-above-10000" THEN 65537 ELSE 65536
SizeAsUnits(v, cps, w) ==
  IF w = 2 THEN Len(cps) + Cardinality({i \in 1..Len(cps) : cps[i] >= FirstPair(v)}) ELSE Len(cps)
\* _my_PyUnicode_AsChar16 (:124): one unit, or 0xD800 | (c >> 10), 0xDC00 | (c & 0x3FF) of c = ordinal - 0x10000;
\* it writes every character whatever the count above said.  Width 4: PyUnicode_AsUCS4; width 1: the bytes.
RECURSIVE AsUnits(_, _)
AsUnits(cps, w) ==
  IF cps = <<>> THEN <<>>
  ELSE LET c == Head(cps) IN
       (IF w = 2 /\ c > 65535 THEN <<55296 + ((c - 65536) \div 1024), 56320 + ((c - 65536) % 1024)>> ELSE <<c>>)
         \o AsUnits(Tail(cps), w)

\* get_new_array_length: -1 = TypeError
NewArrayLength(v, init) ==
  CASE init.k = "seq" -> Len(init.items)
    [] init.k = "str" -> IF v = "noplus1" THEN SizeAsUnits(v, init.b, init.n) ELSE SizeAsUnits(v, init.b, init.n) + 1
    [] init.k = "len" -> init.n
    [] OTHER -> 0 - 1

RECURSIVE WithVar(_)
WithVar(T) == T.k = "struct" /\ \E i \in 1..Len(T.fields) : IsOpen(T.fields[i].t) \/ WithVar(T.fields[i].t)

\* ---- bit-field store: read the storage unit, merge, write it back
RECURSIVE BitsToNat(_)
BitsToNat(b) == IF b = <<>> THEN 0 ELSE Head(b) + 2 * BitsToNat(Tail(b))
ByteBits(x) == [i \in 1..8 |-> (x \div (2 ^ (i - 1))) % 2]
RECURSIVE UnitBits(_)
UnitBits(bytes) == IF bytes = <<>> THEN <<>> ELSE ByteBits(Head(bytes)) \o UnitBits(Tail(bytes))
ConvertBitfield(r, f, off, val) ==
  IF r.err # "" THEN r
  ELSE IF val.k # "bits" THEN Fail(r, "TypeError")
  ELSE LET sz   == f.t.size
           cur  == UnitBits(SubSeq(r.mem, off + 1, off + sz))                 \* read_raw_unsigned_data
           new  == [i \in 1..(8 * sz) |-> IF i > f.sh /\ i <= f.sh + f.bs THEN val.b[i - f.sh] ELSE cur[i]]
           outb == [k \in 1..sz |-> BitsToNat(SubSeq(new, 8 * (k - 1) + 1, 8 * k))]
       IN WriteBytes(r, off, outb)                                            \* write_raw_integer_data

\* ---- the write pass
RECURSIVE ConvertFromObject(_, _, _, _, _), ConvertItems(_, _, _, _, _, _), ConvertFields(_, _, _, _, _, _),
          ConvertDict(_, _, _, _, _, _)
\* convert_vfield_from_object with optvarsize == NULL, then convert_field_from_object
ConvertVField(v, r, f, off, value) ==
  IF r.err # "" THEN r
  ELSE IF IsOpen(f.t) /\ NewArrayLength(v, value) < 0 THEN Fail(r, "TypeError")
  ELSE IF IsOpen(f.t) /\ value.k = "len" THEN r                               \* if (value == Py_None) return 0;
  ELSE IF f.bs >= 0 THEN ConvertBitfield(r, f, off + f.off, value)
  ELSE ConvertFromObject(v, r, f.t, off + f.off, value)

\* for (i = 0; i < n; i++) { convert_from_object(data, ctitem, items[i]); data += ctitem->ct_size; }
ConvertItems(v, r, T, off, items, i) ==
  IF i > Len(items) \/ r.err # "" THEN r
  ELSE ConvertItems(v, ConvertFromObject(v, r, T.item, off + (i - 1) * T.isz, items[i]), T, off, items, i + 1)

\* the list/tuple loop of convert_struct_from_object: cf walks the field list, skipping BF_IGNORE_IN_CTOR
RECURSIVE SkipIgnored(_, _)
SkipIgnored(T, j) == IF j > Len(T.fields) \/ T.fields[j].ctor THEN j ELSE SkipIgnored(T, j + 1)
NextCtor(v, T, j) == IF v = "unionall" THEN j ELSE SkipIgnored(T, j)
ConvertFields(v, r, T, off, items, st) ==          \* st = <<i, j>>: next item, next field
  IF st[1] > Len(items) \/ r.err # "" THEN r
  ELSE LET j == NextCtor(v, T, st[2]) IN
       IF j > Len(T.fields) THEN Fail(r, "ValueError")                        \* too many initializers
       ELSE ConvertFields(v, ConvertVField(v, r, T.fields[j], off, items[st[1]]), T, off, items, <<st[1] + 1, j + 1>>)

ConvertDict(v, r, T, off, items, i) ==
  IF i > Len(items) \/ r.err # "" THEN r
  ELSE IF ~HasField(T, items[i].name) THEN Fail(r, "KeyError")
  ELSE ConvertDict(v, ConvertVField(v, r, Field(T, items[i].name), off, items[i].v), T, off, items, i + 1)

ConvertArrayStr(v, r, T, off, init) ==
  LET n0 == SizeAsUnits(v, init.b, init.n) IN
  IF ~(T.item.k = "prim" /\ T.item.chr = 1 /\ T.item.size = init.n) THEN Fail(r, "TypeError")
  ELSE IF T.len >= 0 /\ n0 > T.len THEN Fail(r, "IndexError")
  ELSE LET n == IF n0 # T.len THEN n0 + 1 ELSE n0 IN
       IF init.n = 1 THEN WriteBytes(r, off, SubSeq(init.b \o <<0>>, 1, n))    \* memcpy(data, srcdata, n)
       ELSE \* wide: if (n != ct_length) memset(data + n * itemsize, 0, itemsize); then every character is written
            LET r1 == IF n0 # T.len THEN WriteBytes(r, off + n0 * init.n, Zeros(init.n)) ELSE r
            IN WriteBytes(r1, off, UnitBytes(AsUnits(init.b, init.n), init.n))

ConvertFromObject(v, r, T, off, init) ==
  IF r.err # "" THEN r
  ELSE CASE T.k = "arr" ->
              CASE init.k = "seq" -> IF T.len >= 0 /\ Len(init.items) > T.len THEN Fail(r, "IndexError")
                                     ELSE ConvertItems(v, r, T, off, init.items, 1)
                [] init.k = "str" -> ConvertArrayStr(v, r, T, off, init)
                [] init.k = "copy" -> WriteBytes(r, off, init.b)               \* memcpy(data, cd->c_data, n * itemsize)
                [] OTHER -> Fail(r, "TypeError")
         [] T.k = "prim" -> IF init.k = "leaf" THEN WriteBytes(r, off, init.b) ELSE Fail(r, "TypeError")
         [] T.k = "struct" ->
              CASE init.k = "copy" -> WriteBytes(r, off, init.b)               \* memcpy(data, c_data, ct_size)
                [] init.k = "seq"  -> ConvertFields(v, r, T, off, init.items, <<1, 1>>)
                [] init.k = "dict" -> ConvertDict(v, r, T, off, init.items, 1)
                [] OTHER -> Fail(r, "TypeError")

\* ---- the optvarsize pre-pass: [size, err]
RECURSIVE VarSize(_, _, _, _), VarSizeFields(_, _, _, _, _), VarSizeDict(_, _, _, _, _)
VFieldSize(v, f, value, acc) ==          \* convert_vfield_from_object with optvarsize != NULL
  IF acc.err # "" THEN acc
  ELSE IF IsOpen(f.t)
    THEN LET n == NewArrayLength(v, value) IN
         IF n < 0 THEN [acc EXCEPT !.err = "TypeError"]
         ELSE [acc EXCEPT !.size = Max2(acc.size, f.off + f.t.isz * n)]       \* add_varsize_length
  ELSE IF WithVar(f.t) /\ value.k # "copy"
    THEN LET sub == VarSize(v, f.t, value, [size |-> f.t.size, err |-> ""]) IN
         IF sub.err # "" THEN [acc EXCEPT !.err = sub.err]
         ELSE [acc EXCEPT !.size = Max2(acc.size, f.off + sub.size)]          \* add_varsize_length(off, 1, subsize)
  ELSE acc
VarSizeFields(v, T, items, st, acc) ==
  IF st[1] > Len(items) \/ acc.err # "" THEN acc
  ELSE LET j == NextCtor(v, T, st[2]) IN
       IF j > Len(T.fields) THEN [acc EXCEPT !.err = "ValueError"]
       ELSE VarSizeFields(v, T, items, <<st[1] + 1, j + 1>>, VFieldSize(v, T.fields[j], items[st[1]], acc))
VarSizeDict(v, T, items, i, acc) ==
  IF i > Len(items) \/ acc.err # "" THEN acc
  ELSE IF ~HasField(T, items[i].name) THEN [acc EXCEPT !.err = "KeyError"]
  ELSE VarSizeDict(v, T, items, i + 1, VFieldSize(v, Field(T, items[i].name), items[i].v, acc))
VarSize(v, T, init, acc) ==
  CASE init.k = "seq"  -> VarSizeFields(v, T, init.items, <<1, 1>>, acc)
    [] init.k = "dict" -> IF v = "nodictprepass" THEN acc ELSE VarSizeDict(v, T, init.items, 1, acc)
    [] OTHER -> [acc EXCEPT !.err = "TypeError"]

\* ---- CT_WITH_VAR_ARRAY as b_complete_struct_or_union (:5218-5249) computes it when X is realized.
\*      mode = "abi": in-line FFI, nested struct types are complete before the outer one is built.
\*      mode = "api": out-of-line module, struct types are *lazy* (size known from the C compiler, field list
\*      and flags unknown) until force_lazy_struct; completing X forces each nested struct type before looking
\*      at its flag.  innerFirst = the nested types had already been forced by an earlier use.
\*      Variant "noforce-when-size-known": the nested type is forced only if its size is unknown, i.e. never
\*      in API mode - its flag is then still unset when the outer type looks at it.
RECURSIVE VarFlag(_, _, _, _)
NestedFlagSeen(v, ft, mode, innerFirst) ==
  IF mode = "abi" \/ innerFirst \/ v # "noforce-when-size-known"
    THEN VarFlag(v, ft, mode, innerFirst)        \* realized (now or earlier): the flag it computed for itself
    ELSE FALSE                                   \* still lazy: ct_flags_mut not set yet
VarFlag(v, T, mode, innerFirst) ==
  T.k = "struct" /\ \E i \in 1..Len(T.fields) :
      \/ IsOpen(T.fields[i].t)
      \/ T.fields[i].t.k = "struct" /\ NestedFlagSeen(v, T.fields[i].t, mode, innerFirst)

\* ---- direct_newp: ffi.new('X *', init) (isptr) or ffi.new('X[..]', init); result [size, mem, err, ovf]
\*      flag = CT_WITH_VAR_ARRAY of X as the type system computed it
Fresh(v, n) == IF v = "nozero" THEN [i \in 1..n |-> 170] ELSE Zeros(n)
DirectNewpF(v, X, init, isptr, flag) ==
  IF isptr
    THEN LET base == IF X.k = "prim" /\ X.ischar = 1 THEN 2 * X.size ELSE X.size   \* char: room for a null
             vs   == IF flag /\ init.k # "none"
                       THEN VarSize(v, X, init, [size |-> base, err |-> ""])
                       ELSE [size |-> base, err |-> ""]
         IN IF vs.err # "" THEN [size |-> 0, mem |-> <<>>, err |-> vs.err, ovf |-> FALSE]
            ELSE LET r == IF init.k = "none" THEN R0(Fresh(v, vs.size))
                          ELSE ConvertFromObject(v, R0(Fresh(v, vs.size)), X, 0, init)
                 IN [size |-> vs.size, mem |-> r.mem, err |-> r.err, ovf |-> r.ovf]
    ELSE LET n    == IF X.len >= 0 THEN X.len ELSE NewArrayLength(v, init)
             ini  == IF X.len < 0 /\ init.k = "len" THEN [init EXCEPT !.k = "none"] ELSE init
         IN IF n < 0 THEN [size |-> 0, mem |-> <<>>, err |-> "TypeError", ovf |-> FALSE]
            ELSE LET r == IF ini.k = "none" THEN R0(Fresh(v, n * X.isz))
                          ELSE ConvertFromObject(v, R0(Fresh(v, n * X.isz)), X, 0, ini)
                 IN [size |-> n * X.isz, mem |-> r.mem, err |-> r.err, ovf |-> r.ovf]

DirectNewp(v, X, init, isptr) == DirectNewpF(v, X, init, isptr, WithVar(X))

\* "p = ffi.new('X *'); p[0] = init" on an allocation of `size' bytes (cdata_ass_sub -> convert_from_object)
NewThenAssign(v, X, init, size) == ConvertFromObject(v, R0(Fresh(v, size)), X, 0, init)
=============================================================================
