------------------------------ MODULE Trace_Text ------------------------------
(* C15, code -> spec.  Validates records of operations executed on the real cffi against
   the clauses of TextIdeal (verdicts) and against the implementation model of Text.tla
   (divergences, informational).  One JSON file = a sequence of records
     [k |-> "new",    W, decl, s, mem, str, exc]          ffi.new('T[decl]', s) (decl = -1: 'T[]'), units after,
                                                       ffi.string of the result
     [k |-> "assign", W, old, s, new, exc]             store s into an array holding `old'
     [k |-> "string", W, mem, isarr, maxlen, res, exc] ffi.string(view, maxlen)  (maxlen = -1: absent)
     [k |-> "unpack", W, mem, n, res, exc]             ffi.unpack(view, n)
   units / code points are integers < 2^31.  For every record with failing clauses TLC prints
   <<"VERDICT", index, <<clause, ...>>>>, for every record the model does not predict
   <<"DIVERGE", index, what>>, and finally <<"CHECKED", n, onlyFaithful, onlyFixed>>.       *)
EXTENDS Text, Json, IOUtils, TLC
VARIABLES i, nf, nx
tvars == <<i, nf, nx, W, mem, old, op, ovf>>

Recs == JsonDeserialize(IOEnv.TRACE_FILE)

Sel(c, name) == IF c THEN <<>> ELSE <<name>>

VNew(r) ==
  IF r.exc # "" THEN <<"new.raised">> ELSE
  Sel(NewLenG(r.W, r.decl, r.s, r.mem), "new.length")
  \o Sel(UnitsWrittenG(r.W, r.s, r.mem), "new.units")
  \o Sel(TerminatorG(r.W, r.s, r.mem), IF r.W = 1 THEN "new.terminator:char" ELSE "new.terminator:wide")
  \o Sel(TailG(r.W, r.s, Zeros(Len(r.mem)), r.mem), "new.zerofill")
  \o Sel(NoZero(r.s) => RoundTripG(r.s, r.str),
         IF r.W = 2 /\ LonePair(r.s) THEN "roundtrip:lonepair16" ELSE "roundtrip")

VAssign(r) ==
  IF ~Shorter(r.W, Len(r.old), r.s) THEN <<>>          \* the statement speaks about shorter strings only
  ELSE IF r.exc # "" THEN <<"assign.raised">>
  ELSE Sel(UnitsWrittenG(r.W, r.s, r.new), "assign.units")
       \o Sel(TerminatorG(r.W, r.s, r.new), IF r.W = 1 THEN "assign.terminator:char" ELSE "assign.terminator:wide")
       \o Sel(TailG(r.W, r.s, r.old, r.new), "assign.tail")

VString(r) ==
  IF r.exc # "" THEN <<"string.raised">>
  ELSE Sel(r.res = String(r.W, r.mem, Bound(Len(r.mem), r.maxlen)), "string.stop")

VUnpack(r) ==
  IF r.exc # "" THEN <<"unpack.raised">>
  ELSE Sel(r.res = UnpackV(r.W, r.mem, r.n), "unpack.value")
       \o Sel(Units(r.W, r.res) = SubSeq(r.mem, 1, r.n), "unpack.units")

Verdict(r) == CASE r.k = "new" -> VNew(r) [] r.k = "assign" -> VAssign(r)
                [] r.k = "string" -> VString(r) [] r.k = "unpack" -> VUnpack(r)

\* ---- the implementation model's prediction
Pred(v, r) ==
  CASE r.k = "new" -> LET m == ImplNew(v, r.W, r.decl, r.s) IN
                        r.exc = "" /\ r.mem = m.mem /\ r.str = ImplString(v, r.W, m.mem, TRUE, 0 - 1)
    [] r.k = "assign" -> LET m == ConvertArrayFromStr(v, r.W, Len(r.old), r.old, r.s) IN
                           r.new = m.mem /\ r.exc = (IF m.err = "none" THEN "" ELSE m.err)
    [] r.k = "string" -> r.exc = "" /\ r.res = ImplString(v, r.W, r.mem, r.isarr, r.maxlen)
    [] r.k = "unpack" -> r.exc = "" /\ r.res = ImplUnpack(v, r.W, r.mem, r.n)

TInit == i = 0 /\ nf = 0 /\ nx = 0 /\ W = 0 /\ mem = <<>> /\ old = <<>> /\ op = <<>> /\ ovf = FALSE
TNext == /\ UNCHANGED <<W, mem, old, op, ovf>>
         /\ \/ /\ i < Len(Recs) /\ i' = i + 1
               /\ LET r == Recs[i + 1]
                      v == Verdict(r)
                      pf == Pred("faithful", r)
                      px == Pred("fixed", r)
                  IN /\ (v # <<>> => PrintT(<<"VERDICT", i + 1, v>>))
                     /\ (~pf /\ ~px => PrintT(<<"DIVERGE", i + 1, r.k>>))
                     /\ nf' = nf + (IF pf /\ ~px THEN 1 ELSE 0)
                     /\ nx' = nx + (IF px /\ ~pf THEN 1 ELSE 0)
            \/ /\ i = Len(Recs) /\ i' = i + 1
               /\ PrintT(<<"CHECKED", i, nf, nx>>)
               /\ UNCHANGED <<nf, nx>>
TSpec == TInit /\ [][TNext]_tvars
=============================================================================
