------------------------------- MODULE CdefInc -------------------------------
(* C34 - ffi.include() shares declarations instead of copying them.

   A chain of FFIs: ffi[1], ffi[2] includes ffi[1], ffi[3] includes ffi[2] ...  The machine of
   Cdef.tla works on the FFI being written (cenv); NewFFI closes it and opens the next one,
   which starts with Include of the previous one (api.py:FFI.include -> cparser.py:Parser.include:
   every struct / union / enum / anonymous / typedef declaration is re-declared with
   included=True, every integer constant is copied).

   Ideal (the property): an entity declared in ffi[i] and seen through ffi[j], j > i, IS the
   entity of ffi[i]: the same ctype object (typedefs, structs, unions, enums), the same value
   (integer constants), and in API mode lib[j] reaches the functions, variables and constants
   of lib[i].  Identity of ctype objects is modelled by object identifiers:
       non-aggregate type  ->  its normal form with aggregate leaves replaced by their identifiers
                               (the backend keeps one object per such form: C27)
       struct/union        ->  <<kind, owner, tag>>      owner = index of the FFI that made the object
       enum                ->  <<"enum", owner, tag>>
   Ideal owner = the FFI that declared it.

   Implementation model for generated modules (out-of-line ABI and API), transcribed from
   recompiler.py:_struct_ctx (_CFFI_F_EXTERNAL for included struct/unions; enums and typedefs
   are emitted again) and realize_c_type.c:_realize_c_struct_or_union /
   ffi_obj.c:_fetch_external_struct_or_union (search the included ffis' struct_unions by
   name, same kind, not external there; else recurse), realize_c_type_or_func_now case
   _CFFI_OP_ENUM (b_new_enum_type in the module that asks).                                *)
EXTENDS CdefOol

CONSTANTS MaxFFIs, MaxPerFFI
VARIABLES chain        \* finished environments, oldest first

ivars == <<cenv, hist, variant, chain>>

(* ------------------------------------------------------------------ Include *)
IncludeG(env, other) ==
  /\ (DOMAIN env.td) \cap (DOMAIN other.td) = {}
  /\ (DOMAIN env.su) \cap (DOMAIN other.su) = {}
  /\ (DOMAIN env.en) \cap (DOMAIN other.en) = {}
  /\ AllConsts(env) \cap AllConsts(other) = {}
Merge(f, g) == Fn([x \in (DOMAIN f) \cup (DOMAIN g) |-> IF x \in DOMAIN f THEN f[x] ELSE g[x]])
\* env.include(other), other being the FFI at position idx of the chain
IncludeE(env, other, idx) ==
  [env EXCEPT !.td = Merge(@, other.td), !.su = Merge(@, other.su), !.en = Merge(@, other.en),
              !.kc = Merge(@, other.kc),
              \* _included_declarations (only struct/unions matter to the recompiler) + what came in
              !.inc = @ \cup (DOMAIN other.su) \cup {<<"enum", e>> : e \in DOMAIN other.en}
                        \cup {<<"td", n>> : n \in DOMAIN other.td}
                        \cup {<<"k", c>> : c \in DOMAIN other.kc},
              !.from = Append(@, idx)]
\* a new FFI that includes the FFIs at the positions lst (in that order)
RECURSIVE IncludeAll(_, _, _, _)
IncludeAll(env, envs, lst, k) ==
  IF k > Len(lst) THEN env ELSE IncludeAll(IncludeE(env, envs[lst[k]], lst[k]), envs, lst, k + 1)
RECURSIVE IncludeAllG(_, _, _, _)
IncludeAllG(env, envs, lst, k) ==
  IF k > Len(lst) THEN TRUE
  ELSE IncludeG(env, envs[lst[k]]) /\ IncludeAllG(IncludeE(env, envs[lst[k]], lst[k]), envs, lst, k + 1)

(* ------------------------------------------------------------------ who owns what (ideal) *)
Envs(ch, cur) == Append(ch, cur)
\* the FFIs reachable from j through include(), j itself included
RECURSIVE AncClose(_, _)
AncClose(envs, S) == LET S2 == S \cup UNION {{envs[i].from[k] : k \in DOMAIN envs[i].from} : i \in S}
                     IN IF S2 = S THEN S ELSE AncClose(envs, S2)
Anc(envs, j) == AncClose(envs, {j})
\* the FFI that declared the item itself
OwnerSU(envs, j, key) == CHOOSE i \in Anc(envs, j) : key \in DOMAIN envs[i].su /\ key \notin envs[i].inc
OwnerEn(envs, j, e)   == CHOOSE i \in Anc(envs, j) : e \in DOMAIN envs[i].en /\ <<"enum", e>> \notin envs[i].inc
OwnerTd(envs, j, n)   == CHOOSE i \in Anc(envs, j) : n \in DOMAIN envs[i].td /\ <<"td", n>> \notin envs[i].inc

RECURSIVE IdealId(_, _, _)
IdealId(envs, j, t) ==      \* t: resolved term of envs[j]
  CASE IsSU(t) -> <<t[1], OwnerSU(envs, j, t), t[2]>>
    [] t[1] = "enum" -> <<"enum", OwnerEn(envs, j, t[2]), t[2]>>
    [] t[1] = "ptr" -> Ptr(IdealId(envs, j, t[2]))
    [] t[1] = "arr" -> Arr(IdealId(envs, j, t[2]), t[3])
    [] t[1] = "fnp" -> FnP(IdealId(envs, j, t[2]), Tup([i \in DOMAIN t[3] |-> IdealId(envs, j, t[3][i])]), t[4])
    [] OTHER -> t

\* API mode: the names (functions, variables, own constants) lib[i] defines itself
OwnNames(envs, i) == (DOMAIN envs[i].fn) \cup (DOMAIN envs[i].gv) \cup {c \in DOMAIN envs[i].kc : <<"k", c>> \notin envs[i].inc}
\* lib[j] must reach name x of lib[i], i an included FFI of j (directly or not), when no other FFI
\* among j and its includes defines the same name (then the lookup order decides: not constrained)
MustReach(envs, j, i, x) ==
  /\ i \in Anc(envs, j) \ {j} /\ x \in OwnNames(envs, i)
  /\ \A m \in Anc(envs, j) \ {i} : x \notin OwnNames(envs, m)

(* ------------------------------------------------------------------ generated modules (model) *)
\* ffi_obj.c:_fetch_external_struct_or_union(s, included_ffis): for every included ffi in order: its own
\* struct_unions (same kind, not external there), else - recursively - its included ffis.  Ms = the
\* encoded modules; 0 = not found
RECURSIVE FetchList(_, _, _, _, _, _)
FetchList(Ms, envs, lst, k, name, isUnion) ==
  IF k > Len(lst) THEN 0
  ELSE LET j == lst[k]
           n == Search(Ms[j].structs, name)
       IN IF n >= 0 /\ (Ms[j].structs[n + 1].flags \div F_EXTERNAL) % 2 = 0
                    /\ ((Ms[j].structs[n + 1].flags \div F_UNION) % 2 = 1) = isUnion
          THEN j
          ELSE LET x == FetchList(Ms, envs, envs[j].from, 1, name, isUnion)
               IN IF x # 0 THEN x ELSE FetchList(Ms, envs, lst, k + 1, name, isUnion)

\* the module whose ctype object module j uses for struct_unions entry `name`
ModelOwnerSU(Ms, envs, j, key) ==
  LET n == Search(Ms[j].structs, key[2])
  IN IF n < 0 THEN 0
     ELSE IF (Ms[j].structs[n + 1].flags \div F_EXTERNAL) % 2 = 1
          THEN FetchList(Ms, envs, envs[j].from, 1, key[2], key[1] = "union")
          ELSE j
\* enums are realized by the module that is asked (no F_EXTERNAL for enums)
ModelOwnerEn(Ms, j, e) == IF Search(Ms[j].enums, e) < 0 THEN 0 ELSE j

RECURSIVE ModelId(_, _, _, _)
ModelId(Ms, envs, j, t) ==
  CASE IsSU(t) -> <<t[1], ModelOwnerSU(Ms, envs, j, t), t[2]>>
    [] t[1] = "enum" -> <<"enum", ModelOwnerEn(Ms, j, t[2]), t[2]>>
    [] t[1] = "ptr" -> Ptr(ModelId(Ms, envs, j, t[2]))
    [] t[1] = "arr" -> Arr(ModelId(Ms, envs, j, t[2]), t[3])
    [] t[1] = "fnp" -> FnP(ModelId(Ms, envs, j, t[2]), Tup([i \in DOMAIN t[3] |-> ModelId(Ms, envs, j, t[3][i])]), t[4])
    [] OTHER -> t

RECURSIVE HasEnum(_)
HasEnum(t) ==
  CASE t[1] = "enum" -> TRUE
    [] t[1] \in {"ptr", "arr"} -> HasEnum(t[2])
    [] t[1] = "fnp" -> HasEnum(t[2]) \/ \E i \in DOMAIN t[3] : HasEnum(t[3][i])
    [] OTHER -> FALSE

\* ffi_obj.c:ffi_fetch_int_constant: the module's own globals, else - for every included ffi in order -
\* the same search there
RECURSIVE ModelConst(_, _, _, _), ModelConstList(_, _, _, _, _)
ModelConst(Ms, envs, j, c) ==
  LET gi == Search(Ms[j].globals, c)
  IN IF gi >= 0 THEN Ms[j].globals[gi + 1].val ELSE ModelConstList(Ms, envs, envs[j].from, 1, c)
ModelConstList(Ms, envs, lst, k, c) ==
  IF k > Len(lst) THEN "not found"
  ELSE LET x == ModelConst(Ms, envs, lst[k], c)
       IN IF x # "not found" THEN x ELSE ModelConstList(Ms, envs, lst, k + 1, c)

(* lib_obj.c:lib_build_and_cache_attr for API-mode libs: the lib's own globals, else every included lib
   in order, recursively (with nothing cached yet).  Returns the module in which the name is found, 0
   if nowhere.  Variant "one-level" recurses into an included lib only when the name is one of that
   lib's own globals: the includes of an included lib are never searched. *)
RECURSIVE ModelReach(_, _, _, _), ModelReachList(_, _, _, _, _)
ModelReach(Ms, envs, j, x) ==
  IF Search(Ms[j].globals, x) >= 0 THEN j ELSE ModelReachList(Ms, envs, envs[j].from, 1, x)
ModelReachList(Ms, envs, lst, k, x) ==
  IF k > Len(lst) THEN 0
  ELSE LET r == IF variant = "one-level" /\ Search(Ms[lst[k]].globals, x) < 0 THEN 0
                ELSE ModelReach(Ms, envs, lst[k], x)
       IN IF r # 0 THEN r ELSE ModelReachList(Ms, envs, lst, k + 1, x)

\* the clauses on which generated modules differ from the ideal, for the chain envs
IncBad(envs, strict) ==
  LET Ms == Tup([j \in DOMAIN envs |-> Encode(envs[j])])
  IN UNION { LET ev == envs[j] IN
       {<<"td", j, n>> : n \in {n \in DOMAIN ev.td : (strict \/ ~HasEnum(ev.td[n]))
                                                     /\ ModelId(Ms, envs, j, ev.td[n]) # IdealId(envs, j, ev.td[n])}}
       \cup {<<"su", j, KeyStr(k)>> : k \in {k \in DOMAIN ev.su : ModelId(Ms, envs, j, k) # IdealId(envs, j, k)}}
       \cup {<<"en", j, e>> : e \in {e \in DOMAIN ev.en : strict /\ ModelId(Ms, envs, j, <<"enum", e>>) # IdealId(envs, j, <<"enum", e>>)}}
       \cup {<<"k", j, c>> : c \in {c \in AllConsts(ev) : ModelConst(Ms, envs, j, c) # ConstVal(ev, c)}}
       \cup UNION {{<<"reach", j, x>> : x \in {x \in OwnNames(envs, i) : MustReach(envs, j, i, x) /\ ModelReach(Ms, envs, j, x) # i}}
                   : i \in DOMAIN envs}
       \cup (IF Ms[j].ok THEN {} ELSE {<<"emit", j, "">>})
     : j \in DOMAIN envs }

(* ------------------------------------------------------------------ the machine *)
\* how = "prev": the new FFI includes the one just closed (a chain); "none": it includes nothing
\* (a sibling of the earlier ones); "all": it includes every earlier FFI that no other earlier FFI includes
Roots(envs) == {i \in DOMAIN envs : \A m \in DOMAIN envs : \A k \in DOMAIN envs[m].from : envs[m].from[k] # i}
SetToSortedSeq(S) == SortSeq(SetToSeq(S), <)
FromOf(envs, how) == CASE how = "prev" -> <<Len(envs)>>
                       [] how = "none" -> <<>>
                       [] how = "all"  -> SetToSortedSeq(Roots(envs))
NewFFI(how) ==
  LET envs == Append(chain, cenv)
      lst == FromOf(envs, how)
  IN /\ Len(chain) + 1 < MaxFFIs
     /\ cenv # EnvInit
     /\ how = "all" => Len(lst) >= 2
     /\ IncludeAllG(EnvInit, envs, lst, 1)
     /\ chain' = envs
     /\ cenv' = IncludeAll(EnvInit, envs, lst, 1)
     /\ hist' = Append(hist, <<"NewFFI", <<lst>>>>)
     /\ UNCHANGED variant

\* number of declarations made in the FFI being written
RECURSIVE CountTail(_, _)
CountTail(h, i) == IF i = 0 \/ h[i][1] = "NewFFI" THEN 0 ELSE 1 + CountTail(h, i - 1)

IInit == Init /\ variant \in Variants /\ chain = <<>>
INext == \/ (Next /\ CountTail(hist, Len(hist)) < MaxPerFFI /\ UNCHANGED <<variant, chain>>)
         \/ \E how \in (IF "siblings" \in Feat THEN {"prev", "none", "all"} ELSE {"prev"}) : NewFFI(how)
ISpec == IInit /\ [][INext]_ivars

IncRefines ==
  variant = "faithful" =>
     LET b == IncBad(Envs(chain, cenv), FALSE)
     IN IF b = {} THEN TRUE ELSE PrintT(<<"BAD", b, hist>>) /\ FALSE
IncProbe == (variant # "faithful" /\ IncBad(Envs(chain, cenv), variant = "strict") # {})
            => PrintT(<<"CAUGHT", variant, IncBad(Envs(chain, cenv), variant = "strict")>>)
=============================================================================
