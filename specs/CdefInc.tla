------------------------------- MODULE CdefInc -------------------------------
(* C34 - ffi.include() shares declarations instead of copying them.

   A chain of FFIs: ffi[1], ffi[2] includes ffi[1], ffi[3] includes ffi[2] ...  The machine of
   Cdef.tla works on the FFI being written (cenv); NewFFI closes it and opens the next one,
   which starts with Include of the previous one (api.py:FFI.include -> cparser.py:Parser.include:
   every struct / union / enum / anonymous / typedef declaration is re-declared with
   included=True, every integer constant is copied).

   Ideal (the property): an entity declared in ffi[i] and seen through ffi[j], j > i, IS the
   entity of ffi[i]: the same ctype object (typedefs, structs, unions, enums), the same value
   (integer constants), and in API mode lib[j] reaches the functions, variables and constants
   of lib[i].  Identity of ctype objects is modelled by object identifiers:
       non-aggregate type  ->  its normal form with aggregate leaves replaced by their identifiers
                               (the backend keeps one object per such form: C27)
       struct/union        ->  <<kind, owner, tag>>      owner = index of the FFI that made the object
       enum                ->  <<"enum", owner, tag>>
   Ideal owner = the FFI that declared it.

   Implementation model for generated modules (out-of-line ABI and API), transcribed from
   recompiler.py:_struct_ctx (_CFFI_F_EXTERNAL for included struct/unions; enums and typedefs
   are emitted again) and realize_c_type.c:_realize_c_struct_or_union /
   ffi_obj.c:_fetch_external_struct_or_union (search the included ffis' struct_unions by
   name, same kind, not external there; else recurse), realize_c_type_or_func_now case
   _CFFI_OP_ENUM (b_new_enum_type in the module that asks).                                *)
EXTENDS CdefOol

CONSTANTS MaxFFIs, MaxPerFFI
VARIABLES chain        \* finished environments, oldest first

ivars == <<cenv, hist, variant, chain>>

(* ------------------------------------------------------------------ Include *)
IncludeG(env, other) ==
  /\ (DOMAIN env.td) \cap (DOMAIN other.td) = {}
  /\ (DOMAIN env.su) \cap (DOMAIN other.su) = {}
  /\ (DOMAIN env.en) \cap (DOMAIN other.en) = {}
  /\ AllConsts(env) \cap AllConsts(other) = {}
Merge(f, g) == [x \in (DOMAIN f) \cup (DOMAIN g) |-> IF x \in DOMAIN f THEN f[x] ELSE g[x]]
IncludeE(env, other) ==
  [env EXCEPT !.td = Merge(@, other.td), !.su = Merge(@, other.su), !.en = Merge(@, other.en),
              !.kc = Merge(@, other.kc),
              \* _included_declarations (only struct/unions matter to the recompiler) + what came in
              !.inc = @ \cup (DOMAIN other.su) \cup {<<"enum", e>> : e \in DOMAIN other.en}
                        \cup {<<"td", n>> : n \in DOMAIN other.td}
                        \cup {<<"k", c>> : c \in DOMAIN other.kc}]

(* ------------------------------------------------------------------ who owns what (ideal) *)
Envs(ch, cur) == Append(ch, cur)
\* the FFI (1-based position in the chain) that declared item x itself
DeclaredIn(envs, j, x) == x \notin envs[j].inc
OwnerSU(envs, j, key) == CHOOSE i \in 1..j : key \in DOMAIN envs[i].su /\ key \notin envs[i].inc
OwnerEn(envs, j, e)   == CHOOSE i \in 1..j : e \in DOMAIN envs[i].en /\ <<"enum", e>> \notin envs[i].inc

RECURSIVE IdealId(_, _, _)
IdealId(envs, j, t) ==      \* t: resolved term of envs[j]
  CASE IsSU(t) -> <<t[1], OwnerSU(envs, j, t), t[2]>>
    [] t[1] = "enum" -> <<"enum", OwnerEn(envs, j, t[2]), t[2]>>
    [] t[1] = "ptr" -> Ptr(IdealId(envs, j, t[2]))
    [] t[1] = "arr" -> Arr(IdealId(envs, j, t[2]), t[3])
    [] t[1] = "fnp" -> FnP(IdealId(envs, j, t[2]), [i \in DOMAIN t[3] |-> IdealId(envs, j, t[3][i])], t[4])
    [] OTHER -> t

(* ------------------------------------------------------------------ generated modules (model) *)
\* ffi_obj.c:_fetch_external_struct_or_union for the linear chain: module j asks its included
\* module j-1, which asks j-2 ...; Ms = the encoded modules
RECURSIVE FetchExternal(_, _, _, _)
FetchExternal(Ms, j, name, isUnion) ==
  IF j < 1 THEN 0                                       \* not found
  ELSE LET n == Search(Ms[j].structs, name)
       IN IF n >= 0 /\ (Ms[j].structs[n + 1].flags \div F_EXTERNAL) % 2 = 0
                    /\ ((Ms[j].structs[n + 1].flags \div F_UNION) % 2 = 1) = isUnion
          THEN j
          ELSE FetchExternal(Ms, j - 1, name, isUnion)

\* the module whose ctype object module j uses for struct_unions entry `name`
ModelOwnerSU(Ms, j, key) ==
  LET n == Search(Ms[j].structs, key[2])
  IN IF n < 0 THEN 0
     ELSE IF (Ms[j].structs[n + 1].flags \div F_EXTERNAL) % 2 = 1
          THEN FetchExternal(Ms, j - 1, key[2], key[1] = "union")
          ELSE j
\* enums are realized by the module that is asked (no F_EXTERNAL for enums)
ModelOwnerEn(Ms, j, e) == IF Search(Ms[j].enums, e) < 0 THEN 0 ELSE j

RECURSIVE ModelId(_, _, _)
ModelId(Ms, j, t) ==
  CASE IsSU(t) -> <<t[1], ModelOwnerSU(Ms, j, t), t[2]>>
    [] t[1] = "enum" -> <<"enum", ModelOwnerEn(Ms, j, t[2]), t[2]>>
    [] t[1] = "ptr" -> Ptr(ModelId(Ms, j, t[2]))
    [] t[1] = "arr" -> Arr(ModelId(Ms, j, t[2]), t[3])
    [] t[1] = "fnp" -> FnP(ModelId(Ms, j, t[2]), [i \in DOMAIN t[3] |-> ModelId(Ms, j, t[3][i])], t[4])
    [] OTHER -> t

RECURSIVE HasEnum(_)
HasEnum(t) ==
  CASE t[1] = "enum" -> TRUE
    [] t[1] \in {"ptr", "arr"} -> HasEnum(t[2])
    [] t[1] = "fnp" -> HasEnum(t[2]) \/ \E i \in DOMAIN t[3] : HasEnum(t[3][i])
    [] OTHER -> FALSE

\* ffi_obj.c:ffi_fetch_int_constant (and lib_build_and_cache_attr for API-mode libs): search the
\* module's own globals, else delegate to the included module
RECURSIVE ModelConst(_, _, _)
ModelConst(Ms, j, c) ==
  IF j < 1 THEN "not found"
  ELSE LET gi == Search(Ms[j].globals, c)
       IN IF gi >= 0 THEN Ms[j].globals[gi + 1].val ELSE ModelConst(Ms, j - 1, c)

\* the clauses on which generated modules differ from the ideal, for the chain envs
IncBad(envs, strict) ==
  LET Ms == [j \in DOMAIN envs |-> Encode(envs[j])]
  IN UNION { LET ev == envs[j] IN
       {<<"td", j, n>> : n \in {n \in DOMAIN ev.td : (strict \/ ~HasEnum(ev.td[n]))
                                                     /\ ModelId(Ms, j, ev.td[n]) # IdealId(envs, j, ev.td[n])}}
       \cup {<<"su", j, KeyStr(k)>> : k \in {k \in DOMAIN ev.su : ModelId(Ms, j, k) # IdealId(envs, j, k)}}
       \cup {<<"en", j, e>> : e \in {e \in DOMAIN ev.en : strict /\ ModelId(Ms, j, <<"enum", e>>) # IdealId(envs, j, <<"enum", e>>)}}
       \cup {<<"k", j, c>> : c \in {c \in AllConsts(ev) : ModelConst(Ms, j, c) # ConstVal(ev, c)}}
       \cup (IF Ms[j].ok THEN {} ELSE {<<"emit", j, "">>})
     : j \in DOMAIN envs }

(* ------------------------------------------------------------------ the machine *)
NewFFI ==
  /\ Len(chain) + 1 < MaxFFIs
  /\ cenv # EnvInit
  /\ chain' = Append(chain, cenv)
  /\ cenv' = IncludeE(EnvInit, cenv)
  /\ hist' = Append(hist, <<"NewFFI", <<>>>>)
  /\ UNCHANGED variant

\* number of declarations made in the FFI being written
RECURSIVE CountTail(_, _)
CountTail(h, i) == IF i = 0 \/ h[i][1] = "NewFFI" THEN 0 ELSE 1 + CountTail(h, i - 1)

IInit == Init /\ variant \in Variants /\ chain = <<>>
INext == \/ (Next /\ CountTail(hist, Len(hist)) < MaxPerFFI /\ UNCHANGED <<variant, chain>>)
         \/ NewFFI
ISpec == IInit /\ [][INext]_ivars

IncRefines ==
  variant = "faithful" =>
     LET b == IncBad(Envs(chain, cenv), FALSE)
     IN IF b = {} THEN TRUE ELSE PrintT(<<"BAD", b, hist>>) /\ FALSE
IncProbe == (variant = "strict" /\ IncBad(Envs(chain, cenv), TRUE) # {}) => PrintT(<<"CAUGHT", variant, IncBad(Envs(chain, cenv), TRUE)>>)
=============================================================================
