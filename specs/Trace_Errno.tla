------------------------------ MODULE Trace_Errno ------------------------------
(* Validates event traces recorded from real threads (lock-step replays of TLC behaviours
   and free-running stress runs) against the property machine ErrnoIdeal.  One JSON file
   holds many traces  [raw |-> <<ids of threads not created by Python>>, evs |-> <<events>>];
   an event is [ev, t, v, p]: ev the ideal action, t the thread, v the value assigned or the
   value OBSERVED (ffi.errno read, errno seen by the C function on entry, errno seen by C when
   the callback has returned), p the call path / callback kind / for EmbEnter (a C thread calls
   the dll-exported function of an embedded module) the mode "emb1" | "embw" | "emb".
   Every trace gets a total verdict <<"VERDICT", k, verdict, position>>:  "ok", or the name of
   the event whose property clause failed ("Get", "CallEnter", "CbExit"), or "ctx:<ev>" when
   the recorded context is impossible (a defect of the harness, reported as machinery
   failure). *)
EXTENDS ErrnoIdeal, Json, IOUtils, TLC
VARIABLES k, l, bad, reported
Traces == JsonDeserialize(IOEnv.TRACE_FILE)
tvars == <<e, stk, obs, k, l, bad, reported>>

RawOf(i) == {Traces[i].raw[j] : j \in 1..Len(Traces[i].raw)}
TInit == /\ k \in 1..Len(Traces)
         /\ e = [t \in Threads |-> <<>>]
         /\ stk = [t \in Threads |-> IF t \in RawOf(k) THEN <<"raw">> ELSE <<>>]
         /\ obs = [t \in Threads |-> <<>>]
         /\ l = 1 /\ bad = "" /\ reported = FALSE

Ctx(x) == CASE x.ev = "Set"       -> SetC(x.t)
            [] x.ev = "Get"       -> GetC(x.t)
            [] x.ev = "Clobber"   -> ClobberC(x.t)
            [] x.ev = "CallEnter" -> CallEnterC(x.t)
            [] x.ev = "CSet"      -> CSetC(x.t)
            [] x.ev = "CbEnter"   -> CbEnterC(x.t)
            [] x.ev = "CbExit"    -> CbExitC(x.t)
            [] x.ev = "EmbEnter"  -> EmbEnterC(x.t, x.p)
            [] x.ev = "CallExit"  -> CallExitC(x.t)
            [] OTHER -> FALSE
Guard(x) == CASE x.ev = "Get"       -> GetG(x.t, x.v)
              [] x.ev = "CallEnter" -> CallEnterG(x.t, x.p, x.v)
              [] x.ev = "CbExit"    -> CbExitG(x.t, x.v)
              [] OTHER -> TRUE
Effect(x) == CASE x.ev = "Set"       -> SetE(x.t, x.v)
               [] x.ev = "Get"       -> GetE(x.t, x.v)
               [] x.ev = "Clobber"   -> ClobberE(x.t)
               [] x.ev = "CallEnter" -> CallEnterE(x.t, x.p, x.v)
               [] x.ev = "CSet"      -> CSetE(x.t, x.v)
               [] x.ev = "CbEnter"   -> CbEnterE(x.t, x.p)
               [] x.ev = "CbExit"    -> CbExitE(x.t, x.v)
               [] x.ev = "EmbEnter"  -> EmbEnterE(x.t, x.p)
               [] x.ev = "CallExit"  -> CallExitE(x.t)

Consume == /\ l <= Len(Traces[k].evs) /\ bad = ""
           /\ LET x == Traces[k].evs[l] IN
                IF ~Ctx(x) THEN bad' = "ctx:" \o x.ev /\ UNCHANGED <<e, stk, obs, l>>
                ELSE IF Guard(x) THEN Effect(x) /\ l' = l + 1 /\ UNCHANGED bad
                ELSE bad' = x.ev /\ UNCHANGED <<e, stk, obs, l>>
           /\ UNCHANGED <<k, reported>>

Report == /\ (l > Len(Traces[k].evs) \/ bad # "") /\ ~reported
          /\ PrintT(<<"VERDICT", k, IF bad # "" THEN bad ELSE "ok", l>>)
          /\ reported' = TRUE /\ UNCHANGED <<e, stk, obs, k, l, bad>>

TNext == Consume \/ Report
TSpec == TInit /\ [][TNext]_tvars
=============================================================================
