------------------------------ MODULE Trace_GenDet ------------------------------
(* Validates digests of generated sources against GenDet!IsFunction.  Input: a JSON list of
   [id, obs]; prints <<"VERDICT", k, "function", i, j>> for the first pair of observations of
   record k with different digests, and finally <<"CHECKED", records, observations>>. *)
EXTENDS Integers, Sequences, FiniteSets, Json, IOUtils, TLC
VARIABLES k, n
Recs == JsonDeserialize(IOEnv.TRACE_FILE)
IsFunction(obs) == \A i \in DOMAIN obs : \A j \in DOMAIN obs : obs[i].digest = obs[j].digest
FirstDiff(obs) == CHOOSE i \in DOMAIN obs : obs[i].digest # obs[1].digest
TInit == k = 0 /\ n = 0
TNext == \/ /\ k < Len(Recs)
            /\ LET obs == Recs[k + 1].obs IN
               /\ IF IsFunction(obs) THEN TRUE ELSE PrintT(<<"VERDICT", k + 1, "function", 1, FirstDiff(obs)>>)
               /\ n' = n + Len(obs)
            /\ k' = k + 1
         \/ /\ k = Len(Recs) /\ PrintT(<<"CHECKED", k, n>>) /\ k' = k + 1 /\ UNCHANGED n
TSpec == TInit /\ [][TNext]_<<k, n>>
=============================================================================
