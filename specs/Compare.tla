------------------------------ MODULE Compare ------------------------------
(* C17 - implementation model of cdata_richcompare (_cffi_backend.c:2358) and cdata_hash (:2436)
   under Python's comparison protocol (reflected operand, identity fallback for == and !=,
   TypeError for orderings when both sides return NotImplemented), and a small universe of
   objects on which TLC checks the clauses of CompareIdeal and the relational laws that make the
   hash law satisfiable.  Variant: "faithful" | broken "hashobj" | "hashbits" | "ptreqint".   *)
EXTENDS CompareIdeal, FiniteSets, TLC
CONSTANTS Variant
VARIABLES a, b, c
vars == <<a, b, c>>

Swap(op) == CASE op = "lt" -> "gt" [] op = "gt" -> "lt" [] op = "le" -> "ge" [] op = "ge" -> "le" [] OTHER -> op

\* cdata_richcompare(v, w, op), v a cdata: "NI" = Py_NotImplemented
RichCompare(v, w, op) ==
  LET vp == v.ptr
      wp == w.cd /\ w.ptr
  IN IF vp /\ wp THEN AddrCompare(v.v, w.v, op)
     ELSE IF vp \/ wp THEN
          (IF Variant = "ptreqint" /\ op = "eq" /\ w.v.k = "num" /\ v.ptr THEN "T" ELSE "NI")
     ELSE IF v.v.k = "opaque" \/ (w.cd /\ w.v.k = "opaque") THEN "NotImplementedError"   \* convert_to_object gave a cdata
     ELSE PyCompare(v.v, w.v, op)                                                         \* PyObject_RichCompare(aa[0], aa[1], op)
\* x op y as Python evaluates it (a plain Python object's own method does not know cdata)
ImplCompare(x, y, op) ==
  LET r1 == IF x.cd THEN RichCompare(x, y, op) ELSE IF y.cd THEN "NI" ELSE PyCompare(x.v, y.v, op)
      r2 == IF r1 # "NI" THEN r1 ELSE IF y.cd THEN RichCompare(y, x, Swap(op)) ELSE "NI"
  IN IF r2 # "NI" THEN r2
     ELSE CASE op = "eq" -> B(x.id = y.id) [] op = "ne" -> B(x.id # y.id) [] OTHER -> "TypeError"

\* abstract hash: equal keys <=> equal hashes.  The specification does not contain CPython's hash function
\* (reduction modulo 2^61 - 1); the law is stated over this key, which is injective on equality, and the binding
\* carries the real hash values - the universe and the drivers contain the boundaries of the real function.
ZeroNum == [k |-> "num", c |-> "zero", neg |-> FALSE, e |-> 0, m |-> <<>>]
Canon(v) == IF v.k = "num" THEN (IF v.c = "zero" THEN ZeroNum ELSE v)
            ELSE IF v.k = "cplx" /\ IsZeroNum(v.im) THEN (IF v.re.c = "zero" THEN ZeroNum ELSE v.re)
            ELSE IF v.k = "cplx" THEN [v EXCEPT !.re = IF v.re.c = "zero" THEN ZeroNum ELSE v.re,
                                               !.im = IF v.im.c = "zero" THEN ZeroNum ELSE v.im]
            ELSE v
ValKey(x)  == IF HasNaN(x.v) THEN <<"obj", x.id>> ELSE <<"val", Canon(x.v)>>
ImplHash(x) ==
  IF ~x.cd THEN ValKey(x)
  ELSE IF ~x.ptr /\ x.v.k # "opaque"
    THEN (IF Variant = "hashbits" /\ x.v.k = "num" THEN <<"bits", x.v>> ELSE ValKey(x))   \* PyObject_Hash(convert_to_object(..))
  ELSE IF x.v.k = "opaque" THEN <<"ptr", <<"own", x.id>>>>                                   \* _Py_HashPointer(c_data) of its own storage
  ELSE IF Variant = "hashobj" THEN <<"obj", x.id>> ELSE <<"ptr", x.v.a>>                     \* _Py_HashPointer(c_data)

\* ---- the universe
N(cl, neg, e, m) == [k |-> "num", c |-> cl, neg |-> neg, e |-> e, m |-> m]
One == N("fin", FALSE, 0, <<1>>)
Ones61 == [i \in 1..61 |-> 1]                  \* 2^61 - 1, the modulus of CPython's numeric hash
Nums == << One, N("fin", TRUE, 0, <<1>>), N("zero", FALSE, 0, <<>>), N("zero", TRUE, 0, <<>>),
           N("fin", FALSE, 1, <<1, 1>>), N("fin", FALSE, 0 - 1, <<1>>), N("fin", FALSE, 63, <<1>>),
           N("inf", FALSE, 0, <<>>), N("nan", FALSE, 0, <<>>),
           \* the structural boundaries of the hash: -2 (hash(-1) = -2), +-(2^61 - 1), 2 (2^61 - 1), 2^61
           N("fin", TRUE, 1, <<1>>), N("fin", FALSE, 60, Ones61), N("fin", TRUE, 60, Ones61),
           N("fin", FALSE, 61, Ones61), N("fin", FALSE, 61, <<1>>) >>
Others == << [k |-> "bytes", u |-> <<97>>], [k |-> "bytes", u |-> <<97, 98>>], [k |-> "str", u |-> <<97>>],
             [k |-> "cplx", re |-> One, im |-> N("zero", FALSE, 0, <<>>)], [k |-> "cplx", re |-> One, im |-> One] >>
Vals == Nums \o Others
A(h, l) == [k |-> "addr", a |-> <<h, 0, 0, l>>]
Ptrs == << A(0, 0), A(0, 16), A(0, 16), A(0, 16), A(0, 20), A(32768, 0) >>     \* NULL, one address seen three times, ...
Obj(i, cd, ptr, v) == [id |-> i, cd |-> cd, ptr |-> ptr, v |-> v]
UList == [i \in 1..Len(Vals) |-> Obj(i, TRUE, FALSE, Vals[i])]                              \* primitive cdata
         \o [i \in 1..Len(Vals) |-> Obj(100 + i, FALSE, FALSE, Vals[i])]                     \* Python values
         \o [i \in 1..Len(Ptrs) |-> Obj(200 + i, TRUE, TRUE, Ptrs[i])]                       \* pointer-like cdata
         \o << Obj(300, TRUE, FALSE, [k |-> "opaque"]), Obj(301, FALSE, FALSE, One) >>        \* long double; bool True
     \* (the bytes value b'ab' exists as a Python value only; the model does not distinguish)
U == {UList[i] : i \in 1..Len(UList)}

ASSUME PrintT(<<"UNIVERSE", UList>>)

\* chosen in two steps only so that TLC's workers share the work (initial states are handled by one thread)
Nil  == Obj(0, FALSE, FALSE, [k |-> "opaque"])
Init == a \in U /\ b = Nil /\ c = Nil
Next == \/ b = Nil /\ b' \in U /\ UNCHANGED <<a, c>>
        \/ b # Nil /\ c = Nil /\ c' \in U /\ UNCHANGED <<a, b>>
Chosen == b # Nil /\ c = Nil          \* a pair: everything except transitivity is about pairs
Chosen3 == c # Nil                    \* a triple
Spec == Init /\ [][Next]_vars

OpSet == {Ops[i] : i \in 1..6}
\* ---- the model against the clauses
RefinesR     == \A op \in OpSet : CompareG(a, b, op, ImplCompare(a, b, op))
HashLawR     == HashLawG(a, b, ImplCompare(a, b, "eq"), ImplHash(a), ImplHash(b))
HashAsValueR == HashValG(a, ImplHash(a), ValKey(a))
\* ---- relational laws of the ideal (they make a consistent hash possible at all)
D(x, y)     == Demanded(x, y)
E(x, y)     == Expected(x, y, "eq") = "T"
ReflexiveR   == D(a, a) /\ ~(a.v.k \in {"num", "cplx"} /\ HasNaN(a.v)) => E(a, a)
SymmetricR   == D(a, b) => (E(a, b) <=> E(b, a)) /\ Expected(a, b, "lt") = Expected(b, a, "gt")
                          /\ Expected(a, b, "le") = Expected(b, a, "ge")
TransitiveR  == D(a, b) /\ D(b, c) /\ D(a, c) /\ E(a, b) /\ E(b, c) => E(a, c)
NeIsNotEqR   == D(a, b) => (Expected(a, b, "ne") = "T" <=> Expected(a, b, "eq") = "F")
TrichotomyR  == BothPtr(a, b) => Cardinality({op \in {"lt", "eq", "gt"} : Expected(a, b, op) = "T"}) = 1
\* whatever the implementation answers (also where nothing is demanded), equal implies same hash
HashLawAllR  == (a.cd \/ b.cd) /\ ImplCompare(a, b, "eq") = "T" => ImplHash(a) = ImplHash(b)
\* the invariants proper: pairs, and triples for transitivity
Refines == Chosen => RefinesR
HashLaw == Chosen => HashLawR
HashAsValue == Chosen => HashAsValueR
Reflexive == Chosen => ReflexiveR
Symmetric == Chosen => SymmetricR
Transitive == Chosen3 => TransitiveR
NeIsNotEq == Chosen => NeIsNotEqR
Trichotomy == Chosen => TrichotomyR
HashLawAll == Chosen => HashLawAllR
=============================================================================
