SPECIFICATION TSpec
CONSTANTS Widths = {1}
  MaxL = 1
  MaxS = 1
  CPs = {65}
  Variant = "faithful"
CHECK_DEADLOCK FALSE
