SPECIFICATION Spec
CONSTANTS Variant = "faithful"
  Depth = 2
  KMax = 2
  Pool = {3, 772}
  Combos = "all"
  ShapeNames = {"S1","S2","S3","S4","S5","S5w","S6","S7","S8","UN","A1","A2","A3","A4","A5","A6","P1","PC"}
INVARIANT WellFormed
INVARIANT ClaimsDisjoint
INVARIANT FlagIsStructural
INVARIANT Accepts
INVARIANT NoOverflow
INVARIANT Fits
INVARIANT AllocExact
INVARIANT BytesAsIdeal
INVARIANT LawNewAssign
CHECK_DEADLOCK FALSE
