------------------------------- MODULE CTypes -------------------------------
(* C type terms over a small declaration environment, and the construction of their
   canonical names.

   IDEAL part      : the terms themselves, Valid, Apply (what a declarator suffix denotes),
                     SizeOf/Complete (x86-64 SysV).
   IMPLEMENTATION  : CT(t) = [name, pos] is ct_name / ct_name_position as built by
                     ctypedescr_new_on_top (src/c/_cffi_backend.c:426), new_pointer_type
                     (:4876), new_array_type (:4935), fb_build_name (:5817);
                     InsertC = ffi_getctype (src/c/ffi_obj.c:623);
                     InsertPy = FFI.getctype (src/cffi/api.py:398) + b_getcname
                     (_cffi_backend.c:6736).
   Names are TLA+ strings (TLC supports \o, Len and SubSeq on strings), so positions are
   character offsets exactly as in the C code.  The laws that tie both parts together are
   stated and checked in CDecl.tla (they need the reader of C declarators).           *)
EXTENDS Integers, Sequences, FiniteSets, TLC

CONSTANT Variant     \* "faithful", or a deliberately broken model that TLC must reject (non-vacuity):
                     \* "name-pos" (new_pointer_type advances ct_name_position by 1 instead of 2),
                     \* "name-trunc" (new_array_type writes '[N]' into a 12-byte buffer: 11 characters kept),
                     \* "suffix-order", "no-group", "old-qual-loop" (used in CDeclRead.tla)

Open == -1                       \* length of T[]

P(n)        == [k |-> "prim", n |-> n]
Void        == [k |-> "void"]
Ptr(t)      == [k |-> "ptr", t |-> t]
Arr(t, l)   == [k |-> "arr", t |-> t, len |-> l]
Fn(r, a, e) == [k |-> "fn", res |-> r, args |-> a, ell |-> e]   \* function type; the ctype is Ptr(Fn(..))
Agg(kind, tag) == [k |-> kind, tag |-> tag]                      \* kind in {"struct","union","enum"}

IsFnPtr(t) == t.k = "ptr" /\ t.t.k = "fn"

-----------------------------------------------------------------------------
(* The declaration environment every FFI of the replay is given (rendered as cdef text by
   harness/parse_env.py from exactly these tables).                                   *)
PrimSize == [x \in {"char", "signed char", "unsigned char", "_Bool"} |-> 1] @@
            [x \in {"short", "unsigned short"} |-> 2] @@
            [x \in {"int", "unsigned int", "float"} |-> 4] @@
            [x \in {"long", "unsigned long", "long long", "unsigned long long", "double",
                    "size_t", "ssize_t", "intptr_t"} |-> 8] @@
            [x \in {"long double"} |-> 16] @@
            [x \in {"uint8_t", "int8_t"} |-> 1] @@ [x \in {"int16_t", "uint16_t"} |-> 2] @@
            [x \in {"int32_t", "uint32_t", "wchar_t"} |-> 4] @@ [x \in {"int64_t", "uint64_t"} |-> 8]
AllPrims == DOMAIN PrimSize

Typedefs == [myint  |-> P("int"),
             uch_t  |-> P("unsigned char"),
             pint   |-> Ptr(P("int")),
             arr3_t |-> Arr(P("int"), 3),
             fn_t   |-> Ptr(Fn(P("int"), <<P("int")>>, FALSE)),
             vec_t  |-> Arr(P("int"), 5),                              \* typedef int vec_t[5];
             mat_t  |-> Arr(Arr(P("int"), 5), 2),                      \* typedef vec_t mat_t[2];
             func_t |-> Fn(P("int"), <<P("int")>>, FALSE),             \* typedef int func_t(int);  a FUNCTION type
             s2_t   |-> Agg("struct", "s2"),
             e1_t   |-> Agg("enum", "e1")]
IntConsts == [N |-> 3, M |-> 16, E1 |-> 1, E2 |-> 2]            \* #define N 3, #define M 0x10, enum e1 {E0,E1,E2}
(* aggregates: size, alignment (only what SizeOf needs); "op" is declared but never completed *)
Aggs == [s1 |-> [kind |-> "struct", size |-> 8, complete |-> TRUE],     \* struct s1 { int a; char b; }
         s2 |-> [kind |-> "struct", size |-> 16, complete |-> TRUE],    \* struct s2 { double d; char c; }
         op |-> [kind |-> "struct", size |-> 0, complete |-> FALSE],    \* struct op;
         u1 |-> [kind |-> "union", size |-> 8, complete |-> TRUE],      \* union u1 { int x; double y; }
         e1 |-> [kind |-> "enum", size |-> 4, complete |-> TRUE]]       \* enum e1 { E0, E1, E2 }

-----------------------------------------------------------------------------
(* IDEAL: which terms are C types cffi can represent, their size, what a suffix denotes *)
RECURSIVE Complete(_)
Complete(t) == CASE t.k = "prim" -> TRUE
                 [] t.k = "void" -> FALSE
                 [] t.k = "ptr"  -> TRUE
                 [] t.k = "arr"  -> t.len # Open
                 [] t.k = "fn"   -> FALSE
                 [] OTHER        -> Aggs[t.tag].complete

(* Platform limit: an object is at most 2^63 - 1 bytes (new_array_type: "array size would overflow a
   Py_ssize_t").  TLC's integers cannot hold such sizes, so the rule is stated on decimal digits:
   SizeDigits(t) bounds the size from above by 10^SizeDigits(t); a type with SizeDigits <= 18 certainly fits
   and only such array types are taken as types here (the laws are silent about larger ones). *)
RECURSIVE SizeDigits(_)
SizeDigits(t) == CASE t.k = "arr"  -> (IF t.len = Open THEN 0 ELSE Len(ToString(t.len))) + SizeDigits(t.t)
                   [] t.k = "prim" -> Len(ToString(PrimSize[t.n]))
                   [] t.k \in {"struct", "union", "enum"} -> Len(ToString(Aggs[t.tag].size))
                   [] OTHER        -> 1
RECURSIVE Valid(_)
Valid(t) == CASE t.k \in {"prim", "void"} -> TRUE
              [] t.k = "bad" -> FALSE                  \* what an implementation model could not build
              [] t.k = "ptr" -> Valid(t.t)
              [] t.k = "arr" -> Valid(t.t) /\ Complete(t.t) /\ SizeDigits(t) <= 18
              [] t.k = "fn"  -> /\ Valid(t.res) /\ t.res.k \notin {"arr", "fn"}
                                /\ (t.res.k \in {"struct", "union"} => Complete(t.res))
                                /\ \A i \in 1..Len(t.args) :
                                      /\ Valid(t.args[i])
                                      /\ t.args[i].k \notin {"arr", "fn", "void"}
                                      /\ (t.args[i].k \in {"struct", "union"} => Complete(t.args[i]))
              [] OTHER -> t.tag \in DOMAIN Aggs /\ Aggs[t.tag].kind = t.k
(* a ctype (what typeof can return): a valid term that is not a bare function type *)
IsCType(t) == Valid(t) /\ t.k # "fn"

RECURSIVE SizeOf(_)
SizeOf(t) == CASE t.k = "prim" -> PrimSize[t.n]
               [] t.k = "ptr"  -> 8
               [] t.k = "arr"  -> LET e == SizeOf(t.t)            \* -1: does not fit TLC's 32-bit integers
                                  IN IF e < 0 \/ (e > 0 /\ t.len > 2147483647 \div e) THEN -1 ELSE t.len * e
               [] OTHER        -> Aggs[t.tag].size

(* function parameter adjustment (C11 6.7.6.3p7,8): a parameter declared with type t - also
   through a typedef name of an array or function type - denotes Param(t) = Adjust(t):
   array of T -> pointer to T, function -> pointer to function *)
Adjust(t) == CASE t.k = "arr" -> Ptr(t.t)
               [] t.k = "fn"  -> Ptr(t)
               [] OTHER       -> t

-----------------------------------------------------------------------------
(* IMPLEMENTATION MODEL: ct_name / ct_name_position                                  *)
Mid(s, a, b) == LET lo == IF a < 1 THEN 1 ELSE a
                    hi == IF b > Len(s) THEN Len(s) ELSE b
                IN IF lo > hi THEN "" ELSE SubSeq(s, lo, hi)            \* s[a..b] clipped to the string
From(s, a)   == Mid(s, a, Len(s))

(* ctypedescr_new_on_top(ct_base, extra_text, extra_position)                        *)
NewOnTop(b, extra, epos) ==
    [name |-> Mid(b.name, 1, b.pos) \o extra \o From(b.name, b.pos + 1),
     pos  |-> b.pos + epos]

Join(seq, sep) == LET RECURSIVE J(_) J(i) == IF i > Len(seq) THEN ""
                                             ELSE (IF i > 1 THEN sep ELSE "") \o seq[i] \o J(i + 1)
                  IN J(1)

(* The in-line FFI names an aggregate after the first typedef declared for it
   (StructOrUnionOrEnum.force_the_name, src/cffi/model.py; cparser.py:811): inl = TRUE.
   The compiled FFIs name it 'kind tag' (realize_c_type.c _realize_name): inl = FALSE.   *)
ForcedName == [s2 |-> "s2_t"]     \* an enum declared with its tag before the typedef keeps "enum tag" (EnumType.force_the_name)
RECURSIVE CTm(_, _)
\* fb_build_name(fb, repl = open-paren star close-paren, args, nargs, fresult, ellipsis), :5817
FbBuildName(res, argnames, ell) ==
    LET repl  == "(*)"
        head  == Mid(res.name, 1, res.pos)
        space == IF Mid(repl, 1, 1) # "(" /\ Mid(res.name, res.pos, res.pos) # "*" THEN " " ELSE ""
        args  == Join(argnames, ", ") \o
                 (IF ell THEN (IF Len(argnames) > 0 THEN ", " ELSE "") \o "..." ELSE "")
    IN [name |-> head \o space \o repl \o "(" \o args \o ")" \o From(res.name, res.pos + 1),
        pos  |-> res.pos + (Len(repl) - 1)]

CTm(t, inl) ==
    CASE t.k = "prim" -> [name |-> t.n, pos |-> Len(t.n)]
      [] t.k = "void" -> [name |-> "void", pos |-> 4]
      [] t.k \in {"struct", "union", "enum"} ->
            LET n == IF inl /\ t.tag \in DOMAIN ForcedName THEN ForcedName[t.tag] ELSE t.k \o " " \o t.tag
            IN [name |-> n, pos |-> Len(n)]
      [] t.k = "ptr" /\ t.t.k = "fn" ->
            FbBuildName(CTm(t.t.res, inl), [i \in 1..Len(t.t.args) |-> CTm(t.t.args[i], inl).name], t.t.ell)
      [] t.k = "ptr" ->                                   \* new_pointer_type
            NewOnTop(CTm(t.t, inl), IF t.t.k = "arr" THEN "(*)" ELSE " *", IF Variant = "name-pos" THEN 1 ELSE 2)
      [] t.k = "arr" ->                                   \* new_array_type
            LET txt == IF t.len = Open THEN "[]" ELSE "[" \o ToString(t.len) \o "]"
            IN NewOnTop(CTm(t.t, inl), IF Variant = "name-trunc" THEN Mid(txt, 1, 11) ELSE txt, 0)
CT(t)      == CTm(t, FALSE)
Name(t)    == CT(t).name
NamePos(t) == CT(t).pos

IsSpace(c) == c \in {" ", "\t", "\n", "\r"}
RECURSIVE LStrip(_)
LStrip(s) == IF Len(s) > 0 /\ IsSpace(Mid(s, 1, 1)) THEN LStrip(From(s, 2)) ELSE s
RECURSIVE RStrip(_)
RStrip(s) == IF Len(s) > 0 /\ IsSpace(Mid(s, Len(s), Len(s))) THEN RStrip(Mid(s, 1, Len(s) - 1)) ELSE s
Strip(s) == RStrip(LStrip(s))

(* ffi_getctype(self, cdecl, replace_with), src/c/ffi_obj.c:623 *)
InsertCm(t, x, inl) ==
    LET ct == CTm(t, inl)
        rw == Strip(x)
        addParen == Mid(rw, 1, 1) = "*" /\ t.k = "arr"
        addSpace == ~addParen /\ Len(rw) > 0 /\ Mid(rw, 1, 1) \notin {"[", "("}
    IN Mid(ct.name, 1, ct.pos) \o (IF addParen THEN "(" ELSE "") \o (IF addSpace THEN " " ELSE "")
       \o rw \o (IF addParen THEN ")" ELSE "") \o From(ct.name, ct.pos + 1)

(* FFI.getctype, src/cffi/api.py:398: the test is "'&[' in getcname(cdecl, '&')"      *)
InsertPym(t, x, inl) ==
    LET ct == CTm(t, inl)
        rw0 == Strip(x)
        markerBeforeBracket == Mid(ct.name, ct.pos + 1, ct.pos + 1) = "["
        rw == IF Mid(rw0, 1, 1) = "*" /\ markerBeforeBracket THEN "(" \o rw0 \o ")"
              ELSE IF Len(rw0) > 0 /\ Mid(rw0, 1, 1) \notin {"[", "("} THEN " " \o rw0
              ELSE rw0
    IN Mid(ct.name, 1, ct.pos) \o rw \o From(ct.name, ct.pos + 1)      \* b_getcname

InsertC(t, x)  == InsertCm(t, x, FALSE)
InsertPy(t, x) == InsertPym(t, x, FALSE)

-----------------------------------------------------------------------------
(* Bounded term universes for the exhaustive configurations.                         *)
RECURSIVE DepthOf(_)
DepthOf(t) == CASE t.k = "ptr" /\ t.t.k = "fn" -> 1 + DepthOf(t.t.res)
                [] t.k \in {"ptr", "arr"} -> 1 + DepthOf(t.t)
                [] OTHER -> 0

RECURSIVE Terms(_, _, _, _)
(* Terms(B, L, A, d): closure of the base set B under Ptr, Arr (lengths L) and pointer-to-
   function (parameter lists A, a fixed menu so that the number of function types stays
   linear), up to d constructors deep.                                               *)
Terms(B, L, A, d) ==
    IF d = 0 THEN B
    ELSE LET S == Terms(B, L, A, d - 1)
             R == {u \in S : u.k \notin {"arr", "fn"} /\ (u.k \in {"struct", "union"} => Complete(u))}
         IN S \cup {Ptr(t) : t \in S}
              \cup {Arr(t, l) : t \in {u \in S : Complete(u)}, l \in L}
              \cup {Ptr(Fn(r, a[1], a[2])) : r \in R, a \in A}
=============================================================================
