-------------------------------- MODULE Cdef --------------------------------
(* The declaration environment of a cffi FFI object as an abstract machine, and the
   projection Obs(env) = everything the public API lets a user observe about the
   declarations (ideal level).  This is the shared input space / oracle of the mode
   properties:
     C11  out-of-line ABI module  ==  in-line FFI        (CdefOol.tla)
     C34  ffi.include() shares declarations              (CdefInc.tla)
     C12  API-mode module reflects the C source          (CdefApi.tla)

   Type terms (tuples; the first component is the constructor):
     <<"void">>  <<"prim", name>>  <<"td", typedefname>>  <<"file">>          leaves
     <<"struct", tag>>  <<"union", tag>>  <<"enum", tag>>                      by-identity types
     <<"ptr", t>>  <<"arr", t, len>> (len = -1: open)  <<"fnp", res, <<args>>, ellipsis>>
   "td" nodes only occur in the arguments of actions (they are what the cdef text says);
   the environment stores resolved terms, exactly as cparser.py stores the model type
   object a typedef name stands for (cparser.py:_get_type_and_quals, first branch).

   Every action is split into a guard XxxG(env, args) ("cffi accepts this declaration
   and the property talks about it") and an effect XxxE(env, args), both pure, so that
   Trace_Cdef.tla can re-run recorded behaviours. *)
EXTENDS Integers, Sequences, FiniteSets, TLC

Open  == 0 - 1            \* length of an open array  t[]
Unk   == 0 - 1            \* unknown size / alignment (opaque, void, open array)

Void      == <<"void">>
File      == <<"file">>
Prim(p)   == <<"prim", p>>
Td(n)     == <<"td", n>>
Ptr(t)    == <<"ptr", t>>
Arr(t, n) == <<"arr", t, n>>
FnP(r, a, e) == <<"fnp", r, a, e>>

IsSU(t) == t[1] \in {"struct", "union"}
KeyStr(k) == k[1] \o " " \o k[2]             \* <<"struct","s1">> -> "struct s1"

EmptyFn == [x \in {} |-> 0]
\* TLC keeps [i \in 1..n |-> e] as an unevaluated closure (re-evaluated at every application, and
\* holding on to the environments it was built in); concatenation turns it into a plain tuple
Tup(f) == f \o <<>>
Fn(f) == f @@ EmptyFn                     \* the same for functions over other domains
Put(f, k, v) == (k :> v) @@ f

(* ------------------------------------------------------------------ string order (ASCII) *)
Chars == << " ", "$", "(", ")", "*", ",", "-", ".", "/",
            "0", "1", "2", "3", "4", "5", "6", "7", "8", "9", "<", ">",
            "A", "B", "C", "D", "E", "F", "G", "H", "I", "J", "K", "L", "M", "N", "O", "P", "Q",
            "R", "S", "T", "U", "V", "W", "X", "Y", "Z", "[", "]", "_",
            "a", "b", "c", "d", "e", "f", "g", "h", "i", "j", "k", "l", "m", "n", "o", "p", "q",
            "r", "s", "t", "u", "v", "w", "x", "y", "z" >>
Rank == [c \in {Chars[i] : i \in DOMAIN Chars} |-> CHOOSE i \in DOMAIN Chars : Chars[i] = c]
Digits == {"0", "1", "2", "3", "4", "5", "6", "7", "8", "9"}

RECURSIVE StrCmpFrom(_, _, _, _)
\* three-way comparison of a[1..n] (or all of a when shorter) with b, as strncmp(a, b, n)/strcmp
StrCmpFrom(a, b, i, n) ==
  IF i > n THEN 0
  ELSE IF i > Len(a) THEN (IF i > Len(b) THEN 0 ELSE 0 - 1)
  ELSE IF i > Len(b) THEN 1
  ELSE LET x == Rank[SubSeq(a, i, i)]
           y == Rank[SubSeq(b, i, i)]
       IN IF x < y THEN 0 - 1 ELSE IF x > y THEN 1 ELSE StrCmpFrom(a, b, i + 1, n)
StrLt(a, b) == StrCmpFrom(a, b, 1, Len(a) + Len(b)) < 0         \* Python's str <
StrLe(a, b) == StrCmpFrom(a, b, 1, Len(a) + Len(b)) <= 0

(* ------------------------------------------------------------------ platform (x86-64 SysV) *)
\* <<name, size (= alignment), index in cffi_opcode.py PRIM_xxx>>
PrimTab == << <<"_Bool", 1, 1>>, <<"char", 1, 2>>, <<"signed char", 1, 3>>, <<"unsigned char", 1, 4>>,
              <<"short", 2, 5>>, <<"unsigned short", 2, 6>>, <<"int", 4, 7>>, <<"unsigned int", 4, 8>>,
              <<"long", 8, 9>>, <<"unsigned long", 8, 10>>, <<"long long", 8, 11>>,
              <<"unsigned long long", 8, 12>>, <<"float", 4, 13>>, <<"double", 8, 14>>, <<"wchar_t", 4, 16>>,
              <<"int8_t", 1, 17>>, <<"uint8_t", 1, 18>>, <<"int16_t", 2, 19>>, <<"uint16_t", 2, 20>>,
              <<"int32_t", 4, 21>>, <<"uint32_t", 4, 22>>, <<"int64_t", 8, 23>>, <<"uint64_t", 8, 24>>,
              <<"intptr_t", 8, 25>>, <<"uintptr_t", 8, 26>>, <<"ptrdiff_t", 8, 27>>, <<"size_t", 8, 28>>,
              <<"ssize_t", 8, 29>> >>
PrimRow == [p \in {PrimTab[i][1] : i \in DOMAIN PrimTab} |-> CHOOSE i \in DOMAIN PrimTab : PrimTab[i][1] = p]
PrimSize == [p \in DOMAIN PrimRow |-> PrimTab[PrimRow[p]][2]]
KnownPrims == DOMAIN PrimSize
PtrSize == 8

(* ------------------------------------------------------------------ the environment *)
(* td : typedef name -> resolved term
   su : <<kind, tag>> -> [complete, fields = <<fname, term, bitsize>>*, force]
        tag "$name" = anonymous aggregate named by its typedef, "$N" = nested anonymous
        force = the name a typedef gave to the aggregate (model.py force_the_name), "" if none
   en : enum tag -> [names, vals, force]
   kc : integer constants declared by #define / static const (name -> value as text)
   fn : function name -> <<res, <<args>>, ellipsis>>
   gv : global variable name -> term
   inc: keys of declarations that came in through ffi.include() (C34)
   from: positions (in the chain of FFIs, C34) of the FFIs this one includes, in include() order
   anon: cparser.py _anonymous_counter: number of "$N" names given so far to nested anonymous
        aggregates ( struct s1 { struct { int x; } c; }; : the type of c is "struct $1" )          *)
EnvInit == [td |-> EmptyFn, su |-> EmptyFn, en |-> EmptyFn, kc |-> EmptyFn,
            fn |-> EmptyFn, gv |-> EmptyFn, inc |-> {}, anon |-> 0, from |-> <<>>]

OpaqueSU == [complete |-> FALSE, fields |-> <<>>, force |-> ""]

RECURSIVE Res(_, _)
Res(env, t) ==      \* replace typedef names by what they stand for
  CASE t[1] = "td"  -> env.td[t[2]]
    [] t[1] = "ptr" -> Ptr(Res(env, t[2]))
    [] t[1] = "arr" -> Arr(Res(env, t[2]), t[3])
    [] t[1] = "fnp" -> FnP(Res(env, t[2]), Tup([i \in DOMAIN t[3] |-> Res(env, t[3][i])]), t[4])
    [] OTHER -> t

RECURSIVE SUsOf(_)
SUsOf(t) ==         \* struct/union keys mentioned in a term (td nodes are not entered)
  CASE IsSU(t) -> {t}
    [] t[1] = "anon" -> UNION {SUsOf(t[3][i][2]) : i \in DOMAIN t[3]}
    [] t[1] \in {"ptr", "arr"} -> SUsOf(t[2])
    [] t[1] = "fnp" -> SUsOf(t[2]) \cup UNION {SUsOf(t[3][i]) : i \in DOMAIN t[3]}
    [] OTHER -> {}

RECURSIVE TdsOf(_)
TdsOf(t) ==
  CASE t[1] = "td" -> {t[2]}
    [] t[1] \in {"ptr", "arr"} -> TdsOf(t[2])
    [] t[1] = "fnp" -> TdsOf(t[2]) \cup UNION {TdsOf(t[3][i]) : i \in DOMAIN t[3]}
    [] OTHER -> {}

RECURSIVE EnumsOf(_)
EnumsOf(t) ==
  CASE t[1] = "enum" -> {t[2]}
    [] t[1] \in {"ptr", "arr"} -> EnumsOf(t[2])
    [] t[1] = "fnp" -> EnumsOf(t[2]) \cup UNION {EnumsOf(t[3][i]) : i \in DOMAIN t[3]}
    [] OTHER -> {}

(* mentioning "struct s2" anywhere declares it (opaque) if it is new:
   cparser.py:_get_struct_union_enum_type -> self._declare(key, tp) *)
Mention(su, keys) == Fn([k \in (DOMAIN su) \cup keys |-> IF k \in DOMAIN su THEN su[k] ELSE OpaqueSU])

TagsOf(env) == {k[2] : k \in DOMAIN env.su}
(* C has one tag namespace; cffi would accept "struct s1" and "union s1" side by side but
   such a cdef is not C, so the machine never produces it *)
KindOK(env, keys) == \A k \in keys : \A k2 \in (DOMAIN env.su) \cup keys : k2[2] = k[2] => k2 = k

(* ------------------------------------------------------------------ sizes and layout *)
AlignUp(x, a) == ((x + a - 1) \div a) * a
MaxOf(S) == CHOOSE x \in S : \A y \in S : y <= x

RECURSIVE SizeOf(_, _), AlignOf(_, _), BitPos(_, _, _)

IsNeg(v) == SubSeq(v, 1, 1) = "-"           \* constant values are decimal strings
\* model.py:EnumType.build_baseinttype: signed iff some value is negative; int / unsigned int while
\* all values fit, else long / unsigned long
EnumSigned(vals) == \E i \in DOMAIN vals : IsNeg(vals[i])
\* a <= b for decimal numerals without sign and without leading zeros
DecLe(a, b) == Len(a) < Len(b) \/ (Len(a) = Len(b) /\ StrLe(a, b))
Abs(v) == IF IsNeg(v) THEN SubSeq(v, 2, Len(v)) ELSE v
EnumSize(vals) ==
  IF EnumSigned(vals)
  THEN (IF \A i \in DOMAIN vals : IF IsNeg(vals[i]) THEN DecLe(Abs(vals[i]), "2147483648")
                                    ELSE DecLe(vals[i], "2147483647") THEN 4 ELSE 8)
  ELSE (IF \A i \in DOMAIN vals : DecLe(vals[i], "4294967295") THEN 4 ELSE 8)

\* an unnamed bit-field ("int :0;", "unsigned :3;") only takes room: it is not a member (no entry in
\* ctype.fields) and, with gcc on x86, does not raise the alignment of the struct
Unnamed(f) == f[1] = "" /\ f[3] # Unk
\* bit position where field i of a struct starts (no packing).  Bit-fields of the model are
\* int/unsigned x:n packed into 4-byte units by the gcc rule.
BitPos(env, fs, i) ==
  LET prevEnd == IF i = 1 THEN 0
                 ELSE LET p == BitPos(env, fs, i - 1)
                      IN IF fs[i - 1][3] = Unk THEN p + 8 * SizeOf(env, fs[i - 1][2]) ELSE p + fs[i - 1][3]
  IN IF fs[i][3] = Unk
     THEN 8 * AlignUp((prevEnd + 7) \div 8, AlignOf(env, fs[i][2]))
     ELSE LET u == 8 * SizeOf(env, fs[i][2])             \* bits of the storage unit of the declared type
          IN IF fs[i][3] = 0 THEN u * ((prevEnd + u - 1) \div u)     \* ":0" closes the current unit
             ELSE IF (prevEnd \div u) = ((prevEnd + fs[i][3] - 1) \div u) THEN prevEnd
             ELSE u * ((prevEnd + u - 1) \div u)

SizeOf(env, t) ==   \* t resolved; Unk when the size is not known
  CASE t[1] = "prim" -> PrimSize[t[2]]
    [] t[1] \in {"ptr", "fnp"} -> PtrSize
    [] t[1] = "enum" -> IF t[2] \in DOMAIN env.en THEN EnumSize(env.en[t[2]].vals) ELSE Unk
    [] t[1] = "arr" -> IF t[3] = Open \/ SizeOf(env, t[2]) = Unk THEN Unk ELSE t[3] * SizeOf(env, t[2])
    [] IsSU(t) ->
         IF t \notin DOMAIN env.su \/ ~env.su[t].complete THEN Unk
         ELSE LET fs == env.su[t].fields
                  n == Len(fs)
                  al == AlignOf(env, t)
                  endbit == IF fs[n][3] = Unk THEN BitPos(env, fs, n) + 8 * SizeOf(env, fs[n][2])
                            ELSE BitPos(env, fs, n) + fs[n][3]
              IN IF n = 0 THEN 0
                 ELSE IF t[1] = "struct" THEN AlignUp((endbit + 7) \div 8, al)
                 ELSE AlignUp(MaxOf({SizeOf(env, fs[i][2]) : i \in 1..n}), al)
    [] OTHER -> Unk

AlignOf(env, t) ==
  CASE t[1] = "prim" -> PrimSize[t[2]]
    [] t[1] \in {"ptr", "fnp"} -> PtrSize
    [] t[1] = "enum" -> SizeOf(env, t)
    [] t[1] = "arr" -> AlignOf(env, t[2])
    [] IsSU(t) ->
         IF t \notin DOMAIN env.su \/ ~env.su[t].complete THEN Unk
         ELSE LET fs == env.su[t].fields
                  named == {i \in DOMAIN fs : ~Unnamed(fs[i])}
              IN IF named = {} THEN 1 ELSE MaxOf({AlignOf(env, fs[i][2]) : i \in named})
    [] OTHER -> Unk

(* a type that can be a field, an array item, a variable, an argument: complete object type *)
Complete(env, t) == SizeOf(env, t) # Unk

(* ------------------------------------------------------------------ well-formedness *)
RECURSIVE WF(_, _)
WF(env, t) ==       \* t as written in a declaration (may contain td nodes)
  CASE t[1] = "void" -> TRUE
    [] t[1] = "file" -> TRUE
    [] t[1] = "prim" -> t[2] \in KnownPrims
    [] t[1] = "td"   -> t[2] \in DOMAIN env.td
    [] IsSU(t)       -> TRUE
    [] t[1] = "enum" -> t[2] \in DOMAIN env.en
    [] t[1] = "ptr"  -> WF(env, t[2])
    [] t[1] = "arr"  -> WF(env, t[2]) /\ (t[3] = Open \/ t[3] >= 0)
                        /\ Complete(env, Res(env, t[2])) /\ Res(env, t[2])[1] # "void"
    [] t[1] = "fnp"  -> /\ WF(env, t[2])
                        /\ Res(env, t[2])[1] \notin {"arr", "file"}
                        /\ (Res(env, t[2]) = Void \/ Complete(env, Res(env, t[2])))
                        /\ \A i \in DOMAIN t[3] : /\ WF(env, t[3][i])
                                                  /\ Complete(env, Res(env, t[3][i]))
                                                  /\ Res(env, t[3][i])[1] # "arr"
    [] OTHER -> FALSE

(* ------------------------------------------------------------------ recursive declarations *)
(* model.py builds the ctype of a struct's field types when the struct is finished; a pointer
   directly to a struct/union delays that struct (PointerType.build_backend_type, can_delay=True),
   everything else - by value, array item, function argument/result, pointer to anything that is
   not itself a struct/union - is needed at once.  A struct that needs itself at once cannot be
   finished in-line ("recursive structure declaration"): such cdefs are outside the property. *)
RECURSIVE NeedsNow(_)
NeedsNow(t) ==
  CASE IsSU(t) -> {t}
    [] t[1] = "arr" -> NeedsNow(t[2])
    [] t[1] = "ptr" -> IF IsSU(t[2]) THEN {} ELSE NeedsNow(t[2])
    [] t[1] = "fnp" -> NeedsNow(t[2]) \cup UNION {NeedsNow(t[3][i]) : i \in DOMAIN t[3]}
    [] OTHER -> {}
FieldNeeds(su, key) == IF key \in DOMAIN su /\ su[key].complete
                       THEN UNION {NeedsNow(su[key].fields[i][2]) : i \in DOMAIN su[key].fields} ELSE {}
RECURSIVE NeedsClosure(_, _)
NeedsClosure(su, S) == LET S2 == S \cup UNION {FieldNeeds(su, k) : k \in S}
                       IN IF S2 = S THEN S ELSE NeedsClosure(su, S2)
InlineRecursive(su, key) == key \in NeedsClosure(su, FieldNeeds(su, key))
NoInlineRecursion(ev) == \A key \in DOMAIN ev.su : ~InlineRecursive(ev.su, key)

(* ------------------------------------------------------------------ actions: guard / effect *)
\* typedef <t> n;
DeclTypedefG(env, n, t) ==
  /\ n \notin DOMAIN env.td
  /\ WF(env, t) /\ t # Void
  /\ KindOK(env, SUsOf(t))
DeclTypedefE(env, n, t) ==
  LET rt  == Res(env, t)
      su1 == Mention(env.su, SUsOf(t))
      \* "typedef struct s1 n;" names the aggregate n if nothing named it before
      \* (cparser.py:_get_struct_union_enum_type: if not tp.forcename: tp.force_the_name(force_name));
      \* enums declared on their own already carry the force name "$enum_tag" (model.py:505)
      su2 == IF IsSU(t) /\ su1[t].force = "" THEN [su1 EXCEPT ![t].force = n] ELSE su1
  IN [env EXCEPT !.td = Put(@, n, rt), !.su = su2]

\* typedef struct { fields } n;      (anonymous aggregate named by its typedef: tag "$n")
\* A field is <<name, type, bitsize>>; its type may be <<"anon", kind, <<plain fields>>>>: an
\* anonymous aggregate defined in place ( struct { int x; } c; ), which cparser.py names "$N".
IsAnon(t) == t[1] = "anon"
PlainFieldG(env, self, f) ==
  /\ WF(env, f[2]) /\ ~IsAnon(f[2])
  /\ Complete(env, Res(env, f[2]))                 \* a field needs a complete type
  /\ self \notin SUsOf(Res(env, f[2])) \/ Res(env, f[2])[1] \in {"ptr", "fnp"}
  /\ \/ f[3] = Unk /\ f[1] # ""
     \/ f[3] \in 1..32 /\ Res(env, f[2]) \in {Prim("int"), Prim("unsigned int")}
     \/ f[3] = 0 /\ f[1] = "" /\ Res(env, f[2]) \in {Prim("int"), Prim("unsigned int"), Prim("long long")}
FieldsG(env, self, fs) ==
  /\ Len(fs) >= 1
  /\ \A i \in DOMAIN fs :
       IF IsAnon(fs[i][2])
       THEN /\ fs[i][3] = Unk /\ fs[i][2][2] \in {"struct", "union"} /\ Len(fs[i][2][3]) >= 1
            /\ \A j \in DOMAIN fs[i][2][3] : PlainFieldG(env, self, fs[i][2][3][j])
            /\ \A j, j2 \in DOMAIN fs[i][2][3] : j # j2 => fs[i][2][3][j][1] # fs[i][2][3][j2][1]
       ELSE PlainFieldG(env, self, fs[i])
  /\ \A i, j \in DOMAIN fs : i # j /\ fs[i][1] # "" => fs[i][1] # fs[j][1]
  /\ \E i \in DOMAIN fs : ~Unnamed(fs[i])
  /\ KindOK(env, {self} \cup UNION {SUsOf(fs[i][2]) : i \in DOMAIN fs})
ResFields(env, fs) == Tup([i \in DOMAIN fs |-> <<fs[i][1], Res(env, fs[i][2]), fs[i][3]>>])
FieldSUs(fs) == UNION {SUsOf(fs[i][2]) : i \in DOMAIN fs}
\* naming the anonymous aggregates of a field list: the k-th one gets "$(anon + k)"
AnonIdx(fs, i) == Cardinality({j \in 1..i : IsAnon(fs[j][2])})
AnonKey(env, fs, i) == <<fs[i][2][2], "$" \o ToString(env.anon + AnonIdx(fs, i))>>
Lifted(env, fs) == Tup([i \in DOMAIN fs |-> IF IsAnon(fs[i][2]) THEN <<fs[i][1], AnonKey(env, fs, i), fs[i][3]>> ELSE fs[i]])
WithAnons(env, su, fs) ==
  LET idx == {i \in DOMAIN fs : IsAnon(fs[i][2])}
      keys == {AnonKey(env, fs, i) : i \in idx}
      of(key) == CHOOSE i \in idx : AnonKey(env, fs, i) = key
  IN Fn([k \in (DOMAIN su) \cup keys |->
        IF k \in keys THEN [complete |-> TRUE, fields |-> ResFields(env, fs[of(k)][2][3]), force |-> ""] ELSE su[k]])
NAnon(fs) == Cardinality({i \in DOMAIN fs : IsAnon(fs[i][2])})

DeclTypedefAnonE(env, n, kind, fs) ==
  LET key == <<kind, "$" \o n>>
      su1 == WithAnons(env, Mention(env.su, FieldSUs(fs)), fs)
  IN [env EXCEPT !.td = Put(@, n, key),
                 !.su = Put(su1, key, [complete |-> TRUE, fields |-> ResFields(env, Lifted(env, fs)), force |-> n]),
                 !.anon = @ + NAnon(fs)]
DeclTypedefAnonG(env, n, kind, fs) ==
  /\ n \notin DOMAIN env.td
  /\ <<kind, "$" \o n>> \notin DOMAIN env.su
  /\ FieldsG(env, <<kind, "$" \o n>>, fs)
  /\ NoInlineRecursion(DeclTypedefAnonE(env, n, kind, fs))

\* struct s1;
DeclFwdG(env, kind, tag) == <<kind, tag>> \notin DOMAIN env.su /\ KindOK(env, {<<kind, tag>>})
DeclFwdE(env, kind, tag) == [env EXCEPT !.su = Mention(@, {<<kind, tag>>})]

\* struct s1 { fields };
DeclStructE(env, kind, tag, fs) ==
  LET key == <<kind, tag>>
      su1 == WithAnons(env, Mention(env.su, {key} \cup FieldSUs(fs)), fs)
  IN [env EXCEPT !.su = [su1 EXCEPT ![key].complete = TRUE, ![key].fields = ResFields(env, Lifted(env, fs))],
                 !.anon = @ + NAnon(fs)]
DeclStructG(env, kind, tag, fs) ==
  /\ <<kind, tag>> \in DOMAIN env.su => ~env.su[<<kind, tag>>].complete
  /\ <<kind, tag>> \notin env.inc
  /\ FieldsG(env, <<kind, tag>>, fs)
  /\ NoInlineRecursion(DeclStructE(env, kind, tag, fs))

\* enum e1 { A, B = 5 };
AllConsts(env) == (DOMAIN env.kc) \cup UNION {{env.en[e].names[i] : i \in DOMAIN env.en[e].names} : e \in DOMAIN env.en}
\* model.py:build_baseinttype: "values don't all fit into either 'long' or 'unsigned long'" otherwise
EnumFits(vals) ==
  IF EnumSigned(vals)
  THEN \A i \in DOMAIN vals : IF IsNeg(vals[i]) THEN DecLe(Abs(vals[i]), "9223372036854775808")
                                ELSE DecLe(vals[i], "9223372036854775807")
  ELSE \A i \in DOMAIN vals : DecLe(vals[i], "18446744073709551615")
DeclEnumG(env, tag, names, vals) ==
  /\ tag \notin DOMAIN env.en
  /\ Len(names) = Len(vals) /\ Len(names) >= 1
  /\ EnumFits(vals)
  /\ \A i, j \in DOMAIN names : i # j => names[i] # names[j]
  /\ \A i \in DOMAIN names : names[i] \notin AllConsts(env)
DeclEnumE(env, tag, names, vals) ==
  [env EXCEPT !.en = Put(@, tag, [names |-> names, vals |-> vals, force |-> ""])]

\* #define k1 7      /     static const int k1 = 7;     (both end up as 'macro k1': cparser.py:465)
DeclConstG(env, form, name, val) == name \notin AllConsts(env) /\ form \in {"define", "static"}
DeclConstE(env, form, name, val) == [env EXCEPT !.kc = Put(@, name, val)]

\* res f1(args);
DeclFuncG(env, name, res, args, ell) ==
  /\ name \notin (DOMAIN env.fn) \cup (DOMAIN env.gv)
  /\ WF(env, FnP(res, args, ell))
  /\ KindOK(env, SUsOf(FnP(res, args, ell)))
  /\ ell => Len(args) >= 1
DeclFuncE(env, name, res, args, ell) ==
  LET t == FnP(res, args, ell)
  IN [env EXCEPT !.fn = Put(@, name, Res(env, t)), !.su = Mention(@, SUsOf(t))]

\* extern t g1;
DeclGlobalG(env, name, t) ==
  /\ name \notin (DOMAIN env.fn) \cup (DOMAIN env.gv)
  /\ WF(env, t) /\ Complete(env, Res(env, t))
  /\ KindOK(env, SUsOf(t))
DeclGlobalE(env, name, t) ==
  [env EXCEPT !.gv = Put(@, name, Res(env, t)), !.su = Mention(@, SUsOf(t))]

(* ------------------------------------------------------------------ behaviours as data *)
\* an action as a record [a |-> name, ...] (harness/modes_gen.py:ARGNAMES), for trace validation
Guard(ev, a) ==
  CASE a.a = "DeclTypedef"     -> DeclTypedefG(ev, a.n, a.t)
    [] a.a = "DeclTypedefAnon" -> DeclTypedefAnonG(ev, a.n, a.kind, a.fs)
    [] a.a = "DeclFwd"         -> DeclFwdG(ev, a.kind, a.tag)
    [] a.a = "DeclStruct"      -> DeclStructG(ev, a.kind, a.tag, a.fs)
    [] a.a = "DeclEnum"        -> DeclEnumG(ev, a.tag, a.names, a.vals)
    [] a.a = "DeclConst"       -> DeclConstG(ev, a.form, a.n, a.val)
    [] a.a = "DeclFunc"        -> DeclFuncG(ev, a.n, a.res, a.args, a.ell)
    [] a.a = "DeclGlobal"      -> DeclGlobalG(ev, a.n, a.t)
    [] OTHER -> FALSE
Effect(ev, a) ==
  CASE a.a = "DeclTypedef"     -> DeclTypedefE(ev, a.n, a.t)
    [] a.a = "DeclTypedefAnon" -> DeclTypedefAnonE(ev, a.n, a.kind, a.fs)
    [] a.a = "DeclFwd"         -> DeclFwdE(ev, a.kind, a.tag)
    [] a.a = "DeclStruct"      -> DeclStructE(ev, a.kind, a.tag, a.fs)
    [] a.a = "DeclEnum"        -> DeclEnumE(ev, a.tag, a.names, a.vals)
    [] a.a = "DeclConst"       -> DeclConstE(ev, a.form, a.n, a.val)
    [] a.a = "DeclFunc"        -> DeclFuncE(ev, a.n, a.res, a.args, a.ell)
    [] a.a = "DeclGlobal"      -> DeclGlobalE(ev, a.n, a.t)

RECURSIVE Run(_, _, _)
Run(beh, i, ev) ==
  IF i > Len(beh) THEN [env |-> ev, bad |-> 0]
  ELSE IF Guard(ev, beh[i]) THEN Run(beh, i + 1, Effect(ev, beh[i]))
  ELSE [env |-> ev, bad |-> i]


(* ------------------------------------------------------------------ the ideal projection *)
(* Normal form of a ctype: aggregates are leaves carrying their ctype name; everything else is
   structure.  Two ctypes with the same normal form that contain no aggregate are the same
   object (the backend's unique cache, C27); with aggregates they are the same object iff the
   aggregates are. *)
AggName(env, key) ==    \* model.py:build_c_name_with_marker
  IF env.su[key].force # "" THEN env.su[key].force ELSE KeyStr(key)
EnumName(env, tag) == IF env.en[tag].force # "" THEN env.en[tag].force ELSE "enum " \o tag

RECURSIVE Norm(_, _)
Norm(env, t) ==
  CASE IsSU(t) -> <<t[1], AggName(env, t)>>
    [] t[1] = "enum" -> <<"enum", EnumName(env, t[2])>>
    [] t[1] = "file" -> <<"struct", "FILE">>
    [] t[1] = "ptr" -> Ptr(Norm(env, t[2]))
    [] t[1] = "arr" -> Arr(Norm(env, t[2]), t[3])
    [] t[1] = "fnp" -> FnP(Norm(env, t[2]), Tup([i \in DOMAIN t[3] |-> Norm(env, t[3][i])]), t[4])
    [] OTHER -> t

RECURSIVE NoAgg(_)
NoAgg(t) ==         \* no struct/union/enum inside: the ctype object is global
  CASE t[1] \in {"struct", "union", "enum", "file"} -> FALSE
    [] t[1] \in {"ptr", "arr"} -> NoAgg(t[2])
    [] t[1] = "fnp" -> NoAgg(t[2]) /\ \A i \in DOMAIN t[3] : NoAgg(t[3][i])
    [] OTHER -> TRUE

HasBits(fs) == \E i \in DOMAIN fs : fs[i][3] # Unk

\* the entries of seq (one per declared field of fs) that belong to members
RECURSIVE MembersFrom(_, _, _)
MembersFrom(seq, fs, i) == IF i > Len(fs) THEN <<>>
                           ELSE (IF Unnamed(fs[i]) THEN <<>> ELSE <<seq[i]>>) \o MembersFrom(seq, fs, i + 1)
Members(seq, fs) == MembersFrom(seq, fs, 1)
AggObs(env, key) ==
  LET s  == env.su[key]
      fs == s.fields
      n  == Len(fs)
      off(i) == IF key[1] = "union" THEN 0
                ELSE IF fs[i][3] = Unk THEN BitPos(env, fs, i) \div 8
                ELSE 4 * (BitPos(env, fs, i) \div 32)
      shift(i) == IF fs[i][3] = Unk THEN Unk ELSE IF key[1] = "union" THEN 0 ELSE BitPos(env, fs, i) % 32
  IN [ name |-> AggName(env, key), kind |-> key[1], complete |-> s.complete,
       \* <<name, type, offset, bit shift, bit size>>
       fields |-> Members(Tup([i \in 1..n |-> << fs[i][1], Norm(env, fs[i][2]), off(i), shift(i), fs[i][3] >>]), fs),
       size |-> SizeOf(env, key), align |-> AlignOf(env, key) ]

EnumObs(env, tag) ==
  LET e == env.en[tag]
  IN [ name |-> EnumName(env, tag), names |-> e.names, vals |-> e.vals,
       signed |-> EnumSigned(e.vals), size |-> EnumSize(e.vals) ]

\* list_types(): api.py:776 ; anonymous aggregates ("$...") are not in 'struct '/'union ' keys
ListTypes(env) ==
  << DOMAIN env.td,
     {k[2] : k \in {k2 \in DOMAIN env.su : k2[1] = "struct" /\ SubSeq(k2[2], 1, 1) # "$"}},
     {k[2] : k \in {k2 \in DOMAIN env.su : k2[1] = "union"  /\ SubSeq(k2[2], 1, 1) # "$"}} >>

ConstVal(env, name) ==
  IF name \in DOMAIN env.kc THEN env.kc[name]
  ELSE LET e == CHOOSE e \in DOMAIN env.en : \E i \in DOMAIN env.en[e].names : env.en[e].names[i] = name
           i == CHOOSE i \in DOMAIN env.en[e].names : env.en[e].names[i] = name
       IN env.en[e].vals[i]

SUOfStr(env, s) == CHOOSE k \in DOMAIN env.su : KeyStr(k) = s
\* nested anonymous aggregates "$N" cannot be asked for by name; they show in their parent's fields
Queryable(key) == ~(Len(key[2]) >= 2 /\ SubSeq(key[2], 1, 1) = "$" /\ SubSeq(key[2], 2, 2) \in Digits)

Obs(env) ==
  [ td |-> [n \in DOMAIN env.td |-> Norm(env, env.td[n])],
    su |-> [s \in {KeyStr(k) : k \in DOMAIN env.su} |-> AggObs(env, SUOfStr(env, s))],
    en |-> [e \in DOMAIN env.en |-> EnumObs(env, e)],
    k  |-> [c \in AllConsts(env) |-> ConstVal(env, c)],
    fn |-> [f \in DOMAIN env.fn |-> Norm(env, env.fn[f])],
    gv |-> [g \in DOMAIN env.gv |-> Norm(env, env.gv[g])],
    lt |-> ListTypes(env) ]

(* ------------------------------------------------------------------ exploration machine *)
CONSTANTS TdNames,        \* set of typedef names, used in alphabetical order (symmetry by construction)
          Tags,           \* set of struct/union tags
          EnumTags, ConstNames, FuncNames, GlobNames,      \* sets of names
          Prims,          \* set of primitive type names offered
          Feat,           \* set of enabled features
          MaxDecls

VARIABLES cenv, hist
vars == <<cenv, hist>>

Fresh(pool, used) ==    \* the alphabetically first unused name of a pool, as a set of 0 or 1 elements
  LET free == pool \ used
  IN IF free = {} THEN {} ELSE {CHOOSE x \in free : \A y \in free : StrLe(x, y)}

\* leaves a declaration may mention
Leaves(e) ==
  {Prim(p) : p \in Prims}
  \cup {Td(n) : n \in DOMAIN e.td}
  \cup {<<k, g>> : k \in (IF "union" \in Feat THEN {"struct", "union"} ELSE {"struct"}),
                   g \in (TagsOf(e) \cap Tags) \cup Fresh(Tags, TagsOf(e))}
  \cup {<<"enum", g>> : g \in DOMAIN e.en}
  \cup (IF "file" \in Feat THEN {File} ELSE {})

LenBoundary == {1, 2, 127, 128, 130, 200, 255, 256, 1000, 65535, 65736}
Cands(e) ==
  LET L == Leaves(e)
  IN  L \cup {Ptr(l) : l \in L \cup {Void}}
        \cup (IF "pp" \in Feat THEN {Ptr(Ptr(Prim("char")))} ELSE {})
        \cup (IF "arr" \in Feat THEN {Arr(Prim("int"), 3), Ptr(Arr(Prim("char"), 2))} ELSE {})
        \* array lengths around the byte boundaries of the 4-byte length slot (low byte < / >= 0x80,
        \* one, two, three significant bytes)
        \cup (IF "biglen" \in Feat THEN {Arr(Prim("char"), n) : n \in LenBoundary} \cup {Ptr(Arr(Prim("char"), 200))} ELSE {})
        \cup (IF "fnp" \in Feat
              THEN {FnP(Prim("int"), <<a>>, FALSE) : a \in {l \in L : l[1] \in {"prim", "td"}} \cup {Ptr(l) : l \in {x \in L : IsSU(x) \/ x = File}}}
                   \cup {FnP(Void, <<>>, FALSE), FnP(Prim("int"), <<Prim("int"), Ptr(Prim("char"))>>, TRUE)}
              ELSE {})

FieldNames == <<"a", "b", "c">>
\* field lists offered: one or two fields out of the candidates (second field from a smaller set)
FieldLists(e, selfptr) ==
  LET C1 == {c \in Cands(e) : c # File /\ c # Void}
      C2 == {Prim("char")} \cup selfptr \cup (IF "arr" \in Feat THEN {Arr(Prim("int"), 3)} ELSE {})
      B  == IF "bits" \in Feat THEN {<< <<"a", Prim("char"), Unk>>, <<"", Prim("int"), 0>>, <<"b", Prim("char"), Unk>> >>,
                                     << <<"a", Prim("char"), Unk>>, <<"", Prim("unsigned int"), 3>>, <<"b", Prim("int"), 5>> >>,
                                     << <<"a", Prim("char"), Unk>>, <<"", Prim("long long"), 0>>, <<"b", Prim("char"), Unk>> >>} \cup {<< <<"a", Prim("int"), 3>>, <<"b", Prim("int"), 30>>, <<"c", Prim("char"), Unk>> >>,
                                     << <<"a", Prim("char"), Unk>>, <<"b", Prim("unsigned int"), 5>> >>} ELSE {}
      N  == IF "nested" \in Feat
            THEN {<< <<"a", <<"anon", "struct", << <<"x", Prim("int"), Unk>>, <<"y", Prim("char"), Unk>> >> >>, Unk>>,
                     <<"b", Prim("char"), Unk>> >>,
                  << <<"a", Prim("char"), Unk>>,
                     <<"b", <<"anon", "union", << <<"x", Prim("int"), Unk>>, <<"y", Ptr(Prim("char")), Unk>> >> >>, Unk>>,
                     <<"c", <<"anon", "struct", << <<"x", Prim("char"), Unk>> >> >>, Unk>> >>}
                 \cup {<< <<"a", <<"anon", "struct", << <<"x", p, Unk>> >> >>, Unk>> >> : p \in selfptr}
            ELSE {}
  IN {<< <<"a", c, Unk>> >> : c \in C1} \cup {<< <<"a", c, Unk>>, <<"b", d, Unk>> >> : c \in C1, d \in C2} \cup B \cup N

\* the 64-bit boundaries (decimal text: TLC integers are 32-bit): 0, +-1, +-2^31, 2^32-1, 2^32,
\* +-(2^63-1), -2^63, 2^63, 2^64-1
Boundary == {"0", "1", "-1", "2147483648", "-2147483648", "4294967295", "4294967296",
             "9223372036854775807", "-9223372036854775807", "-9223372036854775808",
             "9223372036854775808", "18446744073709551615"}
EnumShapes ==
  { << <<"A">>, <<"0">> >>, << <<"A", "B">>, <<"0", "5">> >>, << <<"A", "B">>, <<"-1", "1">> >> }
  \cup (IF "bigconst" \in Feat
        THEN {<< <<"A">>, <<v>> >> : v \in Boundary}                       \* base type int .. unsigned long
             \cup {<< <<"A", "B">>, <<"0", "18446744073709551615">> >>, << <<"A", "B">>, <<"-1", "9223372036854775807">> >>,
                   << <<"A", "B">>, <<"-9223372036854775808", "2147483648">> >>, << <<"A", "B">>, <<"9223372036854775808", "1">> >>}
        ELSE {})
EnumNames(tag, ns) == [i \in DOMAIN ns |-> tag \o ns[i]]       \* e1A, e1B: unique per enum
ConstVals == IF "bigconst" \in Feat THEN Boundary \cup {"7"} ELSE IF "zero" \in Feat THEN {"7", "-3", "0"} ELSE {"7", "-3"}

Log(name, args) == Len(hist) < MaxDecls /\ hist' = Append(hist, <<name, args>>)

DeclTypedef(n, t) == DeclTypedefG(cenv, n, t) /\ cenv' = DeclTypedefE(cenv, n, t) /\ Log("DeclTypedef", <<n, t>>)
DeclTypedefAnon(n, kind, fs) == DeclTypedefAnonG(cenv, n, kind, fs) /\ cenv' = DeclTypedefAnonE(cenv, n, kind, fs)
                                /\ Log("DeclTypedefAnon", <<n, kind, fs>>)
DeclFwd(kind, tag) == DeclFwdG(cenv, kind, tag) /\ cenv' = DeclFwdE(cenv, kind, tag) /\ Log("DeclFwd", <<kind, tag>>)
DeclStruct(kind, tag, fs) == DeclStructG(cenv, kind, tag, fs) /\ cenv' = DeclStructE(cenv, kind, tag, fs)
                             /\ Log("DeclStruct", <<kind, tag, fs>>)
DeclEnum(tag, names, vals) == DeclEnumG(cenv, tag, names, vals) /\ cenv' = DeclEnumE(cenv, tag, names, vals)
                              /\ Log("DeclEnum", <<tag, names, vals>>)
DeclConst(form, name, val) == DeclConstG(cenv, form, name, val) /\ cenv' = DeclConstE(cenv, form, name, val)
                              /\ Log("DeclConst", <<form, name, val>>)
DeclFunc(name, res, args, ell) == DeclFuncG(cenv, name, res, args, ell) /\ cenv' = DeclFuncE(cenv, name, res, args, ell)
                                  /\ Log("DeclFunc", <<name, res, args, ell>>)
DeclGlobal(name, t) == DeclGlobalG(cenv, name, t) /\ cenv' = DeclGlobalE(cenv, name, t) /\ Log("DeclGlobal", <<name, t>>)

Kinds == IF "union" \in Feat THEN {"struct", "union"} ELSE {"struct"}

Init == cenv = EnvInit /\ hist = <<>>
Next ==
  \/ \E n \in Fresh(TdNames, DOMAIN cenv.td), t \in Cands(cenv) : DeclTypedef(n, t)
  \/ \E n \in Fresh(TdNames, DOMAIN cenv.td), k \in Kinds, fs \in FieldLists(cenv, {}) :
         "anon" \in Feat /\ DeclTypedefAnon(n, k, fs)
  \/ \E k \in Kinds, g \in Fresh(Tags, TagsOf(cenv)) : "fwd" \in Feat /\ DeclFwd(k, g)
  \/ \E k \in Kinds, g \in (TagsOf(cenv) \cap Tags) \cup Fresh(Tags, TagsOf(cenv)) :
         \E fs \in FieldLists(cenv, {Ptr(<<k, g>>)}) : DeclStruct(k, g, fs)
  \/ \E g \in Fresh(EnumTags, DOMAIN cenv.en), sh \in EnumShapes : DeclEnum(g, EnumNames(g, sh[1]), sh[2])
  \/ \E c \in Fresh(ConstNames, DOMAIN cenv.kc), f \in {"define", "static"}, v \in ConstVals : DeclConst(f, c, v)
  \/ \E f \in Fresh(FuncNames, DOMAIN cenv.fn), r \in {c \in Cands(cenv) : c[1] \notin {"arr", "fnp"}} \cup {Void} :
         DeclFunc(f, r, <<>>, FALSE)
  \/ \E f \in Fresh(FuncNames, DOMAIN cenv.fn), a \in {c \in Cands(cenv) : c[1] # "arr"} :
         DeclFunc(f, Prim("int"), <<a>>, FALSE)
  \/ \E f \in Fresh(FuncNames, DOMAIN cenv.fn) :
         "fnp" \in Feat /\ DeclFunc(f, Ptr(Void), <<Prim("int"), Ptr(Prim("char"))>>, TRUE)
  \/ \E g \in Fresh(GlobNames, DOMAIN cenv.gv), t \in Cands(cenv) : DeclGlobal(g, t)

Spec == Init /\ [][Next]_vars
View == cenv
\* used as a CONSTRAINT: prints every explored behaviour once (hist is part of the state, so
\* without VIEW every sequence of declarations is a state of its own)
EmitBeh == PrintT(<<"BEH", hist>>)
=============================================================================
