------------------------------ MODULE CompareIdeal ------------------------------
(* C17 - the property itself.

   A comparand is [cd, ptr, v]: cd = it is a cdata; ptr = it is a pointer / array / struct /
   function cdata; v = what it stands for:
     [k |-> "addr", a]                     the address of a pointer-like cdata, 4 limbs of 16 bits,
                                           most significant first
     [k |-> "num", c, neg, e, m]           the Python number a primitive cdata converts to / a Python
                                           int, bool or float: c \in {"zero","fin","inf","nan"};
                                           for "fin": |x| = 0.m * 2^(e+1) with m the binary digits,
                                           first digit 1, no trailing zeros  (exact for ints of any
                                           size and for every double)
     [k |-> "cplx", re, im]                a Python complex (re, im are "num" values)
     [k |-> "bytes", u] / [k |-> "str", u] a bytes / str value (sequence of bytes / code points)
     [k |-> "opaque"]                      a primitive cdata that converts to no Python value
                                           (long double): nothing is demanded
   Outcomes of a comparison: "T", "F" or the name of the exception raised.

   The statement: (1) a == b => hash(a) = hash(b) whenever at least one is a cdata; (2) pointer-like
   cdata compare with each other as their addresses do; (3) primitive cdata compare (with each other
   and with Python values) and hash exactly as the Python value they convert to.  Comparisons of a
   pointer-like cdata with anything else are constrained by (1) only.                          *)
EXTENDS Integers, Sequences

Ops == <<"eq", "ne", "lt", "le", "gt", "ge">>

\* ---- three-way comparison of sequences of naturals (not recursive: TLC's stack is small).
\*      padded: the shorter one continues with zeros (binary digits); otherwise a proper prefix is smaller
SeqCmp(x, y, padded) ==
  LET n    == IF Len(x) > Len(y) THEN Len(x) ELSE Len(y)
      pad  == IF padded THEN 0 ELSE 0 - 1
      X(i) == IF i <= Len(x) THEN x[i] ELSE pad
      Y(i) == IF i <= Len(y) THEN y[i] ELSE pad
      d    == {i \in 1..n : X(i) # Y(i)}
  IN IF d = {} THEN 0
     ELSE LET k == CHOOSE i \in d : \A j \in d : i <= j IN IF X(k) < Y(k) THEN 0 - 1 ELSE 1

\* ---- exact order of numbers: -1, 0, 1, or 2 = unordered (NaN involved)
MagCmp(x, y) ==        \* both "fin"/"inf"/"zero", compares |x| with |y|
  CASE x.c = "zero" /\ y.c = "zero" -> 0
    [] x.c = "zero" -> 0 - 1
    [] y.c = "zero" -> 1
    [] x.c = "inf" /\ y.c = "inf" -> 0
    [] x.c = "inf" -> 1
    [] y.c = "inf" -> 0 - 1
    [] OTHER -> IF x.e < y.e THEN 0 - 1 ELSE IF x.e > y.e THEN 1 ELSE SeqCmp(x.m, y.m, TRUE)
Sign(x) == IF x.c = "zero" THEN 0 ELSE IF x.neg THEN 0 - 1 ELSE 1
NumCmp(x, y) ==
  IF x.c = "nan" \/ y.c = "nan" THEN 2
  ELSE IF Sign(x) < Sign(y) THEN 0 - 1
  ELSE IF Sign(x) > Sign(y) THEN 1
  ELSE IF Sign(x) = 0 THEN 0
  ELSE IF Sign(x) > 0 THEN MagCmp(x, y) ELSE MagCmp(y, x)

IsZeroNum(x) == x.c = "zero"
\* ---- Python's comparison of two values: <<order or 2 (unordered) or 3 (not comparable for order), equal>>
PyEq(x, y) ==
  CASE x.k = "num" /\ y.k = "num" -> NumCmp(x, y) = 0
    [] x.k = "cplx" /\ y.k = "cplx" -> NumCmp(x.re, y.re) = 0 /\ NumCmp(x.im, y.im) = 0
    [] x.k = "cplx" /\ y.k = "num" -> NumCmp(x.re, y) = 0 /\ IsZeroNum(x.im)
    [] x.k = "num" /\ y.k = "cplx" -> NumCmp(x, y.re) = 0 /\ IsZeroNum(y.im)
    [] x.k = "bytes" /\ y.k = "bytes" -> x.u = y.u
    [] x.k = "str" /\ y.k = "str" -> x.u = y.u
    [] OTHER -> FALSE
Ordered(x, y) == \/ x.k = "num" /\ y.k = "num"
                 \/ x.k = "bytes" /\ y.k = "bytes"
                 \/ x.k = "str" /\ y.k = "str"
PyOrd(x, y) == IF x.k = "num" THEN NumCmp(x, y) ELSE SeqCmp(x.u, y.u, FALSE)
B(c) == IF c THEN "T" ELSE "F"
PyCompare(x, y, op) ==
  CASE op = "eq" -> B(PyEq(x, y))
    [] op = "ne" -> B(~PyEq(x, y))
    [] ~Ordered(x, y) -> "TypeError"
    [] op = "lt" -> B(PyOrd(x, y) = 0 - 1)
    [] op = "le" -> B(PyOrd(x, y) \in {0 - 1, 0})
    [] op = "gt" -> B(PyOrd(x, y) = 1)
    [] op = "ge" -> B(PyOrd(x, y) \in {0, 1})

AddrCmp(x, y) == SeqCmp(x.a, y.a, FALSE)          \* addresses as unsigned integers
AddrCompare(x, y, op) ==
  LET c == AddrCmp(x, y) IN
  CASE op = "eq" -> B(c = 0) [] op = "ne" -> B(c # 0) [] op = "lt" -> B(c < 0)
    [] op = "le" -> B(c <= 0) [] op = "gt" -> B(c > 0) [] op = "ge" -> B(c >= 0)

\* ---- the clauses.  Demanded(a, b): the statement fixes the outcome; Expected: that outcome
BothPtr(a, b)  == a.cd /\ a.ptr /\ b.cd /\ b.ptr
PrimSide(x)    == (~x.cd \/ ~x.ptr) /\ x.v.k # "opaque"
Demanded(a, b) == (a.cd \/ b.cd) /\ (BothPtr(a, b) \/ (PrimSide(a) /\ PrimSide(b)))
Expected(a, b, op) == IF BothPtr(a, b) THEN AddrCompare(a.v, b.v, op) ELSE PyCompare(a.v, b.v, op)
CompareG(a, b, op, res) == Demanded(a, b) => res = Expected(a, b, op)
\* (1) the hash law on what was observed
HashLawG(a, b, eqres, ha, hb) == (a.cd \/ b.cd) /\ eqres = "T" => ha = hb
\* (3) "primitive cdata ... hash exactly as the Python value they convert to" (hv = hash of that value).
\*     CPython hashes a NaN by object identity, so a value containing a NaN has no hash of its own.
HasNaN(v) == \/ v.k = "num" /\ v.c = "nan"
             \/ v.k = "cplx" /\ (v.re.c = "nan" \/ v.im.c = "nan")
HashValG(x, hx, hv) == x.cd /\ ~x.ptr /\ x.v.k # "opaque" /\ ~HasNaN(x.v) => hx = hv
=============================================================================
