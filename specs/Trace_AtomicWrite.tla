------------------------------ MODULE Trace_AtomicWrite ------------------------------
(* Validates system-call traces (strace logs of the real _make_c_or_py_source, normalised
   by props/c23.py) against the clauses of AtomicWriteIdeal.  One JSON file holds many
   traces [env, pre, events]; every trace gets a total verdict:
      <<"VERDICT", k, clause, position, final target class according to the machine>>
   clause = "ok" or the name of the first clause an event broke ("atomic", "untouched",
   "return", "atomic-final", "untouched-mtime"). *)
EXTENDS AtomicWriteIdeal, Json, IOUtils
VARIABLES k, l, S, bad, reported
Traces == JsonDeserialize(IOEnv.TRACE_FILE)
tvars == <<k, l, S, bad, reported>>

SetOf(seq) == {seq[i] : i \in DOMAIN seq}
TInit == /\ k \in 1..Len(Traces) /\ l = 1 /\ bad = "ok" /\ reported = FALSE
         /\ S = InitFS(Traces[k].env, SetOf(Traces[k].pre))
Consume == /\ l <= Len(Traces[k].events) /\ bad = "ok"
           /\ LET e == Traces[k].events[l]
                  v == Verdict(S, e)
              IN IF v = "ok" THEN S' = Apply(S, e) /\ l' = l + 1 /\ UNCHANGED bad
                 ELSE bad' = v /\ UNCHANGED <<S, l>>
           /\ UNCHANGED <<k, reported>>
Report == /\ (l > Len(Traces[k].events) \/ bad # "ok") /\ ~reported
          /\ PrintT(<<"VERDICT", k, bad, l, TargetClass(S)>>)
          /\ reported' = TRUE /\ UNCHANGED <<k, l, S, bad>>
TNext == Consume \/ Report
TSpec == TInit /\ [][TNext]_tvars
=============================================================================
