------------------------------ MODULE MC_NewInit ------------------------------
(* C20, design level: a universe of aggregate shapes (nested struct, union, anonymous union,
   bit-fields, flexible arrays of bytes / of char16_t, nested var-sized struct, arrays) and all
   well-formed initializer trees of depth <= Depth over a small value pool.  One TLC state per
   (shape, initializer); the invariants compare the implementation model (NewInit) with the
   pointwise ideal (NewInitIdeal).                                                          *)
EXTENDS NewInit, TLC
CONSTANTS Variant, Depth, KMax, Pool, ShapeNames, Combos
VARIABLES shape, init, mode, innerFirst
vars == <<shape, init, mode, innerFirst>>

U8  == [k |-> "prim", size |-> 1, chr |-> 1, ischar |-> 0]       \* unsigned char
U16 == [k |-> "prim", size |-> 2, chr |-> 0, ischar |-> 0]       \* unsigned short
C16 == [k |-> "prim", size |-> 2, chr |-> 1, ischar |-> 1]       \* char16_t
CH  == [k |-> "prim", size |-> 1, chr |-> 1, ischar |-> 1]       \* char
Arr(item, len) == [k |-> "arr", item |-> item, len |-> len, isz |-> item.size,
                   size |-> IF len < 0 THEN 0 - 1 ELSE len * item.size]
F(name, off, t)          == [name |-> name, off |-> off, t |-> t, ctor |-> TRUE,  bs |-> 0 - 1, sh |-> 0]
FI(name, off, t)         == [name |-> name, off |-> off, t |-> t, ctor |-> FALSE, bs |-> 0 - 1, sh |-> 0]
BF(name, off, t, sh, bs) == [name |-> name, off |-> off, t |-> t, ctor |-> TRUE,  bs |-> bs, sh |-> sh]
St(size, fields) == [k |-> "struct", size |-> size, fields |-> fields]

SIN == St(2, <<F("x", 0, U8), F("y", 1, U8)>>)
UN  == St(2, <<F("w", 0, U16), FI("b", 0, Arr(U8, 2))>>)
S5  == St(1, <<F("n", 0, U8), F("tail", 1, Arr(U8, 0 - 1))>>)
Shapes ==
  [ S1  |-> [t |-> St(6, <<F("a", 0, U8), F("b", 2, U16), F("c", 4, Arr(U8, 2))>>), isptr |-> TRUE],
    S2  |-> [t |-> St(4, <<F("a", 0, U8), F("in", 1, SIN), F("z", 3, U8)>>), isptr |-> TRUE],
    S3  |-> [t |-> St(4, <<F("t", 0, U8), F("u", 2, UN)>>), isptr |-> TRUE],
    S4  |-> [t |-> St(3, <<BF("a", 0, U8, 0, 3), BF("b", 0, U8, 3, 5), BF("c", 1, U8, 0, 2), F("d", 2, U8)>>), isptr |-> TRUE],
    S5  |-> [t |-> S5, isptr |-> TRUE],
    S5w |-> [t |-> St(2, <<F("n", 0, U8), F("w", 2, Arr(C16, 0 - 1))>>), isptr |-> TRUE],
    S6  |-> [t |-> St(2, <<F("k", 0, U8), F("inner", 1, S5)>>), isptr |-> TRUE],
    S8  |-> [t |-> St(3, <<F("j", 0, U8), F("mid", 1, St(2, <<F("k", 0, U8), F("inner", 1, S5)>>))>>), isptr |-> TRUE],
    S7  |-> [t |-> St(6, <<F("a", 0, U8), F("p", 2, U8), FI("q", 2, U16), F("z", 4, U8)>>), isptr |-> TRUE],
    UN  |-> [t |-> UN, isptr |-> TRUE],
    A1  |-> [t |-> Arr(U8, 3), isptr |-> FALSE],
    A2  |-> [t |-> Arr(U16, 0 - 1), isptr |-> FALSE],
    A3  |-> [t |-> Arr(SIN, 2), isptr |-> FALSE],
    A4  |-> [t |-> Arr(C16, 3), isptr |-> FALSE],
    A5  |-> [t |-> Arr(CH, 0 - 1), isptr |-> FALSE],
    A6  |-> [t |-> Arr(C16, 0 - 1), isptr |-> FALSE],
    P1  |-> [t |-> U16, isptr |-> TRUE],
    PC  |-> [t |-> CH, isptr |-> TRUE] ]

ASSUME PrintT(<<"SHAPES", Shapes>>)

\* ---- initializer trees
Mk(k, b, items, n) == [k |-> k, b |-> b, items |-> items, n |-> n]
None == Mk("none", <<>>, <<>>, 0)
LE(x, size) == [k \in 1..size |-> (x \div Pow256(k - 1)) % 256]
Leafs(T)   == {Mk("leaf", LE(x, T.size), <<>>, 0) : x \in Pool}
BitsInits(bs) == {Mk("bits", [i \in 1..bs |-> 1], <<>>, 0), Mk("bits", [i \in 1..bs |-> i % 2], <<>>, 0)}
RECURSIVE SeqProd(_)
SeqProd(sets) == IF sets = <<>> THEN {<<>>} ELSE {<<h>> \o t : h \in Head(sets), t \in SeqProd(Tail(sets))}
Min2(a, b) == IF a < b THEN a ELSE b

FieldsDisjoint(f, g) ==      \* two fields that never determine the same bit
  LET lo(h) == 8 * h.off + (IF h.bs >= 0 THEN h.sh ELSE 0)
      hi(h) == IF h.bs >= 0 THEN 8 * h.off + h.sh + h.bs
               ELSE IF h.t.size >= 0 THEN 8 * (h.off + h.t.size) ELSE 8 * h.off + 100000
  IN hi(f) <= lo(g) \/ hi(g) <= lo(f)

StrPool16 == {65, 65535, 65536, 1114111}        \* 'A', U+FFFF (last one-unit), U+10000 (first pair), U+10FFFF
RECURSIVE Inits(_, _)
FieldInits(f, d) == IF f.bs >= 0 THEN BitsInits(f.bs) ELSE Inits(f.t, d)
Inits(T, d) ==
  CASE T.k = "prim" -> Leafs(T)
    [] T.k = "arr" ->
         LET kmax == IF T.len < 0 THEN KMax ELSE Min2(T.len, KMax)
             seqs == IF d = 0 THEN {Mk("seq", <<>>, <<>>, 0)}
                     ELSE {Mk("seq", <<>>, f, 0) : f \in UNION {[1..k -> Inits(T.item, d - 1)] : k \in 0..kmax}}
             \* bytes / str initializers are sequences of characters; what bounds them is the number of UNITS.
             \* Width 2: every string of <= 2 characters over StrPool16 = one-unit and two-unit code points,
             \* including both sides of the boundary (U+FFFF, U+10000) and the last code point.
             chars == IF T.item.size = 2 THEN StrPool16 ELSE {65, 66}
             cands == IF T.item.size = 2 THEN UNION {[1..k -> chars] : k \in 0..2} \cup {<<65, 66, 67>>}
                      ELSE {<<>>, <<65>>, <<65, 66>>, <<65, 66, 67>>}
             strs == IF T.item.k = "prim" /\ T.item.chr = 1
                       THEN {Mk("str", u, <<>>, T.item.size) :
                               u \in {x \in cands : T.len < 0 \/ Len(StrUnits(x, T.item.size)) <= T.len}}
                       ELSE {}
             copy == IF T.len >= 0 THEN {Mk("copy", [i \in 1..T.size |-> 16 + i], <<>>, 0)} ELSE {}
             lens == IF T.len < 0 THEN {Mk("len", <<>>, <<>>, 0), Mk("len", <<>>, <<>>, 2)} ELSE {}
         IN seqs \cup strs \cup copy \cup lens
    [] T.k = "struct" ->
         LET cf   == CtorFields(T)
             nf   == Len(T.fields)
             seqs == IF d = 0 THEN {Mk("seq", <<>>, <<>>, 0)}
                     ELSE {Mk("seq", <<>>, its, 0) :
                             its \in UNION {SeqProd([i \in 1..k |-> FieldInits(cf[i], d - 1)]) : k \in 0..Len(cf)}}
             ent(i) == {[name |-> T.fields[i].name, v |-> x] : x \in FieldInits(T.fields[i], IF d = 0 THEN 0 ELSE d - 1)}
             one  == {Mk("dict", <<>>, <<e>>, 0) : e \in UNION {ent(i) : i \in 1..nf}}
             two  == IF d = 0 THEN {}
                     ELSE UNION {{Mk("dict", <<>>, <<e1, e2>>, 0) : e1 \in ent(p[1]), e2 \in ent(p[2])} :
                                   p \in {q \in (1..nf) \X (1..nf) :
                                            q[1] # q[2] /\ FieldsDisjoint(T.fields[q[1]], T.fields[q[2]])}}
             copy == IF WithVar(T) THEN {} ELSE {Mk("copy", [i \in 1..T.size |-> 32 + i], <<>>, 0)}
         IN seqs \cup one \cup two \cup copy \cup {Mk("dict", <<>>, <<>>, 0)}

\* how the type came to exist matters only for a struct with a nested var-sized struct
HasNestedVar(X) == X.k = "struct" /\ \E i \in 1..Len(X.fields) : WithVar(X.fields[i].t)
\* The choice is made in two steps (shape, then initializer) only so that TLC's workers share the work:
\* initial states are generated and checked by a single thread.
ComboSet == IF Combos = "all" THEN {"abi", "api"} \X BOOLEAN ELSE {<<"abi", TRUE>>, <<"api", FALSE>>}
Pending == Mk("pending", <<>>, <<>>, 0)
Init == shape = "none" /\ init = Pending /\ mode = "abi" /\ innerFirst = TRUE
ChooseShape == /\ shape = "none" /\ shape' \in ShapeNames /\ UNCHANGED <<init, mode, innerFirst>>
ChooseInit  == /\ shape # "none" /\ init = Pending /\ UNCHANGED shape
               /\ init' \in (IF IsOpen(Shapes[shape].t) THEN {} ELSE {None}) \cup Inits(Shapes[shape].t, Depth)
               /\ IF HasNestedVar(Shapes[shape].t) THEN \E cb \in ComboSet : mode' = cb[1] /\ innerFirst' = cb[2]
                                                   ELSE mode' = "abi" /\ innerFirst' = TRUE
Next == ChooseShape \/ ChooseInit
Spec == Init /\ [][Next]_vars
Chosen == shape # "none" /\ init # Pending

T     == Shapes[shape].t
IsPtr == Shapes[shape].isptr
Flag == VarFlag(Variant, T, mode, innerFirst)
R == DirectNewpF(Variant, T, init, IsPtr, Flag)
Base == IF T.k = "prim" /\ T.ischar = 1 THEN 2 * T.size ELSE IF T.size >= 0 THEN T.size ELSE 0

\* ---- generator sanity and UTF-free lemmas of the ideal
WellFormed      == Chosen => WF(T, init)
ClaimsDisjoint  == Chosen => NoOverlap(Claims(T, 0, init))
\* the flag the type system computes is the structural fact "contains an open array, anywhere"
FlagIsStructural == Chosen => Flag = WithVar(T)
\* ---- the model against the clauses of the property
Accepts         == Chosen => R.err = ""
NoOverflow      == Chosen => ~R.ovf
Fits            == Chosen => FitsG(T, init, R.size)
AllocExact      == Chosen => R.size = Max2(Base, Extent(T, init))
BytesAsIdeal    == Chosen => BytesG(T, init, R.size, R.mem)
LawNewAssign    == Chosen /\ init.k # "none" /\ ~(IsOpen(T) /\ init.k = "len")
                     => LET a == NewThenAssign(Variant, T, init, R.size) IN a.err = "" /\ LawG(R.mem, a.mem)
=============================================================================
