---------------------------- MODULE BufferSlice ----------------------------
(* C19, exhaustive comparison of the implementation model's pure parts with the reference
   semantics (operators: BufferOps.tla).  Every initial state is one case:
     slice  : buffer length n, slice key (start, stop in -MaxIdx..MaxIdx or None; step None, 1, 2, -1, 0),
              length of the assigned value          -> reads, writes, plain indices
     move   : all (dst, src, count) triples inside an arena of ArenaN distinct bytes
     frombuf: object length x item size x open / fixed[k] *)
EXTENDS BufferOps
CONSTANTS MaxLen, MaxIdx, ArenaN
VARIABLE c
IdxRange == (0 - MaxIdx)..MaxIdx
OptIdx == {Nil} \cup {Opt(i) : i \in IdxRange}
Steps == {Nil, Opt(1), Opt(2), Opt(0 - 1), Opt(0)}
Bytes(n) == [k \in 1..n |-> k]
ValBytes(n) == [k \in 1..n |-> 100 + k]

Init == \/ \E n \in 0..MaxLen, a \in OptIdx, b \in OptIdx, s \in Steps, vl \in 0..(MaxLen + 1) :
              c = [mode |-> "slice", n |-> n, key |-> Key(a, b, s), vl |-> vl]
        \/ \E d \in 0..(ArenaN - 1), s \in 0..(ArenaN - 1), n \in 0..ArenaN :
              d + n <= ArenaN /\ s + n <= ArenaN /\ c = [mode |-> "move", d |-> d, s |-> s, n |-> n]
        \/ \E ol \in 0..12, isz \in {1, 2, 3, 4, 8}, fx \in BOOLEAN, k \in 0..4 :
              c = [mode |-> "frombuf", ol |-> ol, isz |-> isz, fx |-> fx, k |-> k]
Next == UNCHANGED c
Spec == Init /\ [][Next]_c

SliceGetEq == c.mode = "slice" =>
   LET bs == Bytes(c.n)  m == MGetSlice(bs, c.key) IN
   StepOne(c.key) => m.st = "ok" /\ m.out = RefGet(bs, c.key)
SliceSetEq == c.mode = "slice" =>
   LET bs == Bytes(c.n)  val == ValBytes(c.vl)  m == MSetSlice(bs, c.key, val) IN
   IF StepOne(c.key)
     THEN IF RefSetOK(c.n, c.key, val) THEN m.st = "ok" /\ m.mem = RefSet(bs, c.key, val)
                                       ELSE m.st # "ok" /\ m.mem = bs          \* assignments must preserve length
     ELSE m.st # "ok" => m.mem = bs
IndexEq == c.mode = "slice" =>
   \A i \in IdxRange : LET m == MIdx(c.n, i) IN
       IF RefIdxOK(c.n, i) THEN m.st = "ok" /\ m.pos = RefPos(c.n, i) ELSE m.st = "IndexError"
MoveEq == c.mode = "move" => MMove(Bytes(ArenaN), c.d, c.s, c.n) = RefMove(Bytes(ArenaN), c.d, c.s, c.n)
FromBufEq == c.mode = "frombuf" =>
   LET m == MFromBuf(c.ol, c.isz, c.fx, c.k) IN
   IF c.fx THEN IF RefFromBufFixedOK(c.ol, c.isz, c.k) THEN m.st = "ok" /\ m.len = c.k ELSE m.st = "ValueError"
           ELSE m.st = "ok" /\ m.len = RefFromBufOpenLen(c.ol, c.isz)
=============================================================================
