SPECIFICATION TSpec
CONSTANT LB = 15
CHECK_DEADLOCK FALSE
