------------------------------ MODULE Trace_ConstExpr ------------------------------
(* Validates, at the true widths (int 32, long 64), what gcc and cffi computed for integer
   constant expressions.  Input (IOEnv.TRACE_FILE): JSON array of records
     [id, ctx, tree, lo, hi, gcc |-> <<[bits, sgn, v]>> (one entry per node, post-order),
      cffi |-> <<[mode, ok, err, v]>>]
   lo..hi: the values the context admits (array length, enumerator, bit-field width, ...).
   Output per record: <<"CHECKED", id>> and, per failing clause, <<"VERDICT", id, who, clause>>:
     who "class"      : the generator produced an expression C does not define / outside lo..hi
     who "gcc"        : gcc's type or value of some node differs from CEval   (machinery error)
     who "cffi:<mode>": clause = "rejected" (the cdef or the access raised) or the class of the first
                        node where cffi's evaluation parts from C ("char-escape:n", "unsigned-wrap:+",
                        "negative-to-unsigned:/", "other:<op>"), or "value" if the implementation model
                        agrees with C but the observed value does not
   (The observation is not compared with the implementation model separately: a context may clamp or
   reject the mis-evaluated value in its own way, e.g. a negative bit-field width.)                  *)
EXTENDS ConstExpr, Json, IOUtils
VARIABLES k, done
Recs == JsonDeserialize(IOEnv.TRACE_FILE)
Say(ok, id, who, clause) == IF ok THEN TRUE ELSE PrintT(<<"VERDICT", id, who, clause>>)

NodeOK(g, c) == c.def /\ g.bits = c.t.bits /\ g.sgn = c.t.sgn /\ ZOfJson(g.v) = c.v

Check(r) ==
  \E ev \in {Eval(r.tree)} :
  /\ Say(ev.c.def /\ ZLe(ZOfJson(r.lo), ev.c.v) /\ ZLe(ev.c.v, ZOfJson(r.hi)), r.id, "class", "undefined-or-out-of-context")
  /\ IF Len(r.gcc) # Len(ev.nodes) THEN Say(FALSE, r.id, "gcc", "node-count")
     ELSE \A i \in 1..Len(r.gcc) : Say(NodeOK(r.gcc[i], ev.nodes[i]), r.id, "gcc", "node")
  /\ IF ~ev.c.def THEN TRUE ELSE
     \A m \in 1..Len(r.cffi) :
       LET o == r.cffi[m]
           who == "cffi:" \o o.mode
           modelok == ev.p.err = "" /\ ev.p.v = ev.c.v IN
       IF ~o.ok THEN Say(FALSE, r.id, who, IF modelok THEN "rejected" ELSE ev.culprit \o ":rejected")
       ELSE IF ZOfJson(o.v) = ev.c.v THEN TRUE
       ELSE IF modelok THEN Say(FALSE, r.id, who, "value")
       ELSE Say(FALSE, r.id, who, ev.culprit)
  /\ PrintT(<<"CHECKED", r.id>>)

TInit == k \in 1..Len(Recs) /\ done = FALSE
TNext == ~done /\ Check(Recs[k]) /\ done' = TRUE /\ UNCHANGED k
TSpec == TInit /\ [][TNext]_<<k, done>>
=============================================================================
