----------------------------- MODULE Trace_Call -----------------------------
(* Validates records of real calls (C13: the four call paths; C33: the verify() engines
   and the set_source() module) against Outcome.  One record = one (fn, args, mem, errno)
   with the observation made on every path: exception type or return value, the bytes of
   the pointed-to cells after the call, ffi.errno after the call.  Base = 256: a digit is
   a byte, integers have their real 64-bit magnitudes.
   Output: one <<"VERDICT", id, path, clause, predicted>> per group of paths whose observation
   breaks a clause of Outcome ("exc", "ret", "mem", "errno"), one <<"VERDICT", id, path,
   "disagree", path1>> per group that differs from the first group, <<"VERDICT", id, "spec", "expect", exc>> when
   Outcome at this scale does not raise what the class table of CallGen (Base = 4) predicted
   (an inconsistency of the specification, not of cffi), and a final <<"CHECKED", n>>. *)
EXTENDS Call, Json, IOUtils
VARIABLES i
Recs == JsonDeserialize(IOEnv.TRACE_FILE)

\* rec.obs is a sequence of groups [paths |-> <<path names>>, o |-> observation]: the paths
\* whose recorded observations were textually identical share one group
Check(rec) ==
    LET o == Outcome(rec)
        gs == rec.obs
    IN /\ IF "expect" \in DOMAIN rec /\ rec.expect # o.exc
          THEN PrintT(<<"VERDICT", rec.id, "spec", "expect", o.exc>>) ELSE TRUE
       /\ \A g \in 1..Len(gs) :
          LET v == Verdict(o, gs[g].o) IN
          /\ IF v # "ok" THEN PrintT(<<"VERDICT", rec.id, gs[g].paths[1], v, o>>) ELSE TRUE
          /\ IF g > 1 /\ ~Agree(gs[g].o, gs[1].o)
             THEN PrintT(<<"VERDICT", rec.id, gs[g].paths[1], "disagree", gs[1].paths[1]>>) ELSE TRUE

\* One evaluation checks every record.  (The "= TRUE" makes TLC evaluate the formula as an
\* expression, so that LET definitions - the parsed file, the Outcome of a record - are
\* computed once instead of once per use.)
CheckAll == LET R == Recs IN
            /\ \A j \in 1..Len(R) : Check(R[j])
            /\ PrintT(<<"CHECKED", Len(R)>>)
TInit == i = 0 /\ (CheckAll = TRUE)
TNext == UNCHANGED i
TSpec == TInit /\ [][TNext]_i
=============================================================================
