SPECIFICATION Spec
INVARIANT ForbiddenRejected
INVARIANT CffiErrorsAllowedInline
INVARIANT ParserValueErrorRejected
INVARIANT CdefNeverInvalidType
INVARIANT CompiledNoCffiErrors
CHECK_DEADLOCK FALSE
INVARIANT OverLimitOnlyError
INVARIANT AtLimitFree
