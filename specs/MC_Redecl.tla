------------------------------ MODULE MC_Redecl ------------------------------
(* Exhaustive exploration of Redecl over all call histories of the bound, with the laws as invariants
   over (previous state, call, next state), and emission of every maximal history with the model's
   predicted outcome and projected state after each call (replayed on the real FFI by props/x01.py). *)
EXTENDS Redecl
CONSTANTS TNames, GNames, MNames, MaxCalls, MaxItems, Emit
VARIABLES s, prev, call, hist

ItemSet == {<<"typedef", n, ty>> : n \in TNames, ty \in Types}
      \cup {<<"var", n, ty, c>> : n \in GNames, ty \in {"int", "int *"}, c \in BOOLEAN}
      \cup {<<"func", n, sg>> : n \in GNames, sg \in Sigs}
      \cup {<<"macroint", n, v>> : n \in MNames, v \in {1, 2, 1000}}
      \cup {<<"macrodots", n>> : n \in MNames}
      \cup {<<"sconst", n, v>> : n \in MNames, v \in {1, 1000}}
Calls == {<<it>> : it \in ItemSet} \cup (IF MaxItems >= 2 THEN {<<a, b>> : a \in ItemSet, b \in ItemSet} ELSE {})

NoCall == [items |-> <<>>, override |-> FALSE, err |-> ""]
Init == s = S0 /\ prev = S0 /\ call = NoCall /\ hist = <<>>
DoCall(items, ov) ==
  LET r == Call(s, items, ov) IN
  /\ s' = r.s /\ prev' = s
  /\ call' = [items |-> items, override |-> ov, err |-> r.err]
  /\ hist' = IF Emit THEN Append(hist, <<items, ov, r.err, DeclSet(r.s), IntSet(r.s)>>) ELSE hist
Next == Len(hist) < MaxCalls /\ (Emit \/ TLCGet("level") <= MaxCalls) /\ \E items \in Calls, ov \in BOOLEAN : DoCall(items, ov)
Spec == Init /\ [][Next]_<<s, prev, call, hist>>
Bound == TLCGet("level") <= MaxCalls + 1
EmitHist == (Emit /\ Len(hist) = MaxCalls) => PrintT(<<"HIST", hist>>)

IntsImmutable   == IntsImmutableStep(prev, s)
BindImmutable   == BindImmutableStep(prev, s, call.override)
MacroConsistent == MacroConsistentState(s) /\ MacroHasConst(s, MNames)
OkMeansDeclared == OkMeansDeclaredStep(s, Ordered(call.items), call.err)
NextGrows       == s.next >= prev.next
\* ideal expectations: violated by the faithful model (documented deviations), satisfied by the corrected variants
NoEqualRejected   == \A it \in ItemSet : ~EqualRejected(s, it, FALSE)
FailureAtomicItem == \A it \in ItemSet, ov \in BOOLEAN : ~LeakOnFailure(s, it, ov)
=============================================================================
